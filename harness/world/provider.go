package world

import (
	"context"
	"fmt"
	"math/rand"
	"sort"
	"strconv"
	"sync"
	"time"

	"github.com/awslabs/operatorpkg/status"
	corev1 "k8s.io/api/core/v1"
	"k8s.io/apimachinery/pkg/api/resource"
	metav1 "k8s.io/apimachinery/pkg/apis/meta/v1"
	"k8s.io/apimachinery/pkg/types"

	v1 "sigs.k8s.io/karpenter/pkg/apis/v1"
	"sigs.k8s.io/karpenter/pkg/cloudprovider"
	"sigs.k8s.io/karpenter/pkg/scheduling"
	"sigs.k8s.io/karpenter/pkg/test/v1alpha1"
)

func init() {
	// what every real provider does at start-up
	v1.WellKnownLabels = v1.WellKnownLabels.Insert(v1alpha1.LabelReservationID)
	cloudprovider.ReservationIDLabel = v1alpha1.LabelReservationID
	cloudprovider.ReservedCapacityLabels.Insert(v1alpha1.LabelReservationID)
}

// Instance is the provider's ground truth about one launched machine.
type Instance struct {
	ProviderID    string
	ClaimName     string
	ClaimUID      types.UID
	Pool          string
	Type          *cloudprovider.InstanceType
	Offering      *cloudprovider.Offering
	Labels        map[string]string
	Capacity      corev1.ResourceList
	Allocatable   corev1.ResourceList
	State         string // running | terminating | gone
	deletesLeft   int
	Created       time.Time
	ReservationID string
}

// ProviderCall is one provider API call as seen at the CloudProvider boundary.
type ProviderCall struct {
	Seq                 int
	VTime               time.Time
	Verb                string // create delete get list getinstancetypes isdrifted
	ClaimName           string
	ClaimUID            types.UID
	ProviderID          string
	Err                 string
	HadFinalizerInStore *bool // create: did the stored NodeClaim carry the termination finalizer
	Caller              string
}

// LaunchChoice is one (instance type, offering) pair the provider may legitimately launch.
type LaunchChoice struct {
	Type     *cloudprovider.InstanceType
	Offering *cloudprovider.Offering
	Labels   map[string]string
	Alloc    corev1.ResourceList
	Cap      corev1.ResourceList
}

// Provider is a hostile cloud provider: it launches ANY permitted (instance type, offering) pair.
type Provider struct {
	mu      sync.Mutex
	API     *API
	Clock   *VClock
	Catalog map[string][]*cloudprovider.InstanceType // per NodePool name
	Default []*cloudprovider.InstanceType
	Policy  string // cheapest | dearest | largest | smallest | random | index:<n>
	Rng     *rand.Rand

	Instances    map[string]*Instance // by provider id
	Calls        []ProviderCall
	seq          int
	idSeq        int
	reservedUsed map[string]int

	// error injection
	CreateErrs      []error                      // consumed one per Create call (nil entries = succeed)
	CreateErrFn     func(nc *v1.NodeClaim) error // consulted after CreateErrs
	DeleteErrs      []error
	GetErrs         []error
	ListErrs        []error
	AsyncDeletes    int                                  // Delete answers nil this many times (instance terminating) before the instance is gone
	Drift           map[string]cloudprovider.DriftReason // by NodeClaim name
	Repair          []cloudprovider.RepairPolicy
	InstanceTypeErr map[string]error
	// OnList runs after List has taken its snapshot and before it returns (no lock held).
	OnList func()
	// OnCreate is invoked (outside the lock) after a successful launch.
	OnCreate func(inst *Instance)
}

var _ cloudprovider.CloudProvider = (*Provider)(nil)

func NewProvider(api *API, clk *VClock, rng *rand.Rand) *Provider {
	return &Provider{API: api, Clock: clk, Rng: rng, Policy: "random", Catalog: map[string][]*cloudprovider.InstanceType{},
		Instances: map[string]*Instance{}, reservedUsed: map[string]int{}, Drift: map[string]cloudprovider.DriftReason{}, InstanceTypeErr: map[string]error{}}
}

func (p *Provider) logCall(c ProviderCall) {
	p.seq++
	c.Seq = p.seq
	c.VTime = p.Clock.Now()
	p.Calls = append(p.Calls, c)
}

func (p *Provider) CallsCopy() []ProviderCall {
	p.mu.Lock()
	defer p.mu.Unlock()
	return append([]ProviderCall(nil), p.Calls...)
}

func popErr(q *[]error) error {
	if len(*q) == 0 {
		return nil
	}
	e := (*q)[0]
	*q = (*q)[1:]
	return e
}

// admitsSerialized evaluates the *serialized* NodeClaim requirements on a concrete value with plain
// Kubernetes semantics (plus Gte/Lte), independent of Karpenter's in-memory algebra.
func AdmitsSerialized(reqs []v1.NodeSelectorRequirementWithMinValues, key string, value string, present bool) bool {
	for _, r := range reqs {
		if r.Key != key {
			continue
		}
		if !AdmitsOp(string(r.Operator), r.Values, value, present) {
			return false
		}
	}
	return true
}

// AdmitsOp: operator semantics on a possibly absent label.
func AdmitsOp(op string, vals []string, value string, present bool) bool {
	switch op {
	case "In":
		if !present {
			return false
		}
		for _, v := range vals {
			if v == value {
				return true
			}
		}
		return false
	case "NotIn":
		if !present {
			return true
		}
		for _, v := range vals {
			if v == value {
				return false
			}
		}
		return true
	case "Exists":
		return present
	case "DoesNotExist":
		return !present
	case "Gt", "Lt", "Gte", "Lte":
		if !present || len(vals) != 1 {
			return false
		}
		x, err := strconv.ParseInt(value, 10, 64)
		if err != nil {
			return false
		}
		b, err := strconv.ParseInt(vals[0], 10, 64)
		if err != nil {
			return false
		}
		switch op {
		case "Gt":
			return x > b
		case "Lt":
			return x < b
		case "Gte":
			return x >= b
		default:
			return x <= b
		}
	}
	return false
}

// Choices enumerates every launch the NodeClaim's serialized spec permits.
func (p *Provider) Choices(nc *v1.NodeClaim) []LaunchChoice {
	pool := nc.Labels[v1.NodePoolLabelKey]
	its := p.Catalog[pool]
	if its == nil {
		its = p.Default
	}
	var out []LaunchChoice
	reqKeys := map[string]bool{}
	for _, r := range nc.Spec.Requirements {
		reqKeys[r.Key] = true
	}
	for _, it := range its {
		for _, of := range it.Offerings {
			if !of.Available {
				continue
			}
			lbls, ok := concreteLabels(it, of, nc.Spec.Requirements, reqKeys)
			if !ok {
				continue
			}
			if rid := lbls[cloudprovider.ReservationIDLabel]; rid != "" && of.CapacityType() == v1.CapacityTypeReserved {
				if p.reservedUsed[rid] >= of.ReservationCapacity {
					continue
				}
			}
			alloc := allocatableFor(it, of)
			if !fitsList(nc.Spec.Resources.Requests, alloc) {
				continue
			}
			cap := it.Capacity
			if len(of.CapacityOverride) > 0 {
				cap = mergeRL(it.Capacity, of.CapacityOverride)
			}
			out = append(out, LaunchChoice{Type: it, Offering: of, Labels: lbls, Alloc: alloc, Cap: cap})
		}
	}
	return out
}

func mergeRL(a, b corev1.ResourceList) corev1.ResourceList {
	out := corev1.ResourceList{}
	for k, v := range a {
		out[k] = v.DeepCopy()
	}
	for k, v := range b {
		out[k] = v.DeepCopy()
	}
	return out
}

func allocatableFor(it *cloudprovider.InstanceType, of *cloudprovider.Offering) corev1.ResourceList {
	for _, g := range it.AllocatableOfferingsList() {
		for _, o := range g.Offerings {
			if o == of {
				return g.Allocatable
			}
		}
	}
	return it.Allocatable()
}

func fitsList(req, alloc corev1.ResourceList) bool {
	for k, v := range req {
		a, ok := alloc[k]
		if !ok {
			if v.IsZero() {
				continue
			}
			return false
		}
		if v.Cmp(a) > 0 {
			return false
		}
	}
	return true
}

// concreteLabels picks, for every label the instance type / offering defines, a concrete value admitted
// by the serialized requirements; ok=false when some key has none, or a required key has no label.
func concreteLabels(it *cloudprovider.InstanceType, of *cloudprovider.Offering, reqs []v1.NodeSelectorRequirementWithMinValues, reqKeys map[string]bool) (map[string]string, bool) {
	lbls := map[string]string{}
	seen := map[string]bool{}
	pick := func(r *scheduling.Requirement) bool {
		seen[r.Key] = true
		switch r.Operator() {
		case corev1.NodeSelectorOpIn:
			vals := append([]string(nil), r.Values()...)
			sort.Strings(vals)
			for _, v := range vals {
				if AdmitsSerialized(reqs, r.Key, v, true) {
					lbls[r.Key] = v
					return true
				}
			}
			return false
		case corev1.NodeSelectorOpDoesNotExist:
			return AdmitsSerialized(reqs, r.Key, "", false)
		default:
			return true // Exists/NotIn on an instance type: not a concrete label
		}
	}
	for _, r := range of.Requirements {
		if !pick(r) {
			return nil, false
		}
	}
	for _, r := range it.Requirements {
		if seen[r.Key] {
			// offering value must also be one of the instance type's values
			if v, ok := lbls[r.Key]; ok && !r.Has(v) {
				return nil, false
			}
			continue
		}
		if !pick(r) {
			return nil, false
		}
	}
	// requirement keys the instance does not define must be satisfiable by absence or carried by NodeClaim labels;
	// those are checked by the caller against nc.Labels (custom labels come from the NodeClaim itself).
	return lbls, true
}

func (p *Provider) choose(cs []LaunchChoice) LaunchChoice {
	price := func(c LaunchChoice) float64 { return c.Offering.Price }
	cpu := func(c LaunchChoice) int64 { q := c.Cap[corev1.ResourceCPU]; return q.MilliValue() }
	idx := 0
	switch {
	case p.Policy == "cheapest":
		for i := range cs {
			if price(cs[i]) < price(cs[idx]) {
				idx = i
			}
		}
	case p.Policy == "dearest":
		for i := range cs {
			if price(cs[i]) > price(cs[idx]) {
				idx = i
			}
		}
	case p.Policy == "largest":
		for i := range cs {
			if cpu(cs[i]) > cpu(cs[idx]) {
				idx = i
			}
		}
	case p.Policy == "smallest":
		for i := range cs {
			if cpu(cs[i]) < cpu(cs[idx]) {
				idx = i
			}
		}
	case len(p.Policy) > 6 && p.Policy[:6] == "index:":
		n, _ := strconv.Atoi(p.Policy[6:])
		idx = n % len(cs)
	default:
		idx = p.Rng.Intn(len(cs))
	}
	return cs[idx]
}

func nonZero(rl corev1.ResourceList) corev1.ResourceList {
	out := corev1.ResourceList{}
	for k, v := range rl {
		if !v.IsZero() {
			out[k] = v.DeepCopy()
		}
	}
	return out
}

func (p *Provider) Create(ctx context.Context, nc *v1.NodeClaim) (*v1.NodeClaim, error) {
	caller, _, ierr := p.API.before("provider-create", "Instance")
	p.mu.Lock()
	call := ProviderCall{Verb: "create", ClaimName: nc.Name, ClaimUID: nc.UID, Caller: caller}
	// ground truth about the stored object at the instant of the call
	stored := &v1.NodeClaim{}
	if err := p.API.Raw.Get(ctx, types.NamespacedName{Name: nc.Name}, stored); err == nil {
		has := false
		for _, f := range stored.Finalizers {
			if f == v1.TerminationFinalizer {
				has = true
			}
		}
		call.HadFinalizerInStore = &has
	}
	fail := func(err error) (*v1.NodeClaim, error) {
		call.Err = err.Error()
		p.logCall(call)
		p.mu.Unlock()
		return nil, err
	}
	if ierr != nil {
		return fail(ierr)
	}
	if err := popErr(&p.CreateErrs); err != nil {
		return fail(err)
	}
	if p.CreateErrFn != nil {
		if err := p.CreateErrFn(nc); err != nil {
			return fail(err)
		}
	}
	cs := p.Choices(nc)
	if len(cs) == 0 {
		return fail(cloudprovider.NewInsufficientCapacityError(fmt.Errorf("no instance type / offering satisfies the request")))
	}
	c := p.choose(cs)
	p.idSeq++
	id := fmt.Sprintf("hostile://%s/i-%05d", c.Labels[corev1.LabelTopologyZone], p.idSeq)
	inst := &Instance{ProviderID: id, ClaimName: nc.Name, ClaimUID: nc.UID, Pool: nc.Labels[v1.NodePoolLabelKey], Type: c.Type, Offering: c.Offering,
		Labels: c.Labels, Capacity: nonZero(c.Cap), Allocatable: nonZero(c.Alloc), State: "running", Created: p.Clock.Now(), deletesLeft: p.AsyncDeletes}
	if c.Offering.CapacityType() == v1.CapacityTypeReserved {
		inst.ReservationID = c.Labels[cloudprovider.ReservationIDLabel]
		p.reservedUsed[inst.ReservationID]++
	}
	p.Instances[id] = inst
	call.ProviderID = id
	p.logCall(call)
	hook := p.OnCreate
	p.mu.Unlock()
	if hook != nil {
		hook(inst)
	}
	lbls := map[string]string{}
	for k, v := range c.Labels {
		lbls[k] = v
	}
	for k, v := range nc.Labels {
		lbls[k] = v
	}
	return &v1.NodeClaim{
		ObjectMeta: metav1.ObjectMeta{Name: nc.Name, Labels: lbls, Annotations: nc.Annotations},
		Spec:       *nc.Spec.DeepCopy(),
		Status:     v1.NodeClaimStatus{ProviderID: id, Capacity: inst.Capacity.DeepCopy(), Allocatable: inst.Allocatable.DeepCopy(), ImageID: "img-1"},
	}, nil
}

func (p *Provider) Delete(ctx context.Context, nc *v1.NodeClaim) error {
	caller, _, ierr := p.API.before("provider-delete", "Instance")
	p.mu.Lock()
	defer p.mu.Unlock()
	call := ProviderCall{Verb: "delete", ClaimName: nc.Name, ClaimUID: nc.UID, ProviderID: nc.Status.ProviderID, Caller: caller}
	defer func() { p.logCall(call) }()
	if ierr != nil {
		call.Err = ierr.Error()
		return ierr
	}
	if err := popErr(&p.DeleteErrs); err != nil {
		call.Err = err.Error()
		return err
	}
	inst, ok := p.Instances[nc.Status.ProviderID]
	if !ok || inst.State == "gone" {
		err := cloudprovider.NewNodeClaimNotFoundError(fmt.Errorf("instance %q not found", nc.Status.ProviderID))
		call.Err = err.Error()
		return err
	}
	if inst.deletesLeft > 0 {
		inst.deletesLeft--
		inst.State = "terminating"
		return nil
	}
	p.gone(inst)
	return nil
}

func (p *Provider) gone(inst *Instance) {
	if inst.State != "gone" && inst.ReservationID != "" {
		p.reservedUsed[inst.ReservationID]--
	}
	inst.State = "gone"
}

// Vanish makes an instance disappear without Karpenter's involvement (spot interruption, manual termination).
func (p *Provider) Vanish(providerID string) {
	p.mu.Lock()
	defer p.mu.Unlock()
	if inst, ok := p.Instances[providerID]; ok {
		p.gone(inst)
	}
}

func (p *Provider) toNodeClaim(inst *Instance) *v1.NodeClaim {
	return &v1.NodeClaim{
		ObjectMeta: metav1.ObjectMeta{Name: inst.ClaimName, Labels: inst.Labels},
		Status:     v1.NodeClaimStatus{ProviderID: inst.ProviderID, Capacity: inst.Capacity.DeepCopy(), Allocatable: inst.Allocatable.DeepCopy()},
	}
}

func (p *Provider) Get(ctx context.Context, id string) (*v1.NodeClaim, error) {
	caller, _, ierr := p.API.before("provider-get", "Instance")
	p.mu.Lock()
	defer p.mu.Unlock()
	call := ProviderCall{Verb: "get", ProviderID: id, Caller: caller}
	defer func() { p.logCall(call) }()
	if ierr != nil {
		call.Err = ierr.Error()
		return nil, ierr
	}
	if err := popErr(&p.GetErrs); err != nil {
		call.Err = err.Error()
		return nil, err
	}
	inst, ok := p.Instances[id]
	if !ok || inst.State == "gone" {
		err := cloudprovider.NewNodeClaimNotFoundError(fmt.Errorf("instance %q not found", id))
		call.Err = err.Error()
		return nil, err
	}
	return p.toNodeClaim(inst), nil
}

func (p *Provider) List(ctx context.Context) ([]*v1.NodeClaim, error) {
	caller, _, ierr := p.API.before("provider-list", "Instance")
	p.mu.Lock()
	defer p.mu.Unlock()
	call := ProviderCall{Verb: "list", Caller: caller}
	defer func() { p.logCall(call) }()
	if ierr != nil {
		call.Err = ierr.Error()
		return nil, ierr
	}
	if err := popErr(&p.ListErrs); err != nil {
		call.Err = err.Error()
		return nil, err
	}
	var out []*v1.NodeClaim
	for _, inst := range p.Instances {
		if inst.State != "gone" {
			out = append(out, p.toNodeClaim(inst))
		}
	}
	sort.Slice(out, func(i, j int) bool { return out[i].Status.ProviderID < out[j].Status.ProviderID })
	if h := p.OnList; h != nil {
		// the listing is computed (the snapshot is taken); the response is still in flight: the hook may change the world
		p.mu.Unlock()
		h()
		p.mu.Lock()
	}
	return out, nil
}

func (p *Provider) GetInstanceTypes(_ context.Context, np *v1.NodePool) ([]*cloudprovider.InstanceType, error) {
	p.mu.Lock()
	defer p.mu.Unlock()
	if np != nil {
		if err := p.InstanceTypeErr[np.Name]; err != nil {
			return nil, err
		}
		if its, ok := p.Catalog[np.Name]; ok {
			return its, nil
		}
	}
	return p.Default, nil
}

func (p *Provider) IsDrifted(_ context.Context, nc *v1.NodeClaim) (cloudprovider.DriftReason, error) {
	p.mu.Lock()
	defer p.mu.Unlock()
	return p.Drift[nc.Name], nil
}

func (p *Provider) RepairPolicies() []cloudprovider.RepairPolicy { return p.Repair }
func (p *Provider) Name() string                                 { return "hostile" }
func (p *Provider) GetSupportedNodeClasses() []status.Object {
	return []status.Object{&v1alpha1.TestNodeClass{}}
}

// InstanceFor returns the live or past instance created for a NodeClaim UID (ground truth).
func (p *Provider) InstancesForUID(uid types.UID) []*Instance {
	p.mu.Lock()
	defer p.mu.Unlock()
	var out []*Instance
	for _, i := range p.Instances {
		if i.ClaimUID == uid {
			out = append(out, i)
		}
	}
	return out
}

func (p *Provider) Instance(id string) *Instance {
	p.mu.Lock()
	defer p.mu.Unlock()
	return p.Instances[id]
}

func (p *Provider) Live() []*Instance {
	p.mu.Lock()
	defer p.mu.Unlock()
	var out []*Instance
	for _, i := range p.Instances {
		if i.State != "gone" {
			out = append(out, i)
		}
	}
	sort.Slice(out, func(i, j int) bool { return out[i].ProviderID < out[j].ProviderID })
	return out
}

var _ = resource.Quantity{}
