package world

import (
	"context"
	"encoding/json"
	"fmt"
	"sync"

	"k8s.io/apiextensions-apiserver/pkg/apis/apiextensions"
	apiextensionsv1 "k8s.io/apiextensions-apiserver/pkg/apis/apiextensions/v1"
	structuralschema "k8s.io/apiextensions-apiserver/pkg/apiserver/schema"
	"k8s.io/apiextensions-apiserver/pkg/apiserver/schema/cel"
	"k8s.io/apiextensions-apiserver/pkg/apiserver/schema/defaulting"
	apiservervalidation "k8s.io/apiextensions-apiserver/pkg/apiserver/validation"
	"k8s.io/apimachinery/pkg/runtime"
	utiljson "k8s.io/apimachinery/pkg/util/json"
	"k8s.io/apimachinery/pkg/util/validation/field"
	celconfig "k8s.io/apiserver/pkg/apis/cel"

	"sigs.k8s.io/karpenter/pkg/apis"
	v1 "sigs.k8s.io/karpenter/pkg/apis/v1"
)

// crdPipeline runs an object through what a real API server does for a CRD-backed kind: structural
// defaulting, OpenAPI schema validation and CEL (x-kubernetes-validations) rules — all from the CRDs
// Karpenter embeds — so that "a NodePool that passes validation" means what it means on a cluster.
type crdPipeline struct {
	structural *structuralschema.Structural
	validator  apiservervalidation.SchemaValidator
	cel        *cel.Validator
}

var (
	pipelinesOnce sync.Once
	pipelines     map[string]*crdPipeline
	pipelinesErr  error
)

func buildPipelines() {
	pipelines = map[string]*crdPipeline{}
	for _, crd := range apis.CRDs {
		for _, ver := range crd.Spec.Versions {
			if !ver.Storage || ver.Schema == nil || ver.Schema.OpenAPIV3Schema == nil {
				continue
			}
			internal := &apiextensions.JSONSchemaProps{}
			if err := apiextensionsv1.Convert_v1_JSONSchemaProps_To_apiextensions_JSONSchemaProps(ver.Schema.OpenAPIV3Schema, internal, nil); err != nil {
				pipelinesErr = err
				return
			}
			ss, err := structuralschema.NewStructural(internal)
			if err != nil {
				pipelinesErr = err
				return
			}
			sv, _, err := apiservervalidation.NewSchemaValidator(internal)
			if err != nil {
				pipelinesErr = err
				return
			}
			pipelines[crd.Spec.Names.Kind] = &crdPipeline{structural: ss, validator: sv, cel: cel.NewValidator(ss, true, celconfig.PerCallLimit)}
		}
	}
}

// Admit defaults and validates obj (a NodePool or NodeClaim) as the API server would on create.
// It returns the defaulted object (same Go type, decoded with the real JSON decoder) and the list of
// validation errors (empty = accepted).
func Admit[T runtime.Object](obj T, out T) ([]string, error) {
	pipelinesOnce.Do(buildPipelines)
	if pipelinesErr != nil {
		return nil, pipelinesErr
	}
	kind := kindOf(obj)
	p := pipelines[kind]
	if p == nil {
		return nil, fmt.Errorf("no CRD for kind %s", kind)
	}
	raw, err := json.Marshal(obj)
	if err != nil {
		return nil, err
	}
	var u map[string]any
	// apimachinery's decoder turns integral JSON numbers into int64 like the API server does; with encoding/json they
	// stay float64 and every CEL rule that touches an integer field (minValues, replicas, weight) fails to evaluate.
	if err := utiljson.Unmarshal(raw, &u); err != nil {
		return nil, err
	}
	u["apiVersion"] = "karpenter.sh/v1"
	u["kind"] = kind
	delete(u, "status")
	defaulting.Default(u, p.structural)
	var errs []string
	for _, e := range apiservervalidation.ValidateCustomResource(nil, u, p.validator) {
		errs = append(errs, "schema: "+e.Error())
	}
	celErrs, _ := p.cel.Validate(context.Background(), nil, p.structural, u, nil, celconfig.RuntimeCELCostBudget)
	for _, e := range celErrs {
		errs = append(errs, "cel: "+e.Error())
	}
	b, err := json.Marshal(u)
	if err != nil {
		return errs, err
	}
	if err := json.Unmarshal(b, out); err != nil {
		return errs, err
	}
	return errs, nil
}

// AdmitNodePool = CRD defaulting + schema + CEL, then Karpenter's own RuntimeValidate (what the
// nodepool.validation controller runs). ok=false when any of them rejects.
func AdmitNodePool(ctx context.Context, np *v1.NodePool) (*v1.NodePool, []string) {
	out := &v1.NodePool{}
	errs, err := Admit(np, out)
	if err != nil {
		return nil, []string{"pipeline: " + err.Error()}
	}
	out.ObjectMeta = *np.ObjectMeta.DeepCopy()
	out.Status = *np.Status.DeepCopy()
	if len(errs) > 0 {
		return out, errs
	}
	if err := out.RuntimeValidate(ctx); err != nil {
		return out, []string{"runtime: " + err.Error()}
	}
	return out, nil
}

var _ = field.ErrorList{}
