package world

import (
	"context"
	"errors"
	"fmt"
	"reflect"
	"runtime"
	"strings"
	"sync"
	"time"

	appsv1 "k8s.io/api/apps/v1"
	corev1 "k8s.io/api/core/v1"
	policyv1 "k8s.io/api/policy/v1"
	storagev1 "k8s.io/api/storage/v1"
	apierrors "k8s.io/apimachinery/pkg/api/errors"
	"k8s.io/apimachinery/pkg/api/meta"
	metav1 "k8s.io/apimachinery/pkg/apis/meta/v1"
	"k8s.io/apimachinery/pkg/labels"
	k8sruntime "k8s.io/apimachinery/pkg/runtime"
	"k8s.io/apimachinery/pkg/runtime/schema"
	"k8s.io/apimachinery/pkg/runtime/serializer"
	"k8s.io/apimachinery/pkg/types"
	"k8s.io/apimachinery/pkg/util/intstr"
	"k8s.io/client-go/kubernetes/scheme"
	clienttesting "k8s.io/client-go/testing"
	"sigs.k8s.io/controller-runtime/pkg/client"
	"sigs.k8s.io/controller-runtime/pkg/client/fake"
	"sigs.k8s.io/controller-runtime/pkg/client/interceptor"

	v1 "sigs.k8s.io/karpenter/pkg/apis/v1"
	"sigs.k8s.io/karpenter/pkg/test/v1alpha1"
)

// Event is one API call as seen at the client boundary.
type Event struct {
	Seq      int
	VTime    time.Time
	Verb     string // get list create update patch delete deleteallof status-update status-patch evict
	Kind     string
	Key      string // namespace/name or name
	Caller   string // innermost Karpenter frame ("" for harness actors)
	Stack    []string
	Err      string
	Before   client.Object // deep copies (writes only)
	After    client.Object // nil when the object is gone
	Grace    *int64        // delete grace period if given
	Injected bool          // Err was injected by the fault plan
}

func (e Event) IsWrite() bool { return e.Verb != "get" && e.Verb != "list" }

// CrashSentinel is the panic value used for crash points.
type CrashSentinel struct{ Call int }

// Fault describes one injected failure.
type Fault struct {
	// AtCall: fire at the n-th (1-based) call that matches Match (nil Match = every Karpenter call).
	AtCall int
	Match  func(verb, kind, caller string) bool
	// Kind: 500 | 409 | 404 | 429 | timeout | crash
	Kind  string
	Fired bool
	// Sticky: keep failing every matching call from AtCall on (permanent error).
	Sticky bool
	seen   int
}

// API is the in-process API server handed to Karpenter.
type API struct {
	Client client.Client    // intercepted: what Karpenter uses
	Raw    client.WithWatch // not logged, not faulted: harness actors and oracles
	Clock  *VClock
	Scheme *k8sruntime.Scheme

	mu       sync.Mutex // guards log, faults, monitor state
	wmu      sync.Mutex // serialises writes so that before/after snapshots and monitors are atomic with the write
	log      []Event
	seq      int
	faults   []*Fault
	calls    int // Karpenter calls counted for fault indexing
	counting bool
	// PostWrite monitors run synchronously inside the write, after it succeeded, under wmu.
	PostWrite []func(ev *Event)
	// PreWrite monitors run before the write is applied (under wmu); they see the authoritative state
	// the write is about to change.
	PreWrite []func(verb string, obj client.Object, opts any)
	// PostRead hooks run after a Karpenter get / list returned (no lock held): harness actors may change the world there,
	// which places their action between two reads of one reconcile.
	PostRead  []func(verb, kind, caller string)
	tracker   vtracker
	crashed   bool
	KeepReads bool // record get/list events too (default: only counted)
	Reads     int
	Writes    int
	// Yield makes every Karpenter call yield the processor first (concurrent workloads).
	Yield  bool
	uidSeq int
}

// vtracker virtualises deletionTimestamp (the fake stamps wall-clock time).
type vtracker struct {
	clienttesting.ObjectTracker
	clk *VClock
}

func (t vtracker) Update(gvr schema.GroupVersionResource, obj k8sruntime.Object, ns string, opts ...metav1.UpdateOptions) error {
	if acc, err := meta.Accessor(obj); err == nil && acc.GetDeletionTimestamp() != nil {
		if old, err := t.ObjectTracker.Get(gvr, ns, acc.GetName()); err == nil {
			if oacc, err := meta.Accessor(old); err == nil && oacc.GetDeletionTimestamp() == nil {
				ts := metav1.NewTime(t.clk.Now().Truncate(time.Second))
				acc.SetDeletionTimestamp(&ts)
			}
		}
	}
	return t.ObjectTracker.Update(gvr, obj, ns, opts...)
}

func NewAPI(clk *VClock) *API {
	a := &API{Clock: clk, Scheme: scheme.Scheme}
	tracker := vtracker{ObjectTracker: clienttesting.NewObjectTracker(scheme.Scheme, serializer.NewCodecFactory(scheme.Scheme).UniversalDecoder()), clk: clk}
	a.tracker = tracker
	b := fake.NewClientBuilder().WithScheme(scheme.Scheme).WithObjectTracker(tracker).
		WithStatusSubresource(&v1.NodeClaim{}, &v1.NodePool{}, &v1alpha1.TestNodeClass{}).
		WithIndex(&corev1.Pod{}, "spec.nodeName", func(o client.Object) []string { return []string{o.(*corev1.Pod).Spec.NodeName} }).
		WithIndex(&corev1.Node{}, "spec.providerID", func(o client.Object) []string { return []string{o.(*corev1.Node).Spec.ProviderID} }).
		WithIndex(&storagev1.VolumeAttachment{}, "spec.nodeName", func(o client.Object) []string {
			return []string{o.(*storagev1.VolumeAttachment).Spec.NodeName}
		}).
		WithIndex(&v1.NodeClaim{}, "status.providerID", func(o client.Object) []string { return []string{o.(*v1.NodeClaim).Status.ProviderID} }).
		WithIndex(&v1.NodeClaim{}, "spec.nodeClassRef.group", func(o client.Object) []string { return []string{o.(*v1.NodeClaim).Spec.NodeClassRef.Group} }).
		WithIndex(&v1.NodeClaim{}, "spec.nodeClassRef.kind", func(o client.Object) []string { return []string{o.(*v1.NodeClaim).Spec.NodeClassRef.Kind} }).
		WithIndex(&v1.NodeClaim{}, "spec.nodeClassRef.name", func(o client.Object) []string { return []string{o.(*v1.NodeClaim).Spec.NodeClassRef.Name} }).
		WithIndex(&v1.NodePool{}, "spec.template.spec.nodeClassRef.group", func(o client.Object) []string {
			return []string{o.(*v1.NodePool).Spec.Template.Spec.NodeClassRef.Group}
		}).
		WithIndex(&v1.NodePool{}, "spec.template.spec.nodeClassRef.kind", func(o client.Object) []string {
			return []string{o.(*v1.NodePool).Spec.Template.Spec.NodeClassRef.Kind}
		}).
		WithIndex(&v1.NodePool{}, "spec.template.spec.nodeClassRef.name", func(o client.Object) []string {
			return []string{o.(*v1.NodePool).Spec.Template.Spec.NodeClassRef.Name}
		})
	a.Raw = b.Build()
	a.Client = interceptor.NewClient(a.Raw, interceptor.Funcs{
		Get:               a.iget,
		List:              a.ilist,
		Create:            a.icreate,
		Delete:            a.idelete,
		DeleteAllOf:       a.ideleteAllOf,
		Update:            a.iupdate,
		Patch:             a.ipatch,
		SubResourceCreate: a.isubCreate,
		SubResourceUpdate: a.isubUpdate,
		SubResourcePatch:  a.isubPatch,
	})
	return a
}

// ---- log access ----

func (a *API) Log() []Event {
	a.mu.Lock()
	defer a.mu.Unlock()
	return append([]Event(nil), a.log...)
}

func (a *API) LogLen() int { a.mu.Lock(); defer a.mu.Unlock(); return len(a.log) }

func (a *API) LogSince(n int) []Event {
	a.mu.Lock()
	defer a.mu.Unlock()
	if n > len(a.log) {
		n = len(a.log)
	}
	return append([]Event(nil), a.log[n:]...)
}

// ---- faults ----

func (a *API) SetFaults(fs ...*Fault) {
	a.mu.Lock()
	a.faults = fs
	a.calls = 0
	for _, f := range fs {
		f.seen = 0
		f.Fired = false
	}
	a.mu.Unlock()
}

func (a *API) ClearFaults() { a.SetFaults() }

// AddFault arms one more fault without touching the call counters of those already set.
func (a *API) AddFault(f *Fault) {
	a.mu.Lock()
	a.faults = append(a.faults, f)
	a.mu.Unlock()
}

// StartCounting resets the Karpenter call counter (used to size fault enumerations).
func (a *API) StartCounting() { a.mu.Lock(); a.calls = 0; a.counting = true; a.mu.Unlock() }
func (a *API) Calls() int     { a.mu.Lock(); defer a.mu.Unlock(); return a.calls }

func injectedErr(kind, what string) error {
	gr := schema.GroupResource{Resource: what}
	switch kind {
	case "409":
		return apierrors.NewConflict(gr, "injected", errors.New("injected conflict"))
	case "404":
		return apierrors.NewNotFound(gr, "injected")
	case "429":
		return apierrors.NewTooManyRequests("injected throttle", 1)
	case "timeout":
		return context.DeadlineExceeded
	default:
		return apierrors.NewInternalError(errors.New("injected internal error"))
	}
}

// callerInfo returns the innermost Karpenter frame and the Karpenter frames of the stack.
func callerInfo() (string, []string) {
	pcs := make([]uintptr, 48)
	n := runtime.Callers(3, pcs)
	frames := runtime.CallersFrames(pcs[:n])
	var inner string
	var stack []string
	for {
		f, more := frames.Next()
		if strings.Contains(f.Function, "sigs.k8s.io/karpenter/pkg/") && !strings.Contains(f.Function, "/pkg/test") {
			fn := strings.TrimPrefix(f.Function, "sigs.k8s.io/karpenter/pkg/")
			if inner == "" {
				inner = fn
			}
			if len(stack) < 8 {
				stack = append(stack, fn)
			}
		}
		if !more {
			break
		}
	}
	return inner, stack
}

func kindOf(obj k8sruntime.Object) string {
	t := reflect.TypeOf(obj)
	if t.Kind() == reflect.Ptr {
		t = t.Elem()
	}
	return strings.TrimSuffix(t.Name(), "List")
}

func keyOf(obj client.Object) string {
	if obj.GetNamespace() != "" {
		return obj.GetNamespace() + "/" + obj.GetName()
	}
	return obj.GetName()
}

// before: returns injected error (or panics for a crash point) for a Karpenter call.
func (a *API) before(verb, kind string) (caller string, stack []string, err error) {
	caller, stack = callerInfo()
	if caller == "" {
		return caller, stack, nil // harness actor using the intercepted client: never faulted
	}
	if a.Yield {
		runtime.Gosched()
	}
	a.mu.Lock()
	if a.crashed {
		a.mu.Unlock()
		return caller, stack, context.Canceled
	}
	a.calls++
	var fire *Fault
	for _, f := range a.faults {
		if f.Match != nil && !f.Match(verb, kind, caller) {
			continue
		}
		f.seen++
		if (f.seen == f.AtCall && !f.Fired) || (f.Sticky && f.seen >= f.AtCall) {
			f.Fired = true
			fire = f
			break
		}
	}
	call := a.calls
	a.mu.Unlock()
	if fire != nil {
		if fire.Kind == "crash" {
			panic(CrashSentinel{Call: call})
		}
		if fire.Kind == "crash-poison" {
			// the process dies at this call: neither this call nor any later call by Karpenter has any effect until
			// the driver notices Crashed(), throws the in-memory components away and calls Env.Restart()
			a.mu.Lock()
			a.crashed = true
			a.mu.Unlock()
			return caller, stack, context.Canceled
		}
		return caller, stack, injectedErr(fire.Kind, strings.ToLower(kind))
	}
	return caller, stack, nil
}

// Crashed reports whether a "crash-poison" fault has fired (the emulated process is dead).
func (a *API) Crashed() bool { a.mu.Lock(); defer a.mu.Unlock(); return a.crashed }

// ClearCrash revives the API after the driver restarted the controllers.
func (a *API) ClearCrash() { a.mu.Lock(); a.crashed = false; a.mu.Unlock() }

func (a *API) record(ev Event) *Event {
	a.mu.Lock()
	a.seq++
	ev.Seq = a.seq
	ev.VTime = a.Clock.Now()
	if ev.IsWrite() {
		a.Writes++
		a.log = append(a.log, ev)
	} else {
		a.Reads++
		if a.KeepReads {
			a.log = append(a.log, ev)
		}
	}
	a.mu.Unlock()
	return &ev
}

func errStr(err error) string {
	if err == nil {
		return ""
	}
	return err.Error()
}

func (a *API) current(obj client.Object) client.Object {
	cp := obj.DeepCopyObject().(client.Object)
	if err := a.Raw.Get(context.Background(), client.ObjectKeyFromObject(obj), cp); err != nil {
		return nil
	}
	return cp
}

// ---- reads ----

// clusterScoped kinds: a real API server ignores a namespace given for them (the URL has none); the fake client would
// answer NotFound (Karpenter e.g. looks PersistentVolumes up with the pod's namespace set).
var clusterScoped = map[string]bool{"PersistentVolume": true, "Node": true, "NodeClaim": true, "NodePool": true, "StorageClass": true, "CSINode": true,
	"Namespace": true, "VolumeAttachment": true, "PriorityClass": true, "TestNodeClass": true, "ResourceSlice": true, "DeviceClass": true, "NodeOverlay": true}

func (a *API) iget(ctx context.Context, c client.WithWatch, key client.ObjectKey, obj client.Object, opts ...client.GetOption) error {
	if clusterScoped[kindOf(obj)] {
		key.Namespace = ""
	}
	caller, stack, ierr := a.before("get", kindOf(obj))
	if ierr != nil {
		a.record(Event{Verb: "get", Kind: kindOf(obj), Key: key.String(), Caller: caller, Stack: stack, Err: ierr.Error(), Injected: true})
		return ierr
	}
	err := c.Get(ctx, key, obj, opts...)
	a.record(Event{Verb: "get", Kind: kindOf(obj), Key: strings.TrimPrefix(key.String(), "/"), Caller: caller, Stack: stack, Err: errStr(err)})
	return err
}

func (a *API) ilist(ctx context.Context, c client.WithWatch, list client.ObjectList, opts ...client.ListOption) error {
	caller, stack, ierr := a.before("list", kindOf(list))
	if ierr != nil {
		a.record(Event{Verb: "list", Kind: kindOf(list), Caller: caller, Stack: stack, Err: ierr.Error(), Injected: true})
		return ierr
	}
	err := c.List(ctx, list, opts...)
	a.record(Event{Verb: "list", Kind: kindOf(list), Caller: caller, Stack: stack, Err: errStr(err)})
	for _, h := range a.PostRead {
		h("list", kindOf(list), caller)
	}
	return err
}

// ---- writes ----

func (a *API) write(verb string, obj client.Object, optsAny any, grace *int64, do func() error) error {
	kind := kindOf(obj)
	caller, stack, ierr := a.before(verb, kind)
	if ierr != nil {
		a.record(Event{Verb: verb, Kind: kind, Key: keyOf(obj), Caller: caller, Stack: stack, Err: ierr.Error(), Injected: true, Grace: grace})
		return ierr
	}
	a.wmu.Lock()
	defer a.wmu.Unlock()
	before := a.current(obj)
	for _, m := range a.PreWrite {
		m(verb, obj, optsAny)
	}
	err := do()
	var after client.Object
	if err == nil {
		after = a.current(obj)
		if after != nil && before != nil {
			a.bumpGeneration(before, after)
		}
	}
	ev := a.record(Event{Verb: verb, Kind: kind, Key: keyOf(obj), Caller: caller, Stack: stack, Err: errStr(err), Before: before, After: after, Grace: grace})
	if err == nil {
		for _, m := range a.PostWrite {
			m(ev)
		}
	}
	return err
}

// bumpGeneration emulates the API server: metadata.generation increases when spec changes.
func (a *API) bumpGeneration(before, after client.Object) {
	var changed bool
	switch b := before.(type) {
	case *v1.NodePool:
		changed = !reflect.DeepEqual(b.Spec, after.(*v1.NodePool).Spec)
	case *v1.NodeClaim:
		changed = !reflect.DeepEqual(b.Spec, after.(*v1.NodeClaim).Spec)
	case *v1alpha1.TestNodeClass:
		changed = !reflect.DeepEqual(b.Spec, after.(*v1alpha1.TestNodeClass).Spec)
	case *appsv1.DaemonSet:
		changed = !reflect.DeepEqual(b.Spec, after.(*appsv1.DaemonSet).Spec)
	default:
		return
	}
	if !changed {
		return
	}
	after.SetGeneration(before.GetGeneration() + 1)
	_ = a.Raw.Update(context.Background(), after)
}

func (a *API) stampNew(obj client.Object) {
	if obj.GetUID() == "" {
		a.mu.Lock()
		a.uidSeq++
		n := a.uidSeq
		a.mu.Unlock()
		obj.SetUID(types.UID(fmt.Sprintf("uid-%06d", n)))
	}
	if ts := obj.GetCreationTimestamp(); ts.IsZero() {
		obj.SetCreationTimestamp(metav1.NewTime(a.Clock.Now().Truncate(time.Second)))
	}
	if obj.GetGeneration() == 0 {
		obj.SetGeneration(1)
	}
}

func (a *API) icreate(ctx context.Context, c client.WithWatch, obj client.Object, opts ...client.CreateOption) error {
	return a.write("create", obj, opts, nil, func() error {
		a.stampNew(obj)
		return c.Create(ctx, obj, opts...)
	})
}

func (a *API) idelete(ctx context.Context, c client.WithWatch, obj client.Object, opts ...client.DeleteOption) error {
	do := &client.DeleteOptions{}
	do.ApplyOptions(opts)
	return a.write("delete", obj, do, do.GracePeriodSeconds, func() error {
		return a.deletePodAware(ctx, c, obj, do, opts...)
	})
}

// deletePodAware: a pod delete with a grace period > 0 on a bound pod only marks it terminating
// (the emulated kubelet removes it later); everything else is the fake's behaviour.
func (a *API) deletePodAware(ctx context.Context, c client.WithWatch, obj client.Object, do *client.DeleteOptions, opts ...client.DeleteOption) error {
	pod, ok := obj.(*corev1.Pod)
	if !ok {
		return c.Delete(ctx, obj, opts...)
	}
	cur := &corev1.Pod{}
	if err := a.Raw.Get(ctx, client.ObjectKeyFromObject(pod), cur); err != nil {
		return err
	}
	if do.Preconditions != nil && do.Preconditions.UID != nil && *do.Preconditions.UID != cur.UID {
		return apierrors.NewConflict(schema.GroupResource{Resource: "pods"}, pod.Name, errors.New("uid precondition failed"))
	}
	grace := int64(30)
	if cur.Spec.TerminationGracePeriodSeconds != nil {
		grace = *cur.Spec.TerminationGracePeriodSeconds
	}
	if do.GracePeriodSeconds != nil {
		grace = *do.GracePeriodSeconds
	}
	if cur.Spec.NodeName == "" || grace == 0 {
		// unbound or immediate: remove (strip harness finalizer first)
		if len(cur.Finalizers) > 0 {
			cur.Finalizers = nil
			if err := a.Raw.Update(ctx, cur); err != nil {
				return err
			}
		}
		return client.IgnoreNotFound(a.Raw.Delete(ctx, cur))
	}
	// graceful: keep the object with deletionTimestamp = now + grace until the kubelet removes it
	if cur.DeletionTimestamp != nil {
		// shortening the grace period is allowed
		newTS := a.Clock.Now().Add(time.Duration(grace) * time.Second)
		if newTS.Before(cur.DeletionTimestamp.Time) {
			a.setPodDeletion(ctx, cur, newTS, grace)
		}
		return nil
	}
	if len(cur.Finalizers) == 0 {
		cur.Finalizers = []string{KubeletFinalizer}
		if err := a.Raw.Update(ctx, cur); err != nil {
			return err
		}
	}
	if err := a.Raw.Delete(ctx, cur); err != nil {
		return err
	}
	a.setPodDeletion(ctx, cur, a.Clock.Now().Add(time.Duration(grace)*time.Second), grace)
	return nil
}

// KubeletFinalizer keeps gracefully deleted pods visible until the kubelet actor removes them.
const KubeletFinalizer = "verif.harness/kubelet"

// setPodDeletion stamps deletionTimestamp = now+grace as a real API server does; the fake forbids editing
// deletionTimestamp through the client, so the object is rewritten directly in the object tracker.
func (a *API) setPodDeletion(ctx context.Context, pod *corev1.Pod, ts time.Time, grace int64) {
	cur := &corev1.Pod{}
	if err := a.Raw.Get(ctx, client.ObjectKeyFromObject(pod), cur); err != nil {
		return
	}
	mt := metav1.NewTime(ts.Truncate(time.Second))
	cur.DeletionTimestamp = &mt
	cur.DeletionGracePeriodSeconds = &grace
	a.ForceUpdate(cur)
}

// ForceUpdate rewrites an object directly in the tracker (bypassing the fake client's immutability checks).
func (a *API) ForceUpdate(obj client.Object) {
	gvk, err := a.Raw.GroupVersionKindFor(obj)
	if err != nil {
		panic(err)
	}
	gvr, _ := meta.UnsafeGuessKindToResource(gvk)
	if err := a.tracker.ObjectTracker.Update(gvr, obj.DeepCopyObject(), obj.GetNamespace()); err != nil {
		panic(fmt.Sprintf("ForceUpdate: %v", err))
	}
}

func (a *API) ideleteAllOf(ctx context.Context, c client.WithWatch, obj client.Object, opts ...client.DeleteAllOfOption) error {
	return a.write("deleteallof", obj, opts, nil, func() error { return c.DeleteAllOf(ctx, obj, opts...) })
}

func (a *API) iupdate(ctx context.Context, c client.WithWatch, obj client.Object, opts ...client.UpdateOption) error {
	return a.write("update", obj, opts, nil, func() error { return c.Update(ctx, obj, opts...) })
}

func (a *API) ipatch(ctx context.Context, c client.WithWatch, obj client.Object, patch client.Patch, opts ...client.PatchOption) error {
	return a.write("patch", obj, patch, nil, func() error { return c.Patch(ctx, obj, patch, opts...) })
}

func (a *API) isubUpdate(ctx context.Context, c client.Client, sub string, obj client.Object, opts ...client.SubResourceUpdateOption) error {
	return a.write(sub+"-update", obj, opts, nil, func() error { return c.SubResource(sub).Update(ctx, obj, opts...) })
}

func (a *API) isubPatch(ctx context.Context, c client.Client, sub string, obj client.Object, patch client.Patch, opts ...client.SubResourcePatchOption) error {
	return a.write(sub+"-patch", obj, patch, nil, func() error { return c.SubResource(sub).Patch(ctx, obj, patch, opts...) })
}

// isubCreate emulates the eviction endpoint with PodDisruptionBudget arithmetic.
func (a *API) isubCreate(ctx context.Context, c client.Client, sub string, obj client.Object, subObj client.Object, opts ...client.SubResourceCreateOption) error {
	if sub != "eviction" {
		return c.SubResource(sub).Create(ctx, obj, subObj, opts...)
	}
	var grace *int64
	var precondUID *types.UID
	if ev, ok := subObj.(*policyv1.Eviction); ok && ev.DeleteOptions != nil {
		grace = ev.DeleteOptions.GracePeriodSeconds
		if ev.DeleteOptions.Preconditions != nil {
			precondUID = ev.DeleteOptions.Preconditions.UID
		}
	}
	return a.write("evict", obj, subObj, grace, func() error {
		pod := &corev1.Pod{}
		if err := a.Raw.Get(ctx, client.ObjectKeyFromObject(obj), pod); err != nil {
			return err
		}
		if precondUID != nil && *precondUID != pod.UID {
			return apierrors.NewConflict(schema.GroupResource{Resource: "pods"}, pod.Name, errors.New("uid precondition failed"))
		}
		pdbs := &policyv1.PodDisruptionBudgetList{}
		if err := a.Raw.List(ctx, pdbs, client.InNamespace(pod.Namespace)); err != nil {
			return err
		}
		var matching []*policyv1.PodDisruptionBudget
		for i := range pdbs.Items {
			p := &pdbs.Items[i]
			sel, err := metav1.LabelSelectorAsSelector(p.Spec.Selector)
			if err != nil || sel.Empty() && p.Spec.Selector == nil {
				continue
			}
			if sel.Matches(labels.Set(pod.Labels)) {
				matching = append(matching, p)
			}
		}
		if len(matching) > 1 {
			return apierrors.NewInternalError(errors.New("This pod has more than one PodDisruptionBudget, which the eviction subresource does not support."))
		}
		if len(matching) == 1 && pod.DeletionTimestamp == nil && !isTerminalPod(pod) {
			p := matching[0]
			allowed := a.PDBAllowed(ctx, p)
			if allowed <= 0 {
				return apierrors.NewTooManyRequests("Cannot evict pod as it would violate the pod's disruption budget.", 0)
			}
		}
		do := &client.DeleteOptions{GracePeriodSeconds: grace}
		return a.deletePodAware(ctx, a.Raw, pod, do)
	})
}

func isTerminalPod(p *corev1.Pod) bool {
	return p.Status.Phase == corev1.PodFailed || p.Status.Phase == corev1.PodSucceeded
}

// PDBAllowed computes disruptionsAllowed for a PDB from the live pods (the disruption controller's arithmetic).
func (a *API) PDBAllowed(ctx context.Context, p *policyv1.PodDisruptionBudget) int {
	sel, err := metav1.LabelSelectorAsSelector(p.Spec.Selector)
	if err != nil {
		return 0
	}
	pods := &corev1.PodList{}
	if err := a.Raw.List(ctx, pods, client.InNamespace(p.Namespace)); err != nil {
		return 0
	}
	expected, healthy := 0, 0
	for i := range pods.Items {
		pod := &pods.Items[i]
		if !sel.Matches(labels.Set(pod.Labels)) || isTerminalPod(pod) {
			continue
		}
		expected++
		if pod.DeletionTimestamp == nil && pod.Spec.NodeName != "" && podReady(pod) {
			healthy++
		}
	}
	desired := 0
	switch {
	case p.Spec.MaxUnavailable != nil:
		mu, _ := intstr.GetScaledValueFromIntOrPercent(p.Spec.MaxUnavailable, expected, true)
		desired = expected - mu
		if desired < 0 {
			desired = 0
		}
	case p.Spec.MinAvailable != nil:
		desired, _ = intstr.GetScaledValueFromIntOrPercent(p.Spec.MinAvailable, expected, true)
	}
	allowed := healthy - desired
	if allowed < 0 {
		allowed = 0
	}
	return allowed
}

func podReady(p *corev1.Pod) bool {
	for _, c := range p.Status.Conditions {
		if c.Type == corev1.PodReady {
			return c.Status == corev1.ConditionTrue
		}
	}
	return p.Status.Phase == corev1.PodRunning
}
