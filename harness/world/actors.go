package world

import (
	"context"
	"fmt"
	"sort"
	"strings"
	"time"

	corev1 "k8s.io/api/core/v1"
	"k8s.io/apimachinery/pkg/api/resource"
	metav1 "k8s.io/apimachinery/pkg/apis/meta/v1"
	"k8s.io/apimachinery/pkg/types"
	"sigs.k8s.io/controller-runtime/pkg/client"
	"sigs.k8s.io/controller-runtime/pkg/reconcile"

	v1 "sigs.k8s.io/karpenter/pkg/apis/v1"
	"sigs.k8s.io/karpenter/pkg/controllers/nodeclaim/lifecycle"
	"sigs.k8s.io/karpenter/pkg/state/nodepoolhealth"
)

// Lifecycle lazily builds the real nodeclaim lifecycle controller over this world.
func (e *Env) Lifecycle() *lifecycle.Controller {
	if e.lifecycle == nil {
		if e.NPHealth == nil {
			e.NPHealth = nodepoolhealth.NewState()
		}
		e.lifecycle = lifecycle.NewController(e.Clock, e.API.Client, e.Provider, e.Recorder, e.NPHealth, nil)
	}
	return e.lifecycle
}

// ReconcileClaim hands the *stored* NodeClaim to the real lifecycle controller (what AsReconciler does).
func (e *Env) ReconcileClaim(name string) (reconcile.Result, error) {
	nc := &v1.NodeClaim{}
	if err := e.API.Raw.Get(context.Background(), types.NamespacedName{Name: name}, nc); err != nil {
		return reconcile.Result{}, nil
	}
	return e.Lifecycle().Reconcile(e.Ctx, nc)
}

// NodeNameFor derives a node name from a provider id.
func NodeNameFor(providerID string) string {
	i := strings.LastIndex(providerID, "/")
	return "node-" + providerID[i+1:]
}

// KubeletOpts tunes how the emulated kubelet registers a node.
type KubeletOpts struct {
	Ready          bool
	NotReadyTaints bool // node.kubernetes.io/not-ready taints present (as on a fresh node)
	ZeroExtended   bool // extended resources reported as zero (device plugin not up yet)
	NoUnregistered bool // omit the karpenter.sh/unregistered taint
	// OmitCapacity: what the first node status lacks: "" nothing, "extended" the extended-resource keys (device plugin not
	// registered yet: the key is ABSENT, not zero), "all" every key (the kubelet has not posted its status yet)
	OmitCapacity string
	// StartupTaintVariant: how the kubelet writes the NodeClaim's startup taints: 0 verbatim, 1 same key and effect with a
	// different value, 2 with timeAdded set (taint identity is key + effect)
	StartupTaintVariant int
}

// KubeletRegister creates the Node object for a launched instance, the way a kubelet configured by the
// provider's user data would: provider id, instance labels, NodeClaim taints + startup taints + the
// unregistered taint, capacity/allocatable from the instance.
func (e *Env) KubeletRegister(inst *Instance, o KubeletOpts) *corev1.Node {
	nc := &v1.NodeClaim{}
	var taints []corev1.Taint
	if e.Get(&v1.NodeClaim{ObjectMeta: metav1.ObjectMeta{Name: inst.ClaimName}}) {
		_ = e.API.Raw.Get(context.Background(), types.NamespacedName{Name: inst.ClaimName}, nc)
		taints = append(taints, nc.Spec.Taints...)
		for _, st := range nc.Spec.StartupTaints {
			switch o.StartupTaintVariant {
			case 1:
				st.Value = st.Value + "x"
			case 2:
				now := metav1.NewTime(e.Clock.Now())
				st.TimeAdded = &now
			}
			taints = append(taints, st)
		}
	}
	if !o.NoUnregistered {
		taints = append(taints, v1.UnregisteredNoExecuteTaint)
	}
	if o.NotReadyTaints {
		taints = append(taints, corev1.Taint{Key: corev1.TaintNodeNotReady, Effect: corev1.TaintEffectNoSchedule})
	}
	name := NodeNameFor(inst.ProviderID)
	lbls := map[string]string{corev1.LabelHostname: name}
	for k, v := range inst.Labels {
		lbls[k] = v
	}
	capacity, alloc := inst.Capacity.DeepCopy(), inst.Allocatable.DeepCopy()
	if o.ZeroExtended {
		for k := range capacity {
			if strings.Contains(string(k), "/") {
				capacity[k] = resource.MustParse("0")
				alloc[k] = resource.MustParse("0")
			}
		}
	}
	switch o.OmitCapacity {
	case "all":
		capacity, alloc = corev1.ResourceList{}, corev1.ResourceList{}
	case "extended":
		for k := range capacity {
			if strings.Contains(string(k), "/") {
				delete(capacity, k)
				delete(alloc, k)
			}
		}
	}
	node := &corev1.Node{
		ObjectMeta: metav1.ObjectMeta{Name: name, Labels: lbls},
		Spec:       corev1.NodeSpec{ProviderID: inst.ProviderID, Taints: taints},
		Status:     corev1.NodeStatus{Capacity: capacity, Allocatable: alloc, Phase: corev1.NodeRunning},
	}
	setReady(node, o.Ready, e.Clock.Now())
	e.Apply(node)
	return node
}

func setReady(n *corev1.Node, ready bool, now time.Time) {
	st, reason := corev1.ConditionFalse, "KubeletNotReady"
	if ready {
		st, reason = corev1.ConditionTrue, "KubeletReady"
	}
	var conds []corev1.NodeCondition
	for _, c := range n.Status.Conditions {
		if c.Type != corev1.NodeReady {
			conds = append(conds, c)
		}
	}
	n.Status.Conditions = append(conds, corev1.NodeCondition{Type: corev1.NodeReady, Status: st, Reason: reason,
		LastHeartbeatTime: metav1.NewTime(now), LastTransitionTime: metav1.NewTime(now)})
}

// KubeletReady makes the node Ready, removes not-ready/startup taints and reports extended resources.
func (e *Env) KubeletReady(nodeName string, removeStartup bool) {
	n := &corev1.Node{}
	if e.API.Raw.Get(context.Background(), types.NamespacedName{Name: nodeName}, n) != nil {
		return
	}
	inst := e.Provider.Instance(n.Spec.ProviderID)
	setReady(n, true, e.Clock.Now())
	var startup []corev1.Taint
	if removeStartup {
		ncs := &v1.NodeClaimList{}
		_ = e.API.Raw.List(context.Background(), ncs)
		for _, nc := range ncs.Items {
			if nc.Status.ProviderID == n.Spec.ProviderID {
				startup = nc.Spec.StartupTaints
			}
		}
	}
	var keep []corev1.Taint
	for _, t := range n.Spec.Taints {
		if t.Key == corev1.TaintNodeNotReady || t.Key == corev1.TaintNodeUnreachable {
			continue
		}
		drop := false
		for _, s := range startup {
			if s.MatchTaint(&t) {
				drop = true
			}
		}
		if !drop {
			keep = append(keep, t)
		}
	}
	n.Spec.Taints = keep
	if inst != nil {
		n.Status.Capacity, n.Status.Allocatable = inst.Capacity.DeepCopy(), inst.Allocatable.DeepCopy()
	}
	e.Apply(n)
}

// KubeletNotReady flips the node to NotReady.
func (e *Env) KubeletNotReady(nodeName string) {
	n := &corev1.Node{}
	if e.API.Raw.Get(context.Background(), types.NamespacedName{Name: nodeName}, n) != nil {
		return
	}
	setReady(n, false, e.Clock.Now())
	e.Apply(n)
}

// Bind binds a pending pod to a node (kube-scheduler + kubelet start).
func (e *Env) Bind(pod *corev1.Pod, nodeName string) {
	cur := &corev1.Pod{}
	if e.API.Raw.Get(context.Background(), client.ObjectKeyFromObject(pod), cur) != nil {
		return
	}
	cur.Spec.NodeName = nodeName
	cur.Status.Phase = corev1.PodRunning
	st := metav1.NewTime(e.Clock.Now())
	cur.Status.StartTime = &st
	cur.Status.Conditions = []corev1.PodCondition{{Type: corev1.PodScheduled, Status: corev1.ConditionTrue}, {Type: corev1.PodReady, Status: corev1.ConditionTrue}}
	e.Apply(cur)
}

// KubeletReapPods removes terminating pods whose grace period has elapsed (and strips the harness finalizer).
// Pods listed in stuck are never removed.
func (e *Env) KubeletReapPods(stuck map[string]bool) int {
	pods := &corev1.PodList{}
	_ = e.API.Raw.List(context.Background(), pods)
	n := 0
	for i := range pods.Items {
		p := &pods.Items[i]
		if p.DeletionTimestamp == nil || stuck[p.Name] {
			continue
		}
		if e.Clock.Now().Before(p.DeletionTimestamp.Time) {
			continue
		}
		p.Finalizers = nil
		_ = e.API.Raw.Update(context.Background(), p)
		_ = client.IgnoreNotFound(e.API.Raw.Delete(context.Background(), p))
		n++
	}
	return n
}

// Stage names how far a NodeClaim is driven through its life.
type Stage int

const (
	StageCreated Stage = iota
	StageLaunched
	StageNodeAppeared // node exists, unregistered taint still present
	StageRegistered   // registered, not ready / startup taints / zero extended resources
	StageInitialized
)

// DriveClaim runs the real lifecycle controller and the kubelet actor until the NodeClaim reaches the stage.
// Returns the instance (nil if launch failed) and the node name ("" before the node exists).
func (e *Env) DriveClaim(name string, st Stage) (*Instance, string, error) {
	if st == StageCreated {
		return nil, "", nil
	}
	if _, err := e.ReconcileClaim(name); err != nil { // finalizer + launch
		return nil, "", err
	}
	nc := &v1.NodeClaim{}
	if e.API.Raw.Get(context.Background(), types.NamespacedName{Name: name}, nc) != nil {
		return nil, "", fmt.Errorf("nodeclaim %s gone after launch attempt", name)
	}
	if nc.Status.ProviderID == "" {
		// the first reconcile may only have added the finalizer
		if _, err := e.ReconcileClaim(name); err != nil {
			return nil, "", err
		}
		if e.API.Raw.Get(context.Background(), types.NamespacedName{Name: name}, nc) != nil || nc.Status.ProviderID == "" {
			return nil, "", fmt.Errorf("nodeclaim %s not launched", name)
		}
	}
	inst := e.Provider.Instance(nc.Status.ProviderID)
	if st == StageLaunched {
		return inst, "", nil
	}
	node := e.KubeletRegister(inst, KubeletOpts{Ready: false, NotReadyTaints: true, ZeroExtended: true})
	if st == StageNodeAppeared {
		return inst, node.Name, nil
	}
	if _, err := e.ReconcileClaim(name); err != nil { // registration
		return inst, node.Name, err
	}
	if st == StageRegistered {
		return inst, node.Name, nil
	}
	e.KubeletReady(node.Name, true)
	if _, err := e.ReconcileClaim(name); err != nil { // initialization
		return inst, node.Name, err
	}
	return inst, node.Name, nil
}

// ClaimNames lists NodeClaims in name order.
func (e *Env) ClaimNames() []string {
	ncs := &v1.NodeClaimList{}
	_ = e.API.Raw.List(context.Background(), ncs)
	var out []string
	for _, nc := range ncs.Items {
		out = append(out, nc.Name)
	}
	sort.Strings(out)
	return out
}

// KubeletSetReady sets the node's Ready condition to "True", "False", "Unknown" (kubelet stopped heart-beating, as the
// node-lifecycle controller reports it) or removes the condition altogether ("absent").
func (e *Env) KubeletSetReady(nodeName, status string) {
	n := &corev1.Node{}
	if e.API.Raw.Get(context.Background(), types.NamespacedName{Name: nodeName}, n) != nil {
		return
	}
	var conds []corev1.NodeCondition
	for _, c := range n.Status.Conditions {
		if c.Type != corev1.NodeReady {
			conds = append(conds, c)
		}
	}
	if status != "absent" {
		now := metav1.NewTime(e.Clock.Now())
		conds = append(conds, corev1.NodeCondition{Type: corev1.NodeReady, Status: corev1.ConditionStatus(status), Reason: "Kubelet" + status, LastHeartbeatTime: now, LastTransitionTime: now})
	}
	n.Status.Conditions = conds
	e.Apply(n)
}
