// Package world is the environment the real Karpenter code runs in: a virtual clock, an
// in-process API server (controller-runtime fake client behind an interceptor that logs, faults
// and monitors every call), a hostile cloud provider and emulations of the rest of the cluster.
package world

import (
	"sync"
	"time"

	"k8s.io/utils/clock"
)

// VClock is a virtual clock. Now() returns virtual time. Sleep(d) advances virtual time by d at
// once. Timers fire after a tiny real delay (ordered by their virtual duration) and move virtual
// time to their deadline when they fire, so waits cost no wall time yet *do* move time. No
// oracle ever reads the wall clock.
type VClock struct {
	mu     sync.Mutex
	now    time.Time
	onWait func(d time.Duration)
	waits  int
}

var _ clock.WithTicker = (*VClock)(nil)

func NewVClock(start time.Time) *VClock { return &VClock{now: start} }

func (c *VClock) Now() time.Time {
	c.mu.Lock()
	defer c.mu.Unlock()
	return c.now
}

func (c *VClock) Since(t time.Time) time.Duration { return c.Now().Sub(t) }

// Step advances virtual time by d (driver use).
func (c *VClock) Step(d time.Duration) {
	c.mu.Lock()
	c.now = c.now.Add(d)
	c.mu.Unlock()
}

// SetTime moves the clock to t (only forward moves are honoured).
func (c *VClock) SetTime(t time.Time) {
	c.mu.Lock()
	if t.After(c.now) {
		c.now = t
	}
	c.mu.Unlock()
}

// OnWait installs a callback that runs whenever Karpenter code waits on the clock (Sleep or a
// fired timer), before the wait returns; scenarios use it to mutate the world during the wait.
func (c *VClock) OnWait(f func(d time.Duration)) {
	c.mu.Lock()
	c.onWait = f
	c.mu.Unlock()
}

func (c *VClock) Waits() int { c.mu.Lock(); defer c.mu.Unlock(); return c.waits }

func (c *VClock) advanceTo(t time.Time, d time.Duration) {
	c.mu.Lock()
	if t.After(c.now) {
		c.now = t
	}
	c.waits++
	f := c.onWait
	c.mu.Unlock()
	if f != nil {
		f(d)
	}
}

func (c *VClock) Sleep(d time.Duration) {
	c.advanceTo(c.Now().Add(d), d)
}

func (c *VClock) After(d time.Duration) <-chan time.Time { return c.NewTimer(d).C() }

func (c *VClock) Tick(d time.Duration) <-chan time.Time { return c.NewTicker(d).C() }

func realDelay(d time.Duration) time.Duration {
	// preserves the order of virtual durations for timers created together
	r := 300*time.Microsecond + d/20000
	if r > 15*time.Millisecond {
		r = 15 * time.Millisecond
	}
	return r
}

type vtimer struct {
	c       *VClock
	ch      chan time.Time
	mu      sync.Mutex
	gen     int
	active  bool
	stopped bool
}

func (c *VClock) NewTimer(d time.Duration) clock.Timer {
	t := &vtimer{c: c, ch: make(chan time.Time, 1)}
	t.arm(d)
	return t
}

func (t *vtimer) arm(d time.Duration) {
	t.mu.Lock()
	t.gen++
	gen := t.gen
	t.active = true
	t.mu.Unlock()
	deadline := t.c.Now().Add(d)
	go func() {
		time.Sleep(realDelay(d))
		t.mu.Lock()
		if !t.active || t.gen != gen {
			t.mu.Unlock()
			return
		}
		t.active = false
		t.mu.Unlock()
		t.c.advanceTo(deadline, d)
		select {
		case t.ch <- t.c.Now():
		default:
		}
	}()
}

func (t *vtimer) C() <-chan time.Time { return t.ch }

func (t *vtimer) Stop() bool {
	t.mu.Lock()
	defer t.mu.Unlock()
	was := t.active
	t.active = false
	return was
}

func (t *vtimer) Reset(d time.Duration) bool {
	was := t.Stop()
	t.arm(d)
	return was
}

type vticker struct {
	c    *VClock
	ch   chan time.Time
	stop chan struct{}
}

// NewTicker: tickers are not used on any path the properties constrain; a slow real-time ticker
// that steps virtual time is enough.
func (c *VClock) NewTicker(d time.Duration) clock.Ticker {
	t := &vticker{c: c, ch: make(chan time.Time, 1), stop: make(chan struct{})}
	go func() {
		for {
			select {
			case <-t.stop:
				return
			case <-time.After(realDelay(d)):
				c.advanceTo(c.Now().Add(d), d)
				select {
				case t.ch <- c.Now():
				default:
				}
			}
		}
	}()
	return t
}

func (t *vticker) C() <-chan time.Time { return t.ch }
func (t *vticker) Stop()               { close(t.stop) }
