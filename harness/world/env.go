package world

import (
	"context"
	"fmt"
	"math/rand"
	"sort"
	"sync"
	"time"

	"github.com/go-logr/logr"
	appsv1 "k8s.io/api/apps/v1"
	corev1 "k8s.io/api/core/v1"
	"k8s.io/apimachinery/pkg/types"
	utilrand "k8s.io/apimachinery/pkg/util/rand"
	"sigs.k8s.io/controller-runtime/pkg/client"
	ctrllog "sigs.k8s.io/controller-runtime/pkg/log"
	"sigs.k8s.io/controller-runtime/pkg/reconcile"

	v1 "sigs.k8s.io/karpenter/pkg/apis/v1"
	"sigs.k8s.io/karpenter/pkg/controllers/dynamicresources/deviceallocation"
	"sigs.k8s.io/karpenter/pkg/controllers/nodeclaim/lifecycle"
	"sigs.k8s.io/karpenter/pkg/controllers/provisioning"
	"sigs.k8s.io/karpenter/pkg/controllers/state"
	"sigs.k8s.io/karpenter/pkg/controllers/state/informer"
	"sigs.k8s.io/karpenter/pkg/events"
	"sigs.k8s.io/karpenter/pkg/operator/options"
	"sigs.k8s.io/karpenter/pkg/state/cost"
	"sigs.k8s.io/karpenter/pkg/state/nodepoolhealth"
	"sigs.k8s.io/karpenter/pkg/state/virtualpods"
	"sigs.k8s.io/karpenter/pkg/test"
)

func init() {
	ctrllog.SetLogger(logr.Discard())
}

// Epoch is the virtual start time of every case (a Monday, 00:00 UTC).
var Epoch = time.Date(2030, 1, 7, 0, 0, 0, 0, time.UTC)

// Recorder collects published events (reason + message only; no object aliasing).
type Recorder struct {
	mu     sync.Mutex
	Counts map[string]int
	Msgs   []string
}

func (r *Recorder) Publish(evts ...events.Event) {
	r.mu.Lock()
	defer r.mu.Unlock()
	for _, e := range evts {
		r.Counts[e.Reason]++
		if len(r.Msgs) < 2000 {
			r.Msgs = append(r.Msgs, e.Reason+": "+e.Message)
		}
	}
}

func (r *Recorder) Count(reason string) int {
	r.mu.Lock()
	defer r.mu.Unlock()
	return r.Counts[reason]
}

// Env is one world: API, clock, provider and the in-memory Karpenter components built over them.
type Env struct {
	Ctx      context.Context
	Opts     *options.Options
	Clock    *VClock
	API      *API
	Provider *Provider
	Rng      *rand.Rand
	Recorder *Recorder

	// in-memory components (rebuilt by Restart)
	Cluster     *state.Cluster
	ClusterCost *cost.ClusterCost
	DeviceAlloc *deviceallocation.Controller
	VPods       *virtualpods.Cache
	Prov        *provisioning.Provisioner
	NodeInf     *informer.NodeController
	ClaimInf    *informer.NodeClaimController
	PodInf      *informer.PodController
	DSInf       *informer.DaemonSetController
	PoolInf     *informer.NodePoolController

	NPHealth  *nodepoolhealth.State
	lifecycle *lifecycle.Controller

	known map[string]map[string]bool // kind -> keys delivered and not yet seen deleted
	// Rebuild hooks registered by property packages to rebuild their controllers after a restart.
	OnRestart []func()
}

// NewEnv builds a world. Overrides are merged into test.Options().
func NewEnv(rng *rand.Rand, overrides ...test.OptionsFields) *Env {
	utilrand.Seed(rng.Int63())
	e := &Env{Rng: rng}
	e.Opts = test.Options(overrides...)
	e.Ctx = options.ToContext(context.Background(), e.Opts)
	e.Clock = NewVClock(Epoch)
	e.API = NewAPI(e.Clock)
	e.Provider = NewProvider(e.API, e.Clock, rand.New(rand.NewSource(rng.Int63())))
	e.Recorder = &Recorder{Counts: map[string]int{}}
	e.buildMemory()
	return e
}

func (e *Env) buildMemory() {
	e.Cluster = state.NewCluster(e.Clock, e.API.Client, e.Provider)
	e.ClusterCost = cost.NewClusterCost(e.Ctx, e.Provider, e.API.Client)
	e.DeviceAlloc = deviceallocation.NewController(e.API.Client)
	e.VPods = virtualpods.NewVirtualPodCache(e.API.Client)
	e.Prov = provisioning.NewProvisioner(e.API.Client, e.Recorder, e.Provider, e.Cluster, e.Clock, e.DeviceAlloc, e.VPods)
	e.NodeInf = informer.NewNodeController(e.API.Client, e.Cluster)
	e.ClaimInf = informer.NewNodeClaimController(e.API.Client, e.Provider, e.Cluster, e.ClusterCost)
	e.PodInf = informer.NewPodController(e.API.Client, e.Cluster)
	e.DSInf = informer.NewDaemonSetController(e.API.Client, e.Cluster)
	e.PoolInf = informer.NewNodePoolController(e.API.Client, e.Provider, e.Cluster, e.ClusterCost)
	e.known = map[string]map[string]bool{}
	e.NPHealth = nodepoolhealth.NewState()
	e.lifecycle = nil
}

// Restart throws away every in-memory component and rebuilds it over the same API and provider
// state (= controller process restart).
func (e *Env) Restart() {
	e.API.ClearCrash()
	e.buildMemory()
	for _, f := range e.OnRestart {
		f()
	}
}

func req(ns, name string) reconcile.Request {
	return reconcile.Request{NamespacedName: types.NamespacedName{Namespace: ns, Name: name}}
}

// Request is one pending informer delivery.
type Request struct {
	Kind string // Node NodeClaim Pod DaemonSet NodePool
	NS   string
	Name string
}

func (r Request) String() string { return r.Kind + ":" + r.NS + "/" + r.Name }

// Deliver hands one reconcile request to the matching state informer.
func (e *Env) Deliver(r Request) error {
	var err error
	switch r.Kind {
	case "Node":
		_, err = e.NodeInf.Reconcile(e.Ctx, req("", r.Name))
	case "NodeClaim":
		_, err = e.ClaimInf.Reconcile(e.Ctx, req("", r.Name))
	case "Pod":
		_, err = e.PodInf.Reconcile(e.Ctx, req(r.NS, r.Name))
	case "DaemonSet":
		_, err = e.DSInf.Reconcile(e.Ctx, req(r.NS, r.Name))
	case "NodePool":
		_, err = e.PoolInf.Reconcile(e.Ctx, req("", r.Name))
	}
	return err
}

// PendingRequests lists a request for every object currently in the API plus a deletion
// notification for every object delivered before that no longer exists.
func (e *Env) PendingRequests() []Request {
	ctx := context.Background()
	var out []Request
	cur := map[string]map[string]bool{}
	add := func(kind, ns, name string) {
		if cur[kind] == nil {
			cur[kind] = map[string]bool{}
		}
		cur[kind][ns+"/"+name] = true
		out = append(out, Request{kind, ns, name})
	}
	pools := &v1.NodePoolList{}
	_ = e.API.Raw.List(ctx, pools)
	for _, o := range pools.Items {
		add("NodePool", "", o.Name)
	}
	dss := &appsv1.DaemonSetList{}
	_ = e.API.Raw.List(ctx, dss)
	for _, o := range dss.Items {
		add("DaemonSet", o.Namespace, o.Name)
	}
	ncs := &v1.NodeClaimList{}
	_ = e.API.Raw.List(ctx, ncs)
	for _, o := range ncs.Items {
		add("NodeClaim", "", o.Name)
	}
	nodes := &corev1.NodeList{}
	_ = e.API.Raw.List(ctx, nodes)
	for _, o := range nodes.Items {
		add("Node", "", o.Name)
	}
	pods := &corev1.PodList{}
	_ = e.API.Raw.List(ctx, pods)
	for _, o := range pods.Items {
		add("Pod", o.Namespace, o.Name)
	}
	// deletions
	for kind, keys := range e.known {
		var gone []string
		for k := range keys {
			if !cur[kind][k] {
				gone = append(gone, k)
			}
		}
		sort.Strings(gone)
		for _, k := range gone {
			var ns, name string
			for i := 0; i < len(k); i++ {
				if k[i] == '/' {
					ns, name = k[:i], k[i+1:]
					break
				}
			}
			out = append(out, Request{kind, ns, name})
		}
	}
	e.known = cur
	return out
}

// SyncState delivers every pending request to the informers in canonical order, repeating
// (bounded) until a full pass produces no error. Returns the last errors (nil when quiescent).
func (e *Env) SyncState() error {
	var lastErr error
	for pass := 0; pass < 4; pass++ {
		lastErr = nil
		for _, r := range e.PendingRequests() {
			if err := e.Deliver(r); err != nil {
				lastErr = fmt.Errorf("%s: %w", r, err)
			}
		}
		if lastErr == nil {
			return nil
		}
	}
	return lastErr
}

// Apply creates or updates objects through the un-intercepted client (harness actor), keeping status.
func (e *Env) Apply(objs ...client.Object) {
	ctx := context.Background()
	for _, o := range objs {
		cur := o.DeepCopyObject().(client.Object)
		err := e.API.Raw.Get(ctx, client.ObjectKeyFromObject(o), cur)
		if err != nil {
			e.API.stampNew(o)
			o.SetResourceVersion("")
			if err := e.API.Raw.Create(ctx, o); err != nil {
				panic(fmt.Sprintf("harness Apply create %T %s: %v", o, o.GetName(), err))
			}
			if np, ok := o.(*v1.NodePool); ok {
				e.ReconcilePool(np.Name)
			}
			continue
		}
		o.SetResourceVersion(cur.GetResourceVersion())
		if o.GetUID() == "" {
			o.SetUID(cur.GetUID())
		}
		if ts := o.GetCreationTimestamp(); ts.IsZero() {
			o.SetCreationTimestamp(cur.GetCreationTimestamp())
		}
		before := cur.DeepCopyObject().(client.Object)
		statusCopy := o.DeepCopyObject().(client.Object)
		if err := e.API.Raw.Update(ctx, o); err != nil {
			panic(fmt.Sprintf("harness Apply update %T %s: %v", o, o.GetName(), err))
		}
		// status is a subresource for most kinds: write it separately
		statusCopy.SetResourceVersion(o.GetResourceVersion())
		if err := e.API.Raw.Status().Update(ctx, statusCopy); err == nil {
			o.SetResourceVersion(statusCopy.GetResourceVersion())
		}
		if after := e.API.current(o); after != nil {
			e.API.bumpGeneration(before, after)
		}
		if np, ok := o.(*v1.NodePool); ok {
			e.ReconcilePool(np.Name)
		}
	}
}

// Get reads an object through the un-intercepted client; ok=false when absent.
func (e *Env) Get(o client.Object) bool {
	return e.API.Raw.Get(context.Background(), client.ObjectKeyFromObject(o), o) == nil
}
