package world

import (
	"context"

	"k8s.io/apimachinery/pkg/types"

	v1 "sigs.k8s.io/karpenter/pkg/apis/v1"
	nodepoolreadiness "sigs.k8s.io/karpenter/pkg/controllers/nodepool/readiness"
	nodepoolvalidation "sigs.k8s.io/karpenter/pkg/controllers/nodepool/validation"
)

// ReconcilePool runs the real nodepool validation and readiness controllers for a NodePool, as their watches
// would after every NodePool change (their conditions carry observedGeneration, so the pool is only Ready for
// the provisioner once they have seen the current generation).
func (e *Env) ReconcilePool(name string) {
	val := nodepoolvalidation.NewController(e.Clock, e.API.Client, e.Provider)
	rdy := nodepoolreadiness.NewController(e.Clock, e.API.Client, e.Provider)
	for i := 0; i < 2; i++ {
		np := &v1.NodePool{}
		if e.API.Raw.Get(context.Background(), types.NamespacedName{Name: name}, np) != nil {
			return
		}
		if i == 0 {
			_, _ = val.Reconcile(e.Ctx, np)
		} else {
			_, _ = rdy.Reconcile(e.Ctx, np)
		}
	}
}
