package main

import (
	"context"
	"fmt"
	"math/rand"

	corev1 "k8s.io/api/core/v1"

	v1 "sigs.k8s.io/karpenter/pkg/apis/v1"
	"verif/gen"
	"verif/world"
)

func main() {
	rng := rand.New(rand.NewSource(1))
	np := gen.NodePool(rng, "np1", gen.DefaultPoolCfg())
	out, errs := world.AdmitNodePool(context.Background(), np)
	fmt.Println(errs, out.Spec.Disruption.Budgets, out.Spec.Template.Spec.ExpireAfter)
	for _, r := range []gen.Req{gen.R(gen.LabelGen, corev1.NodeSelectorOpGt, "-3"), gen.R(gen.LabelGen, corev1.NodeSelectorOpLt, "0"), gen.R(gen.LabelGen, v1.NodeSelectorOpGte, "-1"),
		gen.R(gen.LabelTeam, corev1.NodeSelectorOpIn), gen.R("karpenter.sh/nodepool", corev1.NodeSelectorOpIn, "x"), gen.R(gen.LabelTier, corev1.NodeSelectorOpLt, "1")} {
		np2 := np.DeepCopy()
		np2.Spec.Template.Spec.Requirements = []gen.Req{r}
		_, errs := world.AdmitNodePool(context.Background(), np2)
		fmt.Println(r, "=>", errs)
	}
}
