package main

import (
	"fmt"
	"math/rand"
	"os"
	"strconv"

	"verif/props/common"
)

func main() {
	seed, _ := strconv.Atoi(os.Args[1])
	rng := rand.New(rand.NewSource(int64(seed)))
	d := common.BuildDisruption(rng, common.DefaultDCfg())
	fmt.Println("nodes:", d.NodeInfo)
	for i := 0; i < 4; i++ {
		cmds, err, p, pv, _ := d.Round()
		fmt.Println("round", i, "err", err, "panic", p, pv, "cmds", len(cmds), "t", d.Env.Clock.Now().Sub(d.Started))
		for _, c := range cmds {
			fmt.Println("  ", c.String(), c.Reason(), len(c.Candidates), len(c.Replacements))
		}
	}
	fmt.Println(d.Env.Recorder.Counts)
	dbg(d)
}

func init() {
	dbg = func(d *common.DWorld) {
		for _, np := range d.Pools {
			cur := np.DeepCopy()
			d.Env.Get(cur)
			fmt.Println(cur.Name, "replicas", cur.Spec.Replicas, "ready", cur.StatusConditions().Root().Status, cur.Status.Conditions)
		}
	}
}

var dbg func(d *common.DWorld)
