package main

import (
	"fmt"
	"math/rand"

	"verif/gen"
	"verif/world"
)

func main() {
	rng := rand.New(rand.NewSource(3))
	e := world.NewEnv(rng)
	its, _ := gen.Catalog(rng, gen.DefaultCatalogCfg(), "")
	e.Provider.Default = its
	np := gen.NodePool(rng, "np1", gen.DefaultPoolCfg())
	e.Apply(gen.NodeClass(), np)
	for i := 0; i < 6; i++ {
		e.Apply(gen.RandomPod(rng, fmt.Sprintf("p%d", i), gen.DefaultPodCfg()))
	}
	fmt.Println("reqs:", np.Spec.Template.Spec.Requirements, np.Spec.Template.Spec.Taints); for _, it := range its { fmt.Println(it.Name, it.Requirements, len(it.Offerings.Available())) }; fmt.Println("sync:", e.SyncState())
	res, err := e.Prov.Schedule(e.Ctx)
	fmt.Println("err:", err, "new:", len(res.NewNodeClaims), "existing:", len(res.ExistingNodes), "podErrors:", len(res.PodErrors))
	for _, nc := range res.NewNodeClaims {
		fmt.Println(" claim pods", len(nc.Pods), "its", len(nc.InstanceTypeOptions), nc.Requirements)
	}
	for p, err := range res.PodErrors {
		fmt.Println(" err", p.Name, err)
	}
	names, err := e.Prov.CreateNodeClaims(e.Ctx, res.NewNodeClaims)
	fmt.Println(names, err, "writes:", e.API.Writes, "reads:", e.API.Reads)
	for _, ev := range e.API.Log() {
		fmt.Println(ev.Seq, ev.Verb, ev.Kind, ev.Key, ev.Caller, ev.Err)
	}
	fmt.Println("synced:", e.Cluster.Synced(e.Ctx))
}
