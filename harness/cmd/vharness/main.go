// vharness is the child process: it executes one batch of cases of one property against the
// real Karpenter code and writes a report. One panic here ends only this batch.
package main

import (
	"encoding/json"
	"flag"
	"fmt"
	"math/rand"
	"os"
	"time"

	"verif/mon"
	"verif/props/reg"

	_ "verif/props/all"
)

func main() {
	prop := flag.String("prop", "", "property id")
	tier := flag.String("tier", "quick", "quick|thorough")
	seed := flag.Int64("seed", 1, "VERIF_SEED")
	batch := flag.Int("batch", 0, "batch index")
	nbatch := flag.Int("nbatch", 1, "number of batches")
	out := flag.String("out", "", "report path")
	only := flag.Int("case", -1, "run only this case index (replay)")
	list := flag.Bool("list", false, "list properties")
	info := flag.String("info", "", "print metadata of a property as JSON")
	limit := flag.Int("limit", 0, "stop after this many cases of the batch (race pass)")
	flag.Parse()
	if *info != "" {
		p := reg.Props[*info]
		if p == nil {
			os.Exit(3)
		}
		b, _ := json.Marshal(map[string]any{"id": p.ID, "level": p.Level, "rule": p.Rule, "race": p.Race, "race_is_violation": p.RaceIsViolation,
			"race_frac": p.RaceFrac, "min_observed": p.MinObserved, "cases": map[string]int{"quick": p.Cases("quick"), "thorough": p.Cases("thorough")}})
		fmt.Println(string(b))
		return
	}
	if *list {
		for id, p := range reg.Props {
			fmt.Printf("%s %s race=%v\n", id, p.Level, p.Race)
		}
		return
	}
	p := reg.Props[*prop]
	if p == nil {
		fmt.Fprintf(os.Stderr, "unknown property %q\n", *prop)
		os.Exit(3)
	}
	r := mon.NewReport(p.ID, *tier, *seed, *batch)
	r.Level, r.Rule = p.Level, p.Rule
	n := p.Cases(*tier)
	start := time.Now()
	done := 0
	for i := 0; i < n; i++ {
		if *only >= 0 && i != *only {
			continue
		}
		if *only < 0 && i%*nbatch != *batch {
			continue
		}
		if *limit > 0 && done >= *limit {
			break
		}
		done++
		b, _ := json.Marshal(map[string]any{"prop": p.ID, "tier": *tier, "seed": *seed, "case": i})
		fmt.Printf("CASE-BEGIN %s\n", b)
		r.SetCase(i)
		rng := rand.New(rand.NewSource(reg.CaseSeed(*seed, i)))
		p.Run(r, *tier, i, rng)
		fmt.Printf("CASE-END %d\n", i)
	}
	if p.Finish != nil {
		p.Finish(r, *tier)
	}
	r.Extra["child_wall_s"] = time.Since(start).Seconds()
	if *out != "" {
		if err := r.Write(*out); err != nil {
			fmt.Fprintln(os.Stderr, "write report:", err)
			os.Exit(3)
		}
	}
	fmt.Printf("BATCH-DONE prop=%s batch=%d evaluations=%d violations=%d\n", p.ID, *batch, r.Evaluations, len(r.Violations))
}
