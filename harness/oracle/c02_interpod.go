package oracle

// C02 realisation checker: inter-pod constraints (required pod anti-affinity in both directions, required pod
// affinity, DoNotSchedule topology spread) judged on ONE fully concrete world (every node has concrete labels).
// Written from the Kubernetes documentation semantics (pod (anti-)affinity, topology spread constraints incl.
// minDomains, nodeAffinityPolicy, nodeTaintsPolicy, matchLabelKeys, namespaces / namespaceSelector); it shares no
// code with Karpenter's topology implementation. Wherever kube-scheduler and Karpenter legitimately read the rules
// differently, the checker evaluates every defensible reading and reports only what is wrong under all of them.

import (
	"encoding/json"
	"fmt"
	"sort"
	"strings"

	corev1 "k8s.io/api/core/v1"
	metav1 "k8s.io/apimachinery/pkg/apis/meta/v1"
	"k8s.io/apimachinery/pkg/labels"
	"k8s.io/apimachinery/pkg/selection"
	"k8s.io/component-helpers/scheduling/corev1/nodeaffinity"
)

// IPNode is a node of the final world: an existing node or a new NodeClaim.
type IPNode struct {
	ID        string
	Kind      string            // new | unmanaged | launched | node-appeared | registered | initialized | other
	New       bool              // new NodeClaim of this scheduling pass
	Deleting  bool              // existing node that is being removed (its reschedulable pods are part of the batch)
	Labels    map[string]string // labels that do not depend on the realisation
	Taints    []corev1.Taint    // taints kube-scheduler will (eventually) see
	RawTaints []corev1.Taint    // taints incl. startup / ephemeral ones (alternative reading for nodeTaintsPolicy=Honor)
	// Options: label tuples (over the enumerated keys) the launch of a new NodeClaim can produce. Existing nodes have none.
	Options []map[string]string
	// EmptiedKeys (classification only): keys whose final NodeClaim requirement is the empty set (reported as
	// DoesNotExist) although neither the NodePool nor a pod on the claim asked for DoesNotExist.
	EmptiedKeys map[string]bool
	// ComplementKeys (classification only): keys on which the NodePool of a new NodeClaim, or of an in-flight NodeClaim
	// that has no Node object yet, has an Exists / NotIn / Gt / Lt requirement, so that the value of the node's label
	// cannot be foreseen from the NodePool (and no Node carries it yet).
	ComplementKeys map[string]bool
	// MultiValuedKeys (classification only): keys whose final NodeClaim requirement still admits several values.
	MultiValuedKeys map[string]bool
}

// IPPod is a pod of the final world.
type IPPod struct {
	Orig   *corev1.Pod // stored, unrelaxed spec
	Copy   *corev1.Pod // the copy the scheduler placed (relaxed); Orig for bound pods
	Node   int
	Placed bool // placed by this scheduling pass (false: already bound)
}

// IPFinding is one refutation found in a concrete world.
type IPFinding struct {
	Class  string // violation key
	ID     string // identity of the instance (stable across realisations)
	What   string
	Detail map[string]any
}

type aaPair struct {
	p, q, term int
	key        string
	dir        string // placed-placed | placed-bound | inverse-bound-placed
}

type affTerm struct {
	p, term int
	key     string
	matches []int
	self    bool
}

type spreadGroup struct {
	sig       string
	key       string
	c         corev1.TopologySpreadConstraint
	members   []int        // placed pods carrying the constraint (same signature)
	matches   map[int]bool // pods selected by the constraint (namespace + selector + matchLabelKeys)
	allKeys   []string     // topology keys of all DoNotSchedule constraints of the carrier
	honorAff  bool
	honorTnt  bool
	affDiffer bool   // "all OR-terms of the stored pod" and "first remaining term of the placed copy" differ
	coreSig   string // signature without minDomains (classification only)
}

// InterPod is the realisation-independent part of the check.
type InterPod struct {
	Nodes    []IPNode
	Pods     []IPPod
	NS       map[string]map[string]string
	aa       []aaPair
	aff      []affTerm
	groups   []*spreadGroup
	Involved []bool // per pod: carries or is selected by a judged constraint
	Counters map[string]int
	// Batch: stored specs of every pod handed to the scheduler in this pass (placed or not); classification only.
	Batch []*corev1.Pod
	// Respect: preferences are treated as required until relaxed (classification only).
	Respect bool
}

func selectorOf(ls *metav1.LabelSelector) labels.Selector {
	if ls == nil {
		return labels.Nothing() // a nil selector selects nothing
	}
	s, err := metav1.LabelSelectorAsSelector(ls)
	if err != nil {
		return labels.Nothing()
	}
	return s
}

// termNamespaces: namespaces ∪ namespaces selected by namespaceSelector; both unset ⇒ the pod's own namespace.
func termNamespaces(ns map[string]map[string]string, podNS string, t *corev1.PodAffinityTerm) map[string]bool {
	out := map[string]bool{}
	if len(t.Namespaces) == 0 && t.NamespaceSelector == nil {
		out[podNS] = true
		return out
	}
	for _, n := range t.Namespaces {
		out[n] = true
	}
	if t.NamespaceSelector != nil {
		sel := selectorOf(t.NamespaceSelector)
		for n, l := range ns {
			if sel.Matches(labels.Set(l)) {
				out[n] = true
			}
		}
	}
	return out
}

func requiredAntiAffinity(p *corev1.Pod) []corev1.PodAffinityTerm {
	if p.Spec.Affinity == nil || p.Spec.Affinity.PodAntiAffinity == nil {
		return nil
	}
	return p.Spec.Affinity.PodAntiAffinity.RequiredDuringSchedulingIgnoredDuringExecution
}

func requiredAffinity(p *corev1.Pod) []corev1.PodAffinityTerm {
	if p.Spec.Affinity == nil || p.Spec.Affinity.PodAffinity == nil {
		return nil
	}
	return p.Spec.Affinity.PodAffinity.RequiredDuringSchedulingIgnoredDuringExecution
}

// DoNotScheduleSpreads returns the hard spread constraints of a pod.
func DoNotScheduleSpreads(p *corev1.Pod) []corev1.TopologySpreadConstraint {
	var out []corev1.TopologySpreadConstraint
	for _, c := range p.Spec.TopologySpreadConstraints {
		if c.WhenUnsatisfiable == corev1.DoNotSchedule {
			out = append(out, c)
		}
	}
	return out
}

// spreadSelector: labelSelector AND (for each matchLabelKeys key present on the incoming pod) key=value.
func spreadSelector(p *corev1.Pod, c *corev1.TopologySpreadConstraint) labels.Selector {
	if c.LabelSelector == nil {
		return labels.Nothing()
	}
	sel := selectorOf(c.LabelSelector)
	for _, k := range c.MatchLabelKeys {
		if v, ok := p.Labels[k]; ok {
			if r, err := labels.NewRequirement(k, selection.In, []string{v}); err == nil {
				sel = sel.Add(*r)
			}
		}
	}
	return sel
}

// firstTermOnly returns a pod carrying the nodeSelector and only the first required node-affinity term of p.
func firstTermOnly(p *corev1.Pod) *corev1.Pod {
	q := &corev1.Pod{ObjectMeta: p.ObjectMeta}
	q.Spec.NodeSelector = p.Spec.NodeSelector
	q.Spec.Tolerations = p.Spec.Tolerations
	if p.Spec.Affinity != nil && p.Spec.Affinity.NodeAffinity != nil && p.Spec.Affinity.NodeAffinity.RequiredDuringSchedulingIgnoredDuringExecution != nil {
		terms := p.Spec.Affinity.NodeAffinity.RequiredDuringSchedulingIgnoredDuringExecution.NodeSelectorTerms
		if len(terms) > 0 {
			q.Spec.Affinity = &corev1.Affinity{NodeAffinity: &corev1.NodeAffinity{RequiredDuringSchedulingIgnoredDuringExecution: &corev1.NodeSelector{NodeSelectorTerms: terms[:1]}}}
		}
	}
	return q
}

// SpreadCoreSig identifies a spread constraint of pod p up to minDomains and whenUnsatisfiable (classification only).
func SpreadCoreSig(p *corev1.Pod, c *corev1.TopologySpreadConstraint) string {
	honorAff := c.NodeAffinityPolicy == nil || *c.NodeAffinityPolicy == corev1.NodeInclusionPolicyHonor
	honorTnt := c.NodeTaintsPolicy != nil && *c.NodeTaintsPolicy == corev1.NodeInclusionPolicyHonor
	parts := []string{p.Namespace, c.TopologyKey, fmt.Sprint(c.MaxSkew), spreadSelector(p, c).String(), fmt.Sprint(honorAff), fmt.Sprint(honorTnt)}
	if honorAff {
		parts = append(parts, nodeAffinityJSON(p))
	}
	if honorTnt {
		b, _ := json.Marshal(p.Spec.Tolerations)
		parts = append(parts, string(b))
	}
	return strings.Join(parts, "|")
}

func nodeAffinityJSON(p *corev1.Pod) string {
	var req *corev1.NodeSelector
	if p.Spec.Affinity != nil && p.Spec.Affinity.NodeAffinity != nil {
		req = p.Spec.Affinity.NodeAffinity.RequiredDuringSchedulingIgnoredDuringExecution
	}
	b, _ := json.Marshal([]any{p.Spec.NodeSelector, req})
	return string(b)
}

// NewInterPod precomputes everything that does not depend on the concrete labels of new nodes.
func NewInterPod(nodes []IPNode, pods []IPPod, ns map[string]map[string]string) *InterPod {
	w := &InterPod{Nodes: nodes, Pods: pods, NS: ns, Involved: make([]bool, len(pods)), Counters: map[string]int{}}
	// (anti-)affinity terms
	for i := range pods {
		p := pods[i].Orig
		for ti, t := range requiredAntiAffinity(p) {
			t := t
			nss := termNamespaces(ns, p.Namespace, &t)
			sel := selectorOf(t.LabelSelector)
			for j := range pods {
				if i == j || (!pods[i].Placed && !pods[j].Placed) {
					continue
				}
				q := pods[j].Orig
				if !nss[q.Namespace] || !sel.Matches(labels.Set(q.Labels)) {
					continue
				}
				dir := "placed-placed"
				if pods[i].Placed && !pods[j].Placed {
					dir = "placed-bound"
				} else if !pods[i].Placed {
					dir = "inverse-bound-placed"
				}
				w.aa = append(w.aa, aaPair{p: i, q: j, term: ti, key: t.TopologyKey, dir: dir})
				w.Involved[i], w.Involved[j] = true, true
			}
			if pods[i].Placed {
				w.Involved[i] = true
			}
		}
		if !pods[i].Placed {
			continue
		}
		for ti, t := range requiredAffinity(p) {
			t := t
			nss := termNamespaces(ns, p.Namespace, &t)
			sel := selectorOf(t.LabelSelector)
			at := affTerm{p: i, term: ti, key: t.TopologyKey, self: nss[p.Namespace] && sel.Matches(labels.Set(p.Labels))}
			for j := range pods {
				if i == j {
					continue
				}
				q := pods[j].Orig
				if nss[q.Namespace] && sel.Matches(labels.Set(q.Labels)) {
					at.matches = append(at.matches, j)
					w.Involved[j] = true
				}
			}
			w.Involved[i] = true
			w.aff = append(w.aff, at)
		}
	}
	// spread groups
	bySig := map[string]*spreadGroup{}
	for i := range pods {
		if !pods[i].Placed {
			continue
		}
		p := pods[i].Orig
		dns := DoNotScheduleSpreads(p)
		var allKeys []string
		for _, c := range dns {
			allKeys = append(allKeys, c.TopologyKey)
		}
		sort.Strings(allKeys)
		for ci := range dns {
			c := dns[ci]
			sel := spreadSelector(p, &c)
			honorAff := c.NodeAffinityPolicy == nil || *c.NodeAffinityPolicy == corev1.NodeInclusionPolicyHonor
			honorTnt := c.NodeTaintsPolicy != nil && *c.NodeTaintsPolicy == corev1.NodeInclusionPolicyHonor
			md := int32(0)
			if c.MinDomains != nil {
				md = *c.MinDomains
			}
			parts := []string{p.Namespace, c.TopologyKey, fmt.Sprint(c.MaxSkew), fmt.Sprint(md), sel.String(), fmt.Sprint(honorAff), fmt.Sprint(honorTnt), strings.Join(allKeys, ",")}
			if honorAff {
				parts = append(parts, nodeAffinityJSON(p), nodeAffinityJSON(pods[i].Copy))
			}
			if honorTnt {
				b, _ := json.Marshal(p.Spec.Tolerations)
				parts = append(parts, string(b))
			}
			sig := strings.Join(parts, "|")
			g := bySig[sig]
			if g == nil {
				g = &spreadGroup{sig: sig, key: c.TopologyKey, c: c, matches: map[int]bool{}, allKeys: allKeys, honorAff: honorAff, honorTnt: honorTnt,
					affDiffer: honorAff && nodeAffinityJSON(p) != nodeAffinityJSON(firstTermOnly(pods[i].Copy)),
					coreSig:   SpreadCoreSig(p, &c)}
				for j := range pods {
					q := pods[j].Orig
					if q.Namespace == p.Namespace && sel.Matches(labels.Set(q.Labels)) {
						g.matches[j] = true
					}
				}
				bySig[sig] = g
				w.groups = append(w.groups, g)
			}
			g.members = append(g.members, i)
			w.Involved[i] = true
			for j := range g.matches {
				w.Involved[j] = true
			}
		}
	}
	return w
}

// TopologyKeys returns the topology keys of judged constraints and the node-label keys referenced by the node
// affinity of Honor-policy spread carriers (their eligibility depends on them).
func (w *InterPod) TopologyKeys() map[string]bool {
	out := map[string]bool{}
	for _, a := range w.aa {
		out[a.key] = true
	}
	for _, a := range w.aff {
		out[a.key] = true
	}
	for _, g := range w.groups {
		out[g.key] = true
		for _, k := range g.allKeys {
			out[k] = true
		}
		if g.honorAff {
			for _, m := range g.members {
				for _, pod := range []*corev1.Pod{w.Pods[m].Orig, w.Pods[m].Copy} {
					for k := range pod.Spec.NodeSelector {
						out[k] = true
					}
					if pod.Spec.Affinity != nil && pod.Spec.Affinity.NodeAffinity != nil && pod.Spec.Affinity.NodeAffinity.RequiredDuringSchedulingIgnoredDuringExecution != nil {
						for _, t := range pod.Spec.Affinity.NodeAffinity.RequiredDuringSchedulingIgnoredDuringExecution.NodeSelectorTerms {
							for _, e := range t.MatchExpressions {
								out[e.Key] = true
							}
						}
					}
				}
			}
		}
	}
	return out
}

// Antecedents reports how many constraint instances of each kind exist (realisation independent).
func (w *InterPod) Antecedents() map[string]int {
	out := map[string]int{}
	for _, a := range w.aa {
		out["anti_affinity_pairs:"+a.dir]++
	}
	for _, a := range w.aff {
		if a.self {
			out["affinity_terms:self-matching"]++
		} else {
			out["affinity_terms:not-self-matching"]++
		}
	}
	for _, g := range w.groups {
		out["spread_groups"]++
		out["spread_carriers"] += len(g.members)
		if g.c.MinDomains != nil {
			out["spread_groups:minDomains"]++
		}
		if !g.honorAff {
			out["spread_groups:nodeAffinityPolicy=Ignore"]++
		} else if g.c.NodeAffinityPolicy != nil {
			out["spread_groups:nodeAffinityPolicy=Honor(explicit)"]++
		}
		if g.honorTnt {
			out["spread_groups:nodeTaintsPolicy=Honor"]++
		} else if g.c.NodeTaintsPolicy != nil {
			out["spread_groups:nodeTaintsPolicy=Ignore(explicit)"]++
		}
		if len(g.c.MatchLabelKeys) > 0 {
			out["spread_groups:matchLabelKeys"]++
		}
		self := false
		for _, m := range g.members {
			if g.matches[m] {
				self = true
			}
		}
		if !self {
			out["spread_groups:not-self-selecting"]++
		}
	}
	return out
}

func keyKind(k string) string {
	switch k {
	case corev1.LabelTopologyZone:
		return "zone"
	case corev1.LabelHostname:
		return "hostname"
	case "karpenter.sh/capacity-type":
		return "capacity-type"
	}
	return "custom"
}

func domain(n *IPNode, lbls map[string]string, key string) (string, bool) {
	// (the caller gives new NodeClaims and in-flight managed nodes the hostname label their kubelet will set; an
	// existing Node object that really lacks a label has no domain for that key)
	if v, ok := lbls[key]; ok {
		return v, true
	}
	return "", false
}

func (w *InterPod) targetKinds(a, b int) string {
	ks := []string{"existing", "existing"}
	if w.Nodes[w.Pods[a].Node].New {
		ks[0] = "new"
	}
	if w.Nodes[w.Pods[b].Node].New {
		ks[1] = "new"
	}
	sort.Strings(ks)
	return ks[0] + "+" + ks[1]
}

// usable: can pod p use topology value v of key (judged on the key alone, with the node constraints the placed
// copy still carries: nodeSelector AND the first remaining required term)?
func usable(p *corev1.Pod, key, v string) bool {
	if s, ok := p.Spec.NodeSelector[key]; ok && s != v {
		return false
	}
	if p.Spec.Affinity != nil && p.Spec.Affinity.NodeAffinity != nil && p.Spec.Affinity.NodeAffinity.RequiredDuringSchedulingIgnoredDuringExecution != nil {
		terms := p.Spec.Affinity.NodeAffinity.RequiredDuringSchedulingIgnoredDuringExecution.NodeSelectorTerms
		if len(terms) > 0 {
			for _, e := range terms[0].MatchExpressions {
				if e.Key == key && !Admits(string(e.Operator), e.Values, v, true) {
					return false
				}
			}
		}
	}
	return true
}

// negativeSuffix (classification only): some pod placed on existing node ni carries a NotIn / DoesNotExist node
// requirement on the key, i.e. a requirement that a node WITHOUT the label satisfies.
func (w *InterPod) negativeSuffix(ni int, key string) string {
	if w.Nodes[ni].New {
		return ":new-node"
	}
	for _, p := range w.Pods {
		if !p.Placed || p.Node != ni || p.Copy.Spec.Affinity == nil || p.Copy.Spec.Affinity.NodeAffinity == nil || p.Copy.Spec.Affinity.NodeAffinity.RequiredDuringSchedulingIgnoredDuringExecution == nil {
			continue
		}
		for _, t := range p.Copy.Spec.Affinity.NodeAffinity.RequiredDuringSchedulingIgnoredDuringExecution.NodeSelectorTerms {
			for _, e := range t.MatchExpressions {
				if e.Key == key && (e.Operator == corev1.NodeSelectorOpNotIn || e.Operator == corev1.NodeSelectorOpDoesNotExist) {
					return ":existing-node-gets-domain-from-pod-NotIn-requirement"
				}
			}
		}
	}
	return ":existing-node"
}

func requiredNodeTerms(p *corev1.Pod) int {
	if p.Spec.Affinity == nil || p.Spec.Affinity.NodeAffinity == nil || p.Spec.Affinity.NodeAffinity.RequiredDuringSchedulingIgnoredDuringExecution == nil {
		return 0
	}
	return len(p.Spec.Affinity.NodeAffinity.RequiredDuringSchedulingIgnoredDuringExecution.NodeSelectorTerms)
}

// relaxedMember (classification only): some carrier of g was placed after a required node-affinity term was relaxed away.
func (w *InterPod) relaxedMember(g *spreadGroup) bool {
	for _, m := range g.members {
		if requiredNodeTerms(w.Pods[m].Copy) < requiredNodeTerms(w.Pods[m].Orig) {
			return true
		}
	}
	return false
}

// minDomainsSiblings: the minDomains values of the spread constraints of the batch that are identical to g's otherwise.
func (w *InterPod) minDomainsSiblings(g *spreadGroup) []*int32 {
	md := func(c *corev1.TopologySpreadConstraint) int32 {
		if c.MinDomains == nil {
			return -1
		}
		return *c.MinDomains
	}
	seen := map[int32]bool{}
	var out []*int32
	for _, p := range w.Batch {
		for i := range p.Spec.TopologySpreadConstraints {
			c := &p.Spec.TopologySpreadConstraints[i]
			if c.WhenUnsatisfiable != corev1.DoNotSchedule && !w.Respect {
				continue
			}
			if md(c) != md(&g.c) && !seen[md(c)] && SpreadCoreSig(p, c) == g.coreSig {
				seen[md(c)] = true
				out = append(out, c.MinDomains)
			}
		}
	}
	return out
}

// sameKeyConstraints counts the topology constraints on key that shape the placement of pod pi: its own spreads and
// (anti-)affinity terms still carried by the placed copy, plus required anti-affinity terms of other pods selecting it.
func (w *InterPod) sameKeyConstraints(pi int, key string) int {
	cp := w.Pods[pi].Copy
	n := 0
	for _, c := range cp.Spec.TopologySpreadConstraints {
		if c.TopologyKey == key && (c.WhenUnsatisfiable == corev1.DoNotSchedule || w.Respect) {
			n++
		}
	}
	if a := cp.Spec.Affinity; a != nil {
		if a.PodAffinity != nil {
			for _, t := range a.PodAffinity.RequiredDuringSchedulingIgnoredDuringExecution {
				if t.TopologyKey == key {
					n++
				}
			}
			if w.Respect {
				for _, t := range a.PodAffinity.PreferredDuringSchedulingIgnoredDuringExecution {
					if t.PodAffinityTerm.TopologyKey == key {
						n++
					}
				}
			}
		}
		if a.PodAntiAffinity != nil {
			for _, t := range a.PodAntiAffinity.RequiredDuringSchedulingIgnoredDuringExecution {
				if t.TopologyKey == key {
					n++
				}
			}
			if w.Respect {
				for _, t := range a.PodAntiAffinity.PreferredDuringSchedulingIgnoredDuringExecution {
					if t.PodAffinityTerm.TopologyKey == key {
						n++
					}
				}
			}
		}
	}
	// inverse direction: required anti-affinity terms of running pods and of EVERY pod of the batch (placed or not:
	// the scheduler tracks them from the start of the pass) that select this pod
	me := w.Pods[pi].Orig
	seen := map[string]bool{}
	others := append([]*corev1.Pod{}, w.Batch...)
	for _, q := range w.Pods {
		if !q.Placed {
			others = append(others, q.Orig)
		}
	}
	for _, o := range others {
		if o.UID == me.UID {
			continue
		}
		for _, t := range requiredAntiAffinity(o) {
			t := t
			if t.TopologyKey != key || !termNamespaces(w.NS, o.Namespace, &t)[me.Namespace] || !selectorOf(t.LabelSelector).Matches(labels.Set(me.Labels)) {
				continue
			}
			k := t.String() + "|" + fmt.Sprint(termNamespaces(w.NS, o.Namespace, &t))
			if !seen[k] {
				seen[k] = true
				n++
			}
		}
	}
	return n
}

// noKeyClass names the class of "constraint carrier on a node without the topology label".
func (w *InterPod) noKeyClass(kind string, pi, ni int, key string) string {
	if w.sameKeyConstraints(pi, key) >= 2 || w.Nodes[ni].EmptiedKeys[key] {
		// several topology constraints on one key each pick a domain; an empty intersection is represented like
		// DoesNotExist and accepted by a node (claim) that lacks the label: root cause of the recorded finding
		return "unsat-conjunction-treated-as-DoesNotExist"
	}
	if !w.Nodes[ni].New {
		// an existing node has no recorded final requirements: the key was emptied on it when another pod placed there
		// in this pass carries several topology constraints on the key (same root cause)
		for qi := range w.Pods {
			if qi != pi && w.Pods[qi].Placed && w.Pods[qi].Node == ni && w.sameKeyConstraints(qi, key) >= 2 {
				return "unsat-conjunction-treated-as-DoesNotExist"
			}
		}
	}
	sfx := w.negativeSuffix(ni, key)
	if sfx == ":existing-node-gets-domain-from-pod-NotIn-requirement" {
		return "constraint-carrier-on-existing-node-without-topology-label:domain-assumed-from-a-pod's-NotIn-requirement"
	}
	return fmt.Sprintf("%s-carrier-on-node-without-topology-key:%s%s", kind, keyKind(key), sfx)
}

func orElse(a, b string) string {
	if a != "" {
		return a
	}
	return b
}

func podRef(p *corev1.Pod) string { return p.Namespace + "/" + p.Name }

// Check judges one concrete world. lbls[i] are the concrete labels of node i in this realisation; nil for a new
// node that is not enumerated (it holds no involved pod; only its possible labels matter, for spread minima).
func (w *InterPod) Check(lbls []map[string]string) []IPFinding {
	var out []IPFinding
	out = append(out, w.checkAntiAffinity(lbls)...)
	out = append(out, w.checkAffinity(lbls)...)
	out = append(out, w.checkSpread(lbls)...)
	return out
}

// (a) required anti-affinity, both directions: a pod with a term and a pod matching it never share the term's domain.
func (w *InterPod) checkAntiAffinity(lbls []map[string]string) []IPFinding {
	var out []IPFinding
	for _, a := range w.aa {
		w.Counters["anti_affinity_pair_checks"]++
		np, nq := w.Pods[a.p].Node, w.Pods[a.q].Node
		dp, okp := domain(&w.Nodes[np], lbls[np], a.key)
		dq, okq := domain(&w.Nodes[nq], lbls[nq], a.key)
		if !okp || !okq || dp != dq {
			continue // nodes lacking the key have no domain: exempt
		}
		p, q := w.Pods[a.p].Orig, w.Pods[a.q].Orig
		out = append(out, IPFinding{
			Class: fmt.Sprintf("anti-affinity-violated:%s:%s:%s", a.dir, keyKind(a.key), w.targetKinds(a.p, a.q)),
			ID:    fmt.Sprintf("aa|%s|%d|%s", p.UID, a.term, q.UID),
			What: fmt.Sprintf("pod %s has a required anti-affinity term (key %s) matching pod %s, yet both end up in domain %q (%s on %s, %s on %s)",
				podRef(p), a.key, podRef(q), dp, p.Name, w.Nodes[np].ID, q.Name, w.Nodes[nq].ID),
			Detail: map[string]any{"term": requiredAntiAffinity(p)[a.term], "holder": podRef(p), "holderNode": w.Nodes[np].ID, "holderPlaced": w.Pods[a.p].Placed,
				"matched": podRef(q), "matchedLabels": q.Labels, "matchedNode": w.Nodes[nq].ID, "matchedPlaced": w.Pods[a.q].Placed, "domain": dp},
		})
	}
	return out
}

// (b) required affinity.
func (w *InterPod) checkAffinity(lbls []map[string]string) []IPFinding {
	var out []IPFinding
	type edge struct{ from, to int }
	var edges []edge
	starter := map[int]bool{}
	cycKey := map[int]string{}
	for _, a := range w.aff {
		w.Counters["affinity_term_checks"]++
		np := w.Pods[a.p].Node
		p := w.Pods[a.p].Orig
		dp, okp := domain(&w.Nodes[np], lbls[np], a.key)
		sat := false
		for _, j := range a.matches {
			nq := w.Pods[j].Node
			if nq == np { // a pod on the same node shares every domain
				sat = true
				break
			}
			if dq, okq := domain(&w.Nodes[nq], lbls[nq], a.key); okp && okq && dq == dp {
				sat = true
				break
			}
		}
		if sat {
			w.Counters["affinity_satisfied_by_other_pod"]++
			continue
		}
		// classification only: a matching pod placed in this pass on a node WITHOUT the label was booked by the scheduler in
		// a fictitious domain; what follows from that shares its root cause
		fict := ""
		for _, j := range a.matches {
			nq := w.Pods[j].Node
			if _, okq := domain(&w.Nodes[nq], lbls[nq], a.key); !okq && w.Pods[j].Placed && !w.Nodes[nq].New {
				fict = w.noKeyClass("affinity", j, nq, a.key)
			}
		}
		term := requiredAffinity(p)[a.term]
		base := map[string]any{"pod": podRef(p), "podLabels": p.Labels, "node": w.Nodes[np].ID, "term": term, "domain": dp, "nodeHasKey": okp}
		if !a.self && okp {
			out = append(out, IPFinding{
				Class:  orElse(fict, fmt.Sprintf("affinity-unsatisfied:%s:%s", keyKind(a.key), map[bool]string{true: "new", false: "existing"}[w.Nodes[np].New])),
				ID:     fmt.Sprintf("aff|%s|%d", p.UID, a.term),
				What:   fmt.Sprintf("pod %s has a required affinity term (key %s) it does not match itself, but its domain %q (node %s) holds no matching pod", podRef(p), a.key, dp, w.Nodes[np].ID),
				Detail: base,
			})
			continue
		}
		if !okp {
			out = append(out, IPFinding{
				Class:  w.noKeyClass("affinity", a.p, np, a.key),
				ID:     fmt.Sprintf("affnokey|%s|%d", p.UID, a.term),
				What:   fmt.Sprintf("pod %s has a required affinity term with topology key %s but is placed on node %s, which has no such label", podRef(p), a.key, w.Nodes[np].ID),
				Detail: base,
			})
			continue
		}
		// first pod of a group: allowed only when no matching pod exists in any domain the pod can use
		w.Counters["affinity_self_start"]++
		starter[a.p] = true
		cycKey[a.p] = a.key
		cp := w.Pods[a.p].Copy
		for _, j := range a.matches {
			nq := w.Pods[j].Node
			dq, okq := domain(&w.Nodes[nq], lbls[nq], a.key)
			if !okq || !usable(cp, a.key, dq) {
				continue
			}
			if !w.Pods[j].Placed {
				q := w.Pods[j].Orig
				d := map[string]any{"existingMatch": podRef(q), "existingMatchNode": w.Nodes[nq].ID, "existingMatchDomain": dq}
				for k, v := range base {
					d[k] = v
				}
				out = append(out, IPFinding{
					Class: orElse(fict, fmt.Sprintf("affinity-self-start-despite-running-match:%s", keyKind(a.key))),
					ID:    fmt.Sprintf("affstart|%s|%d", p.UID, a.term),
					What: fmt.Sprintf("pod %s (matching its own required affinity term, key %s) starts domain %q although running pod %s matches the term in domain %q, which the pod can use",
						podRef(p), a.key, dp, podRef(q), dq),
					Detail: d,
				})
				break
			}
			edges = append(edges, edge{a.p, j})
		}
	}
	// Among pods placed in this pass the commit order is unknown. An order without violation must put p before q for
	// every edge p→q (q matches p's term in a domain p can use, yet p started another domain). A cycle among
	// self-starters therefore refutes every order.
	adj := map[int][]int{}
	for _, e := range edges {
		if starter[e.to] {
			adj[e.from] = append(adj[e.from], e.to)
		}
	}
	state := map[int]int{}
	var cyc []int
	var dfs func(int, []int) bool
	dfs = func(u int, path []int) bool {
		state[u] = 1
		path = append(path, u)
		for _, v := range adj[u] {
			if state[v] == 1 {
				for k, x := range path {
					if x == v {
						cyc = append([]int{}, path[k:]...)
					}
				}
				return true
			}
			if state[v] == 0 && dfs(v, path) {
				return true
			}
		}
		state[u] = 2
		return false
	}
	var roots []int
	for u := range adj {
		roots = append(roots, u)
	}
	sort.Ints(roots)
	for _, u := range roots {
		if state[u] == 0 && dfs(u, nil) {
			var names []string
			var where []string
			sort.Ints(cyc)
			for _, x := range cyc {
				names = append(names, podRef(w.Pods[x].Orig))
				where = append(where, fmt.Sprintf("%s on %s", w.Pods[x].Orig.Name, w.Nodes[w.Pods[x].Node].ID))
			}
			class := "affinity-self-start-in-separate-domains"
			for _, x := range cyc {
				nx := &w.Nodes[w.Pods[x].Node]
				onNode := 0
				for _, q := range w.Pods {
					if q.Node == w.Pods[x].Node {
						onNode++
					}
				}
				// (requirements only narrow: a claim that is single-valued now but took further pods after the starter may
				// have been multi-valued when the starter was committed)
				if nx.New && (nx.MultiValuedKeys[cycKey[x]] || onNode > 1) {
					// a self-starter sits on a NodeClaim whose domain is still multi-valued: it is not counted, so the next pod
					// of the group believes no match exists anywhere
					class = "affinity-self-start-in-separate-domains:first-pod-on-claim-with-multi-valued-domain-is-not-counted"
				}
			}
			if class == "affinity-self-start-in-separate-domains" {
				for _, x := range cyc {
					for _, y := range cyc {
						ny := &w.Nodes[w.Pods[y].Node]
						if x != y && ny.New && ny.MultiValuedKeys[cycKey[x]] {
							// the pod matching x's term sits on a NodeClaim whose domain under x's key is still multi-valued:
							// Topology.Record books nothing for it, so x's group believes no match exists anywhere
							class = "affinity-self-start-in-separate-domains:match-on-new-claim-with-multi-valued-domain-is-not-counted"
						}
					}
				}
			}
			out = append(out, IPFinding{
				Class:  class,
				ID:     "affcycle|" + strings.Join(names, ","),
				What:   fmt.Sprintf("pods %v each match their own required affinity term and each started a domain of its own although the others are in domains they can use: whatever the commit order, one of them was placed in a domain without a match while a match existed elsewhere (%v)", names, where),
				Detail: map[string]any{"pods": names, "placement": where},
			})
			break
		}
	}
	return out
}

type spreadReading struct{ placedAffinity, requireAllKeys, rawTaints, deletingGone bool }

func (w *InterPod) eligible(g *spreadGroup, rep int, n *IPNode, l map[string]string, rd spreadReading) bool {
	if _, ok := domain(n, l, g.key); !ok {
		return false
	}
	if rd.deletingGone && n.Deleting {
		return false // reading: the node is on its way out and no longer part of the cluster kube-scheduler binds in
	}
	if rd.requireAllKeys {
		for _, k := range g.allKeys {
			if _, ok := domain(n, l, k); !ok {
				return false
			}
		}
	}
	if g.honorAff {
		pod := w.Pods[rep].Orig
		if rd.placedAffinity {
			// Karpenter's documented reading: required node-affinity terms are tried one at a time; the placed copy
			// is governed by its first remaining term only
			pod = firstTermOnly(w.Pods[rep].Copy)
		}
		ok, _ := nodeaffinity.GetRequiredNodeAffinity(pod).Match(&corev1.Node{ObjectMeta: metav1.ObjectMeta{Name: n.ID, Labels: l}})
		if !ok {
			return false
		}
	}
	if g.honorTnt {
		ts := n.Taints
		if rd.rawTaints {
			ts = n.RawTaints
		}
		if _, bad := UntoleratedTaint(w.Pods[rep].Orig, ts); bad {
			return false
		}
	}
	return true
}

func merged(a, b map[string]string) map[string]string {
	out := make(map[string]string, len(a)+len(b))
	for k, v := range a {
		out[k] = v
	}
	for k, v := range b {
		out[k] = v
	}
	return out
}

// (c) DoNotSchedule topology spread, final-state necessary condition.
//
// Soundness: fix a group G of placed pods that carry the same constraint with the same eligibility function, a
// domain d that received a member of G, and let p* be the member of G committed to d last. Admission of p* required
// count_then[d] + self(p*) − min_then ≤ maxSkew, where count_then[d] already contains every running matching pod of d
// and every matching member of G placed in d before p* — hence count_then[d] + self(p*) ≥ cntG[d] := running matching
// pods in d + matching members of G in d. Counts never decrease and the universe of eligible domains is the one of
// the final world (the world kube-scheduler binds in), so min_then ≤ min_final (all matching pods counted). Therefore
// cntG[d] − min_final ≤ maxSkew is necessary, whatever the commit order. If minDomains exceeds the number of eligible
// domains of the final world it exceeded it at every earlier moment too, so min is 0 throughout. Matching pods that
// do not carry the constraint may legitimately be added to d afterwards, which is why they are left out of cntG.
// Pre-existing skew on domains that received nothing is not judged.
func (w *InterPod) checkSpread(lbls []map[string]string) []IPFinding {
	var out []IPFinding
	readings := []spreadReading{}
	anyDeleting := false
	for i := range w.Nodes {
		anyDeleting = anyDeleting || w.Nodes[i].Deleting
	}
	for i := 0; i < 16; i++ {
		if i&8 != 0 && !anyDeleting {
			continue
		}
		readings = append(readings, spreadReading{i&1 != 0, i&2 != 0, i&4 != 0, i&8 != 0})
	}
	for gi, g := range w.groups {
		rep := g.members[0]
		p := w.Pods[rep].Orig
		// members on nodes without the topology key: kube-scheduler never admits that
		noKey := ""
		for _, m := range g.members {
			nm := w.Pods[m].Node
			if _, ok := domain(&w.Nodes[nm], lbls[nm], g.key); !ok {
				noKey = w.noKeyClass("spread", m, nm, g.key)
				out = append(out, IPFinding{
					Class:  noKey,
					ID:     fmt.Sprintf("spreadnokey|%s|%d", w.Pods[m].Orig.UID, gi),
					What:   fmt.Sprintf("pod %s carries a DoNotSchedule spread constraint on key %s but is placed on node %s, which has no such label", podRef(w.Pods[m].Orig), g.key, w.Nodes[nm].ID),
					Detail: map[string]any{"pod": podRef(w.Pods[m].Orig), "constraint": g.c, "node": w.Nodes[nm].ID, "nodeLabels": lbls[nm]},
				})
			}
		}
		if noKey == "" {
			// (classification only) a placed pod that MATCHES the group's selector without being a member sits on a node
			// without the label next to a carrier of some constraint on this key: Karpenter booked the node, and with it
			// every matching pod on it, in a fictitious domain, which shifts the minimum this group is measured against
			for pi := range w.Pods {
				nm := w.Pods[pi].Node
				if !w.Pods[pi].Placed || !g.matches[pi] {
					continue
				}
				if _, ok := domain(&w.Nodes[nm], lbls[nm], g.key); ok {
					continue
				}
				if !w.Nodes[nm].New && w.negativeSuffix(nm, g.key) == ":existing-node-gets-domain-from-pod-NotIn-requirement" {
					// (a NotIn of one pod plus a nodeSelector / chosen domain of another on the same unlabelled node)
					noKey = "constraint-carrier-on-existing-node-without-topology-label:domain-assumed-from-a-pod's-NotIn-requirement"
				}
				for _, g2 := range w.groups {
					if g2.key != g.key {
						continue
					}
					for _, m := range g2.members {
						if w.Pods[m].Node == nm && noKey == "" {
							noKey = w.noKeyClass("spread", m, nm, g.key)
						}
					}
				}
			}
		}
		var worst *IPFinding
		flaggedAll := true
		for _, rd := range readings {
			if rd.placedAffinity && !g.affDiffer {
				continue // same as the original-affinity reading
			}
			if rd.rawTaints && !g.honorTnt {
				continue
			}
			if rd.requireAllKeys && len(g.allKeys) < 2 {
				continue
			}
			w.Counters["spread_group_reading_checks"]++
			full := map[string]int{}  // every matching pod on eligible nodes, by domain
			cntG := map[string]int{}  // running matching pods + matching members of G
			recv := map[string]bool{} // domains that received a member of G
			elig := make([]bool, len(w.Nodes))
			forceZero, fzComplement := "", false
			foreseen := map[string]bool{} // classification only: domains not owed to a new node of a pool with Exists / NotIn on the key
			for ni := range w.Nodes {
				n := &w.Nodes[ni]
				if lbls[ni] == nil {
					continue // handled below
				}
				if w.eligible(g, rep, n, lbls[ni], rd) {
					elig[ni] = true
					d, _ := domain(n, lbls[ni], g.key)
					if _, ok := full[d]; !ok {
						full[d] = 0
					}
					if !n.ComplementKeys[g.key] {
						foreseen[d] = true
					}
				}
			}
			member := map[int]bool{}
			for _, m := range g.members {
				member[m] = true
			}
			for pi := range w.Pods {
				ni := w.Pods[pi].Node
				if member[pi] {
					if d, ok := domain(&w.Nodes[ni], lbls[ni], g.key); ok {
						recv[d] = true
					}
				}
				if !g.matches[pi] || !elig[ni] {
					continue
				}
				d, _ := domain(&w.Nodes[ni], lbls[ni], g.key)
				full[d]++
				if !w.Pods[pi].Placed || member[pi] {
					cntG[d]++
				}
			}
			// (classification only) a domain that received a member of G was offered by the scheduler's own domain
			// universe, whatever the pool of the claim that carries it says about the key
			for d := range recv {
				foreseen[d] = true
			}
			// new nodes that are not enumerated hold no matching pod; whichever labels their launch produces, they
			// add an eligible domain with count 0 when that domain is not in the universe yet
			for ni := range w.Nodes {
				n := &w.Nodes[ni]
				if lbls[ni] != nil || forceZero != "" {
					continue
				}
				for _, opt := range n.Options {
					l := merged(n.Labels, opt)
					if !w.eligible(g, rep, n, l, rd) {
						continue
					}
					d, _ := domain(n, l, g.key)
					if _, ok := full[d]; !ok {
						forceZero = fmt.Sprintf("new node %s can open empty eligible domain %q", n.ID, d)
						fzComplement = n.ComplementKeys[g.key]
						break
					}
				}
			}
			if len(full) == 0 {
				flaggedAll = false
				break
			}
			min := int(^uint(0) >> 1)
			for _, c := range full {
				if c < min {
					min = c
				}
			}
			why := ""
			if g.c.MinDomains != nil && len(full) < int(*g.c.MinDomains) {
				min = 0
				why = fmt.Sprintf("eligible domains %d < minDomains %d ⇒ global minimum 0", len(full), *g.c.MinDomains)
			}
			if forceZero != "" && min > 0 {
				min = 0
				why = forceZero
			}
			var bad *IPFinding
			var ds []string
			for d := range recv {
				ds = append(ds, d)
			}
			sort.Strings(ds)
			for _, d := range ds {
				if cntG[d]-min > int(g.c.MaxSkew) {
					quals := ""
					if g.c.MinDomains != nil {
						quals += ":minDomains"
					}
					if !g.honorAff {
						quals += ":nodeAffinityPolicy=Ignore"
					}
					if g.honorTnt {
						quals += ":nodeTaintsPolicy=Honor"
					}
					if len(g.c.MatchLabelKeys) > 0 {
						quals += ":matchLabelKeys"
					}
					var names []string
					for _, m := range g.members {
						names = append(names, fmt.Sprintf("%s@%s", w.Pods[m].Orig.Name, w.Nodes[w.Pods[m].Node].ID))
					}
					class := fmt.Sprintf("spread-maxskew-exceeded:%s%s", keyKind(g.key), quals)
					// ---- root-cause classification (names the key; never decides the verdict) ----
					minOver := func(keep func(string) bool, extraZero bool, md *int32) (int, bool) {
						m, n := int(^uint(0)>>1), 0
						for dd, c := range full {
							if keep(dd) {
								n++
								if c < m {
									m = c
								}
							}
						}
						if n == 0 {
							return 0, false
						}
						if extraZero || (md != nil && n < int(*md)) {
							m = 0
						}
						return m, true
					}
					lateNarrowedMin := func() (int, bool) {
						if !g.honorAff {
							return 0, false
						}
						f2 := map[string]int{}
						for dd, c := range full {
							f2[dd] = c
						}
						extra := false
						g2 := *g
						g2.honorAff = false
						for pi := range w.Pods {
							ni := w.Pods[pi].Node
							n := &w.Nodes[ni]
							if !w.Pods[pi].Placed || !g.matches[pi] || !n.New || elig[ni] || lbls[ni] == nil || !w.eligible(&g2, rep, n, lbls[ni], rd) {
								continue
							}
							dd, _ := domain(n, lbls[ni], g.key)
							f2[dd]++
							extra = true
						}
						if !extra {
							return 0, false
						}
						m := int(^uint(0) >> 1)
						for _, c := range f2 {
							if c < m {
								m = c
							}
						}
						if g.c.MinDomains != nil && len(f2) < int(*g.c.MinDomains) {
							m = 0
						}
						return m, true
					}
					switch {
					case noKey != "":
						// some carriers sit on nodes without the label: Karpenter booked them in a fictitious domain, the
						// excess elsewhere follows from that (same root cause, same key)
						class = noKey
					case w.relaxedMember(g):
						// a carrier's copy lost a required node-affinity OR-term: Topology.Update then builds a NEW spread group
						// (the node filter is part of the group's identity) whose counts start from the running pods only
						class = "spread-maxskew-exceeded:spread-group-rebuilt-after-relaxing-a-node-affinity-term-forgets-pods-placed-in-this-pass"
					default:
						// does the excess vanish without the domains that only exist on new / in-flight nodes of pools whose
						// requirement on the key is Exists / NotIn (their label value cannot be foreseen)?
						// (an unforeseeable domain that holds a matching pod became known to the scheduler when that pod was committed)
						seen := func(dd string) bool { return foreseen[dd] || full[dd] > 0 }
						unseen := fzComplement
						for dd := range full {
							unseen = unseen || !seen(dd)
						}
						m1, ok1 := minOver(seen, forceZero != "" && !fzComplement, g.c.MinDomains)
						m2, ok2 := minOver(func(dd string) bool { return foreseen[dd] }, forceZero != "" && !fzComplement, g.c.MinDomains)
						// (only a custom key: the values of zone / capacity-type come from the offerings and are registered as domains)
						if keyKind(g.key) == "custom" && ((ok1 && unseen && cntG[d]-m1 <= int(g.c.MaxSkew)) || (ok2 && (len(foreseen) < len(full) || fzComplement) && cntG[d]-m2 <= int(g.c.MaxSkew))) {
							class = "spread-maxskew-exceeded:unforeseen-domain-on-new-or-in-flight-node-of-pool-with-Exists-or-NotIn-on-the-custom-key"
						} else if m, ok := lateNarrowedMin(); ok && cntG[d]-m <= int(g.c.MaxSkew) {
							// does it vanish when the matching pods on new NodeClaims that the carriers' node affinity excludes in
							// the end are counted in the domain of their claim? They were booked there while the claim's
							// requirements still intersected the node filter; a pod added later narrowed the claim out of it
							class = "spread-maxskew-exceeded:matching-pods-booked-on-a-new-claim-that-a-later-pod-narrowed-out-of-the-carriers'-node-affinity"
						} else if m, ok := minOver(func(dd string) bool { return usable(w.Pods[rep].Copy, g.key, dd) }, false, g.c.MinDomains); !g.honorAff && ok && cntG[d]-m <= int(g.c.MaxSkew) {
							// does it vanish when the global minimum is taken over the domains the carrier itself may use, as if
							// nodeAffinityPolicy were Honor?
							class = "spread-maxskew-exceeded:nodeAffinityPolicy=Ignore:minimum-taken-over-carrier-admissible-domains-only"
						}
					}
					bad = &IPFinding{
						Class: class,
						ID:    fmt.Sprintf("spread|%s|%d", p.UID, gi),
						What: fmt.Sprintf("DoNotSchedule spread (key %s, maxSkew %d) carried by pods of %s: domain %q ends with %d matching pods (running + carriers) while the global minimum over eligible domains cannot exceed %d (%v)%s",
							g.key, g.c.MaxSkew, podRef(p), d, cntG[d], min, full, map[bool]string{true: "; " + why, false: ""}[why != ""]),
						Detail: map[string]any{"constraint": g.c, "carriers": names, "domain": d, "countCarriersAndRunning": cntG, "countAllMatching": full, "min": min, "minWhy": why,
							"reading": fmt.Sprintf("%+v", rd), "nodeSelector": p.Spec.NodeSelector, "nodeAffinity": nodeAffinityJSON(p), "tolerations": p.Spec.Tolerations},
					}
					break
				}
			}
			if bad == nil {
				flaggedAll = false
				break
			}
			// the class is named after a root cause when any reading attributes the excess to one
			generic := func(c string) bool {
				for _, k := range []string{"zone", "hostname", "custom", "capacity-type"} {
					if strings.HasPrefix(c, "spread-maxskew-exceeded:"+k) {
						return true
					}
				}
				return false
			}
			if worst == nil || (generic(worst.Class) && !generic(bad.Class)) {
				worst = bad
			}
		}
		if flaggedAll && worst != nil {
			out = append(out, *worst)
		}
	}
	return out
}
