// Package oracle holds the independent oracles. They are built from upstream Kubernetes library code
// (node-affinity matcher, toleration matcher, pod request arithmetic) and first-principles code; none
// of them calls the Karpenter function whose verdict they judge.
package oracle

import (
	"fmt"
	"sort"
	"strconv"

	corev1 "k8s.io/api/core/v1"
	"k8s.io/apimachinery/pkg/api/resource"
	metav1 "k8s.io/apimachinery/pkg/apis/meta/v1"
	k8sresource "k8s.io/component-helpers/resource"
	corev1helpers "k8s.io/component-helpers/scheduling/corev1"
	"k8s.io/component-helpers/scheduling/corev1/nodeaffinity"
	"k8s.io/klog/v2"
)

// ConcreteNode is one fully determined node a placement can end up on.
type ConcreteNode struct {
	Name        string
	Labels      map[string]string
	Taints      []corev1.Taint
	Allocatable corev1.ResourceList
}

// PodRequests is the upstream request arithmetic plus the implicit "pods: 1".
func PodRequests(p *corev1.Pod) corev1.ResourceList {
	r := k8sresource.PodRequests(p, k8sresource.PodResourcesOptions{})
	r[corev1.ResourcePods] = resource.MustParse("1")
	return r
}

func Add(dst corev1.ResourceList, src corev1.ResourceList) {
	for k, v := range src {
		cur := dst[k]
		cur.Add(v)
		dst[k] = cur
	}
}

// Fits reports whether req <= alloc for every requested resource (a missing resource is zero).
func Fits(req, alloc corev1.ResourceList) (bool, string) {
	keys := make([]string, 0, len(req))
	for k := range req {
		keys = append(keys, string(k))
	}
	sort.Strings(keys)
	for _, k := range keys {
		v := req[corev1.ResourceName(k)]
		if v.IsZero() {
			continue
		}
		a := alloc[corev1.ResourceName(k)]
		if v.Cmp(a) > 0 {
			return false, fmt.Sprintf("resource %s: requested %s > allocatable %s", k, v.String(), a.String())
		}
	}
	return true, ""
}

// MatchesNodeAffinity: nodeSelector AND required node affinity (OR over terms) via the upstream matcher.
func MatchesNodeAffinity(p *corev1.Pod, n ConcreteNode) bool {
	node := &corev1.Node{ObjectMeta: metav1.ObjectMeta{Name: n.Name, Labels: n.Labels}}
	ok, _ := nodeaffinity.GetRequiredNodeAffinity(p).Match(node)
	return ok
}

// UntoleratedTaint returns the first NoSchedule/NoExecute taint the pod does not tolerate
// (PreferNoSchedule is soft in Kubernetes).
func UntoleratedTaint(p *corev1.Pod, taints []corev1.Taint) (corev1.Taint, bool) {
	return corev1helpers.FindMatchingUntoleratedTaint(klog.Background(), taints, p.Spec.Tolerations, func(t *corev1.Taint) bool {
		return t.Effect == corev1.TaintEffectNoSchedule || t.Effect == corev1.TaintEffectNoExecute
	}, true)
}

type hostPort struct {
	IP    string
	Port  int32
	Proto corev1.Protocol
}

func hostPorts(p *corev1.Pod) []hostPort {
	var out []hostPort
	add := func(cs []corev1.Container) {
		for _, c := range cs {
			for _, pt := range c.Ports {
				if pt.HostPort == 0 {
					continue
				}
				ip := pt.HostIP
				if ip == "" {
					ip = "0.0.0.0"
				}
				proto := pt.Protocol
				if proto == "" {
					proto = corev1.ProtocolTCP
				}
				out = append(out, hostPort{ip, pt.HostPort, proto})
			}
		}
	}
	add(p.Spec.Containers)
	add(p.Spec.InitContainers)
	return out
}

func wildcard(ip string) bool { return ip == "0.0.0.0" || ip == "::" }

// PortConflict applies the kube-scheduler NodePorts rule: same protocol and port, and equal IPs or
// either side the wildcard address.
func PortConflict(a, b *corev1.Pod) (bool, string) {
	for _, x := range hostPorts(a) {
		for _, y := range hostPorts(b) {
			if x.Port == y.Port && x.Proto == y.Proto && (x.IP == y.IP || wildcard(x.IP) || wildcard(y.IP)) {
				return true, fmt.Sprintf("%s:%d/%s vs %s:%d/%s", x.IP, x.Port, x.Proto, y.IP, y.Port, y.Proto)
			}
		}
	}
	return false, ""
}

// AdmitResult explains a refusal.
type AdmitResult struct {
	OK  bool
	Why string
}

// AdmitAll checks a set of pods (already there + newly placed + daemons not yet bound) on one
// concrete node: every *checked* pod must match affinity and tolerate taints; no two pods may
// conflict on host ports; the sum of requests must fit allocatable.
//   - placed: the pods whose placement is being judged (original specs)
//   - others: pods that are (or will be) on the node but are not judged themselves (bound pods, daemons)
func AdmitAll(n ConcreteNode, placed []*corev1.Pod, others []*corev1.Pod) AdmitResult {
	return AdmitAllEx(n, placed, others, nil)
}

// AdmitAllEx is AdmitAll with a third group: pods that count for resources only (daemon pods that are
// expected on an existing node but not bound yet; Karpenter reserves their requests, not their ports).
func AdmitAllEx(n ConcreteNode, placed []*corev1.Pod, others []*corev1.Pod, resourceOnly []*corev1.Pod) AdmitResult {
	for _, p := range placed {
		if !MatchesNodeAffinity(p, n) {
			return AdmitResult{false, fmt.Sprintf("pod %s: nodeSelector/required node affinity does not match node labels %v", p.Name, n.Labels)}
		}
		if t, bad := UntoleratedTaint(p, n.Taints); bad {
			return AdmitResult{false, fmt.Sprintf("pod %s: does not tolerate taint %s=%s:%s", p.Name, t.Key, t.Value, t.Effect)}
		}
	}
	all := append(append([]*corev1.Pod{}, placed...), others...)
	for i := range placed {
		for j := range all {
			if j <= i && j < len(placed) {
				continue
			}
			if all[j] == placed[i] {
				continue
			}
			if c, why := PortConflict(placed[i], all[j]); c {
				return AdmitResult{false, fmt.Sprintf("host port conflict between %s and %s: %s", placed[i].Name, all[j].Name, why)}
			}
		}
	}
	total := corev1.ResourceList{}
	for _, p := range all {
		Add(total, PodRequests(p))
	}
	for _, p := range resourceOnly {
		Add(total, PodRequests(p))
	}
	if ok, why := Fits(total, n.Allocatable); !ok {
		return AdmitResult{false, fmt.Sprintf("summed requests of %d pods exceed allocatable: %s", len(all)+len(resourceOnly), why)}
	}
	return AdmitResult{true, ""}
}

// DaemonAdmissible: would the daemonset controller + kube-scheduler run this daemon pod on the node?
func DaemonAdmissible(d *corev1.Pod, n ConcreteNode) bool {
	if !MatchesNodeAffinity(d, n) {
		return false
	}
	// the daemonset controller adds tolerations for not-ready/unreachable/disk/memory/pid/unschedulable/network taints;
	// none of those are persistent taints in generated worlds
	_, bad := UntoleratedTaint(d, n.Taints)
	return !bad
}

// ---- value admission with plain operator semantics ----

// Admits evaluates one node-selector operator on a possibly absent label (Kubernetes semantics + Gte/Lte).
func Admits(op string, vals []string, value string, present bool) bool {
	switch op {
	case "In":
		if !present {
			return false
		}
		for _, v := range vals {
			if v == value {
				return true
			}
		}
		return false
	case "NotIn":
		if !present {
			return true
		}
		for _, v := range vals {
			if v == value {
				return false
			}
		}
		return true
	case "Exists":
		return present
	case "DoesNotExist":
		return !present
	case "Gt", "Lt", "Gte", "Lte":
		if !present || len(vals) != 1 {
			return false
		}
		x, err := strconv.ParseInt(value, 10, 64)
		if err != nil {
			return false
		}
		b, err := strconv.ParseInt(vals[0], 10, 64)
		if err != nil {
			return false
		}
		switch op {
		case "Gt":
			return x > b
		case "Lt":
			return x < b
		case "Gte":
			return x >= b
		default:
			return x <= b
		}
	}
	return false
}

// CollapsedKeys returns the label keys on which the pod's effective constraint — nodeSelector AND the
// match expressions of the FIRST required node-affinity term (the one Karpenter evaluates) — cannot be
// satisfied by any present value although some conjunct requires the label to be present. Karpenter's
// requirement algebra represents such an empty In-set exactly like "DoesNotExist".
func CollapsedKeys(p *corev1.Pod, respectPreferences bool) []string {
	base := map[string][]conj{}
	for k, v := range p.Spec.NodeSelector {
		base[k] = append(base[k], conj{"In", []string{v}})
	}
	var preferred [][]corev1.NodeSelectorRequirement
	if p.Spec.Affinity != nil && p.Spec.Affinity.NodeAffinity != nil {
		na := p.Spec.Affinity.NodeAffinity
		if na.RequiredDuringSchedulingIgnoredDuringExecution != nil {
			terms := na.RequiredDuringSchedulingIgnoredDuringExecution.NodeSelectorTerms
			if len(terms) > 0 {
				for _, e := range terms[0].MatchExpressions {
					base[e.Key] = append(base[e.Key], conj{string(e.Operator), e.Values})
				}
			}
		}
		if respectPreferences && len(na.PreferredDuringSchedulingIgnoredDuringExecution) > 0 {
			// Karpenter treats the heaviest preferred term as required until it is relaxed away (ties: any of them)
			maxW := int32(-1)
			for _, t := range na.PreferredDuringSchedulingIgnoredDuringExecution {
				if t.Weight > maxW {
					maxW = t.Weight
				}
			}
			for _, t := range na.PreferredDuringSchedulingIgnoredDuringExecution {
				if t.Weight == maxW {
					preferred = append(preferred, t.Preference.MatchExpressions)
				}
			}
		}
	}
	seen := map[string]bool{}
	var out []string
	try := func(extra []corev1.NodeSelectorRequirement) {
		byKey := map[string][]conj{}
		for k, v := range base {
			byKey[k] = append([]conj{}, v...)
		}
		for _, e := range extra {
			byKey[e.Key] = append(byKey[e.Key], conj{string(e.Operator), e.Values})
		}
		for _, k := range collapsed(byKey) {
			if !seen[k] {
				seen[k] = true
				out = append(out, k)
			}
		}
	}
	try(nil)
	for _, pt := range preferred {
		try(pt)
	}
	sort.Strings(out)
	return out
}

type conj struct {
	op   string
	vals []string
}

func collapsed(byKey map[string][]conj) []string {
	var out []string
	for k, cs := range byKey {
		needsPresence := false
		universe := []string{"fresh-value-zz"}
		for _, c := range cs {
			if c.op == "In" || c.op == "Exists" || c.op == "Gt" || c.op == "Lt" || c.op == "Gte" || c.op == "Lte" {
				needsPresence = true
			}
			universe = append(universe, c.vals...)
			for _, v := range c.vals {
				if x, err := strconv.ParseInt(v, 10, 64); err == nil {
					for d := int64(-3); d <= 3; d++ {
						universe = append(universe, strconv.FormatInt(x+d, 10))
					}
				}
			}
		}
		if !needsPresence {
			continue
		}
		sat := false
		for _, v := range universe {
			all := true
			for _, c := range cs {
				if !Admits(c.op, c.vals, v, true) {
					all = false
					break
				}
			}
			if all {
				sat = true
				break
			}
		}
		if !sat {
			out = append(out, k)
		}
	}
	sort.Strings(out)
	return out
}
