package oracle

import (
	"fmt"
	"math"
	"strconv"
	"strings"
	"time"
)

// Cron is an independent evaluator of standard 5-field cron expressions (minute hour day-of-month month
// day-of-week) and the @yearly/@annually/@monthly/@weekly/@daily/@midnight/@hourly macros, in UTC. It is written from
// the crontab(5) semantics (day-of-month and day-of-week are OR-ed when both are restricted), not from the
// library Karpenter uses.
type Cron struct {
	min, hour, dom, month, dow map[int]bool
	domStar, dowStar           bool
}

var macros = map[string]string{
	"@yearly": "0 0 1 1 *", "@annually": "0 0 1 1 *", "@monthly": "0 0 1 * *", "@weekly": "0 0 * * 0",
	"@daily": "0 0 * * *", "@midnight": "0 0 * * *", "@hourly": "0 * * * *",
}

func parseField(f string, lo, hi int) (map[int]bool, bool, error) {
	out := map[int]bool{}
	star := false
	for _, part := range strings.Split(f, ",") {
		step := 1
		rng := part
		if i := strings.Index(part, "/"); i >= 0 {
			s, err := strconv.Atoi(part[i+1:])
			if err != nil || s <= 0 {
				return nil, false, fmt.Errorf("bad step %q", part)
			}
			step = s
			rng = part[:i]
		}
		a, b := lo, hi
		switch {
		case rng == "*" || rng == "?":
			if step == 1 {
				star = true
			}
		case strings.Contains(rng, "-"):
			xs := strings.SplitN(rng, "-", 2)
			x, err1 := strconv.Atoi(xs[0])
			y, err2 := strconv.Atoi(xs[1])
			if err1 != nil || err2 != nil {
				return nil, false, fmt.Errorf("bad range %q", rng)
			}
			a, b = x, y
		default:
			x, err := strconv.Atoi(rng)
			if err != nil {
				return nil, false, fmt.Errorf("bad value %q", rng)
			}
			a, b = x, x
			if strings.Contains(part, "/") {
				b = hi // "a/n" means a-max/n
			}
		}
		if a < lo || b > hi || a > b {
			return nil, false, fmt.Errorf("out of range %q", part)
		}
		for v := a; v <= b; v += step {
			out[v] = true
		}
	}
	return out, star, nil
}

// ParseCron parses an expression; an error means "malformed".
func ParseCron(expr string) (*Cron, error) {
	expr = strings.TrimSpace(expr)
	if m, ok := macros[expr]; ok {
		expr = m
	} else if strings.HasPrefix(expr, "@") {
		return nil, fmt.Errorf("unsupported descriptor %q", expr)
	}
	f := strings.Fields(expr)
	if len(f) != 5 {
		return nil, fmt.Errorf("need 5 fields, got %d", len(f))
	}
	c := &Cron{}
	var err error
	if c.min, _, err = parseField(f[0], 0, 59); err != nil {
		return nil, err
	}
	if c.hour, _, err = parseField(f[1], 0, 23); err != nil {
		return nil, err
	}
	if c.dom, c.domStar, err = parseField(f[2], 1, 31); err != nil {
		return nil, err
	}
	if c.month, _, err = parseField(f[3], 1, 12); err != nil {
		return nil, err
	}
	if c.dow, c.dowStar, err = parseField(f[4], 0, 6); err != nil {
		return nil, err
	}
	return c, nil
}

// Hits reports whether the schedule fires at the minute tick t (t must be minute aligned, UTC).
func (c *Cron) Hits(t time.Time) bool {
	t = t.UTC()
	if !c.min[t.Minute()] || !c.hour[t.Hour()] || !c.month[int(t.Month())] {
		return false
	}
	domOK, dowOK := c.dom[t.Day()], c.dow[int(t.Weekday())]
	if c.domStar || c.dowStar {
		return domOK && dowOK
	}
	return domOK || dowOK
}

// ActiveAt: a budget with this schedule and duration is active at `now` iff some hit h satisfies h <= now < h+d,
// decided by brute force over the minute ticks in (now-d, now].
func (c *Cron) ActiveAt(now time.Time, d time.Duration) bool {
	now = now.UTC()
	tick := now.Truncate(time.Minute)
	for ; tick.After(now.Add(-d)); tick = tick.Add(-time.Minute) {
		if c.Hits(tick) {
			return true
		}
	}
	return false
}

// BudgetSpec is the oracle's view of one budget.
type BudgetSpec struct {
	Nodes    string
	Schedule *string
	Duration *time.Duration
	Reasons  []string
}

// AllowedByBudget: how many disruptions this budget allows at `now` for a pool of n nodes:
// math.MaxInt32 when inactive, 0 when malformed, otherwise the count or the percentage of n rounded up.
func AllowedByBudget(b BudgetSpec, now time.Time, n int) int {
	if b.Schedule != nil || b.Duration != nil {
		if b.Schedule == nil || b.Duration == nil {
			return 0 // malformed: one without the other
		}
		c, err := ParseCron(*b.Schedule)
		if err != nil {
			return 0
		}
		if !c.ActiveAt(now, *b.Duration) {
			return math.MaxInt32
		}
	}
	if strings.HasSuffix(b.Nodes, "%") {
		p, err := strconv.Atoi(strings.TrimSuffix(b.Nodes, "%"))
		if err != nil || p < 0 {
			return 0
		}
		return (p*n + 99) / 100 // rounds up, in integers
	}
	v, err := strconv.Atoi(b.Nodes)
	if err != nil || v < 0 {
		return 0
	}
	return v
}

// Allowed: the most restrictive budget that applies to the reason (it lists the reason or lists none).
func Allowed(bs []BudgetSpec, now time.Time, n int, reason string) int {
	allowed := math.MaxInt32
	for _, b := range bs {
		applies := len(b.Reasons) == 0
		for _, r := range b.Reasons {
			if r == reason {
				applies = true
			}
		}
		if !applies {
			continue
		}
		if v := AllowedByBudget(b, now, n); v < allowed {
			allowed = v
		}
	}
	return allowed
}
