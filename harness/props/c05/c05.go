// Package c05: disruption budgets are never exceeded.
//
// Two monitors:
//   - differential: the real Budget.IsActive / GetAllowedDisruptions / NodePool.GetAllowedDisruptionsByReason against
//     the independent cron + budget evaluator (oracle/cron.go) over generated budget lists (decoded from JSON
//     manifests with the real decoder, so that `reasons: []` arrives as the API server delivers it) x instants
//     placed on and around schedule boundaries.
//   - cluster: the real disruption controller on generated clusters for several consecutive rounds with commands
//     left in flight; per pool and reason, newly selected nodes plus nodes already not ready / being deleted must
//     not exceed the allowance at EVERY instant of the reconcile interval (so boundary crossings never alarm).
package c05

import (
	"context"
	"encoding/json"
	"fmt"
	"k8s.io/apimachinery/pkg/types"
	"math"
	"math/rand"
	"os"
	"strings"
	"time"

	corev1 "k8s.io/api/core/v1"
	metav1 "k8s.io/apimachinery/pkg/apis/meta/v1"
	clocktesting "k8s.io/utils/clock/testing"

	v1 "sigs.k8s.io/karpenter/pkg/apis/v1"

	"verif/gen"
	"verif/mon"
	"verif/oracle"
	"verif/props/common"
	"verif/props/reg"
	"verif/world"
)

func sizes(tier string) (diffCases, diffPer, clusterCases int) {
	if tier == "thorough" {
		return 128, 4000, 3000
	}
	return 32, 700, 320
}

func cases(tier string) int {
	d, _, c := sizes(tier)
	return d + c
}

var reasons = []string{"Underutilized", "Empty", "Drifted"}

func randSchedule(rng *rand.Rand) string {
	if rng.Intn(5) == 0 {
		return []string{"@yearly", "@annually", "@monthly", "@weekly", "@daily", "@midnight", "@hourly"}[rng.Intn(7)]
	}
	pick := func(opts ...string) string { return opts[rng.Intn(len(opts))] }
	return strings.Join([]string{
		pick("*", "0", "30", "*/15", "0-10", "5,35", "59", "0"),
		pick("*", "0", "9", "9-17", "*/6", "23", "12", "0"),
		pick("*", "*", "1", "15", "31", "1-7", "29"),
		pick("*", "*", "1", "6", "12", "1-6", "*/3", "2"),
		pick("*", "*", "0", "1-5", "6", "1", "7", "0,6"), // "7" is out of range for the standard parser => malformed
	}, " ")
}

func randDuration(rng *rand.Rand) time.Duration {
	return []time.Duration{time.Minute, 10 * time.Minute, 59 * time.Minute, time.Hour, 90 * time.Minute, 8 * time.Hour, 24 * time.Hour, 36 * time.Hour}[rng.Intn(8)]
}

// budgetJSON produces one budget as the JSON a user would write (reasons may be absent, [] or a list).
func budgetJSON(rng *rand.Rand, alwaysActive bool) map[string]any {
	b := map[string]any{"nodes": []string{"0", "1", "2", "5", "10%", "33%", "50%", "100%", "0%", "1%", fmt.Sprintf("%d%%", rng.Intn(101)), fmt.Sprintf("%d%%", rng.Intn(101))}[rng.Intn(12)]}
	switch rng.Intn(5) {
	case 0:
		b["reasons"] = []string{}
	case 1, 2:
		var rs []string
		for _, r := range reasons {
			if rng.Intn(2) == 0 {
				rs = append(rs, r)
			}
		}
		if len(rs) > 0 {
			b["reasons"] = rs
		}
	}
	if !alwaysActive && rng.Intn(3) != 0 {
		b["schedule"] = randSchedule(rng)
		d := randDuration(rng)
		b["duration"] = metav1.Duration{Duration: d}.Duration.String()
	}
	return b
}

func decodeBudgets(js []map[string]any) ([]v1.Budget, []oracle.BudgetSpec, string) {
	raw, _ := json.Marshal(js)
	var bs []v1.Budget
	if err := json.Unmarshal(raw, &bs); err != nil {
		panic(err)
	}
	var specs []oracle.BudgetSpec
	for _, j := range js {
		s := oracle.BudgetSpec{Nodes: j["nodes"].(string)}
		if v, ok := j["schedule"]; ok {
			x := v.(string)
			s.Schedule = &x
		}
		if v, ok := j["duration"]; ok {
			d, _ := time.ParseDuration(v.(string))
			s.Duration = &d
		}
		if v, ok := j["reasons"]; ok {
			s.Reasons = v.([]string)
		}
		specs = append(specs, s)
	}
	return bs, specs, string(raw)
}

// interestingInstants: around the hits of each schedule near a base time (hit-1s, hit, hit+0.5s, hit+dur-1s, hit+dur, …).
func interestingInstants(rng *rand.Rand, specs []oracle.BudgetSpec, base time.Time) []time.Time {
	out := []time.Time{base, base.Add(time.Duration(rng.Intn(86400)) * time.Second), base.Add(time.Duration(rng.Int63n(int64(400 * 24 * time.Hour))))}
	for _, s := range specs {
		if s.Schedule == nil || s.Duration == nil {
			continue
		}
		c, err := oracle.ParseCron(*s.Schedule)
		if err != nil {
			continue
		}
		// find a few hits by scanning minute ticks from a random start (bounded)
		start := base.Add(time.Duration(rng.Intn(366*24)) * time.Hour).Truncate(time.Minute)
		found := 0
		for i := 0; i < 60*24*40 && found < 2; i++ {
			t := start.Add(time.Duration(i) * time.Minute)
			if c.Hits(t) {
				found++
				d := *s.Duration
				out = append(out, t.Add(-time.Second), t, t.Add(500*time.Millisecond), t.Add(time.Second), t.Add(d-time.Second), t.Add(d-time.Millisecond), t.Add(d), t.Add(d+time.Second), t.Add(d/2))
			}
		}
	}
	return out
}

// runGrid: the percentage arithmetic alone, exhaustively: every percentage 0..100 (partitioned over the differential
// cases) x every pool size 0..600 plus a few large ones, through the real decoder and Budget.GetAllowedDisruptions.
func runGrid(r *mon.Report, idx, dc int) {
	clk := clocktesting.NewFakeClock(time.Date(2030, 1, 1, 0, 0, 0, 0, time.UTC))
	sizes := []int{1000, 1024, 2500, 5000, 12345, 65536, 99999, 100000}
	for p := idx; p <= 100; p += dc {
		js := []map[string]any{{"nodes": fmt.Sprintf("%d%%", p)}}
		bs, _, _ := decodeBudgets(js)
		np := &v1.NodePool{Spec: v1.NodePoolSpec{Disruption: v1.Disruption{Budgets: bs}}}
		check := func(n int) {
			want := (p*n + 99) / 100
			got, err := bs[0].GetAllowedDisruptions(clk, n)
			if err != nil {
				got = 0
			}
			must := np.MustGetAllowedDisruptions(clk, n, v1.DisruptionReasonEmpty)
			r.Inc("percent_grid_evaluations")
			if got > want || must > want {
				r.Violate("percent-budget-allows-more-than-rounded-up-share", fmt.Sprintf("budget %d%% of %d nodes: GetAllowedDisruptions=%d MustGetAllowedDisruptions=%d, the share rounded up is %d", p, n, got, must, want),
					map[string]any{"budget": js[0], "nodes": n}, map[string]any{"got": got, "must": must, "want": want})
			} else if got < want {
				r.Inc("diagnostic_percent_budget_stricter_than_rounded_up_share")
			}
		}
		for n := 0; n <= 600; n++ {
			check(n)
		}
		for _, n := range sizes {
			check(n)
		}
	}
}

func runDiff(r *mon.Report, idx int, rng *rand.Rand, per int, dc int) {
	r.Eval()
	runGrid(r, idx, dc)
	base := time.Date(2030, time.Month(1+rng.Intn(12)), 1+rng.Intn(28), rng.Intn(24), rng.Intn(60), 0, 0, time.UTC)
	for k := 0; k < per; k++ {
		n := 1 + rng.Intn(4)
		var js []map[string]any
		for i := 0; i < n; i++ {
			js = append(js, budgetJSON(rng, false))
		}
		bs, specs, raw := decodeBudgets(js)
		np := &v1.NodePool{Spec: v1.NodePoolSpec{Disruption: v1.Disruption{Budgets: bs}}}
		nodes := []int{0, 1, 2, 3, 7, 10, 19, 100, 25, 50, 64, 250, 1000, rng.Intn(600)}[rng.Intn(14)]
		for _, now := range interestingInstants(rng, specs, base) {
			clk := clocktesting.NewFakeClock(now)
			// per budget: IsActive / GetAllowedDisruptions
			for i := range bs {
				got, err := bs[i].GetAllowedDisruptions(clk, nodes)
				want := oracle.AllowedByBudget(specs[i], now, nodes)
				r.Inc("budget_evaluations")
				if err != nil {
					got = 0
				}
				if got > want {
					r.Violate("budget-allows-more-than-spec", fmt.Sprintf("GetAllowedDisruptions=%d but the budget allows %d at %s for %d nodes", got, want, now.Format(time.RFC3339Nano), nodes),
						map[string]any{"budget": js[i], "now": now, "nodes": nodes}, map[string]any{"got": got, "want": want, "err": fmt.Sprint(err)})
				} else if got < want {
					r.Inc("diagnostic_budget_stricter_than_spec")
				}
			}
			for _, reason := range reasons {
				got, err := np.GetAllowedDisruptionsByReason(clk, nodes, v1.DisruptionReason(reason))
				must := np.MustGetAllowedDisruptions(clk, nodes, v1.DisruptionReason(reason))
				want := oracle.Allowed(specs, now, nodes, reason)
				r.Inc("pool_reason_evaluations")
				_ = got
				_ = err
				if must > want {
					key := "pool-allows-more-than-most-restrictive-budget"
					if strings.Contains(raw, `"reasons":[]`) {
						// would the disagreement disappear if explicitly empty reason lists were treated as "all reasons"?
						key = "explicitly-empty-reasons-list-applies-to-nothing"
					}
					r.Violate(key, fmt.Sprintf("allowed disruptions for reason %s = %d, but the most restrictive active budget that applies allows %d (at %s, %d nodes)", reason, must, want, now.Format(time.RFC3339Nano), nodes),
						map[string]any{"budgets": json.RawMessage(raw), "now": now, "nodes": nodes, "reason": reason}, map[string]any{"got": must, "want": want})
				} else if must < want {
					r.Inc("diagnostic_pool_stricter_than_spec")
				}
			}
		}
		if k == 0 && r.WantSample() {
			r.Sample(map[string]any{"kind": "differential", "budgets": json.RawMessage(raw), "nodes": nodes, "instants": len(interestingInstants(rng, specs, base))})
		}
	}
	r.Sig("diff-chunk-%d", idx)
}

// ---- cluster monitor ----

func budgetsForCluster(rng *rand.Rand, base time.Time) func(*rand.Rand) []v1.Budget {
	return func(rng *rand.Rand) []v1.Budget {
		n := 1 + rng.Intn(3)
		var js []map[string]any
		for i := 0; i < n; i++ {
			b := budgetJSON(rng, rng.Intn(2) == 0)
			delete(b, "reasons") // explicit [] cannot survive the typed round trip of the fake API (omitempty); covered by the differential monitor
			if rng.Intn(3) == 0 {
				var rs []string
				for _, x := range reasons {
					if rng.Intn(2) == 0 {
						rs = append(rs, x)
					}
				}
				if len(rs) > 0 {
					b["reasons"] = rs
				}
			}
			if _, ok := b["schedule"]; ok && rng.Intn(2) == 0 {
				// schedule whose boundary lies close to the case's start so that reconciles straddle it
				t := base.Add(time.Duration(rng.Intn(3)-1) * time.Minute)
				b["schedule"] = fmt.Sprintf("%d %d * * *", t.Minute(), t.Hour())
				b["duration"] = []string{"1m0s", "10m0s", "1h0m0s"}[rng.Intn(3)]
			}
			js = append(js, b)
		}
		bs, _, _ := decodeBudgets(js)
		return bs
	}
}

func specsOf(bs []v1.Budget) []oracle.BudgetSpec {
	var out []oracle.BudgetSpec
	for _, b := range bs {
		s := oracle.BudgetSpec{Nodes: b.Nodes, Schedule: b.Schedule}
		if b.Duration != nil {
			d := b.Duration.Duration
			s.Duration = &d
		}
		for _, x := range b.Reasons {
			s.Reasons = append(s.Reasons, string(x))
		}
		out = append(out, s)
	}
	return out
}

type nodeFacts struct {
	pool        string
	initialized bool
	terminating bool // InstanceTerminating=True
	notReady    bool
	deleting    bool
}

func facts(e *world.Env) map[string]nodeFacts {
	out := map[string]nodeFacts{}
	ncs := &v1.NodeClaimList{}
	_ = e.API.Raw.List(context.Background(), ncs)
	nodes := &corev1.NodeList{}
	_ = e.API.Raw.List(context.Background(), nodes)
	byPID := map[string]*corev1.Node{}
	for i := range nodes.Items {
		byPID[nodes.Items[i].Spec.ProviderID] = &nodes.Items[i]
	}
	for i := range ncs.Items {
		nc := &ncs.Items[i]
		n := byPID[nc.Status.ProviderID]
		if n == nil || nc.Status.ProviderID == "" {
			continue
		}
		f := nodeFacts{pool: nc.Labels[v1.NodePoolLabelKey]}
		f.initialized = n.Labels[v1.NodeInitializedLabelKey] == "true"
		f.terminating = nc.StatusConditions().Get(v1.ConditionTypeInstanceTerminating).IsTrue()
		f.deleting = !nc.DeletionTimestamp.IsZero()
		f.notReady = true
		for _, c := range n.Status.Conditions {
			if c.Type == corev1.NodeReady && c.Status == corev1.ConditionTrue {
				f.notReady = false
			}
		}
		out[n.Name] = f
	}
	return out
}

func runCluster(r *mon.Report, idx int, rng *rand.Rand) {
	r.Eval()
	cfg := common.DefaultDCfg()
	opts, optDesc := common.RandomOptions(rng)
	cfg.Scenario.Options = opts
	cfg.Scenario.MinPools, cfg.Scenario.MaxPools = 1, 3
	cfg.Scenario.Pool.PTaint = 0
	cfg.Scenario.Pod = gen.PodCfg{PSelector: 0.1, PHostPort: 0, MaxCPUMilli: 2000}
	cfg.Scenario.MaxDaemons = 0
	cfg.Rounds = 2 + rng.Intn(3)
	cfg.PodsPerRound = 4 + rng.Intn(6)
	cfg.OnePodPerNode = rng.Intn(2) == 0
	cfg.PDeletePod = []float64{0.4, 0.6, 0.8}[rng.Intn(3)]
	cfg.PDrift = []float64{0, 0.3, 0.6}[rng.Intn(3)]
	cfg.PNotReady = []float64{0, 0.1, 0.25}[rng.Intn(3)]
	cfg.PUninitialized = 0.3
	cfg.ConsolidateAfter = []string{"0s", "0s", "0s", "30s"}
	// the case starts at a PRNG-chosen wall-clock position; budgets may be scheduled around it
	base := world.Epoch.Add(time.Duration(rng.Intn(14*24*60)) * time.Minute)
	cfg.Budgets = budgetsForCluster(rng, base.Add(90*time.Minute))
	directed := rng.Intn(4) == 0
	if directed {
		// percentage-bound selection: one pool, every node ends up empty, some extra nodes registered but not yet
		// initialised (they must not count toward the percentage base), a single always-active percentage budget
		cfg.Scenario.MinPools, cfg.Scenario.MaxPools = 1, 1
		cfg.OnePodPerNode = true
		cfg.Rounds = 3
		cfg.PodsPerRound = 5
		cfg.PDeletePod = 1.0
		cfg.PDrift, cfg.PNotReady = 0, 0
		cfg.PUninitialized = 1.0
		cfg.ConsolidateAfter = []string{"0s"}
		cfg.Policies = []v1.ConsolidationPolicy{v1.ConsolidationPolicyWhenEmptyOrUnderutilized, v1.ConsolidationPolicyWhenEmpty}
		pct := []string{"10%", "20%", "25%", "33%", "50%", "34%"}[rng.Intn(6)]
		cfg.Budgets = func(*rand.Rand) []v1.Budget { return []v1.Budget{{Nodes: pct}} }
	}
	// second directed family: every node ends up empty; next to an always-active generous budget the pool has a budget
	// scoped to Empty (and possibly Drifted, never Underutilized) whose window opens a few seconds after the round starts,
	// i.e. during the 15 s validation wait of the emptiness command
	window := !directed && rng.Intn(5) == 0
	var opens time.Time
	if window {
		cfg.Scenario.MinPools, cfg.Scenario.MaxPools = 1, 1
		cfg.OnePodPerNode = true
		cfg.Rounds = 3
		cfg.PodsPerRound = 4
		cfg.PDeletePod = 1.0
		cfg.PDrift, cfg.PNotReady, cfg.PUninitialized = 0, 0, 0
		cfg.ConsolidateAfter = []string{"0s"}
		cfg.Policies = []v1.ConsolidationPolicy{v1.ConsolidationPolicyWhenEmptyOrUnderutilized, v1.ConsolidationPolicyWhenEmpty}
		opens = base.Add(90 * time.Minute).Truncate(time.Minute)
		rs := [][]string{{"Empty"}, {"Empty"}, {"Empty", "Drifted"}}[rng.Intn(3)]
		scoped := map[string]any{"nodes": []string{"0", "0", "1"}[rng.Intn(3)], "reasons": rs,
			"schedule": fmt.Sprintf("%d %d * * *", opens.Minute(), opens.Hour()), "duration": "10m0s"}
		js := []map[string]any{{"nodes": "100%"}, scoped}
		cfg.Budgets = func(*rand.Rand) []v1.Budget { bs, _, _ := decodeBudgets(js); return bs }
	}
	// third directed family: many small nodes whose pods can share a node, so that multi-node consolidation picks several
	// candidates at once under a small count budget; during the validation wait another node of the pool stops being
	// Ready, which eats into the allowance (the remaining budget ends up between 1 and the number of candidates)
	multi := !directed && !window && rng.Intn(5) == 0
	if multi {
		cfg.Scenario.Pod = gen.PodCfg{MaxCPUMilli: 400}
		cfg.Scenario.MinPools, cfg.Scenario.MaxPools = 1, 1
		cfg.Scenario.Pool.PRequirement, cfg.Scenario.Pool.PCustomLabel, cfg.Scenario.Pool.PTaint = 0, 0, 0
		cfg.Scenario.Catalog.MinTypes, cfg.Scenario.Catalog.MaxTypes = 8, 12
		cfg.Rounds, cfg.PodsPerRound = 7, 2
		cfg.PDeletePod, cfg.PDrift, cfg.PNotReady, cfg.PUninitialized = 0.25, 0, 0, 0
		cfg.OnePodPerNode, cfg.SmallPods = false, true
		cfg.ConsolidateAfter = []string{"0s"}
		cfg.Policies = []v1.ConsolidationPolicy{v1.ConsolidationPolicyWhenEmptyOrUnderutilized}
		n := []string{"2", "3", "3"}[rng.Intn(3)]
		cfg.Budgets = func(*rand.Rand) []v1.Budget { return []v1.Budget{{Nodes: n}} }
	}
	// fourth directed family: one pool of many one-pod nodes that all end up empty under a small count budget, so that
	// every emptiness command takes several candidates and leaves further empty nodes for the next rounds; a candidate
	// vanishes while the command is being started (see the PostWrite hook below)
	emptyVanish := !directed && !window && !multi && rng.Intn(5) == 0
	if emptyVanish {
		cfg.Scenario.MinPools, cfg.Scenario.MaxPools = 1, 1
		cfg.OnePodPerNode = true
		cfg.Rounds = 3
		cfg.PodsPerRound = 4 + rng.Intn(3)
		cfg.PDeletePod = 1.0
		cfg.PDrift, cfg.PNotReady, cfg.PUninitialized = 0, 0, 0
		cfg.ConsolidateAfter = []string{"0s"}
		cfg.Policies = []v1.ConsolidationPolicy{v1.ConsolidationPolicyWhenEmptyOrUnderutilized, v1.ConsolidationPolicyWhenEmpty}
		n := []string{"2", "3", "4"}[rng.Intn(3)]
		cfg.Budgets = func(*rand.Rand) []v1.Budget { return []v1.Budget{{Nodes: n}} }
	}
	d := common.BuildDisruption(rng, cfg)
	e := d.Env
	if emptyVanish {
		r.Inc("cluster_cases_with_many_empty_nodes_a_count_budget_and_a_vanishing_candidate")
	}
	if multi {
		r.Inc("cluster_cases_with_many_small_nodes_and_a_count_budget")
	}
	if directed {
		// transient state: kubelet already reports Ready but the lifecycle controller has not initialised the claim yet
		nodes := &corev1.NodeList{}
		_ = e.API.Raw.List(context.Background(), nodes)
		for _, n := range nodes.Items {
			if n.Labels[v1.NodeInitializedLabelKey] != "true" {
				e.KubeletReady(n.Name, false)
				r.Inc("ready_but_uninitialized_nodes")
			}
		}
	}
	// place the clock relative to the budget boundary region
	e.Clock.SetTime(base.Add(90*time.Minute + time.Duration(rng.Intn(121)-60)*time.Second))
	if window {
		e.Clock.SetTime(opens.Add(-time.Duration(3+rng.Intn(11)) * time.Second))
		r.Inc("cluster_cases_with_reason_scoped_window_opening_during_validation")
	}
	d.RefreshConditions()
	_ = e.SyncState()
	poolBudgets := map[string][]oracle.BudgetSpec{}
	var bdesc []map[string]any
	for _, np := range d.Pools {
		cur := np.DeepCopy()
		e.Get(cur)
		poolBudgets[np.Name] = specsOf(cur.Spec.Disruption.Budgets)
		bdesc = append(bdesc, map[string]any{"pool": np.Name, "budgets": cur.Spec.Disruption.Budgets, "policy": cur.Spec.Disruption.ConsolidationPolicy})
	}
	caseDesc := map[string]any{"case": idx, "options": optDesc, "budgets": bdesc, "nodes": d.NodeInfo}
	// churn during the validation wait: nodes going NotReady
	churned := false
	e.Clock.OnWait(func(w time.Duration) {
		if w < 10*time.Second || churned || (!multi && rng.Intn(3) != 0) {
			return
		}
		churned = true
		nodes := &corev1.NodeList{}
		_ = e.API.Raw.List(context.Background(), nodes)
		if len(nodes.Items) > 0 {
			e.KubeletSetReady(nodes.Items[rng.Intn(len(nodes.Items))].Name, []string{"False", "Unknown", "absent"}[rng.Intn(3)])
			_ = e.SyncState()
		}
	})
	// (many-small-nodes family) a candidate of a command disappears on its own — Node and NodeClaim gone, cluster
	// state told — right after the queue tainted it, i.e. while StartCommand is still working through the command. The
	// other candidates of the command are in flight all the same and must keep counting against the budget.
	vanishArmed, vanishedNode, vanishes := (multi && rng.Intn(2) == 0) || emptyVanish, "", 0
	e.API.PostWrite = append(e.API.PostWrite, func(ev *world.Event) {
		if !vanishArmed || ev.Kind != "Node" {
			return
		}
		// (StartCommand taints its candidates from parallel workers: the write that ADDS the disruption taint is the mark)
		inStart := false
		for _, f := range ev.Stack {
			inStart = inStart || strings.Contains(f, "RequireNoScheduleTaint")
		}
		n := &corev1.Node{}
		if !inStart || e.API.Raw.Get(context.Background(), types.NamespacedName{Name: ev.Key}, n) != nil {
			return
		}
		tainted := false
		for _, t := range n.Spec.Taints {
			tainted = tainted || t.Key == v1.DisruptedTaintKey
		}
		if !tainted {
			return
		}
		vanishArmed, vanishedNode = false, n.Name
		ncs := &v1.NodeClaimList{}
		_ = e.API.Raw.List(context.Background(), ncs)
		for i := range ncs.Items {
			if nc := &ncs.Items[i]; nc.Status.ProviderID == n.Spec.ProviderID && n.Spec.ProviderID != "" {
				e.Provider.Vanish(nc.Status.ProviderID)
				nc.Finalizers = nil
				_ = e.API.Raw.Update(context.Background(), nc)
				_ = e.API.Raw.Delete(context.Background(), nc)
			}
		}
		n.Finalizers = nil
		_ = e.API.Raw.Update(context.Background(), n)
		_ = e.API.Raw.Delete(context.Background(), n)
		_ = e.SyncState()
	})
	inflight := map[string]bool{} // node names that are candidates of commands left in flight
	rounds := 3 + rng.Intn(4)
	for round := 0; round < rounds; round++ {
		churned = false
		tStart := e.Clock.Now()
		vanishedNode = ""
		cmds, err, panicked, pv, stack := d.Round()
		tEnd := e.Clock.Now()
		if vanishedNode != "" {
			r.Inc("candidates_vanished_during_StartCommand")
			several := false
			for _, cmd := range cmds {
				for _, c := range cmd.Candidates {
					several = several || (c.Name() == vanishedNode && len(cmd.Candidates) >= 2 && cmd.Candidates[len(cmd.Candidates)-1].Name() != vanishedNode)
				}
			}
			if several {
				r.Inc("non_last_candidate_of_a_multi_candidate_command_vanished_during_StartCommand")
			} else if vanishes++; vanishes < 3 {
				vanishArmed = true // a single-candidate command: try again with a later one
			}
		}
		if panicked {
			r.Violate("panic-in-disruption-reconcile", fmt.Sprintf("%v", pv), caseDesc, stack)
			return
		}
		if err != nil {
			r.Inc("reconcile_errors")
		}
		r.Inc("rounds")
		if len(cmds) > 0 {
			f := facts(e)
			selected := map[string]map[string]bool{} // pool -> node names newly selected
			reason := ""
			for _, cmd := range cmds {
				reason = string(cmd.Reason())
				r.Inc("commands:" + reason)
				for _, c := range cmd.Candidates {
					p := c.NodePool.Name
					if selected[p] == nil {
						selected[p] = map[string]bool{}
					}
					selected[p][c.Name()] = true
				}
			}
			for pool, sel := range selected {
				total := 0
				disrupting := map[string]bool{}
				for name, nf := range f {
					if nf.pool != pool || !nf.initialized || nf.terminating {
						continue
					}
					total++
					if (nf.notReady || nf.deleting || inflight[name]) && !sel[name] {
						disrupting[name] = true
					}
				}
				// the allowance at every instant of the reconcile interval: both ends, every whole minute in between
				instants := []time.Time{tStart, tEnd}
				for t := tStart.Truncate(time.Minute).Add(time.Minute); t.Before(tEnd); t = t.Add(time.Minute) {
					instants = append(instants, t, t.Add(-time.Millisecond))
				}
				maxAllowed := 0
				for _, t := range instants {
					if a := oracle.Allowed(poolBudgets[pool], t, total, reason); a > maxAllowed {
						maxAllowed = a
					}
				}
				r.Inc("budget_judgements")
				used := len(sel) + len(disrupting)
				if os.Getenv("C05_DEBUG") != "" && (multi || emptyVanish) {
					fmt.Fprintf(os.Stderr, "DEBUG case %d round %d pool %s sel=%v already=%v allowed=%d total=%d vanished=%q\n", idx, round, pool, keys(sel), keys(disrupting), maxAllowed, total, vanishedNode)
				}
				r.Sig("cluster|%s|cmds=%d|sel=%d|already=%d|allowed=%s", reason, min(len(cmds), 2), min(len(sel), 3), min(len(disrupting), 2), bucket(maxAllowed))
				if used > maxAllowed {
					r.Violate("budget-exceeded:"+reason, fmt.Sprintf("pool %s reason %s: %d newly selected + %d already not-ready/deleting/in-flight = %d > %d allowed (of %d initialized nodes) at every instant of the reconcile interval", pool, reason, len(sel), len(disrupting), used, maxAllowed, total),
						caseDesc, map[string]any{"round": round, "selected": keys(sel), "already": keys(disrupting), "interval": []time.Time{tStart, tEnd}})
				}
				if r.WantSample() {
					r.Sample(map[string]any{"kind": "cluster", "pool": pool, "reason": reason, "budgets": poolBudgets[pool], "initialized_nodes": total, "selected": keys(sel), "already_disrupting": keys(disrupting), "allowed": maxAllowed, "interval": []time.Time{tStart, tEnd}})
				}
			}
			for _, cmd := range cmds {
				for _, c := range cmd.Candidates {
					inflight[c.Name()] = true
				}
			}
		}
		_ = e.SyncState()
		e.Clock.Step(time.Duration(5+rng.Intn(60)) * time.Second)
		d.RefreshConditions()
		_ = e.SyncState()
	}
}

func bucket(n int) string {
	switch {
	case n >= math.MaxInt32:
		return "inf"
	case n >= 3:
		return "3+"
	}
	return fmt.Sprint(n)
}

func keys(m map[string]bool) []string {
	return common.SortedKeys(m)
}

func run(r *mon.Report, tier string, idx int, rng *rand.Rand) {
	dc, per, _ := sizes(tier)
	if idx < dc {
		runDiff(r, idx, rng, per, dc)
		return
	}
	runCluster(r, idx, rng)
}

func init() {
	reg.Register(&reg.Prop{
		ID: "C05", Level: "exploration",
		Rule:  "case kinds: (1) differential chunks: budget lists of 1-4 budgets (counts, percents 0%-100%, pool sizes 0-1000, reasons absent / explicitly empty / subsets, 5-field cron schedules incl. macros, out-of-range fields and never-firing dates, durations 1m-36h) decoded from JSON with the real decoder, evaluated by the real Budget/NodePool methods at instants on and around schedule hits (hit-1s, hit, +0.5s, hit+dur-1ms, hit+dur, …) and compared with the independent cron/budget evaluator; Karpenter allowing MORE than the spec is a violation, stricter is a diagnostic; plus the complete grid of percentages 0-100 x pool sizes 0-600 (and eight large sizes) against integer round-up arithmetic. (2) clusters of 1-3 pools (one-pod-per-node worlds for many nodes, empty / underutilised / drifted / NotReady / uninitialised nodes) with generated budget lists and the clock placed around budget boundaries; 3-6 consecutive reconciles of the real disruption controller with commands left in flight and nodes going NotReady during the validation wait. Non-trivial = a differential chunk, or a round that produced commands and was judged; distinct by chunk / (reason, #commands, #selected, #already disrupting, allowance bucket).",
		Cases: cases, Run: run,
		MinObserved: map[string]int{"budget_judgements": 30, "pool_reason_evaluations": 50000},
	})
}
