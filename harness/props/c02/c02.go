// Package c02: inter-pod constraints hold in the simulated end state.
//
// Each case builds a world (catalog with partly unavailable zones, 1-3 NodePools whose zone / capacity-type /
// custom-key requirements leave some domains unprovisionable, namespaces with labels, 1-3 "deployments" with
// mixes of required/preferred pod (anti-)affinity and topology spread constraints), pre-populates it through the
// real pipeline (Schedule → Create → lifecycle → kubelet → bind) with skewed distributions of matching pods, some of
// which carry required anti-affinity themselves, and then runs three scheduling passes, each with a fresh batch of
// 2-14 pending pods and its own configuration, through the real Provisioner.Schedule. The resulting scheduling.Results, together with the pods bound in the API, are judged by
// the realisation checker in verif/oracle (c02_interpod.go): every assignment of concrete topology domains to the
// new NodeClaims is enumerated and checked against the Kubernetes rules.
package c02

import (
	"context"
	"encoding/json"
	"fmt"
	"math/rand"
	"sort"
	"strings"
	"time"

	corev1 "k8s.io/api/core/v1"
	metav1 "k8s.io/apimachinery/pkg/apis/meta/v1"
	"k8s.io/apimachinery/pkg/types"

	v1 "sigs.k8s.io/karpenter/pkg/apis/v1"
	"sigs.k8s.io/karpenter/pkg/cloudprovider"
	provscheduling "sigs.k8s.io/karpenter/pkg/controllers/provisioning/scheduling"
	"sigs.k8s.io/karpenter/pkg/operator/options"
	"sigs.k8s.io/karpenter/pkg/test"

	"verif/gen"
	"verif/mon"
	"verif/oracle"
	"verif/props/common"
	"verif/props/reg"
	"verif/world"
)

const realisationCap = 512

func cases(tier string) int {
	if tier == "thorough" {
		return 40000
	}
	return 1200
}

// World is what a case generates.
type World struct {
	S       *common.Scenario
	Deps    []*gen.C02Deployment
	Opt     map[string]any
	Seeded  []string
	Batch   []*corev1.Pod
	respect bool
}

func versionOf(rng *rand.Rand) string { return []string{"v1", "v1", "v2"}[rng.Intn(3)] }

func hasZoneConstraint(d *gen.C02Deployment) bool {
	if _, ok := d.Selector[corev1.LabelTopologyZone]; ok {
		return true
	}
	return d.Affinity != nil && d.Affinity.NodeAffinity != nil && d.Affinity.NodeAffinity.RequiredDuringSchedulingIgnoredDuringExecution != nil
}

func buildWorld(rng *rand.Rand) *World {
	rc := false
	opts := test.OptionsFields{FeatureGates: test.FeatureGates{ReservedCapacity: &rc}}
	w := &World{Opt: map[string]any{}}
	s := &common.Scenario{Types: map[string][]*cloudprovider.InstanceType{}, Specs: map[string][]gen.TypeSpec{}, Desc: map[string]any{}, NodeInfo: map[string]string{}}
	s.Env = world.NewEnv(rng, opts)
	w.S = s
	e := s.Env
	e.Apply(gen.NodeClass())
	ccfg := gen.DefaultCatalogCfg()
	ccfg.GPU, ccfg.Reserved, ccfg.MinTypes, ccfg.MaxTypes = false, false, 3, 6
	its, specs := gen.Catalog(rng, ccfg, "")
	e.Provider.Default = its
	s.Types[""], s.Specs[""] = its, specs
	for _, ns := range gen.C02NamespaceObjects(rng) {
		e.Apply(ns)
	}
	var pools []map[string]any
	npools := 1 + rng.Intn(3)
	for i := 0; i < npools; i++ {
		np := gen.C02Pool(rng, fmt.Sprintf("pool-%d", i))
		e.Apply(np)
		s.Pools = append(s.Pools, np)
		s.Types[np.Name] = its
		pools = append(pools, map[string]any{"name": np.Name, "requirements": np.Spec.Template.Spec.Requirements, "labels": np.Spec.Template.Labels,
			"taints": np.Spec.Template.Spec.Taints, "weight": np.Spec.Weight})
	}
	s.Desc["pools"] = pools
	s.Desc["catalog"] = specs
	e.Provider.Policy = []string{"cheapest", "dearest", "largest", "smallest", "random"}[rng.Intn(5)]
	w.Deps = gen.C02Deployments(rng, 1+rng.Intn(3), gen.DefaultC02Cfg())
	// directed enrichment (1 world in 8): a deployment whose hard spread honours node taints and that does not tolerate
	// the "dedicated" taint, plus (below) a tainted unmanaged node full of its replicas next to an untainted empty node
	// of the same domain: the replicas on the tainted node must not be counted
	var tsDep *gen.C02Deployment
	tsKey := ""
	if rng.Intn(8) == 0 {
		for _, d := range w.Deps {
			for i := range d.Spread {
				c := &d.Spread[i]
				if tsDep == nil && c.WhenUnsatisfiable == corev1.DoNotSchedule && (c.TopologyKey == corev1.LabelTopologyZone || c.TopologyKey == gen.LabelCell) {
					honor := corev1.NodeInclusionPolicyHonor
					c.NodeTaintsPolicy = &honor
					d.Tolerations = nil
					tsDep, tsKey = d, c.TopologyKey
				}
			}
		}
	}
	s.Desc["deployments"] = w.Deps

	// ---- pre-existing distribution, through the real pipeline ----
	stages := []world.Stage{world.StageInitialized, world.StageInitialized, world.StageInitialized, world.StageInitialized, world.StageRegistered, world.StageLaunched}
	for round := rng.Intn(3); round > 0; round-- {
		var seed []*corev1.Pod
		for k := 1 + rng.Intn(5); k > 0; k-- {
			d := w.Deps[rng.Intn(len(w.Deps))]
			bare := rng.Intn(3) != 0
			p := d.Pod(s.NextPodName("s"), versionOf(rng), []int64{100, 250, 500, 1000}[rng.Intn(4)], d.Mem, bare)
			if bare && !hasZoneConstraint(d) && rng.Intn(2) == 0 {
				gen.WithNodeSelector(corev1.LabelTopologyZone, gen.Zones[rng.Intn(2)])(p) // skew towards zone-a / zone-b
			}
			seed = append(seed, p)
			w.Seeded = append(w.Seeded, p.Name)
		}
		s.GrowBindAll(rng, seed, stages)
		e.Clock.Step(time.Duration(1+rng.Intn(120)) * time.Second)
	}
	// hand-built unmanaged nodes (the only hand-built nodes), possibly in a zone no pool can provision, possibly
	// lacking topology labels, with hand-bound matching pods (some carrying the deployment's required anti-affinity)
	for k := rng.Intn(3); k > 0; k-- {
		addUnmanaged(rng, w)
	}
	if tsDep != nil {
		val := gen.Zones[rng.Intn(3)]
		if tsKey == gen.LabelCell {
			val = gen.Cells[rng.Intn(3)]
		}
		for i := 0; i < 2; i++ {
			name := fmt.Sprintf("unmanaged-t%d", i)
			n := unmanagedNode(name, map[string]string{corev1.LabelHostname: name, corev1.LabelTopologyZone: gen.Zones[rng.Intn(3)], gen.LabelCell: gen.Cells[rng.Intn(3)]})
			n.Labels[tsKey] = val
			if i == 0 {
				n.Spec.Taints = []corev1.Taint{{Key: "dedicated", Value: "x", Effect: corev1.TaintEffectNoSchedule}}
			}
			e.Apply(n)
			s.NodeInfo[name] = fmt.Sprintf("unmanaged labels=%v taints=%v", n.Labels, n.Spec.Taints)
			if i == 0 {
				for k := 2 + rng.Intn(3); k > 0; k-- { // bound before the taint was added
					p := tsDep.Pod(s.NextPodName("u"), versionOf(rng), 100, 64, true)
					gen.Bound(name, e.Clock.Now())(p)
					e.Apply(p)
					w.Seeded = append(w.Seeded, p.Name)
				}
			}
		}
	}
	// some running matching pods are terminating / terminal: they must not count
	if rng.Intn(5) == 0 {
		perturbRunning(rng, w)
	}

	// sometimes one managed node is being deleted: its reschedulable pods join the batch (and are excluded from counts)
	if names := e.ClaimNames(); len(names) > 0 && rng.Intn(5) == 0 {
		nc := &v1.NodeClaim{}
		if e.API.Raw.Get(context.Background(), types.NamespacedName{Name: names[rng.Intn(len(names))]}, nc) == nil {
			_ = e.API.Raw.Delete(context.Background(), nc)
			w.Opt["deletingClaim"] = nc.Name
		}
	}
	return w
}

// newBatch removes what is left pending from the previous round and creates a fresh batch of 2-14 pending pods.
func newBatch(rng *rand.Rand, w *World, round int) {
	s := w.S
	e := s.Env
	if round > 0 {
		pods := &corev1.PodList{}
		_ = e.API.Raw.List(context.Background(), pods)
		for i := range pods.Items {
			if pods.Items[i].Spec.NodeName == "" {
				_ = e.API.Raw.Delete(context.Background(), &pods.Items[i])
			}
		}
		e.Clock.Step(time.Duration(1+rng.Intn(30)) * time.Second)
	}
	w.Batch = nil
	rollout := rng.Intn(8) == 0
	n := 2 + rng.Intn(13)
	for i := 0; i < n; i++ {
		d := w.Deps[rng.Intn(len(w.Deps))]
		cpuReq, mem := d.CPU, d.Mem
		if rng.Intn(4) == 0 { // vary the queue position inside a deployment
			cpuReq = []int64{100, 250, 500, 900, 1000, 1500, 2000, 3500}[rng.Intn(8)]
		}
		if rng.Intn(6) == 0 {
			mem = []int64{64, 128, 256, 512, 1024}[rng.Intn(5)]
		}
		p := d.Pod(s.NextPodName("p"), versionOf(rng), cpuReq, mem, rng.Intn(8) == 0)
		if rollout && i%2 == 1 {
			// replicas of the "new revision" of a deployment in the middle of a rollout: same constraint, minDomains edited
			for ci := range p.Spec.TopologySpreadConstraints {
				c := &p.Spec.TopologySpreadConstraints[ci]
				if c.WhenUnsatisfiable != corev1.DoNotSchedule {
					continue
				}
				if c.MinDomains == nil {
					md := int32(3 + rng.Intn(3))
					c.MinDomains = &md
				} else {
					c.MinDomains = nil
				}
			}
		}
		if rng.Intn(3) == 0 {
			e.Clock.Step(time.Duration(1+rng.Intn(3)) * time.Second) // creationTimestamp decides ties in the queue
		}
		e.Apply(p)
		w.Batch = append(w.Batch, p)
	}
}

func unmanagedNode(name string, lbls map[string]string) *corev1.Node {
	lbls[corev1.LabelArchStable], lbls[corev1.LabelOSStable] = v1.ArchitectureAmd64, "linux"
	return &corev1.Node{
		ObjectMeta: metav1.ObjectMeta{Name: name, Labels: lbls},
		Spec:       corev1.NodeSpec{ProviderID: "unmanaged://" + name},
		Status: corev1.NodeStatus{Phase: corev1.NodeRunning,
			Capacity:    corev1.ResourceList{corev1.ResourceCPU: gen.Q("8"), corev1.ResourceMemory: gen.Q("16Gi"), corev1.ResourcePods: gen.Q("20")},
			Allocatable: corev1.ResourceList{corev1.ResourceCPU: gen.Q("8"), corev1.ResourceMemory: gen.Q("15Gi"), corev1.ResourcePods: gen.Q("20")},
			Conditions:  []corev1.NodeCondition{{Type: corev1.NodeReady, Status: corev1.ConditionTrue}}},
	}
}

func addUnmanaged(rng *rand.Rand, w *World) {
	s := w.S
	e := s.Env
	name := fmt.Sprintf("unmanaged-%d", len(s.NodeInfo))
	lbls := map[string]string{corev1.LabelArchStable: v1.ArchitectureAmd64, corev1.LabelOSStable: "linux"}
	lbls[corev1.LabelHostname] = name // the kubelet always sets it
	if rng.Intn(5) != 0 {
		lbls[corev1.LabelTopologyZone] = append(append([]string{}, gen.Zones...), "zone-d")[rng.Intn(4)]
	}
	if rng.Intn(2) == 0 {
		lbls[gen.LabelCell] = append(append([]string{}, gen.Cells...), "cell-x")[rng.Intn(4)]
	}
	if rng.Intn(3) == 0 {
		lbls[v1.CapacityTypeLabelKey] = gen.CapTypes[rng.Intn(2)]
	}
	n := unmanagedNode(name, lbls)
	if rng.Intn(4) == 0 {
		n.Spec.Taints = []corev1.Taint{{Key: "dedicated", Value: "x", Effect: corev1.TaintEffectNoSchedule}}
	}
	e.Apply(n)
	s.NodeInfo[name] = fmt.Sprintf("unmanaged labels=%v taints=%v", lbls, n.Spec.Taints)
	for k := rng.Intn(4); k > 0; k-- {
		d := w.Deps[rng.Intn(len(w.Deps))]
		p := d.Pod(s.NextPodName("u"), versionOf(rng), 100, 64, rng.Intn(2) == 0)
		gen.Bound(name, e.Clock.Now())(p)
		e.Apply(p)
		w.Seeded = append(w.Seeded, p.Name)
	}
}

func perturbRunning(rng *rand.Rand, w *World) {
	e := w.S.Env
	pods := &corev1.PodList{}
	_ = e.API.Raw.List(context.Background(), pods)
	var bound []*corev1.Pod
	for i := range pods.Items {
		if pods.Items[i].Spec.NodeName != "" {
			bound = append(bound, &pods.Items[i])
		}
	}
	if len(bound) == 0 {
		return
	}
	p := bound[rng.Intn(len(bound))]
	if rng.Intn(2) == 0 {
		p.Status.Phase = corev1.PodSucceeded
		e.Apply(p)
		return
	}
	p.Finalizers = []string{world.KubeletFinalizer}
	if e.API.Raw.Update(context.Background(), p) == nil {
		_ = e.API.Raw.Delete(context.Background(), p) // finalizer present ⇒ only deletionTimestamp is set
	}
}

func podSummary(p *corev1.Pod) map[string]any {
	m := map[string]any{"name": p.Namespace + "/" + p.Name, "labels": p.Labels, "requests": p.Spec.Containers[0].Resources.Requests, "created": p.CreationTimestamp.Time}
	if len(p.Spec.NodeSelector) > 0 {
		m["nodeSelector"] = p.Spec.NodeSelector
	}
	if p.Spec.Affinity != nil {
		m["affinity"] = p.Spec.Affinity
	}
	if len(p.Spec.TopologySpreadConstraints) > 0 {
		m["spread"] = p.Spec.TopologySpreadConstraints
	}
	if len(p.Spec.Tolerations) > 0 {
		m["tolerations"] = p.Spec.Tolerations
	}
	if p.Spec.NodeName != "" {
		m["boundTo"] = p.Spec.NodeName
	}
	return m
}

// claimOptions enumerates the label tuples (over keys) a new NodeClaim's launch can produce: (zone, capacity type)
// of every available offering of every instance-type option admitted by the final requirements, times every value
// the custom key can be resolved to.
func claimOptions(r *mon.Report, nc *provscheduling.NodeClaim, id string, keys map[string]bool) []map[string]string {
	type wk struct{ zone, ct string }
	seen := map[wk]bool{}
	var wks []wk
	for _, it := range nc.InstanceTypeOptions {
		for _, of := range it.Offerings {
			if !of.Available {
				continue
			}
			ok := true
			for k, q := range of.Requirements {
				if q.Operator() != corev1.NodeSelectorOpIn || len(q.Values()) != 1 {
					continue
				}
				if nc.Requirements.Has(k) && !nc.Requirements.Get(k).Has(q.Values()[0]) {
					ok = false
				}
			}
			if !ok {
				continue
			}
			x := wk{of.Zone(), of.CapacityType()}
			if !keys[corev1.LabelTopologyZone] {
				x.zone = ""
			}
			if !keys[v1.CapacityTypeLabelKey] {
				x.ct = ""
			}
			if !seen[x] {
				seen[x] = true
				wks = append(wks, x)
			}
		}
	}
	sort.Slice(wks, func(i, j int) bool { return wks[i].zone+"|"+wks[i].ct < wks[j].zone+"|"+wks[j].ct })
	if len(wks) == 0 {
		r.Inc("new_claims_without_launchable_offering")
		wks = []wk{{}}
	}
	cells := []string{""} // "" = node lacks the key
	if keys[gen.LabelCell] && nc.Requirements.Has(gen.LabelCell) {
		req := nc.Requirements.Get(gen.LabelCell)
		switch req.Operator() {
		case corev1.NodeSelectorOpIn:
			cells = append([]string(nil), req.Values()...)
			sort.Strings(cells)
		case corev1.NodeSelectorOpDoesNotExist:
		default:
			// complement (NotIn / Exists): Karpenter resolves the label to a random integer; a value of its own
			r.Inc("new_claims_custom_key_complement")
			cells = []string{"fresh-" + id}
		}
	}
	var out []map[string]string
	for _, x := range wks {
		for _, c := range cells {
			m := map[string]string{}
			if x.zone != "" {
				m[corev1.LabelTopologyZone] = x.zone
			}
			if x.ct != "" {
				m[v1.CapacityTypeLabelKey] = x.ct
			}
			if c != "" {
				m[gen.LabelCell] = c
			}
			out = append(out, m)
		}
	}
	return out
}

// emptiedKeys (classification only): requirement keys of the final NodeClaim that are the empty set ("DoesNotExist")
// although neither the NodePool nor a pod placed on the claim requires the label to be absent.
func emptiedKeys(s *common.Scenario, nc *provscheduling.NodeClaim) map[string]bool {
	out := map[string]bool{}
	for k, req := range nc.Requirements {
		if req.Operator() != corev1.NodeSelectorOpDoesNotExist {
			continue
		}
		asked := false
		for _, np := range s.Pools {
			if np.Name != nc.NodePoolName {
				continue
			}
			for _, q := range np.Spec.Template.Spec.Requirements {
				if q.Key == k && q.Operator == corev1.NodeSelectorOpDoesNotExist {
					asked = true
				}
			}
		}
		for _, p := range nc.Pods {
			if p.Spec.Affinity == nil || p.Spec.Affinity.NodeAffinity == nil || p.Spec.Affinity.NodeAffinity.RequiredDuringSchedulingIgnoredDuringExecution == nil {
				continue
			}
			for _, t := range p.Spec.Affinity.NodeAffinity.RequiredDuringSchedulingIgnoredDuringExecution.NodeSelectorTerms {
				for _, e := range t.MatchExpressions {
					if e.Key == k && e.Operator == corev1.NodeSelectorOpDoesNotExist {
						asked = true
					}
				}
			}
		}
		if !asked {
			out[k] = true
		}
	}
	return out
}

// multiValuedKeys (classification only): keys whose final requirement on the claim admits more than one value.
func multiValuedKeys(nc *provscheduling.NodeClaim) map[string]bool {
	out := map[string]bool{}
	for k, req := range nc.Requirements {
		if req.Len() > 1 {
			out[k] = true
		}
	}
	// a well-known key the requirements do not mention is decided by the offering that gets launched
	for _, k := range []string{corev1.LabelTopologyZone, v1.CapacityTypeLabelKey} {
		if !nc.Requirements.Has(k) {
			out[k] = true
		}
	}
	return out
}

// complementKeys (classification only): keys on which the claim's NodePool has an Exists / NotIn / Gt / Lt requirement.
func complementKeys(s *common.Scenario, nc *provscheduling.NodeClaim) map[string]bool {
	return complementKeysOfPool(s, nc.NodePoolName)
}

func complementKeysOfPool(s *common.Scenario, pool string) map[string]bool {
	out := map[string]bool{}
	for _, np := range s.Pools {
		if np.Name != pool {
			continue
		}
		for _, q := range np.Spec.Template.Spec.Requirements {
			if q.Operator != corev1.NodeSelectorOpIn && q.Operator != corev1.NodeSelectorOpDoesNotExist {
				out[q.Key] = true
			}
		}
	}
	return out
}

func merge(a, b map[string]string) map[string]string {
	out := map[string]string{}
	for k, v := range a {
		out[k] = v
	}
	for k, v := range b {
		out[k] = v
	}
	return out
}

// requiredKept: the placed copy must still carry every required pod (anti-)affinity term and every DoNotSchedule
// spread of the stored pod (preferences may be relaxed away, requirements never).
func requiredKept(orig, placed *corev1.Pod) string {
	cnt := func(p *corev1.Pod) (aff, anti, dns int) {
		if p.Spec.Affinity != nil && p.Spec.Affinity.PodAffinity != nil {
			aff = len(p.Spec.Affinity.PodAffinity.RequiredDuringSchedulingIgnoredDuringExecution)
		}
		if p.Spec.Affinity != nil && p.Spec.Affinity.PodAntiAffinity != nil {
			anti = len(p.Spec.Affinity.PodAntiAffinity.RequiredDuringSchedulingIgnoredDuringExecution)
		}
		dns = len(oracle.DoNotScheduleSpreads(p))
		return
	}
	a1, b1, c1 := cnt(orig)
	a2, b2, c2 := cnt(placed)
	if a2 < a1 || b2 < b1 || c2 < c1 {
		return fmt.Sprintf("required affinity terms %d→%d, required anti-affinity terms %d→%d, DoNotSchedule spreads %d→%d", a1, a2, b1, b2, c1, c2)
	}
	return ""
}

const roundsPerWorld = 3

func run(r *mon.Report, tier string, idx int, rng *rand.Rand) {
	w := buildWorld(rng)
	s := w.S
	e := s.Env
	r.Eval()
	for round := 0; round < roundsPerWorld; round++ {
		newBatch(rng, w, round)
		if err := e.SyncState(); err != nil {
			r.Inconcl("case %d: state sync error: %v", idx, err)
			return
		}
		// every round runs under its own configuration (preference policy x parallelism)
		pp := []options.PreferencePolicy{options.PreferencePolicyRespect, options.PreferencePolicyIgnore}[rng.Intn(2)]
		o := *e.Opts
		o.PreferencePolicy = pp
		o.CPURequests = []int64{1000, 4000, 8000}[rng.Intn(3)]
		ctx := options.ToContext(e.Ctx, &o)
		w.Opt["preferencePolicy"], w.Opt["parallelism"], w.Opt["round"] = string(pp), o.CPURequests/1000, round
		w.respect = pp == options.PreferencePolicyRespect
		originals := common.SnapshotPods(e)
		var res provscheduling.Results
		var err error
		panicked, pv, stack := mon.Guard(func() { res, err = e.Prov.Schedule(ctx) })
		r.Inc("scheduling_passes")
		caseDesc := map[string]any{"case": idx, "round": round, "options": map[string]any{"preferencePolicy": string(pp), "parallelism": o.CPURequests / 1000, "deletingClaim": w.Opt["deletingClaim"]},
			"pools": s.Desc["pools"], "nodes": s.NodeInfo, "providerPolicy": e.Provider.Policy}
		if panicked {
			r.Violate("panic-in-schedule", fmt.Sprintf("Provisioner.Schedule panicked: %v", pv), caseDesc, stack)
			return
		}
		if err != nil {
			r.Inc("schedule_errors")
			continue
		}
		judge(r, w, res, originals, caseDesc, rng, idx)
	}
}

func judge(r *mon.Report, w *World, res provscheduling.Results, originals map[types.UID]*corev1.Pod, caseDesc map[string]any, rng *rand.Rand, idx int) {
	s := w.S
	e := s.Env
	r.Count("pod_errors", len(res.PodErrors))
	failed := map[types.UID]bool{}
	for p := range res.PodErrors {
		failed[p.UID] = true
	}
	// ---- nodes ----
	var nodes []oracle.IPNode
	byName := map[string]int{}
	for _, en := range res.ExistingNodes {
		cn, kind, ok := common.TruthNode(e, en)
		if !ok {
			r.Inc("existing_node_without_instance")
			cn.Labels = en.Labels()
		}
		n := oracle.IPNode{ID: en.Name(), Kind: kind, Labels: merge(cn.Labels, nil), Taints: cn.Taints, RawTaints: cn.Taints}
		if _, has := n.Labels[corev1.LabelHostname]; !has && en.NodeClaim != nil {
			// in-flight managed node: the kubelet will set the hostname label (world.KubeletRegister: hostname = node name)
			n.Labels[corev1.LabelHostname] = en.Name()
		}
		if en.Node != nil {
			node := &corev1.Node{}
			if e.API.Raw.Get(context.Background(), types.NamespacedName{Name: en.Node.Name}, node) == nil {
				n.RawTaints = node.Spec.Taints
			}
			byName[en.Node.Name] = len(nodes)
		} else if en.NodeClaim != nil {
			n.RawTaints = append(append([]corev1.Taint{}, en.NodeClaim.Spec.Taints...), en.NodeClaim.Spec.StartupTaints...)
			n.ComplementKeys = complementKeysOfPool(s, en.NodeClaim.Labels[v1.NodePoolLabelKey])
		}
		nodes = append(nodes, n)
	}
	existingIdx := map[*provscheduling.ExistingNode]int{}
	for i, en := range res.ExistingNodes {
		existingIdx[en] = i
	}
	apiNodes := &corev1.NodeList{}
	_ = e.API.Raw.List(context.Background(), apiNodes)
	for i := range apiNodes.Items {
		nd := &apiNodes.Items[i]
		if _, ok := byName[nd.Name]; ok {
			continue
		}
		byName[nd.Name] = len(nodes)
		// nodes the scheduler was not offered as targets: those marked for deletion
		nodes = append(nodes, oracle.IPNode{ID: nd.Name, Kind: "deleting", Deleting: true, Labels: nd.Labels, Taints: nd.Spec.Taints, RawTaints: nd.Spec.Taints})
		r.Inc("deleting_nodes_in_world")
	}
	newIdx := map[*provscheduling.NodeClaim]int{}
	for i, nc := range res.NewNodeClaims {
		id := fmt.Sprintf("new-%d(%s)", i, nc.NodePoolName)
		lbls := merge(nc.Labels, map[string]string{corev1.LabelHostname: id})
		newIdx[nc] = len(nodes)
		nodes = append(nodes, oracle.IPNode{ID: id, Kind: "new", New: true, Labels: lbls, Taints: nc.Spec.Taints,
			RawTaints: append(append([]corev1.Taint{}, nc.Spec.Taints...), nc.Spec.StartupTaints...), EmptiedKeys: emptiedKeys(s, nc), ComplementKeys: complementKeys(s, nc), MultiValuedKeys: multiValuedKeys(nc)})
	}
	// ---- pods ----
	var pods []oracle.IPPod
	placedUID := map[types.UID]bool{}
	addPlaced := func(cp *corev1.Pod, node int) {
		o := originals[cp.UID]
		if o == nil {
			o = cp
		}
		placedUID[cp.UID] = true
		r.Inc("relaxation_checks")
		if why := requiredKept(o, cp); why != "" {
			r.Violate("required-inter-pod-constraint-dropped-by-relaxation", fmt.Sprintf("placed copy of pod %s lost required constraints: %s", cp.Name, why), caseDesc,
				map[string]any{"original": podSummary(o), "placed": podSummary(cp)})
		}
		pods = append(pods, oracle.IPPod{Orig: o, Copy: cp, Node: node, Placed: true})
	}
	for _, en := range res.ExistingNodes {
		for _, p := range en.Pods {
			addPlaced(p, existingIdx[en])
		}
	}
	for _, nc := range res.NewNodeClaims {
		for _, p := range nc.Pods {
			addPlaced(p, newIdx[nc])
		}
	}
	if len(placedUID) == 0 {
		r.Inc("cases_without_placement")
		return
	}
	r.Count("pods_placed", len(placedUID))
	var uids []string
	for uid := range originals {
		uids = append(uids, string(uid))
	}
	sort.Strings(uids)
	for _, uid := range uids {
		o := originals[types.UID(uid)]
		if o.Spec.NodeName == "" || placedUID[o.UID] {
			continue
		}
		if o.Status.Phase == corev1.PodSucceeded || o.Status.Phase == corev1.PodFailed || o.DeletionTimestamp != nil {
			r.Inc("running_pods_ignored_terminal_or_terminating")
			continue
		}
		if failed[o.UID] {
			r.Inc("rescheduled_pods_unplaced_ignored")
			continue
		}
		ni, ok := byName[o.Spec.NodeName]
		if !ok {
			r.Inc("running_pods_on_unknown_node_ignored")
			continue
		}
		pods = append(pods, oracle.IPPod{Orig: o, Copy: o, Node: ni, Placed: false})
	}
	nsList := &corev1.NamespaceList{}
	_ = e.API.Raw.List(context.Background(), nsList)
	nsLabels := map[string]map[string]string{}
	for _, ns := range nsList.Items {
		nsLabels[ns.Name] = ns.Labels
	}
	ip := oracle.NewInterPod(nodes, pods, nsLabels)
	ip.Respect = w.respect
	for _, p := range pods {
		if p.Placed {
			ip.Batch = append(ip.Batch, p.Orig)
		}
	}
	for p := range res.PodErrors {
		if o := originals[p.UID]; o != nil {
			ip.Batch = append(ip.Batch, o)
		}
	}
	ante := ip.Antecedents()
	for k, v := range ante {
		r.Count(k, v)
	}
	if len(ante) == 0 {
		r.Inc("cases_without_judged_constraint")
		return
	}
	// ---- realisations ----
	keys := ip.TopologyKeys()
	relevant := make([]bool, len(nodes))
	for pi, p := range pods {
		if ip.Involved[pi] {
			relevant[p.Node] = true
		}
	}
	total := 1
	var enumerated []int
	for _, nc := range res.NewNodeClaims {
		ni := newIdx[nc]
		ip.Nodes[ni].Options = claimOptions(r, nc, ip.Nodes[ni].ID, keys)
		if relevant[ni] {
			enumerated = append(enumerated, ni)
			if total <= realisationCap {
				total *= len(ip.Nodes[ni].Options)
			}
			if len(ip.Nodes[ni].Options) > 1 {
				r.Inc("new_claims_with_undetermined_domain")
			}
		}
	}
	partial := total > realisationCap
	nreal := total
	if partial {
		r.Inc("partial")
		nreal = realisationCap
	}
	type agg struct {
		f    oracle.IPFinding
		hits int
		lbls map[string]map[string]string
	}
	found := map[string]*agg{}
	var order []string
	for ri := 0; ri < nreal; ri++ {
		lbls := make([]map[string]string, len(nodes))
		for ni := range nodes {
			if !nodes[ni].New {
				lbls[ni] = nodes[ni].Labels
			}
		}
		x := ri
		for _, ni := range enumerated {
			opts := ip.Nodes[ni].Options
			var pick int
			if partial {
				pick = rng.Intn(len(opts))
			} else {
				pick = x % len(opts)
				x /= len(opts)
			}
			lbls[ni] = merge(ip.Nodes[ni].Labels, opts[pick])
		}
		r.Inc("realisations_checked")
		for _, f := range ip.Check(lbls) {
			a := found[f.ID]
			if a == nil {
				a = &agg{f: f, lbls: map[string]map[string]string{}}
				for _, ni := range enumerated {
					a.lbls[nodes[ni].ID] = lbls[ni]
				}
				found[f.ID] = a
				order = append(order, f.ID)
			}
			a.hits++
		}
	}
	for k, v := range ip.Counters {
		r.Count(k, v)
	}
	// ---- verdicts ----
	respect := w.respect
	collapsed := map[string][]string{}
	for _, p := range pods {
		if ks := oracle.CollapsedKeys(p.Copy, respect); len(ks) > 0 {
			collapsed[p.Orig.Namespace+"/"+p.Orig.Name] = ks
		}
	}
	for _, id := range order {
		a := found[id]
		key := a.f.Class
		if a.hits < nreal && (strings.HasPrefix(key, "anti-affinity-violated:") || strings.HasPrefix(key, "affinity-unsatisfied:") || strings.HasPrefix(key, "affinity-self-start-despite") || strings.HasPrefix(key, "spread-maxskew-exceeded:"+"zone") ||
			strings.HasPrefix(key, "spread-maxskew-exceeded:custom") || strings.HasPrefix(key, "spread-maxskew-exceeded:capacity-type") || strings.HasPrefix(key, "spread-maxskew-exceeded:hostname")) {
			key += ":undetermined-domain" // generic classes only; root-cause classes keep one key
		}
		b, _ := json.Marshal(a.f.Detail)
		for ref := range collapsed {
			if strings.Contains(string(b), ref) {
				key = "unsat-conjunction-treated-as-DoesNotExist"
			}
		}
		wit := map[string]any{"finding": a.f.Detail, "realisationsViolating": a.hits, "realisationsChecked": nreal, "newClaimLabelsInWitnessRealisation": a.lbls,
			"result": summarize(res, ip), "running": runningSummary(ip), "batch": batchSummary(w, originals), "collapsedKeys": collapsed}
		r.Violate(key, a.f.What, caseDesc, wit)
	}
	// ---- evidence ----
	sig := map[string]bool{}
	for k := range ante {
		sig[k] = true
	}
	tk := map[string]bool{}
	for pi, p := range pods {
		if p.Placed && ip.Involved[pi] {
			tk[nodes[p.Node].Kind] = true
		}
	}
	r.Sig("%s|targets=%s|pp=%v|par=%v", strings.Join(common.SortedKeys(sig), "+"), strings.Join(common.SortedKeys(tk), "+"), w.Opt["preferencePolicy"], w.Opt["parallelism"])
	r.DistinctAdd("queue_orders", queueOrder(w, originals))
	if r.WantSample() && len(res.NewNodeClaims) > 0 && len(ante) > 2 {
		r.Sample(map[string]any{"case": idx, "options": w.Opt, "pools": s.Desc["pools"], "batch": batchSummary(w, originals), "running": runningSummary(ip),
			"result": summarize(res, ip), "antecedents": ante, "realisations": nreal, "findings": len(found)})
	}
}

// queueOrder: the order in which the scheduler's queue first dequeues the batch (cpu desc, memory desc, creation, uid),
// abstracted to deployment names.
func queueOrder(w *World, originals map[types.UID]*corev1.Pod) string {
	ps := append([]*corev1.Pod(nil), w.Batch...)
	for i, p := range ps {
		if o := originals[p.UID]; o != nil {
			ps[i] = o
		}
	}
	sort.SliceStable(ps, func(i, j int) bool {
		a, b := ps[i].Spec.Containers[0].Resources.Requests, ps[j].Spec.Containers[0].Resources.Requests
		if c := a.Cpu().Cmp(*b.Cpu()); c != 0 {
			return c > 0
		}
		if c := a.Memory().Cmp(*b.Memory()); c != 0 {
			return c > 0
		}
		if !ps[i].CreationTimestamp.Equal(&ps[j].CreationTimestamp) {
			return ps[i].CreationTimestamp.Before(&ps[j].CreationTimestamp)
		}
		return ps[i].UID < ps[j].UID
	})
	var out []string
	for _, p := range ps {
		out = append(out, p.Labels[gen.LabelApp])
	}
	return strings.Join(out, ",")
}

func summarize(res provscheduling.Results, ip *oracle.InterPod) map[string]any {
	var ncs []map[string]any
	i := 0
	for _, n := range ip.Nodes {
		if !n.New {
			continue
		}
		nc := res.NewNodeClaims[i]
		i++
		var its []string
		for _, it := range nc.InstanceTypeOptions {
			its = append(its, it.Name)
		}
		ncs = append(ncs, map[string]any{"id": n.ID, "pods": common.PodNames(nc.Pods), "requirements": nc.Requirements.String(), "instanceTypes": its, "taints": nc.Spec.Taints,
			"possibleLabels": n.Options})
	}
	var ex []map[string]any
	for _, en := range res.ExistingNodes {
		if len(en.Pods) > 0 {
			ex = append(ex, map[string]any{"node": en.Name(), "pods": common.PodNames(en.Pods)})
		}
	}
	var errs []string
	for p, err := range res.PodErrors {
		msg := err.Error()
		if len(msg) > 160 {
			msg = msg[:160]
		}
		errs = append(errs, p.Name+": "+msg)
	}
	sort.Strings(errs)
	return map[string]any{"newNodeClaims": ncs, "existing": ex, "podErrors": errs}
}

func runningSummary(ip *oracle.InterPod) []map[string]any {
	var out []map[string]any
	for _, n := range ip.Nodes {
		if n.New {
			continue
		}
		m := map[string]any{"node": n.ID, "kind": n.Kind, "zone": n.Labels[corev1.LabelTopologyZone], "cell": n.Labels[gen.LabelCell], "capacityType": n.Labels[v1.CapacityTypeLabelKey],
			"hostnameLabel": n.Labels[corev1.LabelHostname], "taints": n.Taints}
		var ps []map[string]any
		for _, p := range ip.Pods {
			if !p.Placed && ip.Nodes[p.Node].ID == n.ID {
				x := map[string]any{"name": p.Orig.Namespace + "/" + p.Orig.Name, "labels": p.Orig.Labels}
				if p.Orig.Spec.Affinity != nil && p.Orig.Spec.Affinity.PodAntiAffinity != nil && len(p.Orig.Spec.Affinity.PodAntiAffinity.RequiredDuringSchedulingIgnoredDuringExecution) > 0 {
					x["requiredAntiAffinity"] = p.Orig.Spec.Affinity.PodAntiAffinity.RequiredDuringSchedulingIgnoredDuringExecution
				}
				ps = append(ps, x)
			}
		}
		m["runningPods"] = ps
		out = append(out, m)
	}
	return out
}

func batchSummary(w *World, originals map[types.UID]*corev1.Pod) []map[string]any {
	var out []map[string]any
	var ps []*corev1.Pod
	for _, o := range originals {
		if o.Spec.NodeName == "" {
			ps = append(ps, o)
		}
	}
	sort.Slice(ps, func(i, j int) bool { return ps[i].Name < ps[j].Name })
	for _, p := range ps {
		out = append(out, podSummary(p))
	}
	return out
}

func init() {
	reg.Register(&reg.Prop{
		ID: "C02", Level: "exploration",
		Rule:  "each case = generated world (catalog 3-6 types with partly unavailable zones; 1-3 NodePools with zone In/NotIn, capacity-type and custom-key (label / In / NotIn / Exists / absent) requirements, taints; 3 labelled namespaces; 1-3 deployments with required+preferred pod affinity / anti-affinity over zone, hostname, custom key and capacity-type with namespaces / namespaceSelector, DoNotSchedule + ScheduleAnyway spreads with maxSkew 1-3, minDomains, both node inclusion policies, matchLabelKeys; 0-2 rounds of matching pods (some carrying the required anti-affinity, some pinned to zones to skew the distribution) provisioned and bound through the real pipeline, in-flight claims, 0-2 hand-built unmanaged nodes incl. an unprovisionable zone and nodes lacking topology labels, terminating/terminal pods, sometimes a managed node being deleted whose pods are rescheduled; 1 world in 8 adds a tainted unmanaged node full of replicas next to an untainted one for nodeTaintsPolicy=Honor) followed by 3 scheduling passes, each with a fresh batch of 2-14 pending pods (varied requests/creation times, sometimes a rollout that edits minDomains on half of the replicas) scheduled by the real Provisioner.Schedule under its own PRNG-chosen {preference policy, parallelism 1/4/8}, ReservedCapacity off; every pass is judged on every assignment of concrete domains to the new NodeClaims (cap 512). Non-trivial = at least one required anti-affinity pair, required affinity term or DoNotSchedule spread group was judged by the realisation checker; distinct by (constraint kinds judged x kinds of target nodes x configuration).",
		Cases: cases, Run: run, Race: true, RaceIsViolation: true,
		RaceFrac: map[string]float64{"quick": 0.34, "thorough": 0.1},
		MinObserved: map[string]int{
			"scheduling_passes":                        600,
			"realisations_checked":                     200,
			"anti_affinity_pairs:placed-placed":        20,
			"anti_affinity_pairs:placed-bound":         5,
			"anti_affinity_pairs:inverse-bound-placed": 5,
			"affinity_terms:self-matching":             10,
			"affinity_terms:not-self-matching":         5,
			"spread_groups":                            30,
			"spread_groups:minDomains":                 5,
			"spread_groups:nodeAffinityPolicy=Ignore":  5,
			"spread_groups:nodeTaintsPolicy=Honor":     5,
			"spread_groups:matchLabelKeys":             5,
		},
	})
}
