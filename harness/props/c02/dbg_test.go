package c02

import (
	"fmt"
	"math/rand"
	"os"
	"strconv"
	"testing"

	corev1 "k8s.io/api/core/v1"

	"verif/props/reg"
)

func TestDbg(t *testing.T) {
	idx, _ := strconv.Atoi(os.Getenv("CASE"))
	seed, _ := strconv.Atoi(os.Getenv("SEED"))
	if seed == 0 {
		seed = 1
	}
	rng := rand.New(rand.NewSource(reg.CaseSeed(int64(seed), idx)))
	w := buildWorld(rng)
	e := w.S.Env
	_ = e.SyncState()
	res, err := e.Prov.Schedule(e.Ctx)
	fmt.Println("err", err)
	for _, en := range res.ExistingNodes {
		fmt.Println("existing", en.Name(), "labels", en.Labels(), "managed", en.Managed(), "init", en.Initialized())
		for _, p := range en.Pods {
			fmt.Println("   pod", p.Name, p.Spec.NodeSelector, p.Spec.Affinity, p.Spec.TopologySpreadConstraints)
		}
	}
	for _, nc := range res.NewNodeClaims {
		fmt.Println("new", nc.NodePoolName, nc.Requirements.String())
		for _, p := range nc.Pods {
			fmt.Println("   pod", p.Name)
		}
	}
	for p, err := range res.PodErrors {
		fmt.Println("ERR", p.Name, err)
	}
	_ = corev1.LabelHostname
}
