package c02

import (
	"fmt"
	"math/rand"
	"os"
	"reflect"
	"strconv"
	"testing"
	"unsafe"

	"verif/props/common"
	"verif/props/reg"
)

func field(v reflect.Value, name string) reflect.Value {
	f := v.FieldByName(name)
	return reflect.NewAt(f.Type(), unsafe.Pointer(f.UnsafeAddr())).Elem()
}

func dumpTopo(s any) {
	sv := reflect.ValueOf(s).Elem()
	topo := field(sv, "topology").Elem()
	for _, nm := range []string{"topologyGroups", "inverseTopologyGroups"} {
		m := field(topo, nm)
		for _, k := range m.MapKeys() {
			tg := m.MapIndex(k).Elem()
			fmt.Printf("%s key=%v type=%v maxSkew=%v minDomains=%v ns=%v sel=%v domains=%v empty=%v owners=%d\n", nm, tg.FieldByName("Key"), field(tg, "Type").Interface(), field(tg, "maxSkew"), func() any {
				p := field(tg, "minDomains")
				if p.IsNil() {
					return nil
				}
				return p.Elem().Int()
			}(), field(tg, "namespaces"), field(tg, "selector").Interface(), field(tg, "domains"), field(tg, "emptyDomains"), field(tg, "owners").Len())
		}
	}
}

func TestDbg2(t *testing.T) {
	idx, _ := strconv.Atoi(os.Getenv("CASE"))
	seed, _ := strconv.Atoi(os.Getenv("SEED"))
	if seed == 0 {
		seed = 1
	}
	rng := rand.New(rand.NewSource(reg.CaseSeed(int64(seed), idx)))
	w := buildWorld(rng)
	e := w.S.Env
	_ = e.SyncState()
	nodes := e.Cluster.DeepCopyNodes()
	pending, _ := e.Prov.GetPendingPods(e.Ctx)
	s, err := e.Prov.NewScheduler(e.Ctx, pending, nodes.Active(), nil)
	fmt.Println(err)
	fmt.Println("BEFORE")
	dumpTopo(s)
	res, err := s.Solve(e.Ctx, pending)
	fmt.Println("AFTER", err)
	dumpTopo(s)
	for _, en := range res.ExistingNodes {
		fmt.Println("existing", en.Name(), common.PodNames(en.Pods))
	}
	for _, nc := range res.NewNodeClaims {
		fmt.Println("new", nc.NodePoolName, nc.Requirements.String(), common.PodNames(nc.Pods))
	}
	for p, err := range res.PodErrors {
		fmt.Println("ERR", p.Name, err)
	}
}

func TestDbg3(t *testing.T) {
	idx, _ := strconv.Atoi(os.Getenv("CASE"))
	seed, _ := strconv.Atoi(os.Getenv("SEED"))
	rng := rand.New(rand.NewSource(reg.CaseSeed(int64(seed), idx)))
	w := buildWorld(rng)
	e := w.S.Env
	_ = e.SyncState()
	pending, _ := e.Prov.GetPendingPods(e.Ctx)
	for _, p := range pending {
		for _, c := range p.Spec.TopologySpreadConstraints {
			fmt.Println(p.Name, c.TopologyKey, c.MaxSkew, c.MinDomains, c.WhenUnsatisfiable)
		}
	}
	for _, p := range w.Batch {
		for _, c := range p.Spec.TopologySpreadConstraints {
			fmt.Println("batch", p.Name, c.TopologyKey, c.MaxSkew, c.MinDomains, c.WhenUnsatisfiable)
		}
	}
}
