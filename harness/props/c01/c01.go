// Package c01: simulated placements are feasible on every launch option.
//
// Each case builds a world (catalog, NodePools, daemonsets, managed nodes grown through the real
// pipeline to different lifecycle stages, unmanaged nodes), adds a batch of pending pods with random
// node-level constraints, runs the real Provisioner.Schedule under a PRNG-chosen configuration and
// judges every placement in scheduling.Results with the independent admissibility oracle.
package c01

import (
	"context"
	"fmt"
	"math/rand"
	"sort"
	"strings"

	corev1 "k8s.io/api/core/v1"
	"k8s.io/apimachinery/pkg/types"
	"sigs.k8s.io/controller-runtime/pkg/client"

	v1 "sigs.k8s.io/karpenter/pkg/apis/v1"
	"sigs.k8s.io/karpenter/pkg/cloudprovider"
	provscheduling "sigs.k8s.io/karpenter/pkg/controllers/provisioning/scheduling"
	"sigs.k8s.io/karpenter/pkg/operator/options"
	"sigs.k8s.io/karpenter/pkg/scheduling"

	"verif/gen"
	"verif/mon"
	"verif/oracle"
	"verif/props/common"
	"verif/props/reg"
	"verif/world"
)

func cases(tier string) int {
	if tier == "thorough" {
		return 200000
	}
	return 6400
}

func run(r *mon.Report, tier string, idx int, rng *rand.Rand) {
	cfg := common.DefaultScenarioCfg()
	opts, optDesc := common.RandomOptions(rng)
	cfg.Options = opts
	cfg.Catalog.Reserved = rng.Intn(3) == 0
	cfg.PerPoolCatalog = rng.Intn(3) == 0
	cfg.Pool.PMinValues = 0.15
	cfg.Pool.PTaint = 0.4
	cfg.Pool.PStartupTaint = 0.4
	cfg.SelectiveDaemons = rng.Intn(3) == 0
	s := common.Build(rng, cfg)
	e := s.Env
	e.Provider.Policy = []string{"cheapest", "dearest", "largest", "smallest", "random"}[rng.Intn(5)]
	// initial managed nodes through the real pipeline
	if n := rng.Intn(cfg.MaxSeedPods + 1); n > 0 {
		var seed []*corev1.Pod
		for i := 0; i < n; i++ {
			seed = append(seed, gen.RandomPod(rng, s.NextPodName("s"), cfg.Pod))
		}
		s.Grow(rng, seed, cfg.Stages)
	}
	if cfg.Unmanaged && rng.Intn(3) == 0 {
		if n := s.AddUnmanagedNode(rng); rng.Intn(3) == 0 {
			// a node that joined without a zone label (bare metal, a kubelet without cloud provider)
			cur := &corev1.Node{}
			if e.API.Raw.Get(context.Background(), types.NamespacedName{Name: n.Name}, cur) == nil {
				delete(cur.Labels, corev1.LabelTopologyZone)
				_ = e.API.Raw.Update(context.Background(), cur)
				r.Inc("unmanaged_nodes_without_zone_label")
			}
		}
	}
	// mark one node deleting sometimes (its capacity must not be used)
	deleting := ""
	if names := e.ClaimNames(); len(names) > 0 && rng.Intn(4) == 0 {
		deleting = names[rng.Intn(len(names))]
		nc := &v1.NodeClaim{}
		if e.API.Raw.Get(context.Background(), types.NamespacedName{Name: deleting}, nc) == nil {
			_ = e.API.Raw.Delete(context.Background(), nc)
		}
	}
	volumesOn = rng.Intn(10) < 3
	volEnv = e
	if volumesOn {
		setupVolumes(rng, s)
	}
	batch := s.Pending(rng, 1+rng.Intn(12), cfg.Pod)
	if volumesOn {
		attachVolumes(rng, s, batch)
		sigExtra = "+volumes"
	} else {
		sigExtra = ""
	}
	var goneLater *corev1.Pod
	if volumesOn && rng.Intn(3) == 0 {
		var filler *corev1.Pod
		if goneLater, filler = sharedVolumeHistory(rng, s); filler != nil {
			batch = append(batch, filler)
			r.Inc("shared_volume_histories")
		}
	}
	if err := e.SyncState(); err != nil {
		r.Inconcl("case %d: state sync error: %v", idx, err)
		r.Eval()
		return
	}
	if goneLater != nil {
		// one of the two pods sharing a claim goes away; cluster state learns it from the pod event alone (the Node is
		// not reconciled again before the scheduling pass)
		_ = e.API.Raw.Delete(context.Background(), goneLater)
		_ = e.Deliver(world.Request{Kind: "Pod", NS: goneLater.Namespace, Name: goneLater.Name})
	}
	originals := snapshotPods(e)
	var res provscheduling.Results
	var err error
	panicked, pv, stack := mon.Guard(func() { res, err = e.Prov.Schedule(e.Ctx) })
	r.Eval()
	caseDesc := map[string]any{"case": idx, "options": optDesc, "world": s.Desc, "nodes": s.NodeInfo, "batch": podNames(batch), "deleting": deleting, "providerPolicy": e.Provider.Policy}
	if panicked {
		r.Violate("panic-in-schedule", fmt.Sprintf("Provisioner.Schedule panicked: %v", pv), caseDesc, stack)
		return
	}
	if err != nil {
		r.Inc("schedule_errors")
		return
	}
	r.Count("pod_errors", len(res.PodErrors))
	sigParts := map[string]bool{}
	checkExisting(r, s, res, originals, caseDesc, sigParts)
	checkNew(r, s, res, originals, caseDesc, sigParts, deleting)
	if len(sigParts) > 0 {
		r.Sig("%s%s|pp=%v|mv=%v|par=%v", strings.Join(common.SortedKeys(sigParts), "+"), sigExtra, optDesc["preferencePolicy"], optDesc["minValuesPolicy"], optDesc["parallelism"])
	}
	if r.WantSample() && len(res.NewNodeClaims) > 0 {
		r.Sample(map[string]any{"case": idx, "options": optDesc, "pools": s.Desc["pools"], "batch": podSummaries(batch), "existing_nodes": s.NodeInfo,
			"result": summarize(res)})
	}
}

func podNames(ps []*corev1.Pod) []string {
	var out []string
	for _, p := range ps {
		out = append(out, p.Name)
	}
	return out
}

func podSummaries(ps []*corev1.Pod) []map[string]any {
	var out []map[string]any
	for _, p := range ps {
		out = append(out, map[string]any{"name": p.Name, "requests": p.Spec.Containers[0].Resources.Requests, "nodeSelector": p.Spec.NodeSelector,
			"affinity": p.Spec.Affinity, "tolerations": p.Spec.Tolerations, "ports": p.Spec.Containers[0].Ports})
	}
	return out
}

func summarize(res provscheduling.Results) map[string]any {
	var ncs []map[string]any
	for _, nc := range res.NewNodeClaims {
		var its []string
		for _, it := range nc.InstanceTypeOptions {
			its = append(its, it.Name)
		}
		ncs = append(ncs, map[string]any{"pool": nc.NodePoolName, "pods": podNames(nc.Pods), "instanceTypes": its, "requirements": nc.Requirements.String()})
	}
	var ex []map[string]any
	for _, n := range res.ExistingNodes {
		if len(n.Pods) > 0 {
			ex = append(ex, map[string]any{"node": n.Name(), "pods": podNames(n.Pods)})
		}
	}
	return map[string]any{"newNodeClaims": ncs, "existing": ex, "podErrors": len(res.PodErrors)}
}

// snapshotPods returns the stored (original, unrelaxed) pods by UID.
func snapshotPods(e *world.Env) map[types.UID]*corev1.Pod {
	pods := &corev1.PodList{}
	_ = e.API.Raw.List(context.Background(), pods)
	out := map[types.UID]*corev1.Pod{}
	for i := range pods.Items {
		out[pods.Items[i].UID] = &pods.Items[i]
	}
	return out
}

func podKinds(p *corev1.Pod, into map[string]bool) {
	if len(p.Spec.NodeSelector) > 0 {
		into["selector"] = true
	}
	if p.Spec.Affinity != nil && p.Spec.Affinity.NodeAffinity != nil {
		if p.Spec.Affinity.NodeAffinity.RequiredDuringSchedulingIgnoredDuringExecution != nil {
			into[fmt.Sprintf("required%d", len(p.Spec.Affinity.NodeAffinity.RequiredDuringSchedulingIgnoredDuringExecution.NodeSelectorTerms))] = true
		}
		if len(p.Spec.Affinity.NodeAffinity.PreferredDuringSchedulingIgnoredDuringExecution) > 0 {
			into["preferred"] = true
		}
	}
	if len(p.Spec.Tolerations) > 0 {
		into["toleration"] = true
	}
	for _, c := range p.Spec.Containers {
		if len(c.Ports) > 0 {
			into["hostport"] = true
		}
		if _, ok := c.Resources.Requests[gen.ResGPU]; ok {
			into["gpu"] = true
		}
	}
}

// relaxationOK: the placed copy may differ from the original only by dropped preferred terms, dropped
// leading required OR-terms with at least one remaining, removed ScheduleAnyway spreads, added PreferNoSchedule toleration.
func relaxationOK(orig, placed *corev1.Pod) (bool, string) {
	var oTerms, pTerms []corev1.NodeSelectorTerm
	if orig.Spec.Affinity != nil && orig.Spec.Affinity.NodeAffinity != nil && orig.Spec.Affinity.NodeAffinity.RequiredDuringSchedulingIgnoredDuringExecution != nil {
		oTerms = orig.Spec.Affinity.NodeAffinity.RequiredDuringSchedulingIgnoredDuringExecution.NodeSelectorTerms
	}
	if placed.Spec.Affinity != nil && placed.Spec.Affinity.NodeAffinity != nil && placed.Spec.Affinity.NodeAffinity.RequiredDuringSchedulingIgnoredDuringExecution != nil {
		pTerms = placed.Spec.Affinity.NodeAffinity.RequiredDuringSchedulingIgnoredDuringExecution.NodeSelectorTerms
	}
	if len(oTerms) > 0 {
		if len(pTerms) == 0 {
			return false, "all required node-affinity terms were dropped"
		}
		if len(pTerms) > len(oTerms) {
			return false, "required terms grew"
		}
		suffix := oTerms[len(oTerms)-len(pTerms):]
		if fmt.Sprint(suffix) != fmt.Sprint(pTerms) {
			return false, "placed required terms are not a suffix of the original terms"
		}
	}
	if fmt.Sprint(orig.Spec.NodeSelector) != fmt.Sprint(placed.Spec.NodeSelector) {
		return false, "nodeSelector changed"
	}
	// tolerations: only an Exists/PreferNoSchedule toleration may be added
	if len(placed.Spec.Tolerations) < len(orig.Spec.Tolerations) {
		return false, "tolerations removed"
	}
	for _, t := range placed.Spec.Tolerations[len(orig.Spec.Tolerations):] {
		if !(t.Operator == corev1.TolerationOpExists && t.Effect == corev1.TaintEffectPreferNoSchedule && t.Key == "") {
			return false, fmt.Sprintf("unexpected toleration added: %+v", t)
		}
	}
	if fmt.Sprint(oracle.PodRequests(orig)) != fmt.Sprint(oracle.PodRequests(placed)) {
		return false, "requests changed"
	}
	return true, ""
}

func original(r *mon.Report, originals map[types.UID]*corev1.Pod, placed *corev1.Pod, cs any) *corev1.Pod {
	o := originals[placed.UID]
	if o == nil {
		return placed
	}
	r.Inc("relaxation_checks")
	if ok, why := relaxationOK(o, placed); !ok {
		r.Violate("relaxation-dropped-required", fmt.Sprintf("pod %s was relaxed beyond preferences/OR-terms: %s", placed.Name, why), cs,
			map[string]any{"original": o.Spec, "placed": placed.Spec})
	}
	return o
}

// boundPods returns the non-terminal pods bound to a node (API truth).
func boundPods(e *world.Env, nodeName string) []*corev1.Pod {
	pods := &corev1.PodList{}
	_ = e.API.Raw.List(context.Background(), pods, client.MatchingFields{"spec.nodeName": nodeName})
	var out []*corev1.Pod
	for i := range pods.Items {
		p := &pods.Items[i]
		if p.Status.Phase == corev1.PodSucceeded || p.Status.Phase == corev1.PodFailed {
			continue
		}
		out = append(out, p)
	}
	return out
}

func checkExisting(r *mon.Report, s *common.Scenario, res provscheduling.Results, originals map[types.UID]*corev1.Pod, cs map[string]any, sig map[string]bool) {
	e := s.Env
	for _, en := range res.ExistingNodes {
		if len(en.Pods) == 0 {
			continue
		}
		r.Inc("existing_node_targets")
		// ground truth about the node
		cn := oracle.ConcreteNode{Name: en.Name()}
		kind := "unmanaged"
		var startup []corev1.Taint
		if en.NodeClaim != nil {
			kind = "inflight"
			startup = en.NodeClaim.Spec.StartupTaints
			inst := e.Provider.Instance(en.NodeClaim.Status.ProviderID)
			if inst == nil {
				r.Inconcl("existing node %s has no provider instance", en.Name())
				continue
			}
			cn.Allocatable = inst.Allocatable
			cn.Labels = map[string]string{}
			for k, v := range inst.Labels {
				cn.Labels[k] = v
			}
			for k, v := range en.NodeClaim.Labels {
				cn.Labels[k] = v
			}
			cn.Taints = en.NodeClaim.Spec.Taints
		}
		initialized := false
		if en.Node != nil {
			node := &corev1.Node{}
			if e.API.Raw.Get(context.Background(), types.NamespacedName{Name: en.Node.Name}, node) == nil {
				if en.NodeClaim == nil {
					cn.Allocatable = node.Status.Allocatable
					cn.Labels = node.Labels
					cn.Taints = node.Spec.Taints
					initialized = true
				} else if node.Labels[v1.NodeRegisteredLabelKey] == "true" {
					kind = "registered"
					for k, v := range node.Labels {
						cn.Labels[k] = v
					}
					cn.Taints = node.Spec.Taints
					if node.Labels[v1.NodeInitializedLabelKey] == "true" {
						kind = "initialized"
						initialized = true
						cn.Allocatable = node.Status.Allocatable
					}
				}
			}
		}
		if !initialized {
			// startup and known-ephemeral taints are expected to vanish on a managed, uninitialised node
			var keep []corev1.Taint
			for _, t := range cn.Taints {
				if scheduling.IsKnownEphemeralTaint(&t) {
					continue
				}
				isStartup := false
				for _, st := range startup {
					if st.MatchTaint(&t) {
						isStartup = true
					}
				}
				if !isStartup {
					keep = append(keep, t)
				}
			}
			cn.Taints = keep
		}
		sig["existing:"+kind] = true
		var placed []*corev1.Pod
		for _, p := range en.Pods {
			o := original(r, originals, p, cs)
			placed = append(placed, o)
			podKinds(o, sig)
		}
		others := []*corev1.Pod{}
		boundDaemons := map[string]bool{}
		if en.Node != nil {
			for _, bp := range boundPods(e, en.Node.Name) {
				others = append(others, bp)
				for _, or := range bp.OwnerReferences {
					if or.Kind == "DaemonSet" {
						boundDaemons[string(or.UID)] = true
					}
				}
			}
		}
		var pendingDaemons []*corev1.Pod
		for i, d := range s.DaemonPodTemplates() {
			if boundDaemons[string(s.Daemons[i].UID)] {
				continue
			}
			if oracle.DaemonAdmissible(d, cn) {
				pendingDaemons = append(pendingDaemons, d)
			}
		}
		r.Count("placements_checked", len(placed))
		r.Inc("concrete_nodes_materialised")
		ar := oracle.AdmitAllEx(cn, placed, others, pendingDaemons)
		if ar.OK && volumesOn {
			if why := volumeRefusal(e, cn, placed, others, true); why != "" {
				ar = oracle.AdmitResult{OK: false, Why: why}
			}
		}
		if !ar.OK {
			key := violKey("existing-node-inadmissible", ar.Why, en.Pods, respects(s))
			// ---- root-cause classification on nodes that lack a label (names the key; never decides the verdict) ----
			for i, p := range placed {
				if !strings.Contains(ar.Why, "pod "+p.Name+":") {
					continue
				}
				if strings.Contains(ar.Why, "volume") && volumeZonesContradict(e, p) {
					// the zones of the pod's volumes intersect to nothing; Karpenter represents the empty set like
					// DoesNotExist, which a node without the label satisfies (the recorded finding)
					key = "unsat-conjunction-treated-as-DoesNotExist"
				}
				if strings.Contains(ar.Why, "affinity") || strings.Contains(ar.Why, "volume") {
					ks := inKeys(p)
					if strings.Contains(ar.Why, "volume") {
						ks = []string{corev1.LabelTopologyZone} // a bound volume / allowedTopologies pins the zone
					}
					for _, k := range ks {
						if _, has := cn.Labels[k]; has {
							continue
						}
						for j, q := range en.Pods {
							// (for a volume the pod's OWN NotIn does it too: volume requirements are checked against node + pod requirements)
							if (j != i || strings.Contains(ar.Why, "volume")) && negativeOn(q, k) {
								// another pod's NotIn / DoesNotExist made the key 'defined' on the ExistingNode although the Node
								// object lacks it (same root cause as the C02 entry of that name)
								key = "constraint-on-existing-node-without-the-label:key-defined-by-another-pod's-NotIn-requirement"
							}
						}
					}
				}
			}
			r.Violate(key, fmt.Sprintf("placement on existing node %s (%s) is not admissible: %s", en.Name(), kind, ar.Why), cs,
				map[string]any{"node": cn, "placed": podSummaries(placed), "others": podNames(others), "volumes": volumeSummaries(e, placed)})
		}
	}
}

// violKey refines the class of a refusal: a pod whose effective constraint on some key is unsatisfiable
// (and therefore represented as DoesNotExist by Karpenter) gets its own key.
func violKey(prefix, why string, placedCopies []*corev1.Pod, respect bool) string {
	if strings.Contains(why, "affinity") {
		for _, p := range placedCopies {
			if strings.Contains(why, "pod "+p.Name+":") && len(oracle.CollapsedKeys(p, respect)) > 0 {
				return "unsat-conjunction-treated-as-DoesNotExist"
			}
		}
	}
	return prefix + ":" + classify(why)
}

func respects(s *common.Scenario) bool {
	return s.Env.Opts.PreferencePolicy == options.PreferencePolicyRespect
}

func classify(why string) string {
	switch {
	case strings.Contains(why, "volume"):
		return "volume"
	case strings.Contains(why, "host port"):
		return "hostport"
	case strings.Contains(why, "taint"):
		return "taint"
	case strings.Contains(why, "affinity"):
		return "affinity"
	case strings.Contains(why, "requests"):
		return "resources"
	}
	return "other"
}

// valuesFor enumerates probe values of a requirement for a key not fixed by the instance type / offering:
// every admitted mentioned value, integers next to bounds, a fresh string, and "absent" when allowed.
func probeValues(req *scheduling.Requirement) (vals []string, absentOK bool) {
	switch req.Operator() {
	case corev1.NodeSelectorOpIn:
		v := append([]string(nil), req.Values()...)
		sort.Strings(v)
		return v, false
	case corev1.NodeSelectorOpDoesNotExist:
		return nil, true
	default:
		// complement: Karpenter resolves a concrete label with Any(); any admitted value may result
		cands := []string{"fresh-value", "0", "1", "2", "3", "4", "5", "6", "7", "16", "100"}
		for _, c := range cands {
			if req.Has(c) {
				vals = append(vals, c)
			}
		}
		return vals, false
	}
}

func checkNew(r *mon.Report, s *common.Scenario, res provscheduling.Results, originals map[types.UID]*corev1.Pod, cs map[string]any, sig map[string]bool, deleting string) {
	daemons := s.DaemonPodTemplates()
	for _, nc := range res.NewNodeClaims {
		if len(nc.Pods) == 0 {
			continue
		}
		r.Inc("new_nodeclaims")
		sig["new"] = true
		var placed []*corev1.Pod
		for _, p := range nc.Pods {
			o := original(r, originals, p, cs)
			placed = append(placed, o)
			podKinds(o, sig)
		}
		if len(nc.InstanceTypeOptions) == 0 {
			r.Violate("new-claim-no-options", "NewNodeClaim with pods but without instance type options", cs, nil)
			continue
		}
		r.Count("placements_checked", len(placed))
		launchable := 0
		for _, it := range nc.InstanceTypeOptions {
			r.Inc("launch_options_checked")
			ok, why, collapsedExplains := optionFeasible(r, nc, it, placed, daemons, nc.Pods, respects(s))
			if !ok && why == noOffering {
				// no available offering of this type is admitted by the final requirements (e.g. after the claim
				// was pinned to reserved capacity): the type cannot be launched, the guarantee is vacuous for it
				r.Inc("options_without_compatible_offering")
				continue
			}
			launchable++
			if !ok {
				key := violKey("new-claim-option-infeasible", why, nc.Pods, respects(s))
				if collapsedExplains {
					key = "unsat-conjunction-treated-as-DoesNotExist"
				}
				r.Violate(key, fmt.Sprintf("NodeClaim (pool %s) keeps instance type %s although no available compatible offering admits its %d pods: %s", nc.NodePoolName, it.Name, len(placed), why), cs,
					map[string]any{"requirements": nc.Requirements.String(), "instanceType": it.Name, "pods": podSummaries(placed), "requests": nc.Spec.Resources.Requests})
				break
			}
		}
		if launchable == 0 {
			r.Violate("new-claim-unlaunchable", fmt.Sprintf("NodeClaim (pool %s) with %d pods has no instance type option with an available offering its requirements admit", nc.NodePoolName, len(placed)), cs,
				map[string]any{"requirements": nc.Requirements.String(), "pods": podSummaries(placed)})
		}
	}
}

const noOffering = "no available offering is admitted by the NodeClaim requirements"

// optionFeasible: exists an available offering compatible with the claim's final requirements such that on every
// concrete node that launch can produce all pods are admissible.
//
// collapsedExplains (classification only): some offering the claim's requirements admit is refused solely because of
// the node affinity of a pod whose effective constraint on a key is unsatisfiable — Karpenter represents that pod as
// DoesNotExist on the key and therefore believes the offering serves it (the recorded finding), whatever the other
// offerings are refused for.
func optionFeasible(r *mon.Report, nc *provscheduling.NodeClaim, it *cloudprovider.InstanceType, placed, daemons, copies []*corev1.Pod, respect bool) (bool, string, bool) {
	lastWhy := noOffering
	collapsedExplains := false
	for _, g := range it.AllocatableOfferingsList() {
		for _, of := range g.Offerings {
			if !of.Available {
				continue
			}
			fixed := common.TypeLabels(it, of)
			// offering and type labels must be admitted by the final requirements
			admitted := true
			for k, v := range fixed {
				if req, ok := nc.Requirements[k]; ok && !req.Has(v) {
					admitted = false
					break
				}
			}
			// keys the type defines as DoesNotExist
			if !admitted {
				continue
			}
			// free keys: requirement keys not fixed by type/offering (custom labels, hostname excluded)
			type free struct {
				key    string
				vals   []string
				absent bool
			}
			var frees []free
			total := 1
			for _, k := range common.SortedKeys(nc.Requirements) {
				if _, ok := fixed[k]; ok || k == corev1.LabelHostname || k == v1.NodeRegisteredLabelKey || k == v1.NodeInitializedLabelKey {
					continue
				}
				if _, def := it.Requirements[k]; def {
					continue // defined by the type as multi-valued / absent
				}
				vals, absent := probeValues(nc.Requirements[k])
				n := len(vals)
				if absent {
					n++
				}
				if n == 0 {
					continue
				}
				frees = append(frees, free{k, vals, absent})
				total *= n
			}
			if total > 256 {
				r.Inc("partial_enumerations")
				total = 256
			}
			okAll := true
			why := ""
			for combo := 0; combo < total && okAll; combo++ {
				lbls := map[string]string{}
				for k, v := range nc.Labels {
					lbls[k] = v
				}
				for k, v := range fixed {
					lbls[k] = v
				}
				x := combo
				for _, f := range frees {
					n := len(f.vals)
					if f.absent {
						n++
					}
					i := x % n
					x /= n
					if i < len(f.vals) {
						lbls[f.key] = f.vals[i]
					} else {
						delete(lbls, f.key)
					}
				}
				lbls[v1.NodeRegisteredLabelKey] = "true"
				lbls[v1.NodeInitializedLabelKey] = "true"
				cn := oracle.ConcreteNode{Name: "new-node", Labels: lbls, Taints: nc.Spec.Taints, Allocatable: g.Allocatable}
				var others []*corev1.Pod
				for _, d := range daemons {
					if oracle.DaemonAdmissible(d, cn) {
						others = append(others, d)
					}
				}
				r.Inc("concrete_nodes_materialised")
				ar := oracle.AdmitAll(cn, placed, others)
				if ar.OK && volumesOn {
					if why := volumeRefusal(volEnv, cn, placed, nil, false); why != "" {
						ar = oracle.AdmitResult{OK: false, Why: why}
					}
				}
				if !ar.OK {
					okAll = false
					why = fmt.Sprintf("offering %s/%s labels=%v: %s", of.Zone(), of.CapacityType(), lbls, ar.Why)
					if strings.Contains(ar.Why, "affinity") {
						var rest []*corev1.Pod
						stripped := false
						for i, p := range placed {
							if i < len(copies) && strings.Contains(ar.Why, "pod "+p.Name+":") && len(oracle.CollapsedKeys(copies[i], respect)) > 0 {
								q := p.DeepCopy()
								q.Spec.NodeSelector = nil
								if q.Spec.Affinity != nil {
									q.Spec.Affinity.NodeAffinity = nil
								}
								rest = append(rest, q)
								stripped = true
							} else {
								rest = append(rest, p)
							}
						}
						if stripped && oracle.AdmitAll(cn, rest, others).OK {
							collapsedExplains = true
						}
					}
				}
			}
			if okAll {
				return true, "", false
			}
			lastWhy = why
		}
	}
	return false, lastWhy, collapsedExplains
}

func init() {
	reg.Register(&reg.Prop{
		ID: "C01", Level: "exploration",
		Rule:  "each case = generated world (catalog 3-8 types with unavailable/overridden/reserved offerings, 1-3 NodePools with requirements over all operators, taints, custom labels, minValues; 0-2 daemonsets; managed nodes grown through the real pipeline to stages launched/node-appeared/registered/initialized; optional unmanaged and deleting nodes) + batch of 1-12 pending pods with random node-level constraints, scheduled by the real Provisioner.Schedule under PRNG-chosen {preference policy, minValues policy, parallelism, ReservedCapacity gate}. Non-trivial = at least one placement was judged by the admissibility oracle; distinct by (target kinds x constraint kinds present on judged pods x configuration).",
		Cases: cases, Run: run,
		MinObserved: map[string]int{"placements_checked": 50, "launch_options_checked": 50},
	})
}

// inKeys: label keys the pod pins positively (nodeSelector, In / Exists / Gt / Lt expressions of its required terms).
func inKeys(p *corev1.Pod) []string {
	seen := map[string]bool{}
	for k := range p.Spec.NodeSelector {
		seen[k] = true
	}
	if a := p.Spec.Affinity; a != nil && a.NodeAffinity != nil && a.NodeAffinity.RequiredDuringSchedulingIgnoredDuringExecution != nil {
		for _, t := range a.NodeAffinity.RequiredDuringSchedulingIgnoredDuringExecution.NodeSelectorTerms {
			for _, e := range t.MatchExpressions {
				if e.Operator != corev1.NodeSelectorOpNotIn && e.Operator != corev1.NodeSelectorOpDoesNotExist {
					seen[e.Key] = true
				}
			}
		}
	}
	return common.SortedKeys(seen)
}

// negativeOn: the placed copy carries NotIn / DoesNotExist on the key (required terms, or the preferred terms Karpenter
// treats as required under the Respect policy).
func negativeOn(p *corev1.Pod, key string) bool {
	a := p.Spec.Affinity
	if a == nil || a.NodeAffinity == nil {
		return false
	}
	neg := func(es []corev1.NodeSelectorRequirement) bool {
		for _, e := range es {
			if e.Key == key && (e.Operator == corev1.NodeSelectorOpNotIn || e.Operator == corev1.NodeSelectorOpDoesNotExist) {
				return true
			}
		}
		return false
	}
	if r := a.NodeAffinity.RequiredDuringSchedulingIgnoredDuringExecution; r != nil {
		for _, t := range r.NodeSelectorTerms {
			if neg(t.MatchExpressions) {
				return true
			}
		}
	}
	for _, t := range a.NodeAffinity.PreferredDuringSchedulingIgnoredDuringExecution {
		if neg(t.Preference.MatchExpressions) {
			return true
		}
	}
	return false
}
