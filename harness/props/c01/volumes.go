package c01

import (
	"context"
	"fmt"
	"math/rand"
	"strings"

	corev1 "k8s.io/api/core/v1"
	storagev1 "k8s.io/api/storage/v1"
	metav1 "k8s.io/apimachinery/pkg/apis/meta/v1"
	"k8s.io/apimachinery/pkg/types"
	"k8s.io/component-helpers/scheduling/corev1/nodeaffinity"
	"sigs.k8s.io/controller-runtime/pkg/client"

	"verif/gen"
	"verif/oracle"
	"verif/props/common"
	"verif/world"
)

// volume extension of C01: volume zones (bound PV node affinity, StorageClass allowedTopologies of unbound
// WaitForFirstConsumer claims) and CSI volume limits on existing nodes.

var (
	volumesOn bool
	volEnv    *world.Env
	sigExtra  string
	volSeq    int
)

const csiDriver = "csi.verif.io"

func zoneTerm(zones ...string) corev1.NodeSelectorTerm {
	return corev1.NodeSelectorTerm{MatchExpressions: []corev1.NodeSelectorRequirement{{Key: corev1.LabelTopologyZone, Operator: corev1.NodeSelectorOpIn, Values: zones}}}
}

func newBoundClaim(e *world.Env, rng *rand.Rand, zones []string) string {
	volSeq++
	name := fmt.Sprintf("vol%d", volSeq)
	pv := &corev1.PersistentVolume{ObjectMeta: metav1.ObjectMeta{Name: "pv-" + name},
		Spec: corev1.PersistentVolumeSpec{PersistentVolumeSource: corev1.PersistentVolumeSource{CSI: &corev1.CSIPersistentVolumeSource{Driver: csiDriver, VolumeHandle: name}}}}
	if len(zones) > 0 {
		sel := &corev1.NodeSelector{}
		if len(zones) > 1 && rng.Intn(2) == 0 {
			sel.NodeSelectorTerms = append(sel.NodeSelectorTerms, zoneTerm(zones...)) // one term, several values
		} else {
			for _, z := range zones {
				sel.NodeSelectorTerms = append(sel.NodeSelectorTerms, zoneTerm(z)) // OR-ed terms
			}
		}
		pv.Spec.NodeAffinity = &corev1.VolumeNodeAffinity{Required: sel}
	}
	sc := "sc-wffc"
	pvc := &corev1.PersistentVolumeClaim{ObjectMeta: metav1.ObjectMeta{Name: name, Namespace: "default", Annotations: map[string]string{"pv.kubernetes.io/bind-completed": "yes"}},
		Spec:   corev1.PersistentVolumeClaimSpec{VolumeName: pv.Name, StorageClassName: &sc},
		Status: corev1.PersistentVolumeClaimStatus{Phase: corev1.ClaimBound}}
	e.Apply(pv, pvc)
	return name
}

func newUnboundClaim(e *world.Env, sc string) string {
	volSeq++
	name := fmt.Sprintf("vol%d", volSeq)
	pvc := &corev1.PersistentVolumeClaim{ObjectMeta: metav1.ObjectMeta{Name: name, Namespace: "default"},
		Spec:   corev1.PersistentVolumeClaimSpec{StorageClassName: &sc},
		Status: corev1.PersistentVolumeClaimStatus{Phase: corev1.ClaimPending}}
	e.Apply(pvc)
	return name
}

func withClaim(p *corev1.Pod, claim string) {
	p.Spec.Volumes = append(p.Spec.Volumes, corev1.Volume{Name: "v-" + claim, VolumeSource: corev1.VolumeSource{PersistentVolumeClaim: &corev1.PersistentVolumeClaimVolumeSource{ClaimName: claim}}})
}

// setupVolumes: storage classes, CSINode limits on existing nodes and bound pods that already use volumes there.
func setupVolumes(rng *rand.Rand, s *common.Scenario) {
	e := s.Env
	wffc := storagev1.VolumeBindingWaitForFirstConsumer
	scs := []*storagev1.StorageClass{
		{ObjectMeta: metav1.ObjectMeta{Name: "sc-wffc"}, Provisioner: csiDriver, VolumeBindingMode: &wffc},
		{ObjectMeta: metav1.ObjectMeta{Name: "sc-zonal"}, Provisioner: csiDriver, VolumeBindingMode: &wffc},
	}
	// sc-zonal restricts provisioning to 1-2 zones, as one or two OR-ed topology terms
	zs := rng.Perm(len(gen.Zones))
	terms := []corev1.TopologySelectorTerm{{MatchLabelExpressions: []corev1.TopologySelectorLabelRequirement{{Key: corev1.LabelTopologyZone, Values: []string{gen.Zones[zs[0]]}}}}}
	switch rng.Intn(3) {
	case 0:
		terms = append(terms, corev1.TopologySelectorTerm{MatchLabelExpressions: []corev1.TopologySelectorLabelRequirement{{Key: corev1.LabelTopologyZone, Values: []string{gen.Zones[zs[1]]}}}})
	case 1:
		terms[0].MatchLabelExpressions[0].Values = []string{gen.Zones[zs[0]], gen.Zones[zs[1]]} // one term, two values
	}
	scs[1].AllowedTopologies = terms
	for _, sc := range scs {
		e.Apply(sc)
	}
	nodes := &corev1.NodeList{}
	_ = e.API.Raw.List(context.Background(), nodes)
	for i := range nodes.Items {
		n := &nodes.Items[i]
		if rng.Intn(10) < 7 {
			cnt := int32(1 + rng.Intn(3))
			e.Apply(&storagev1.CSINode{ObjectMeta: metav1.ObjectMeta{Name: n.Name}, Spec: storagev1.CSINodeSpec{Drivers: []storagev1.CSINodeDriver{{Name: csiDriver, NodeID: n.Name, Allocatable: &storagev1.VolumeNodeResources{Count: &cnt}}}}})
		}
		if n.Labels["karpenter.sh/initialized"] == "true" && rng.Intn(2) == 0 {
			// a running pod that already mounts a volume (in the node's zone)
			var zones []string
			if z := n.Labels[corev1.LabelTopologyZone]; z != "" {
				zones = []string{z}
			}
			claim := newBoundClaim(e, rng, zones)
			p := gen.Pod(s.NextPodName("v"), 50, 32, gen.Bound(n.Name, e.Clock.Now()))
			withClaim(p, claim)
			e.Apply(p)
		}
	}
	_ = e.SyncState()
}

// sharedVolumeHistory prepares (on one initialized node with room) the history "two running pods mount the same claim, one of
// them goes away": CSINode limit 3, pods A (shared + own) and B (shared + own). It returns B and a pending pod with two
// new volumes; after B is gone the node holds 2 distinct volumes and cannot take 2 more. The caller deletes B and delivers
// only that pod event (no Node event) right before scheduling.
func sharedVolumeHistory(rng *rand.Rand, s *common.Scenario) (gone *corev1.Pod, filler *corev1.Pod) {
	e := s.Env
	nodes := &corev1.NodeList{}
	_ = e.API.Raw.List(context.Background(), nodes)
	for i := range nodes.Items {
		n := &nodes.Items[i]
		if n.Labels["karpenter.sh/initialized"] != "true" || n.DeletionTimestamp != nil || len(n.Spec.Taints) > 0 {
			continue
		}
		pods := &corev1.PodList{}
		_ = e.API.Raw.List(context.Background(), pods, client.MatchingFields{"spec.nodeName": n.Name})
		hasVol := false
		for _, p := range pods.Items {
			hasVol = hasVol || len(p.Spec.Volumes) > 0
		}
		if hasVol {
			continue
		}
		cnt := int32(3)
		e.Apply(&storagev1.CSINode{ObjectMeta: metav1.ObjectMeta{Name: n.Name}, Spec: storagev1.CSINodeSpec{Drivers: []storagev1.CSINodeDriver{{Name: csiDriver, NodeID: n.Name, Allocatable: &storagev1.VolumeNodeResources{Count: &cnt}}}}})
		var zones []string
		if z := n.Labels[corev1.LabelTopologyZone]; z != "" {
			zones = []string{z}
		}
		shared := newBoundClaim(e, rng, zones)
		a := gen.Pod(s.NextPodName("va"), 10, 8, gen.Bound(n.Name, e.Clock.Now()), gen.WithToleration(corev1.Toleration{Operator: corev1.TolerationOpExists}))
		withClaim(a, shared)
		withClaim(a, newBoundClaim(e, rng, zones))
		b := gen.Pod(s.NextPodName("vb"), 10, 8, gen.Bound(n.Name, e.Clock.Now()), gen.WithToleration(corev1.Toleration{Operator: corev1.TolerationOpExists}))
		withClaim(b, shared)
		withClaim(b, newBoundClaim(e, rng, zones))
		e.Apply(a, b)
		f := gen.Pod(s.NextPodName("vf"), 10, 8, gen.WithToleration(corev1.Toleration{Operator: corev1.TolerationOpExists}))
		withClaim(f, newUnboundClaim(e, "sc-wffc"))
		withClaim(f, newUnboundClaim(e, "sc-wffc"))
		e.Apply(f)
		return b, f
	}
	return nil, nil
}

// attachVolumes gives some pods of the pending batch volumes: bound PVs in PRNG zones (1-2 OR-ed terms), unbound
// WaitForFirstConsumer claims of the plain or the zonal class, and claims shared by two pods.
func attachVolumes(rng *rand.Rand, s *common.Scenario, batch []*corev1.Pod) {
	e := s.Env
	shared := ""
	for _, p := range batch {
		if rng.Intn(2) != 0 {
			continue
		}
		cur := &corev1.Pod{}
		if e.API.Raw.Get(context.Background(), types.NamespacedName{Namespace: p.Namespace, Name: p.Name}, cur) != nil {
			continue
		}
		nv := 1 + rng.Intn(2)
		if rng.Intn(4) == 0 {
			// several volumes whose zone sets overlap without being equal (nested sets in PRNG mount order): the pod is only
			// admissible in the intersection, whichever volume is listed first
			zs := rng.Perm(len(gen.Zones))
			sets := [][]string{{gen.Zones[zs[0]]}, {gen.Zones[zs[0]], gen.Zones[zs[1]]}}
			if len(gen.Zones) > 2 && rng.Intn(2) == 0 {
				sets = append(sets, []string{gen.Zones[zs[0]], gen.Zones[zs[1]], gen.Zones[zs[2]]})
			}
			rng.Shuffle(len(sets), func(i, j int) { sets[i], sets[j] = sets[j], sets[i] })
			for _, zones := range sets {
				withClaim(cur, newBoundClaim(e, rng, zones))
			}
			nv = 0
		}
		for i := 0; i < nv; i++ {
			switch rng.Intn(5) {
			case 0, 1:
				zs := rng.Perm(len(gen.Zones))
				zones := []string{gen.Zones[zs[0]]}
				if rng.Intn(3) == 0 {
					zones = append(zones, gen.Zones[zs[1]])
				}
				withClaim(cur, newBoundClaim(e, rng, zones))
			case 2:
				withClaim(cur, newUnboundClaim(e, "sc-wffc"))
			case 3:
				withClaim(cur, newUnboundClaim(e, "sc-zonal"))
			default:
				if shared == "" {
					shared = newBoundClaim(e, rng, []string{gen.Zones[rng.Intn(len(gen.Zones))]})
				}
				withClaim(cur, shared)
			}
		}
		e.Apply(cur)
		*p = *cur
	}
}

type volInfo struct {
	key    string
	driver string
	terms  *corev1.NodeSelector          // bound PV node affinity (nil = unconstrained)
	topo   []corev1.TopologySelectorTerm // unbound claim: StorageClass allowedTopologies
}

func podVolumes(e *world.Env, p *corev1.Pod) []volInfo {
	var out []volInfo
	for _, v := range p.Spec.Volumes {
		if v.PersistentVolumeClaim == nil {
			continue
		}
		pvc := &corev1.PersistentVolumeClaim{}
		if e.API.Raw.Get(context.Background(), types.NamespacedName{Namespace: p.Namespace, Name: v.PersistentVolumeClaim.ClaimName}, pvc) != nil {
			continue
		}
		vi := volInfo{key: p.Namespace + "/" + pvc.Name}
		if pvc.Spec.VolumeName != "" {
			pv := &corev1.PersistentVolume{}
			if e.API.Raw.Get(context.Background(), types.NamespacedName{Name: pvc.Spec.VolumeName}, pv) == nil {
				if pv.Spec.CSI != nil {
					vi.driver = pv.Spec.CSI.Driver
				}
				if pv.Spec.NodeAffinity != nil {
					vi.terms = pv.Spec.NodeAffinity.Required
				}
			}
		} else if pvc.Spec.StorageClassName != nil {
			sc := &storagev1.StorageClass{}
			if e.API.Raw.Get(context.Background(), types.NamespacedName{Name: *pvc.Spec.StorageClassName}, sc) == nil {
				vi.driver = sc.Provisioner
				vi.topo = sc.AllowedTopologies
			}
		}
		out = append(out, vi)
	}
	return out
}

// volumeRefusal applies the kube-scheduler volume rules to a concrete node: every bound PV's node affinity matches
// the node, every unbound WaitForFirstConsumer claim can be provisioned for it (StorageClass allowedTopologies), and
// (existing nodes) the distinct CSI volumes per driver stay within the CSINode limit.
func volumeRefusal(e *world.Env, cn oracle.ConcreteNode, placed, others []*corev1.Pod, limits bool) string {
	node := &corev1.Node{ObjectMeta: metav1.ObjectMeta{Name: cn.Name, Labels: cn.Labels}}
	for _, p := range placed {
		for _, vi := range podVolumes(e, p) {
			if vi.terms != nil {
				sel, err := nodeaffinity.NewNodeSelector(vi.terms)
				if err == nil && !sel.Match(node) {
					return fmt.Sprintf("pod %s: volume %s is bound to a PersistentVolume whose node affinity %s does not match the node (zone %q)", p.Name, vi.key, termsString(vi.terms), cn.Labels[corev1.LabelTopologyZone])
				}
			}
			if len(vi.topo) > 0 {
				ok := false
				for _, t := range vi.topo {
					all := true
					for _, ex := range t.MatchLabelExpressions {
						v, has := cn.Labels[ex.Key]
						in := false
						for _, x := range ex.Values {
							if has && x == v {
								in = true
							}
						}
						if !in {
							all = false
						}
					}
					if all {
						ok = true
					}
				}
				if !ok {
					return fmt.Sprintf("pod %s: volume %s cannot be provisioned for the node: StorageClass allowedTopologies exclude zone %q", p.Name, vi.key, cn.Labels[corev1.LabelTopologyZone])
				}
			}
		}
	}
	if !limits {
		return ""
	}
	csi := &storagev1.CSINode{}
	if e.API.Raw.Get(context.Background(), types.NamespacedName{Name: cn.Name}, csi) != nil {
		return ""
	}
	used := map[string]map[string]bool{}
	for _, p := range append(append([]*corev1.Pod{}, placed...), others...) {
		for _, vi := range podVolumes(e, p) {
			if vi.driver == "" {
				continue
			}
			if used[vi.driver] == nil {
				used[vi.driver] = map[string]bool{}
			}
			used[vi.driver][vi.key] = true
		}
	}
	for _, d := range csi.Spec.Drivers {
		if d.Allocatable == nil || d.Allocatable.Count == nil {
			continue
		}
		if n := len(used[d.Name]); n > int(*d.Allocatable.Count) {
			return fmt.Sprintf("volume limit exceeded on node %s: %d distinct %s volumes > CSINode limit %d", cn.Name, n, d.Name, *d.Allocatable.Count)
		}
	}
	return ""
}

func termsString(ns *corev1.NodeSelector) string {
	if ns == nil {
		return ""
	}
	var ts []string
	for _, t := range ns.NodeSelectorTerms {
		var es []string
		for _, e := range t.MatchExpressions {
			es = append(es, fmt.Sprintf("%s %s %v", e.Key, e.Operator, e.Values))
		}
		ts = append(ts, "("+strings.Join(es, " AND ")+")")
	}
	return strings.Join(ts, " OR ")
}

// volumeSummaries (witness only): the resolved volumes of the judged pods.
func volumeSummaries(e *world.Env, pods []*corev1.Pod) map[string][]string {
	out := map[string][]string{}
	if !volumesOn {
		return out
	}
	for _, p := range pods {
		for _, vi := range podVolumes(e, p) {
			out[p.Name] = append(out[p.Name], fmt.Sprintf("%s driver=%s pv-affinity=%s allowedTopologies=%v", vi.key, vi.driver, termsString(vi.terms), vi.topo))
		}
	}
	return out
}

// volumeZonesContradict (classification only): the zone sets of the pod's volumes (bound PV affinity / StorageClass
// allowedTopologies) intersect to nothing, so no node at all can take the pod.
func volumeZonesContradict(e *world.Env, p *corev1.Pod) bool {
	var inter map[string]bool
	n := 0
	for _, vi := range podVolumes(e, p) {
		zs := map[string]bool{}
		if vi.terms != nil {
			for _, t := range vi.terms.NodeSelectorTerms {
				for _, x := range t.MatchExpressions {
					if x.Key == corev1.LabelTopologyZone && x.Operator == corev1.NodeSelectorOpIn {
						for _, v := range x.Values {
							zs[v] = true
						}
					}
				}
			}
		}
		for _, t := range vi.topo {
			for _, x := range t.MatchLabelExpressions {
				if x.Key == corev1.LabelTopologyZone {
					for _, v := range x.Values {
						zs[v] = true
					}
				}
			}
		}
		if len(zs) == 0 {
			continue
		}
		n++
		if inter == nil {
			inter = zs
			continue
		}
		for z := range inter {
			if !zs[z] {
				delete(inter, z)
			}
		}
	}
	return n >= 2 && len(inter) == 0
}
