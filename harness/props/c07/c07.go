// Package c07: disruption never targets protected or ineligible nodes.
//
// Every node of a generated cluster is made attractive for one disruption mode (empty / underutilised / drifted)
// and then given at most one blocker (or a non-blocking control). The real disruption controller runs several
// rounds; further blockers are applied DURING the 15 s validation wait. Every candidate of every command that enters
// the orchestration queue is judged against the conjunction of the statement, recomputed from the authoritative
// world at acceptance time.
package c07

import (
	"context"
	"fmt"
	"math"
	"math/rand"
	"strconv"
	"strings"
	"time"

	corev1 "k8s.io/api/core/v1"
	policyv1 "k8s.io/api/policy/v1"
	metav1 "k8s.io/apimachinery/pkg/apis/meta/v1"
	"k8s.io/apimachinery/pkg/labels"
	"k8s.io/apimachinery/pkg/types"
	"k8s.io/apimachinery/pkg/util/intstr"
	"sigs.k8s.io/controller-runtime/pkg/client"

	v1 "sigs.k8s.io/karpenter/pkg/apis/v1"
	"sigs.k8s.io/karpenter/pkg/controllers/disruption"

	"verif/gen"
	"verif/mon"
	"verif/props/common"
	"verif/props/reg"
	"verif/world"
)

func cases(tier string) int {
	if tier == "thorough" {
		return 6000
	}
	return 960
}

var blockers = []string{"none", "none", "node-dnd", "pod-dnd-true", "pod-dnd-duration-active", "pod-dnd-duration-expired", "pod-dnd-duration-boundary", "pod-dnd-duration-not-started",
	"daemon-pod-dnd", "pdb-zero", "pdb-multi", "pdb-allowing", "pdb-empty-selector", "pdb-negative-selector", "nominated", "renominated", "deleting", "recent-pod-event", "terminal-pod-dnd"}

type world7 struct {
	d           *common.DWorld
	rng         *rand.Rand
	mode        string
	applied     map[string]string    // node name -> blocker applied by the harness (bookkeeping for evidence only)
	nominatedAt map[string]time.Time // node name -> last nomination instant (harness knowledge)
	renominate  []*corev1.Node       // nodes whose nomination is renewed shortly before the first window ends
	inflight    map[string]bool
	seq         int
}

func evictionCost(p *corev1.Pod) float64 {
	c := 1.0
	if s, ok := p.Annotations[corev1.PodDeletionCost]; ok {
		if f, err := strconv.ParseFloat(s, 64); err == nil {
			c += f / math.Pow(2, 27)
		}
	}
	if p.Spec.Priority != nil {
		c += float64(*p.Spec.Priority) / math.Pow(2, 25)
	}
	return math.Max(-10, math.Min(10, c))
}

func (w *world7) helperPod(node string, opts ...gen.PodOpt) *corev1.Pod {
	w.seq++
	e := w.d.Env
	p := gen.Pod(fmt.Sprintf("blk%d", w.seq), 10, 8, append([]gen.PodOpt{gen.Bound(node, e.Clock.Now()), gen.WithOwner("ReplicaSet", "rs-blk")}, opts...)...)
	if w.mode == "empty" {
		// keep the node "empty" in Karpenter's sense: the helper pod has a non-positive eviction cost
		gen.WithAnnotation(corev1.PodDeletionCost, "-2147483647")(p)
	}
	return p
}

func (w *world7) pdb(name string, sel map[string]string, maxUnavailable int) {
	e := w.d.Env
	mu := intstr.FromInt(maxUnavailable)
	p := &policyv1.PodDisruptionBudget{ObjectMeta: metav1.ObjectMeta{Name: name, Namespace: "default"},
		Spec: policyv1.PodDisruptionBudgetSpec{Selector: &metav1.LabelSelector{MatchLabels: sel}, MaxUnavailable: &mu}}
	e.Apply(p)
}

// refreshPDBs plays kube-controller-manager: status.disruptionsAllowed from the live pods.
func (w *world7) refreshPDBs() {
	e := w.d.Env
	pdbs := &policyv1.PodDisruptionBudgetList{}
	_ = e.API.Raw.List(context.Background(), pdbs)
	for i := range pdbs.Items {
		p := &pdbs.Items[i]
		p.Status.DisruptionsAllowed = int32(e.API.PDBAllowed(context.Background(), p))
		_ = e.API.Raw.Status().Update(context.Background(), p)
	}
}

func (w *world7) apply(node *corev1.Node, nc *v1.NodeClaim, b string) {
	e := w.d.Env
	now := e.Clock.Now()
	switch b {
	case "node-dnd":
		n := node.DeepCopy()
		e.Get(n)
		if n.Annotations == nil {
			n.Annotations = map[string]string{}
		}
		n.Annotations[v1.DoNotDisruptAnnotationKey] = "true"
		e.Apply(n)
	case "pod-dnd-true":
		e.Apply(w.helperPod(node.Name, gen.WithAnnotation(v1.DoNotDisruptAnnotationKey, "true")))
	case "pod-dnd-duration-active":
		p := w.helperPod(node.Name, gen.WithAnnotation(v1.DoNotDisruptAnnotationKey, "10m"))
		st := metav1.NewTime(now.Add(-5 * time.Minute))
		p.Status.StartTime = &st
		e.Apply(p)
	case "pod-dnd-duration-not-started":
		// created long ago (it waited for capacity), bound a moment ago, not yet acknowledged by the kubelet: no startTime,
		// so the window has not begun to run and the protection is active
		p := w.helperPod(node.Name, gen.WithAnnotation(v1.DoNotDisruptAnnotationKey, "10m"))
		p.CreationTimestamp = metav1.NewTime(now.Add(-20 * time.Minute))
		p.Status.StartTime = nil
		p.Status.Phase = corev1.PodPending
		p.Status.Conditions = []corev1.PodCondition{{Type: corev1.PodScheduled, Status: corev1.ConditionTrue}}
		e.Apply(p)
	case "pod-dnd-duration-expired":
		p := w.helperPod(node.Name, gen.WithAnnotation(v1.DoNotDisruptAnnotationKey, "10m"))
		st := metav1.NewTime(now.Add(-30 * time.Minute))
		p.Status.StartTime = &st
		e.Apply(p)
	case "pod-dnd-duration-boundary":
		// protection ends within the next minute: active now, possibly expired by the time of a later round
		p := w.helperPod(node.Name, gen.WithAnnotation(v1.DoNotDisruptAnnotationKey, "10m"))
		st := metav1.NewTime(now.Add(-10*time.Minute + time.Duration(w.rng.Intn(60))*time.Second))
		p.Status.StartTime = &st
		e.Apply(p)
	case "daemon-pod-dnd":
		p := w.helperPod(node.Name, gen.WithAnnotation(v1.DoNotDisruptAnnotationKey, "true"))
		p.OwnerReferences = nil
		gen.WithOwner("DaemonSet", "ds-blk")(p)
		e.Apply(p)
	case "terminal-pod-dnd":
		p := w.helperPod(node.Name, gen.WithAnnotation(v1.DoNotDisruptAnnotationKey, "true"))
		p.Status.Phase = corev1.PodSucceeded
		e.Apply(p)
	case "pdb-zero":
		l := fmt.Sprintf("z%d", w.seq)
		e.Apply(w.helperPod(node.Name, gen.WithLabels("pdb", l)))
		w.pdb("pdb-"+l, map[string]string{"pdb": l}, 0)
	case "pdb-multi":
		l := fmt.Sprintf("m%d", w.seq)
		e.Apply(w.helperPod(node.Name, gen.WithLabels("pdb", l, "pdb2", l)))
		w.pdb("pdb-a-"+l, map[string]string{"pdb": l}, 1)
		w.pdb("pdb-b-"+l, map[string]string{"pdb2": l}, 1)
	case "pdb-empty-selector", "pdb-negative-selector":
		// a pod WITHOUT labels in a namespace of its own, guarded by an exhausted PDB whose selector is {} (selects every
		// pod of the namespace) or made of DoesNotExist / NotIn expressions only (which match a pod without labels)
		ns := fmt.Sprintf("quiet-%d", w.seq+1)
		hp := w.helperPod(node.Name)
		hp.Namespace, hp.Labels = ns, nil
		e.Apply(hp)
		sel := &metav1.LabelSelector{}
		if b == "pdb-negative-selector" {
			sel.MatchExpressions = [][]metav1.LabelSelectorRequirement{
				{{Key: "tier", Operator: metav1.LabelSelectorOpDoesNotExist}},
				{{Key: "tier", Operator: metav1.LabelSelectorOpNotIn, Values: []string{"batch"}}},
			}[w.rng.Intn(2)]
		}
		mu := intstr.FromInt(0)
		e.Apply(&policyv1.PodDisruptionBudget{ObjectMeta: metav1.ObjectMeta{Name: "pdb-" + ns, Namespace: ns},
			Spec: policyv1.PodDisruptionBudgetSpec{Selector: sel, MaxUnavailable: &mu}})
	case "pdb-allowing":
		l := fmt.Sprintf("a%d", w.seq)
		e.Apply(w.helperPod(node.Name, gen.WithLabels("pdb", l)))
		w.pdb("pdb-"+l, map[string]string{"pdb": l}, 1)
	case "nominated":
		e.Cluster.NominateNodeForPod(e.Ctx, node.Spec.ProviderID)
		w.nominatedAt[node.Name] = now
	case "renominated":
		// nominated now and once more shortly before this first window ends (see renewNominations)
		e.Cluster.NominateNodeForPod(e.Ctx, node.Spec.ProviderID)
		w.nominatedAt[node.Name] = now
		w.renominate = append(w.renominate, node)
	case "deleting":
		cur := nc.DeepCopy()
		if e.Get(cur) {
			_ = e.API.Raw.Delete(context.Background(), cur)
		}
	case "recent-pod-event":
		p := w.helperPod(node.Name)
		e.Apply(p)
		_, _ = w.d.PodEv.Reconcile(e.Ctx, p)
	}
	w.applied[node.Name] = b
}

func (w *world7) settle() {
	w.refreshPDBs()
	w.d.RefreshConditions()
	_ = w.d.Env.SyncState()
}

type nodeView struct {
	node  *corev1.Node
	claim *v1.NodeClaim
	pool  *v1.NodePool
}

func (w *world7) views() map[string]nodeView {
	e := w.d.Env
	out := map[string]nodeView{}
	ncs := &v1.NodeClaimList{}
	_ = e.API.Raw.List(context.Background(), ncs)
	nodes := &corev1.NodeList{}
	_ = e.API.Raw.List(context.Background(), nodes)
	pools := map[string]*v1.NodePool{}
	npl := &v1.NodePoolList{}
	_ = e.API.Raw.List(context.Background(), npl)
	for i := range npl.Items {
		pools[npl.Items[i].Name] = &npl.Items[i]
	}
	for i := range nodes.Items {
		n := &nodes.Items[i]
		v := nodeView{node: n}
		for j := range ncs.Items {
			if ncs.Items[j].Status.ProviderID == n.Spec.ProviderID && n.Spec.ProviderID != "" {
				v.claim = &ncs.Items[j]
				v.pool = pools[v.claim.Labels[v1.NodePoolLabelKey]]
			}
		}
		out[n.Name] = v
	}
	return out
}

func toleratesDisruptionTaint(p *corev1.Pod) bool {
	for _, t := range p.Spec.Tolerations {
		if (t.Key == "" || t.Key == v1.DisruptedTaintKey) && (t.Effect == "" || t.Effect == corev1.TaintEffectNoSchedule) && (t.Operator == corev1.TolerationOpExists || t.Value == "") {
			return true
		}
	}
	return false
}

func dndActive(p *corev1.Pod, now time.Time) bool {
	v, ok := p.Annotations[v1.DoNotDisruptAnnotationKey]
	if !ok {
		return false
	}
	if v == "true" {
		return true
	}
	d, err := time.ParseDuration(v)
	if err != nil || d <= 0 {
		return false
	}
	if p.Status.StartTime == nil {
		return true
	}
	return now.Sub(p.Status.StartTime.Time) < d
}

// violations of the statement for one candidate, recomputed from the authoritative world.
func (w *world7) judgeCandidate(c *disruption.Candidate, reason v1.DisruptionReason, views map[string]nodeView) []string {
	e := w.d.Env
	now := e.Clock.Now()
	var out []string
	v, ok := views[c.Name()]
	if !ok || v.node == nil {
		return []string{"no-node"}
	}
	if v.claim == nil {
		return []string{"unmanaged"}
	}
	if v.node.Labels[v1.NodeInitializedLabelKey] != "true" {
		out = append(out, "uninitialized")
	}
	if !v.claim.DeletionTimestamp.IsZero() || !v.node.DeletionTimestamp.IsZero() || v.claim.StatusConditions().Get(v1.ConditionTypeInstanceTerminating).IsTrue() {
		out = append(out, "deleting")
	}
	if w.inflight[c.Name()] {
		out = append(out, "already-in-flight")
	}
	window := w.window()
	if t, ok := w.nominatedAt[c.Name()]; ok && now.Before(t.Add(window)) {
		out = append(out, "nominated")
	}
	if v.node.Annotations[v1.DoNotDisruptAnnotationKey] == "true" {
		out = append(out, "node-dnd")
	}
	// pod-level blockers
	var podBlock []string
	pdbs := &policyv1.PodDisruptionBudgetList{}
	_ = e.API.Raw.List(context.Background(), pdbs)
	nonEmpty := false
	for _, p := range w.d.PodsOn(v.node.Name) {
		active := p.Status.Phase != corev1.PodSucceeded && p.Status.Phase != corev1.PodFailed && p.DeletionTimestamp == nil
		if !active {
			continue
		}
		daemonOrStatic := false
		for _, or := range p.OwnerReferences {
			if or.Kind == "DaemonSet" || or.Kind == "Node" {
				daemonOrStatic = true
			}
		}
		if !daemonOrStatic && evictionCost(p) > 0 {
			nonEmpty = true
		}
		if dndActive(p, now) {
			podBlock = append(podBlock, "pod-dnd")
			continue
		}
		nodeOwned := false
		for _, or := range p.OwnerReferences {
			if or.Kind == "Node" {
				nodeOwned = true
			}
		}
		if nodeOwned || toleratesDisruptionTaint(p) {
			continue // Karpenter would not call the eviction API for it
		}
		matching := 0
		zero := false
		for i := range pdbs.Items {
			pd := &pdbs.Items[i]
			sel, err := metav1.LabelSelectorAsSelector(pd.Spec.Selector)
			if err != nil || pd.Namespace != p.Namespace || !sel.Matches(labels.Set(p.Labels)) {
				continue
			}
			matching++
			if e.API.PDBAllowed(context.Background(), pd) == 0 {
				zero = true
			}
		}
		if matching > 1 {
			podBlock = append(podBlock, "pdb-multi")
		} else if zero {
			podBlock = append(podBlock, "pdb-zero")
		}
	}
	waived := reason == v1.DisruptionReasonDrifted && v.claim.Spec.TerminationGracePeriod != nil
	if !waived {
		out = append(out, podBlock...)
	}
	if reason == v1.DisruptionReasonEmpty || reason == v1.DisruptionReasonUnderutilized {
		if v.pool == nil {
			out = append(out, "no-pool")
		} else {
			if v.pool.Spec.Replicas != nil {
				out = append(out, "static-pool")
			}
			ca := v.pool.Spec.Disruption.ConsolidateAfter.Duration
			if ca == nil {
				out = append(out, "consolidation-disabled")
			} else {
				since := v.claim.Status.LastPodEventTime.Time
				if since.IsZero() {
					since = v.claim.StatusConditions().Get(v1.ConditionTypeInitialized).LastTransitionTime.Time
				}
				if now.Sub(since) < *ca {
					out = append(out, "consolidate-after-not-elapsed")
				}
			}
			if reason == v1.DisruptionReasonUnderutilized && v.pool.Spec.Disruption.ConsolidationPolicy == v1.ConsolidationPolicyWhenEmpty && nonEmpty {
				out = append(out, "when-empty-policy-non-empty-node")
			}
			if reason == v1.DisruptionReasonEmpty && nonEmpty {
				out = append(out, "empty-reason-on-non-empty-node")
			}
		}
	}
	return out
}

func run(r *mon.Report, tier string, idx int, rng *rand.Rand) {
	r.Eval()
	mode := []string{"empty", "underutilized", "drift", "drift-tgp", "mixed", "drift-late-tgp"}[rng.Intn(6)]
	cfg := common.DefaultDCfg()
	opts, optDesc := common.RandomOptions(rng)
	cfg.Scenario.Options = opts
	cfg.Scenario.MaxDaemons = 0
	cfg.Scenario.Pod = gen.PodCfg{PSelector: 0.1, MaxCPUMilli: 1500}
	cfg.Scenario.Pool.PTaint = 0
	cfg.Rounds = 3 + rng.Intn(2)
	cfg.PodsPerRound = 4 + rng.Intn(4)
	cfg.OnePodPerNode = rng.Intn(2) == 0
	cfg.PUninitialized = 0.5
	cfg.ConsolidateAfter = []string{"0s", "0s", "5m", "5m", "Never"}
	cfg.Policies = []v1.ConsolidationPolicy{v1.ConsolidationPolicyWhenEmptyOrUnderutilized, v1.ConsolidationPolicyWhenEmptyOrUnderutilized, v1.ConsolidationPolicyWhenEmpty, v1.ConsolidationPolicyBalanced}
	cfg.PTGP = 0.2
	switch mode {
	case "empty":
		cfg.PDeletePod, cfg.PDrift = 1.0, 0
	case "underutilized":
		cfg.PDeletePod, cfg.PDrift = 0.5, 0
	case "drift":
		cfg.PDeletePod, cfg.PDrift, cfg.PTGP = 0.3, 1.0, 0
	case "drift-tgp":
		cfg.PDeletePod, cfg.PDrift, cfg.PTGP = 0.3, 1.0, 1.0
	case "drift-late-tgp":
		cfg.PDeletePod, cfg.PDrift, cfg.PTGP = 0.3, 0, 0
	default:
		cfg.PDeletePod, cfg.PDrift = 0.6, 0.4
	}
	d := common.BuildDisruption(rng, cfg)
	e := d.Env
	if mode == "drift-late-tgp" {
		// the NodePools get a terminationGracePeriod only now: the existing NodeClaims keep none, and the template edit
		// drifts them (hash). Pod-level blockers must still protect them from Drift.
		for _, np := range d.Pools {
			cur := &v1.NodePool{}
			if e.API.Raw.Get(context.Background(), types.NamespacedName{Name: np.Name}, cur) == nil {
				cur.Spec.Template.Spec.TerminationGracePeriod = &metav1.Duration{Duration: time.Hour}
				e.Apply(cur)
			}
		}
		d.RefreshConditions()
		_ = e.SyncState()
	}
	w := &world7{d: d, rng: rng, mode: mode, applied: map[string]string{}, nominatedAt: map[string]time.Time{}, inflight: map[string]bool{}}
	// blockers, one per node at most
	e.Clock.Step(6 * time.Minute) // consolidateAfter=5m elapsed for everything that exists now
	initial := w.views()
	var initialNames []string
	for name := range initial {
		initialNames = append(initialNames, name)
	}
	sortStrings(initialNames)
	for _, name := range initialNames {
		v := initial[name]
		if v.claim == nil {
			continue
		}
		b := blockers[rng.Intn(len(blockers))]
		if b == "none" {
			w.applied[name] = "none"
			continue
		}
		w.apply(v.node, v.claim, b)
		r.Inc("blocker_applied:" + b)
	}
	w.renewNominations(r)
	w.settle()
	caseDesc := map[string]any{"case": idx, "mode": mode, "options": optDesc, "nodes": d.NodeInfo, "blockers": w.applied}
	// blockers applied during the validation wait
	lateDone := false
	e.Clock.OnWait(func(wait time.Duration) {
		if wait < 10*time.Second || lateDone || rng.Intn(2) != 0 {
			return
		}
		lateDone = true
		views := w.views()
		var names []string
		for n, v := range views {
			if v.claim != nil && (w.applied[n] == "none" || w.applied[n] == "") && v.node.Labels[v1.NodeInitializedLabelKey] == "true" {
				names = append(names, n)
			}
		}
		if len(names) == 0 {
			return
		}
		sortStrings(names)
		n := names[rng.Intn(len(names))]
		b := []string{"node-dnd", "pod-dnd-true", "pdb-zero", "nominated", "deleting", "recent-pod-event", "pdb-multi"}[rng.Intn(7)]
		w.apply(views[n].node, views[n].claim, b)
		w.applied[n] = "late:" + b
		r.Inc("late_blocker_applied:" + b)
		w.settle()
	})
	rounds := 3 + rng.Intn(3)
	for round := 0; round < rounds; round++ {
		lateDone = false
		cmds, err, panicked, pv, stack := d.Round()
		if panicked {
			r.Violate("panic-in-disruption-reconcile", fmt.Sprintf("%v", pv), caseDesc, stack)
			return
		}
		if err != nil {
			r.Inc("reconcile_errors")
		}
		judge := func(cmds []*disruption.Command) {
			views := w.views()
			for _, cmd := range cmds {
				reason := cmd.Reason()
				method := fmt.Sprintf("%T", cmd.Method)
				method = method[strings.LastIndex(method, ".")+1:]
				r.Inc("commands:" + method)
				selected := map[string]bool{}
				for _, c := range cmd.Candidates {
					selected[c.Name()] = true
					r.Inc("candidates_judged")
					bad := w.judgeCandidate(c, reason, views)
					if len(bad) > 0 {
						r.Violate(fmt.Sprintf("ineligible-node-selected:%s:%s", method, bad[0]),
							fmt.Sprintf("%s (reason %s) selected node %s although: %s", method, reason, c.Name(), strings.Join(bad, ", ")),
							caseDesc, map[string]any{"round": round, "command": cmd.String(), "harness_blocker": w.applied[c.Name()]})
					}
				}
				// evidence: which blocked nodes were spared while this method acted
				for n, b := range w.applied {
					if !selected[n] && b != "none" && b != "" {
						r.Inc("spared:" + method + ":" + strings.TrimPrefix(b, "late:"))
						r.Sig("%s|%s", method, strings.TrimPrefix(b, "late:"))
					}
				}
				if len(cmd.Candidates) > 0 {
					r.Sig("%s|selected:%s", method, strings.TrimPrefix(w.applied[cmd.Candidates[0].Name()], "late:"))
				}
			}
			for _, cmd := range cmds {
				for _, c := range cmd.Candidates {
					w.inflight[c.Name()] = true
				}
				// nodes that received pods in the command's simulation are nominated by StartCommand
				for _, en := range cmd.Results.ExistingNodes {
					if len(en.Pods) > 0 {
						w.nominatedAt[en.Name()] = e.Clock.Now()
					}
				}
			}
		}
		judge(cmds)
		// half of the rounds: the orchestration queue works on the new commands at once (a command without replacements
		// deletes its candidates and completes), and the controller reconciles again BEFORE the informers have told cluster
		// state about those deletions — the immediate requeue after a success. What it selects then is judged as well.
		if len(cmds) > 0 && rng.Intn(2) == 0 {
			completed := 0
			for _, cmd := range cmds {
				if p, v, st := mon.Guard(func() { _ = d.ReconcileQueue(cmd) }); p {
					r.Violate("panic-in-queue-reconcile", fmt.Sprintf("%v", v), caseDesc, st)
					return
				}
				if cmd.Succeeded {
					completed++
				}
			}
			if completed > 0 {
				r.Count("commands_completed_before_the_next_pass_without_state_sync", completed)
				more, _, panicked, pv, stack := d.Round()
				if panicked {
					r.Violate("panic-in-disruption-reconcile", fmt.Sprintf("%v", pv), caseDesc, stack)
					return
				}
				r.Count("commands_of_a_pass_run_before_state_heard_of_the_deletions", len(more))
				judge(more)
			}
		}
		if r.WantSample() && len(cmds) > 0 {
			r.Sample(map[string]any{"mode": mode, "blockers": w.applied, "round": round, "command": cmds[0].String()})
		}
		e.Clock.Step(time.Duration(20+rng.Intn(60)) * time.Second)
		w.settle()
	}
}

func (w *world7) window() time.Duration {
	window := 2 * w.d.Env.Opts.BatchMaxDuration
	if window < 10*time.Second {
		window = 10 * time.Second
	}
	return window
}

// renewNominations: a later scheduling pass nominates the "renominated" nodes again 2 s before their first nomination
// window ends; 3 s later the first window is over while the renewed one still has most of its length to run.
func (w *world7) renewNominations(r *mon.Report) {
	if len(w.renominate) == 0 {
		return
	}
	e := w.d.Env
	e.Clock.Step(w.window() - 2*time.Second)
	for _, n := range w.renominate {
		e.Cluster.NominateNodeForPod(e.Ctx, n.Spec.ProviderID)
		w.nominatedAt[n.Name] = e.Clock.Now()
		r.Inc("nominations_renewed_inside_the_window")
	}
	e.Clock.Step(3 * time.Second)
}

func sortStrings(a []string) {
	for i := 1; i < len(a); i++ {
		for j := i; j > 0 && a[j] < a[j-1]; j-- {
			a[j], a[j-1] = a[j-1], a[j]
		}
	}
}

var _ = types.UID("")
var _ client.Object
var _ = world.Epoch

func init() {
	reg.Register(&reg.Prop{
		ID: "C07", Level: "exploration",
		Rule:  "each case = cluster grown through the real pipeline and made attractive for one mode (all nodes empty / underutilised / drifted / drifted with terminationGracePeriod / mixed), pools with consolidateAfter 0s/5m/Never and policies WhenEmpty/WhenEmptyOrUnderutilized/Balanced, some nodes uninitialised; every node then gets at most one blocker or control (node do-not-disrupt, pod do-not-disrupt true / duration active / expired / about to expire / not yet started (no startTime, old creationTimestamp), daemon pod do-not-disrupt, terminal pod do-not-disrupt, PDB with zero allowed, two PDBs, allowing PDB, exhausted PDB with an empty or negative-only selector over a pod without labels, nominated, nominated and renewed shortly before the first window ends, deleting, recent pod event) and further blockers are applied during the 15 s validation wait; 3-5 reconciles of the real disruption controller. Each candidate of each accepted command is judged against the statement's conjunction recomputed from the authoritative world (nominations from the harness' own record). Non-trivial = a command was produced while blocked nodes existed; distinct by (method, blocker spared or selected-node class).",
		Cases: cases, Run: run,
		MinObserved: map[string]int{"candidates_judged": 100},
	})
}
