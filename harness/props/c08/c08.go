// Package c08: replacements are ready before removal; failed actions roll back.
//
// A scenario (deterministic in its seed) grows a cluster, lets the real disruption controller start a command,
// then plays an orchestration script: the orchestration queue reconciles, the replacements are launched /
// registered / initialised in PRNG order by the real lifecycle controller and the kubelet actor, or one vanishes,
// or they stall past the retry deadline. The scenario is first run fault-free to count the API + provider calls
// made from the round that starts the command to the end of the script (K); then it is replayed with one
// injected failure at call k = 1..K per error kind, and with a crash + controller restart at call k.
package c08

import (
	"context"
	"fmt"
	"math/rand"
	"os"
	"strings"
	"time"

	corev1 "k8s.io/api/core/v1"
	metav1 "k8s.io/apimachinery/pkg/apis/meta/v1"
	"k8s.io/apimachinery/pkg/types"

	v1 "sigs.k8s.io/karpenter/pkg/apis/v1"
	"sigs.k8s.io/karpenter/pkg/controllers/disruption"

	"verif/gen"
	"verif/mon"
	"verif/props/common"
	"verif/props/reg"
	"verif/world"
)

func sizes(tier string) (scenarios int, kinds []string, stride int) {
	if tier == "thorough" {
		return 64, []string{"500", "409", "404", "crash-poison"}, 2
	}
	return 16, []string{"500", "409", "crash-poison"}, 3
}

func cases(tier string) int {
	n, _, _ := sizes(tier)
	return n
}

type runCfg struct {
	fault  *world.Fault // nil = fault free
	mode   string       // normal | vanish | stall
	seed   int64
	idx    int
	script int64
}

type outcome struct {
	calls       int
	startedCmd  bool
	cmdDesc     string
	succeeded   bool
	completed   bool
	crashed     bool
	faultFired  bool
	faultCaller string
	violations  int
	cmdReplace  int
	cmdCands    int
	reason      string
	startErr    bool
}

func initialized(e *world.Env, name string) (exists, init bool) {
	nc := &v1.NodeClaim{}
	if e.API.Raw.Get(context.Background(), types.NamespacedName{Name: name}, nc) != nil {
		return false, false
	}
	return true, nc.StatusConditions().Get(v1.ConditionTypeInitialized).IsTrue()
}

// execute runs one scenario under the given configuration and judges it.
func execute(r *mon.Report, rc runCfg) outcome {
	rng := rand.New(rand.NewSource(rc.seed))
	out := outcome{}
	cfg := common.DefaultDCfg()
	opts, optDesc := common.RandomOptions(rng)
	cfg.Scenario.Options = opts
	cfg.Scenario.MaxDaemons = 0
	cfg.Scenario.Pod = gen.PodCfg{PSelector: 0.1, PHostPort: 0.1, MaxCPUMilli: 1500}
	cfg.Scenario.Pool.PTaint = 0
	cfg.Scenario.MinPools, cfg.Scenario.MaxPools = 1, 2
	cfg.Rounds = 3
	cfg.PodsPerRound = 4 + rng.Intn(3)
	cfg.ConsolidateAfter = []string{"0s"}
	cfg.Policies = []v1.ConsolidationPolicy{v1.ConsolidationPolicyWhenEmptyOrUnderutilized}
	kind := []string{"drift", "drift", "underutilized", "mixed"}[rng.Intn(4)]
	switch kind {
	case "drift":
		cfg.PDeletePod, cfg.PDrift = 0.2, 1.0
	case "underutilized":
		cfg.PDeletePod, cfg.PDrift = 0.5, 0
	default:
		cfg.PDeletePod, cfg.PDrift = 0.5, 0.5
	}
	cfg.OnePodPerNode = rng.Intn(3) == 0
	if rc.mode == "cand-vanish" {
		// many small nodes whose pods can share one node: multi-node consolidation replaces several of them by one
		kind = "underutilized-many-small-nodes"
		cfg.Scenario.Pod = gen.PodCfg{MaxCPUMilli: 400}
		cfg.Scenario.MinPools, cfg.Scenario.MaxPools = 1, 1
		cfg.Scenario.Pool.PRequirement, cfg.Scenario.Pool.PCustomLabel = 0, 0
		cfg.Scenario.Catalog.MinTypes, cfg.Scenario.Catalog.MaxTypes = 8, 12
		cfg.Rounds, cfg.PodsPerRound = 6, 2
		cfg.PDeletePod, cfg.PDrift = 0.25, 0
		cfg.OnePodPerNode, cfg.SmallPods = false, true
	}
	if rc.mode == "multi-repl" {
		// drifted nodes whose pods will not fit one node any more: the command needs several replacements, which come up
		// one after the other
		kind = "drift-needing-several-replacements"
		cfg.Scenario.Pod = gen.PodCfg{MaxCPUMilli: 1500}
		cfg.Scenario.MinPools, cfg.Scenario.MaxPools = 1, 1
		cfg.Scenario.Pool.PRequirement, cfg.Scenario.Pool.PCustomLabel = 0, 0
		cfg.Scenario.Catalog.PUnavailable = 0
		cfg.Rounds, cfg.PodsPerRound = 2, 6
		cfg.PDeletePod, cfg.PDrift = 0, 1.0
		cfg.OnePodPerNode, cfg.SmallPods = false, true
		cfg.PodHook = func(p *corev1.Pod) {
			if p.Labels == nil {
				p.Labels = map[string]string{}
			}
			p.Spec.Affinity = &corev1.Affinity{PodAntiAffinity: &corev1.PodAntiAffinity{RequiredDuringSchedulingIgnoredDuringExecution: []corev1.PodAffinityTerm{{
				TopologyKey: corev1.LabelHostname, LabelSelector: &metav1.LabelSelector{MatchLabels: map[string]string{"sep": "yes"}}}}}}
		}
	}
	d := common.BuildDisruption(rng, cfg)
	e := d.Env
	e.Provider.Policy = "cheapest"
	if rc.mode == "multi-repl" {
		// the pods of the node with the largest workload get the label their own anti-affinity term selects (labels are
		// mutable, the term is IgnoredDuringExecution): they may stay together, but wherever they are re-scheduled they must
		// separate, so replacing their node takes several new nodes
		best := ""
		bestN := 0
		nodes := &corev1.NodeList{}
		_ = e.API.Raw.List(context.Background(), nodes)
		for i := range nodes.Items {
			n := 0
			for _, p := range d.PodsOn(nodes.Items[i].Name) {
				if p.Spec.Affinity != nil && p.Spec.Affinity.PodAntiAffinity != nil {
					n++
				}
			}
			if n > bestN {
				best, bestN = nodes.Items[i].Name, n
			}
		}
		if bestN >= 2 {
			labelled := 0
			for _, p := range d.PodsOn(best) {
				if labelled >= 3 {
					break // three pods that must separate are enough
				}
				if p.Spec.Affinity != nil && p.Spec.Affinity.PodAntiAffinity != nil {
					labelled++
					if p.Labels == nil {
						p.Labels = map[string]string{}
					}
					p.Labels["sep"] = "yes"
					e.Apply(p)
				}
			}
			_ = e.SyncState()
		}
	}
	caseDesc := map[string]any{"case": rc.idx, "scenario_seed": rc.seed, "kind": kind, "mode": rc.mode, "options": optDesc, "nodes": d.NodeInfo}
	if rc.fault != nil {
		caseDesc["fault"] = map[string]any{"at_call": rc.fault.AtCall, "kind": rc.fault.Kind}
	}
	// ---- monitors ----
	cmdOf := map[string]*disruption.Command{} // candidate NodeClaim name -> command (refreshed before each step)
	everInflight := map[string]bool{}
	deletedBy := map[*disruption.Command][]string{}
	refresh := func() {
		for _, c := range d.Queue.GetCommands() {
			for _, cand := range c.Candidates {
				cmdOf[cand.NodeClaim.Name] = c
			}
		}
	}
	e.API.PostWrite = append(e.API.PostWrite, func(ev *world.Event) {
		if ev.Verb != "delete" || ev.Kind != "NodeClaim" {
			return
		}
		inQueue := false
		for _, f := range ev.Stack {
			if strings.Contains(f, "disruption.(*Queue).waitOrTerminate") {
				inQueue = true
			}
		}
		if !inQueue {
			return
		}
		r.Inc("candidate_deletes_observed")
		cmd := cmdOf[ev.Key]
		if cmd == nil {
			r.Inconcl("candidate delete of %s without a known command", ev.Key)
			return
		}
		deletedBy[cmd] = append(deletedBy[cmd], ev.Key)
		for _, rep := range cmd.Replacements {
			r.Inc("m1_replacement_checks")
			exists, init := initialized(e, rep.Name)
			if rep.Name == "" || !exists || !init {
				out.violations++
				r.Violate("candidate-deleted-before-replacement-initialized", fmt.Sprintf("candidate NodeClaim %s was deleted by the orchestration queue while replacement %q exists=%v initialized=%v", ev.Key, rep.Name, exists, init),
					caseDesc, map[string]any{"command": cmd.String()})
			}
		}
	})
	// ---- find the round that starts a command ----
	var cmd *disruption.Command
	inflight := map[string]bool{}
	startRound := func() ([]*disruption.Command, error, bool) {
		var cmds []*disruption.Command
		var err error
		var crashed bool
		func() {
			defer func() {
				if x := recover(); x != nil {
					if _, ok := x.(world.CrashSentinel); ok {
						crashed = true
						return
					}
					panic(x)
				}
			}()
			var panicked bool
			var pv any
			var stack string
			cmds, err, panicked, pv, stack = d.Round()
			if e.API.Crashed() {
				crashed = true
				return
			}
			if panicked {
				if _, ok := pv.(world.CrashSentinel); ok {
					crashed = true
					return
				}
				out.violations++
				r.Violate("panic-in-disruption-reconcile", fmt.Sprintf("%v", pv), caseDesc, stack)
			}
		}()
		return cmds, err, crashed
	}
	// the fault window opens with the first round; rounds before a command appears are usually cheap no-ops
	if rc.fault != nil {
		e.API.SetFaults(rc.fault)
	} else {
		e.API.StartCounting()
	}
	crashed := false
	want := func() bool { // keep starting rounds until the command this mode is about has appeared
		return cmd == nil || (rc.mode == "multi-repl" && len(cmd.Replacements) < 2)
	}
	maxRounds := 3
	if rc.mode == "multi-repl" {
		maxRounds = 6
	}
	for round := 0; round < maxRounds && want() && !crashed; round++ {
		cmds, err, c := startRound()
		crashed = c
		if err != nil {
			out.startErr = true
			r.Inc("start_errors_observed")
		}
		for _, c := range cmds {
			if os.Getenv("C08_DEBUG") != "" {
				fmt.Fprintf(os.Stderr, "DEBUG cmd %s\n", c.String())
			}
			for _, cand := range c.Candidates {
				if inflight[cand.Name()] {
					out.violations++
					r.Violate("node-in-two-concurrent-commands", fmt.Sprintf("node %s is the subject of two concurrent commands", cand.Name()), caseDesc, map[string]any{"command": c.String()})
				}
				inflight[cand.Name()] = true
				everInflight[cand.NodeClaim.Name] = true
			}
			if cmd == nil || (rc.mode == "cand-vanish" && len(cmd.Candidates) < 2 && len(c.Candidates) >= 2) || (rc.mode == "multi-repl" && len(cmd.Replacements) < 2 && len(c.Replacements) >= 2) {
				cmd = c
			}
		}
		_ = e.SyncState()
	}
	if cmd != nil && len(cmd.Replacements) >= 2 {
		r.Inc("commands_with_several_replacements")
	}
	if cmd != nil && len(cmd.Candidates) >= 2 && len(cmd.Replacements) >= 1 {
		r.Inc("commands_with_several_candidates_and_a_replacement")
	}
	if cmd != nil {
		out.startedCmd, out.cmdDesc, out.cmdReplace, out.cmdCands, out.reason = true, cmd.String(), len(cmd.Replacements), len(cmd.Candidates), string(cmd.Reason())
	}
	// ---- orchestration script ----
	srng := rand.New(rand.NewSource(rc.script))
	type rep struct {
		name  string
		stage world.Stage
		inst  *world.Instance
		node  string
		dead  bool
	}
	var reps []*rep
	if cmd != nil {
		for _, x := range cmd.Replacements {
			reps = append(reps, &rep{name: x.Name})
		}
	}
	guard := func(f func()) {
		if crashed {
			return
		}
		defer func() {
			if x := recover(); x != nil {
				if _, ok := x.(world.CrashSentinel); ok {
					crashed = true
					return
				}
				panic(x)
			}
		}()
		f()
		if e.API.Crashed() {
			crashed = true
		}
	}
	advance := func(c *rep) {
		if c.dead || c.name == "" {
			return
		}
		switch c.stage {
		case world.StageCreated:
			guard(func() { _, _ = e.ReconcileClaim(c.name) })
			guard(func() { _, _ = e.ReconcileClaim(c.name) })
			nc := &v1.NodeClaim{}
			if e.API.Raw.Get(context.Background(), types.NamespacedName{Name: c.name}, nc) != nil || !nc.DeletionTimestamp.IsZero() {
				c.dead = true
				return
			}
			if nc.Status.ProviderID == "" {
				return // launch did not complete (fault); retried on the next advance
			}
			c.inst = e.Provider.Instance(nc.Status.ProviderID)
			c.stage = world.StageLaunched
		case world.StageLaunched:
			n := e.KubeletRegister(c.inst, world.KubeletOpts{NotReadyTaints: true})
			c.node = n.Name
			c.stage = world.StageNodeAppeared
		case world.StageNodeAppeared:
			guard(func() { _, _ = e.ReconcileClaim(c.name) })
			nc := &v1.NodeClaim{}
			if e.API.Raw.Get(context.Background(), types.NamespacedName{Name: c.name}, nc) == nil && nc.StatusConditions().Get(v1.ConditionTypeRegistered).IsTrue() {
				c.stage = world.StageRegistered
			}
		case world.StageRegistered:
			e.KubeletReady(c.node, true)
			guard(func() { _, _ = e.ReconcileClaim(c.name) })
			if _, init := initialized(e, c.name); init {
				c.stage = world.StageInitialized
			}
		}
	}
	queueStep := func() {
		refresh()
		for _, c := range d.Queue.GetCommands() {
			cc := c
			guard(func() { _ = d.ReconcileQueue(cc) })
		}
	}
	steps := 0
	if cmd != nil {
		refresh()
		if rc.mode == "del-stuck" {
			// every replacement comes up, but the API server keeps refusing the deletion of the candidates (a webhook that is
			// down): the queue retries until its deadline and then has to give the candidates back
			e.API.AddFault(&world.Fault{AtCall: 1, Sticky: true, Kind: "500", Match: func(verb, kind, caller string) bool { return verb == "delete" && kind == "NodeClaim" }})
		}
		vanished, stalled, candGone := false, false, false
		// del-stuck: the queue's delete attempts back off in real time (client-go retry), so it gets to try only once, after
		// the retry deadline has passed
		pastDeadline := func() {
			e.Clock.Step(61 * time.Minute)
			stalled = true
			r.Inc("candidate_deletion_refused_until_the_retry_deadline")
		}
		for steps = 0; steps < 40 && !crashed; steps++ {
			if rc.mode == "cand-vanish" && !candGone && steps >= 1 && len(cmd.Candidates) >= 2 {
				// a candidate that is not the last one disappears on its own while the command waits (spot interruption,
				// manual delete): its Node and NodeClaim are gone and cluster state hears about it
				candGone = true
				gone := cmd.Candidates[len(cmd.Candidates)-2]
				if nc := (&v1.NodeClaim{}); e.API.Raw.Get(context.Background(), types.NamespacedName{Name: gone.NodeClaim.Name}, nc) == nil {
					if n := d.NodeOfClaim(nc); n != nil {
						n.Finalizers = nil
						_ = e.API.Raw.Update(context.Background(), n)
						_ = e.API.Raw.Delete(context.Background(), n)
					}
					e.Provider.Vanish(nc.Status.ProviderID)
					nc.Finalizers = nil
					_ = e.API.Raw.Update(context.Background(), nc)
					_ = e.API.Raw.Delete(context.Background(), nc)
					_ = e.SyncState()
					r.Inc("candidate_vanished_while_command_waits")
				}
			}
			allInit := true
			for _, c := range reps {
				if !c.dead && c.stage != world.StageInitialized {
					allInit = false
				}
			}
			done := len(d.Queue.GetCommands()) == 0
			if done {
				break
			}
			switch x := srng.Intn(10); {
			case x < 4:
				if rc.mode == "del-stuck" && allInit && !stalled {
					pastDeadline()
				}
				queueStep()
			case x < 8 && !allInit:
				c := reps[srng.Intn(len(reps))]
				advance(c)
				_ = e.SyncState()
			case x == 8:
				e.Clock.Step(time.Duration(5+srng.Intn(60)) * time.Second)
			default:
				if (rc.mode == "vanish" || (rc.mode == "cand-vanish" && candGone)) && !vanished && len(reps) > 0 {
					// a replacement disappears (ICE / liveness): remove the NodeClaim object entirely
					c := reps[srng.Intn(len(reps))]
					nc := &v1.NodeClaim{}
					if c.name != "" && e.API.Raw.Get(context.Background(), types.NamespacedName{Name: c.name}, nc) == nil && c.stage != world.StageInitialized {
						nc.Finalizers = nil
						_ = e.API.Raw.Update(context.Background(), nc)
						_ = e.API.Raw.Delete(context.Background(), nc)
						if c.inst != nil {
							e.Provider.Vanish(c.inst.ProviderID)
						}
						c.dead = true
						vanished = true
						_ = e.SyncState()
						r.Inc("replacement_vanished")
					}
				} else if rc.mode == "stall" && !stalled && !allInit {
					e.Clock.Step(11 * time.Minute)
					stalled = true
					r.Inc("replacement_stalled_past_timeout")
				} else if rc.mode == "late" && !stalled && !allInit {
					// every replacement initialises, but only after the retry deadline has passed
					e.Clock.Step(11 * time.Minute)
					stalled = true
					for _, c := range reps {
						for i := 0; i < 6 && !c.dead && c.stage != world.StageInitialized; i++ {
							advance(c)
						}
					}
					_ = e.SyncState()
					r.Inc("replacements_initialized_after_deadline")
				} else {
					_ = e.SyncState()
				}
			}
		}
		// drain: finish what can be finished
		for i := 0; i < 8 && !crashed && len(d.Queue.GetCommands()) > 0; i++ {
			if rc.mode == "del-stuck" && !stalled {
				for _, c := range reps {
					for k := 0; k < 6 && !c.dead && c.stage != world.StageInitialized; k++ {
						advance(c)
					}
				}
				_ = e.SyncState()
				pastDeadline()
			}
			if rc.mode != "stall" {
				for _, c := range reps {
					advance(c)
				}
				_ = e.SyncState()
			}
			queueStep()
		}
	}
	out.calls = e.API.Calls()
	if rc.fault != nil {
		out.faultFired = rc.fault.Fired
	}
	e.API.ClearFaults()
	out.crashed = crashed
	if crashed {
		r.Inc("crashes_injected")
		e.Restart()
		_ = e.SyncState()
		e.Cluster.Synced(e.Ctx)
	}
	if cmd == nil {
		// no command entered the queue. If a fault or crash hit while one was being started (markDisrupted taints the node
		// and then patches the NodeClaim: two writes), whatever was half-done must be rolled back as well: after 5
		// fault-free reconciles no node outside the queue may still carry the disruption taint / condition
		if crashed || out.faultFired {
			pools := &v1.NodePoolList{}
			_ = e.API.Raw.List(context.Background(), pools)
			for i := range pools.Items {
				np := &pools.Items[i]
				np.Spec.Disruption.Budgets = []v1.Budget{{Nodes: "0"}}
				e.Apply(np)
			}
			for i := 0; i < 5; i++ {
				for _, name := range e.ClaimNames() {
					nc := &v1.NodeClaim{}
					if e.API.Raw.Get(context.Background(), types.NamespacedName{Name: name}, nc) == nil && nc.Status.ProviderID == "" {
						_, _ = e.ReconcileClaim(name)
						_, _ = e.ReconcileClaim(name)
					}
				}
				_ = e.SyncState()
				e.Cluster.Synced(e.Ctx)
				if _, _, panicked, pv, stack := d.Round(); panicked {
					out.violations++
					r.Violate("panic-in-disruption-reconcile", fmt.Sprintf("%v", pv), caseDesc, stack)
				}
				e.Clock.Step(10 * time.Second)
			}
			_ = e.SyncState()
			r.Inc("aborted_start_rollback_checks")
			for _, name := range e.ClaimNames() {
				nc := &v1.NodeClaim{}
				if e.API.Raw.Get(context.Background(), types.NamespacedName{Name: name}, nc) != nil || !nc.DeletionTimestamp.IsZero() || d.Queue.HasAny(nc.Status.ProviderID) {
					continue
				}
				var problems []string
				if node := d.NodeOfClaim(nc); node != nil {
					for _, t := range node.Spec.Taints {
						if t.Key == v1.DisruptedTaintKey {
							problems = append(problems, "disruption taint still on the node")
						}
					}
				}
				if nc.StatusConditions().Get(v1.ConditionTypeDisruptionReason) != nil {
					problems = append(problems, "DisruptionReason condition still on the NodeClaim")
				}
				if len(problems) > 0 {
					out.violations++
					key := "aborted-start-not-rolled-back"
					if crashed {
						key = "restart-during-start-leaves-node-out-of-service"
					}
					r.Violate(key+":"+strings.Fields(problems[0])[0], fmt.Sprintf("node of NodeClaim %s is in no command, yet after 5 fault-free reconciles: %s", nc.Name, strings.Join(problems, "; ")), caseDesc, nil)
				}
			}
		}
		return out
	}
	out.completed = len(d.Queue.GetCommands()) == 0 || crashed
	out.succeeded = cmd.Succeeded
	// ---- M2: a failed action deleted nothing and rolls back ----
	failed := crashed || (out.completed && !cmd.Succeeded)
	if out.completed && !crashed {
		r.Inc("commands_completed")
		if cmd.Succeeded {
			r.Inc("commands_succeeded")
		} else {
			r.Inc("commands_failed")
		}
	}
	if failed && !crashed && len(deletedBy[cmd]) > 0 {
		out.violations++
		key := "failed-action-deleted-candidates"
		if rc.mode == "late" && rc.fault == nil {
			key = "late-success-reported-as-timeout-after-deleting-candidates"
		}
		r.Violate(key, fmt.Sprintf("the action reported failure (Succeeded=false) although it deleted candidate(s) %v", deletedBy[cmd]), caseDesc, map[string]any{"command": out.cmdDesc})
	}
	if failed {
		// stop new selections, then give the controller 5 fault-free reconciles to return the candidates to service
		pools := &v1.NodePoolList{}
		_ = e.API.Raw.List(context.Background(), pools)
		for i := range pools.Items {
			np := &pools.Items[i]
			np.Spec.Disruption.Budgets = []v1.Budget{{Nodes: "0"}}
			e.Apply(np)
		}
		for i := 0; i < 5; i++ {
			// the rest of the system keeps running: NodeClaims that were created but not launched yet (e.g. a replacement
			// created right before the crash) are launched by the lifecycle controller, otherwise cluster state never syncs
			for _, name := range e.ClaimNames() {
				nc := &v1.NodeClaim{}
				if e.API.Raw.Get(context.Background(), types.NamespacedName{Name: name}, nc) == nil && nc.Status.ProviderID == "" {
					_, _ = e.ReconcileClaim(name)
					_, _ = e.ReconcileClaim(name)
				}
			}
			_ = e.SyncState()
			e.Cluster.Synced(e.Ctx)
			_, _, panicked, pv, stack := d.Round()
			if panicked {
				out.violations++
				r.Violate("panic-in-disruption-reconcile", fmt.Sprintf("%v", pv), caseDesc, stack)
			}
			e.Clock.Step(10 * time.Second)
		}
		_ = e.SyncState()
		r.Inc("rollback_checks")
		for _, cand := range cmd.Candidates {
			nc := &v1.NodeClaim{}
			if e.API.Raw.Get(context.Background(), types.NamespacedName{Name: cand.NodeClaim.Name}, nc) != nil || !nc.DeletionTimestamp.IsZero() {
				if crashed {
					continue // deleted before the crash with initialised replacements (judged by M1)
				}
				continue
			}
			node := d.NodeOfClaim(nc)
			var problems []string
			if node != nil {
				for _, t := range node.Spec.Taints {
					if t.Key == v1.DisruptedTaintKey {
						problems = append(problems, "disruption taint still on the node")
					}
				}
			}
			if nc.StatusConditions().Get(v1.ConditionTypeDisruptionReason) != nil {
				problems = append(problems, "DisruptionReason condition still on the NodeClaim")
			}
			for sn := range e.Cluster.Nodes() {
				if sn.NodeClaim != nil && sn.NodeClaim.Name == nc.Name && sn.MarkedForDeletion() {
					problems = append(problems, "still marked for deletion in cluster state (not schedulable capacity)")
				}
			}
			if len(problems) > 0 {
				out.violations++
				key := "failed-action-not-rolled-back"
				if crashed {
					key = "restart-leaves-candidate-out-of-service"
				}
				r.Violate(key+":"+strings.Fields(problems[0])[0], fmt.Sprintf("candidate %s of a failed action is not back in service after 5 fault-free reconciles: %s", nc.Name, strings.Join(problems, "; ")), caseDesc, map[string]any{"command": out.cmdDesc})
			}
		}
	}
	return out
}

func run(r *mon.Report, tier string, idx int, rng *rand.Rand) {
	_, kinds, stride := sizes(tier)
	seed := rng.Int63()
	script := rng.Int63()
	mode := []string{"normal", "late", "vanish", "stall", "cand-vanish", "multi-repl", "del-stuck", "stall"}[idx%8]
	base := execute(r, runCfg{mode: mode, seed: seed, idx: idx, script: script})
	r.Eval()
	if !base.startedCmd {
		r.Inc("scenarios_without_command")
		return
	}
	r.Inc("scenarios_with_command")
	r.Sig("%s|%s|repl=%d|cands=%d|ok=%v", mode, base.reason, min(base.cmdReplace, 2), min(base.cmdCands, 2), base.succeeded)
	K := base.calls
	r.Count("fault_free_calls", K)
	offset := rng.Intn(stride)
	for _, kind := range kinds {
		for k := 1 + offset; k <= K; k += stride {
			// every faulted replay uses its own orchestration order (schedule diversity on top of the fault position)
			o := execute(r, runCfg{fault: &world.Fault{AtCall: k, Kind: kind}, mode: mode, seed: seed, idx: idx, script: script + int64(k)*7919})
			r.Eval()
			r.Inc("fault_runs:" + kind)
			if o.faultFired || o.crashed {
				r.Inc("faults_fired:" + kind)
			}
			if o.startedCmd && o.completed && !o.succeeded && !o.crashed {
				r.Inc("faulted_runs_with_failed_command")
			}
			if !o.startedCmd {
				r.Inc("faulted_runs_without_command")
			}
		}
	}
	if r.WantSample() {
		r.Sample(map[string]any{"mode": mode, "command": base.cmdDesc, "fault_free_calls": K, "succeeded": base.succeeded, "kinds": kinds})
	}
}

var _ = corev1.Pod{}

func init() {
	reg.Register(&reg.Prop{
		ID: "C08", Level: "fault_enumeration",
		Rule:  "each case = one scenario (cluster grown through the real pipeline; drift with pods / underutilised / mixed so that replace and delete commands arise) + orchestration script (queue reconciles interleaved in PRNG order with the replacements being launched, registered and initialised by the real lifecycle controller and the kubelet actor; modes: normal, a replacement vanishes, a non-last candidate vanishes and then a replacement, a drift command needing several replacements that initialise one after the other, replacements stall past the retry deadline, replacements initialise only after the deadline). The scenario runs once fault-free to count K API + provider calls from the round that starts the command to the end of the script, then once per k (stride 3 in quick, 2 in thorough) and error kind {500, 409, (404), crash+restart}. Monitors: candidate NodeClaim deletes by the orchestration queue judged synchronously against the replacements' Initialized condition; failed or crashed actions must not have deleted candidates and must have taint / DisruptionReason / deletion mark removed within 5 fault-free reconciles; no node in two commands. evaluations = executions; non-trivial = scenarios in which a command was started; distinct by (mode, reason, #replacements, #candidates, success).",
		Cases: cases, Run: run,
		MinObserved: map[string]int{"scenarios_with_command": 8, "candidate_deletes_observed": 50, "rollback_checks": 30},
	})
}
