// Package c13: the launch request carries the scheduler's decision faithfully.
//
// Each case: NodePools whose requirements use every operator combination per key (only pools accepted by the
// real CRD + CEL + RuntimeValidate pipeline are used), pods whose affinity adds further operators, the real
// scheduler (Solve → TruncateInstanceTypes with a lowered MaxInstanceTypes) and the real Provisioner.Create;
// the NodeClaim object captured at the API boundary is compared with the scheduler's in-memory NodeClaim.
package c13

import (
	"context"
	"fmt"
	"math/rand"
	"sort"
	"strconv"
	"strings"

	corev1 "k8s.io/api/core/v1"
	"k8s.io/apimachinery/pkg/api/resource"
	"k8s.io/apimachinery/pkg/types"

	v1 "sigs.k8s.io/karpenter/pkg/apis/v1"
	"sigs.k8s.io/karpenter/pkg/cloudprovider"
	"sigs.k8s.io/karpenter/pkg/controllers/nodepool/hash"
	provscheduling "sigs.k8s.io/karpenter/pkg/controllers/provisioning/scheduling"
	"sigs.k8s.io/karpenter/pkg/operator/options"
	"sigs.k8s.io/karpenter/pkg/scheduling"

	"verif/gen"
	"verif/mon"
	"verif/oracle"
	"verif/props/common"
	"verif/props/reg"
	"verif/world"
)

func cases(tier string) int {
	if tier == "thorough" {
		return 150000
	}
	return 6400
}

// probe universe for a key: every mentioned value, integers at and around every bound / integer value,
// a fresh non-integer string, and "absent".
func universe(vals ...[]string) []string {
	set := map[string]bool{"fresh-value-zz": true, "-1": true, "0": true}
	for _, vs := range vals {
		for _, v := range vs {
			set[v] = true
			if x, err := strconv.ParseInt(v, 10, 64); err == nil {
				for d := int64(-2); d <= 2; d++ {
					set[strconv.FormatInt(x+d, 10)] = true
				}
			}
		}
	}
	out := make([]string, 0, len(set))
	for v := range set {
		out = append(out, v)
	}
	sort.Strings(out)
	return out
}

func run(r *mon.Report, tier string, idx int, rng *rand.Rand) {
	cfg := common.DefaultScenarioCfg()
	opts, optDesc := common.RandomOptions(rng)
	cfg.Options = opts
	cfg.MaxDaemons = 2
	// odd cases: a DaemonSet that only part of the instance types can run (several daemon overhead groups per template;
	// seeded change C13-e); even cases keep their PRNG stream
	cfg.SelectiveDaemons = idx%2 == 1
	cfg.Catalog.MinTypes, cfg.Catalog.MaxTypes = 4, 10
	cfg.Catalog.PUnavailable = 0.1
	s := common.Build(rng, cfg)
	e := s.Env
	r.Eval()
	// replace the generated pools' requirements by exotic ones; keep only pools the real validation accepts
	accepted := 0
	for _, np := range s.Pools {
		cur := &v1.NodePool{}
		if e.API.Raw.Get(context.Background(), types.NamespacedName{Name: np.Name}, cur) != nil {
			continue
		}
		for try := 0; try < 6; try++ {
			cand := cur.DeepCopy()
			cand.Spec.Template.Spec.Requirements = gen.ExoticRequirements(rng, 3)
			if rng.Intn(4) == 0 {
				mv := 2 + rng.Intn(2)
				key := []string{corev1.LabelInstanceTypeStable, gen.LabelFamily}[rng.Intn(2)]
				cand.Spec.Template.Spec.Requirements = append(cand.Spec.Template.Spec.Requirements, gen.Req{Key: key, Operator: corev1.NodeSelectorOpExists, MinValues: &mv})
			}
			if rng.Intn(4) == 0 {
				cand.Spec.Template.Spec.StartupTaints = []corev1.Taint{{Key: "startup", Value: "x", Effect: corev1.TaintEffectNoSchedule}}
			}
			if rng.Intn(4) == 0 {
				cand.Spec.Template.Labels = map[string]string{"example.com/static": "v"}
			}
			r.Inc("nodepools_generated")
			admitted, errs := world.AdmitNodePool(e.Ctx, cand)
			if len(errs) > 0 {
				r.Inc("nodepools_rejected_by_validation")
				continue
			}
			r.Inc("nodepools_accepted_by_validation")
			admitted.Status = cand.Status
			e.Apply(admitted)
			accepted++
			break
		}
	}
	if accepted == 0 {
		return
	}
	// interleaving: the hash controller stamps the NodePool, then the template is edited and NodeClaims are built
	// BEFORE the hash controller sees the edit; the NodeClaim must carry the hash of the template it was built from
	if rng.Intn(2) == 0 {
		hc := hash.NewController(e.API.Client, e.Provider)
		for _, np := range s.Pools {
			cur := &v1.NodePool{}
			if e.API.Raw.Get(context.Background(), types.NamespacedName{Name: np.Name}, cur) == nil {
				_, _ = hc.Reconcile(e.Ctx, cur)
			}
		}
		r.Inc("hash_controller_stamped_before_create")
		if rng.Intn(2) == 0 {
			for _, np := range s.Pools {
				cur := &v1.NodePool{}
				if e.API.Raw.Get(context.Background(), types.NamespacedName{Name: np.Name}, cur) == nil {
					if cur.Spec.Template.Labels == nil {
						cur.Spec.Template.Labels = map[string]string{}
					}
					cur.Spec.Template.Labels["example.com/rev"] = fmt.Sprint(rng.Intn(1000))
					e.Apply(cur)
				}
			}
			r.Inc("template_edited_after_stamp_before_create")
		}
	}
	// pods: plain ones plus ones whose selectors mention the pools' custom keys so that custom requirements narrow
	nb := 1 + rng.Intn(8)
	for i := 0; i < nb; i++ {
		p := gen.RandomPod(rng, s.NextPodName("p"), cfg.Pod)
		if rng.Intn(3) == 0 {
			gen.WithRequiredTerms([]corev1.NodeSelectorRequirement{gen.NSR(gen.LabelTier, []corev1.NodeSelectorOperator{corev1.NodeSelectorOpGt, corev1.NodeSelectorOpLt, corev1.NodeSelectorOpNotIn, corev1.NodeSelectorOpExists}[rng.Intn(4)], tierVals(rng)...)})(p)
		}
		e.Apply(p)
	}
	if err := e.SyncState(); err != nil {
		r.Inconcl("sync: %v", err)
		return
	}
	saved := provscheduling.MaxInstanceTypes
	provscheduling.MaxInstanceTypes = 3 + rng.Intn(3)
	defer func() { provscheduling.MaxInstanceTypes = saved }()
	caseDesc := map[string]any{"case": idx, "options": optDesc, "world": s.Desc, "maxInstanceTypes": provscheduling.MaxInstanceTypes}

	var res provscheduling.Results
	var err error
	if p, v, st := mon.Guard(func() { res, _, err = common.SolveRaw(e) }); p {
		r.Violate("panic-in-solve", fmt.Sprintf("Scheduler.Solve panicked: %v", v), caseDesc, st)
		return
	}
	if err != nil {
		r.Inc("solve_errors")
		return
	}
	pre := map[*provscheduling.NodeClaim][]string{}
	for _, nc := range res.NewNodeClaims {
		for _, it := range nc.InstanceTypeOptions {
			pre[nc] = append(pre[nc], it.Name)
		}
	}
	res = res.TruncateInstanceTypes(e.Ctx, provscheduling.MaxInstanceTypes)
	daemons := s.DaemonPodTemplates()
	for _, nc := range res.NewNodeClaims {
		np := poolOf(e, nc.NodePoolName)
		if np == nil {
			continue
		}
		before := e.API.LogLen()
		var name string
		var cerr error
		if p, v, st := mon.Guard(func() { name, cerr = e.Prov.Create(e.Ctx, nc) }); p {
			key := "panic-in-create"
			if strings.Contains(st, "requirement.go") && strings.Contains(st, ".Any") {
				key = "panic-in-Any-resolving-custom-label"
			}
			r.Violate(key, fmt.Sprintf("Provisioner.Create/ToNodeClaim panicked for a NodePool accepted by validation: %v", v), map[string]any{"case": idx, "pool": np.Spec.Template.Spec.Requirements, "requirements": nc.Requirements.String()}, st)
			continue
		}
		if cerr != nil {
			r.Inc("create_errors")
			continue
		}
		var created *v1.NodeClaim
		for _, ev := range e.API.LogSince(before) {
			if ev.Verb == "create" && ev.Kind == "NodeClaim" && ev.Key == name && ev.Err == "" {
				created = ev.After.(*v1.NodeClaim)
			}
		}
		if created == nil {
			r.Inconcl("created NodeClaim %s not found in the event log", name)
			continue
		}
		r.Inc("nodeclaims_captured")
		judge(r, s, np, nc, created, pre[nc], daemons, caseDesc)
	}
}

func tierVals(rng *rand.Rand) []string {
	return []string{fmt.Sprint(rng.Intn(8))}
}

func poolOf(e *world.Env, name string) *v1.NodePool {
	np := &v1.NodePool{}
	if e.API.Raw.Get(context.Background(), types.NamespacedName{Name: name}, np) != nil {
		return nil
	}
	return np
}

func sigOps(reqs []v1.NodeSelectorRequirementWithMinValues) string {
	byKey := map[string][]string{}
	for _, q := range reqs {
		k := q.Key
		switch {
		case strings.HasPrefix(k, "example.com/"):
			k = "custom"
		case k == gen.LabelGen || k == gen.LabelSize:
			k = "wk-int"
		default:
			k = "wk"
		}
		byKey[k] = append(byKey[k], string(q.Operator))
	}
	var parts []string
	for _, k := range common.SortedKeys(byKey) {
		ops := byKey[k]
		sort.Strings(ops)
		parts = append(parts, k+":"+strings.Join(dedup(ops), ","))
	}
	return strings.Join(parts, ";")
}

func dedup(a []string) []string {
	var out []string
	for i, x := range a {
		if i == 0 || x != a[i-1] {
			out = append(out, x)
		}
	}
	return out
}

func judge(r *mon.Report, s *common.Scenario, np *v1.NodePool, nc *provscheduling.NodeClaim, created *v1.NodeClaim, preOptions []string, daemons []*corev1.Pod, cs map[string]any) {
	e := s.Env
	ser := created.Spec.Requirements
	witness := func(extra map[string]any) map[string]any {
		w := map[string]any{"pool_requirements": np.Spec.Template.Spec.Requirements, "in_memory": nc.Requirements.String(), "serialized": ser, "labels": created.Labels}
		for k, v := range extra {
			w[k] = v
		}
		return w
	}
	r.Sig("%s|mv=%v", sigOps(ser), e.Opts.MinValuesPolicy)
	// 1. key by key: conjunction of the serialized entries == in-memory requirement (probe universe)
	keys := map[string]bool{}
	serVals := map[string][][]string{}
	for _, q := range ser {
		keys[q.Key] = true
		serVals[q.Key] = append(serVals[q.Key], q.Values)
	}
	for k := range nc.Requirements {
		keys[k] = true
	}
	for _, k := range common.SortedKeys(keys) {
		if k == v1.NodeRegisteredLabelKey || k == v1.NodeInitializedLabelKey || k == corev1.LabelHostname {
			continue // simulation-only keys
		}
		mem := nc.Requirements.Get(k)
		u := universe(append(serVals[k], mem.Values())...)
		for _, v := range u {
			r.Inc("admission_probes")
			a := world.AdmitsSerialized(ser, k, v, true)
			if !hasKey(ser, k) {
				a = true // no serialized entry: anything goes
			}
			b := mem.Has(v)
			if !nc.Requirements.Has(k) {
				b = true
			}
			if a != b {
				key := "serialized-differs-from-in-memory"
				if mem.Operator() == corev1.NodeSelectorOpNotIn && len(mem.Values()) > 0 && a && !b {
					key = "serialization-drops-exclusions-when-bound-present"
				}
				r.Violate(key, fmt.Sprintf("key %s value %q: serialized NodeClaim admits=%v, scheduler's in-memory requirement admits=%v", k, v, a, b), cs, witness(map[string]any{"key": k, "value": v}))
				break
			}
		}
		// minValues floor survives
		if mem.MinValues != nil {
			r.Inc("minvalues_keys")
			found := false
			for _, q := range ser {
				if q.Key == k && q.MinValues != nil && *q.MinValues == *mem.MinValues {
					found = true
				}
			}
			if !found {
				r.Violate("minvalues-floor-lost", fmt.Sprintf("key %s: in-memory minValues=%d is not carried by any serialized entry", k, *mem.MinValues), cs, witness(nil))
			}
		}
	}
	// 2. diagnostic only (the statement does not demand it; self-inflicted drift is C15's business): a label
	// resolved by Karpenter for a key that also has a serialized requirement should satisfy it
	for k, v := range created.Labels {
		if _, fromTemplate := np.Spec.Template.Labels[k]; fromTemplate || !hasKey(ser, k) {
			continue
		}
		r.Inc("resolved_label_checks")
		if !world.AdmitsSerialized(ser, k, v, true) {
			// when the written requirement on the key is one plain finite In set, the value Karpenter stamps as the label must be
			// one of those values under every reading (the NodeClaim as written would otherwise admit nothing on that key while the
			// scheduler's requirement admits the set); for ranges / exclusions the mismatch is C15's recorded self-drift business
			plainIn := 0
			entries := 0
			var set []string
			for _, q := range ser {
				if q.Key == k {
					entries++
					if q.Operator == corev1.NodeSelectorOpIn {
						plainIn++
						set = q.Values
					}
				}
			}
			if entries == 1 && plainIn == 1 {
				r.Violate("resolved-label-outside-its-finite-In-requirement", fmt.Sprintf("label %s=%s was stamped on the NodeClaim although its own written requirement on that key is In %v", k, v, set), cs, witness(nil))
			} else {
				r.Inc("diagnostic_resolved_label_outside_requirement")
			}
		}
	}
	// 3. instance types: subset of the scheduler's options; strict minValues still met across the sent types
	if np.Spec.Replicas == nil {
		var sent []string
		for _, q := range ser {
			if q.Key == corev1.LabelInstanceTypeStable && q.Operator == corev1.NodeSelectorOpIn {
				sent = q.Values
			}
		}
		r.Inc("instance_type_lists")
		preSet := map[string]bool{}
		for _, n := range preOptions {
			preSet[n] = true
		}
		for _, n := range sent {
			if !preSet[n] {
				r.Violate("sent-type-not-in-scheduler-options", fmt.Sprintf("instance type %s is sent to the provider but was not among the scheduler's options %v", n, preOptions), cs, witness(nil))
			}
		}
		if len(sent) == 0 {
			r.Violate("no-instance-types-sent", "dynamic NodeClaim without an instance-type In requirement", cs, witness(nil))
		}
		if e.Opts.MinValuesPolicy == options.MinValuesPolicyStrict {
			byName := map[string]*cloudprovider.InstanceType{}
			for _, it := range s.Types[np.Name] {
				byName[it.Name] = it
			}
			for _, q := range ser {
				if q.MinValues == nil {
					continue
				}
				distinct := map[string]bool{}
				for _, n := range sent {
					if it := byName[n]; it != nil {
						for _, v := range it.Requirements.Get(q.Key).Values() {
							distinct[v] = true
						}
					}
				}
				r.Inc("strict_minvalues_checks")
				if len(distinct) < *q.MinValues {
					r.Violate("strict-minvalues-not-met-by-sent-types", fmt.Sprintf("key %s minValues=%d but the %d sent instance types only span %d values", q.Key, *q.MinValues, len(sent), len(distinct)), cs, witness(nil))
				}
			}
		}
		// 4. requests cover the pods plus the smallest true daemon overhead among the sent types
		total := corev1.ResourceList{}
		for _, p := range nc.Pods {
			oracle.Add(total, oracle.PodRequests(p))
		}
		byName := map[string]*cloudprovider.InstanceType{}
		for _, it := range s.Types[np.Name] {
			byName[it.Name] = it
		}
		// smallest true daemon overhead among the given types (over their available offerings)
		minOver := func(names []string) corev1.ResourceList {
			var minDaemon corev1.ResourceList
			for _, n := range names {
				it := byName[n]
				if it == nil {
					continue
				}
				for _, of := range it.Offerings.Available() {
					lbls := common.TypeLabels(it, of)
					for k, v := range created.Labels {
						lbls[k] = v
					}
					cn := oracle.ConcreteNode{Labels: lbls, Taints: created.Spec.Taints}
					d := corev1.ResourceList{}
					for _, dp := range daemons {
						if oracle.DaemonAdmissible(dp, cn) {
							oracle.Add(d, oracle.PodRequests(dp))
						}
					}
					if minDaemon == nil {
						minDaemon = d
					} else {
						for k, v := range minDaemon {
							if o := d[k]; o.Cmp(v) < 0 {
								minDaemon[k] = o
							}
						}
						for k := range minDaemon {
							if _, ok := d[k]; !ok {
								minDaemon[k] = resource.MustParse("0")
							}
						}
					}
				}
			}
			return minDaemon
		}
		pods := total.DeepCopy()
		oracle.Add(total, minOver(sent))
		r.Inc("request_cover_checks")
		if ok, why := oracle.Fits(total, created.Spec.Resources.Requests); !ok {
			// root cause classification: the requests were computed over the scheduler's options BEFORE truncation; when the
			// daemon group with the smallest overhead is truncated away the request no longer covers any type that is sent
			key := "requests-do-not-cover-pods-and-daemons"
			pre := pods.DeepCopy()
			oracle.Add(pre, minOver(preOptions))
			if okPre, _ := oracle.Fits(pre, created.Spec.Resources.Requests); okPre && len(preOptions) > len(sent) {
				key += ":cheapest-daemon-overhead-group-truncated-away"
			}
			r.Violate(key, "NodeClaim spec.resources.requests is smaller than its pods plus the minimum daemon overhead: "+why, cs,
				witness(map[string]any{"requests": created.Spec.Resources.Requests, "needed": total, "scheduler_options": preOptions}))
		}
	}
	// 5. template fidelity
	r.Inc("template_checks")
	for k, v := range np.Spec.Template.Labels {
		if created.Labels[k] != v {
			r.Violate("template-label-missing", fmt.Sprintf("template label %s=%s missing on the NodeClaim", k, v), cs, witness(nil))
		}
	}
	if created.Labels[v1.NodePoolLabelKey] != np.Name {
		r.Violate("nodepool-label-wrong", "karpenter.sh/nodepool label does not name the NodePool", cs, witness(nil))
	}
	if fmt.Sprint(created.Spec.Taints) != fmt.Sprint(np.Spec.Template.Spec.Taints) || fmt.Sprint(created.Spec.StartupTaints) != fmt.Sprint(np.Spec.Template.Spec.StartupTaints) {
		r.Violate("taints-differ-from-template", "taints/startupTaints differ from the NodePool template", cs, witness(map[string]any{"taints": created.Spec.Taints, "startup": created.Spec.StartupTaints}))
	}
	if created.Annotations[v1.NodePoolHashAnnotationKey] != np.Hash() || created.Annotations[v1.NodePoolHashVersionAnnotationKey] != v1.NodePoolHashVersion {
		r.Violate("hash-annotation-wrong", "nodepool-hash / hash-version annotation does not equal NodePool.Hash() at the current version", cs, witness(map[string]any{"annotations": created.Annotations, "want": np.Hash()}))
	}
	if r.WantSample() {
		r.Sample(map[string]any{"pool_requirements": np.Spec.Template.Spec.Requirements, "in_memory": nc.Requirements.String(), "serialized": ser, "labels": created.Labels, "requests": created.Spec.Resources.Requests, "scheduler_options": preOptions})
	}
}

func hasKey(reqs []v1.NodeSelectorRequirementWithMinValues, k string) bool {
	for _, q := range reqs {
		if q.Key == k {
			return true
		}
	}
	return false
}

var _ = scheduling.NewRequirements

func init() {
	reg.Register(&reg.Prop{
		ID: "C13", Level: "exploration",
		Rule:  "each case = generated world whose NodePool requirements are redrawn over ALL eight operators with 1-3 requirements per key on well-known enumerated, well-known integer and custom keys (incl. Lt 0, Gt+NotIn, Gte+Lte) and kept only if the in-process CRD schema + CEL + RuntimeValidate pipeline accepts them; pods add further operators; real Scheduler.Solve → TruncateInstanceTypes(MaxInstanceTypes 3-5) → Provisioner.Create; the NodeClaim captured at the API boundary is compared with the scheduler's in-memory NodeClaim. Non-trivial = a NodeClaim was captured and judged; distinct by (operator multiset per key class of the serialized requirements x minValues policy).",
		Cases: cases, Run: run,
		MinObserved: map[string]int{"nodeclaims_captured": 100, "admission_probes": 5000},
	})
}
