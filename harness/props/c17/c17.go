// Package c17: scarce capacity is never over-committed in a scheduling pass.
//
// Part 1 (reserved capacity, this file): each case builds a world whose catalogs carry reserved offerings with
// reservation ids shared across instance types, zones and weighted NodePools (capacities 0..3, occasionally
// disagreeing advertisements of the same id), adds a batch of pending pods with zone / capacity-type /
// instance-family / reservation-id constraints and big and small requests, runs the real Provisioner.Schedule
// (strict reserved-offering mode, parallelism 1/4/8) and judges scheduling.Results with an independent oracle:
//
//	a. per reservation id, the number of new NodeClaims that can still launch into it (an instance-type option has an
//	   available reserved offering with that id which the claim's final requirements admit) never exceeds the smallest
//	   capacity advertised for that id;
//	b. a claim that can launch into reserved capacity is pinned: capacity-type exactly {reserved}, reservation-id a
//	   finite In-set, and every member of that set is an available, compatible offering of one of its options;
//	c. (strict mode) a claim that is not pinned cannot reach any available reserved offering, and a pod that is left
//	   unscheduled although it is admissible - alone - on some available reserved offering carries the
//	   reserved-offering error kind (it was deferred, not failed, and did not silently fall back).
//
// Part 2 (dynamic resource allocation) lives in dra.go.
package c17

import (
	"context"
	"fmt"
	"math/rand"
	"sort"
	"strings"

	corev1 "k8s.io/api/core/v1"
	"k8s.io/apimachinery/pkg/types"

	v1 "sigs.k8s.io/karpenter/pkg/apis/v1"
	"sigs.k8s.io/karpenter/pkg/cloudprovider"
	provscheduling "sigs.k8s.io/karpenter/pkg/controllers/provisioning/scheduling"
	"sigs.k8s.io/karpenter/pkg/operator/options"
	"sigs.k8s.io/karpenter/pkg/scheduling"
	"sigs.k8s.io/karpenter/pkg/test"

	"verif/gen"
	"verif/mon"
	"verif/oracle"
	"verif/props/common"
	"verif/props/reg"
	"verif/world"
)

func cases(tier string) int {
	if tier == "thorough" {
		return 7000 // 5000 reserved + 2000 DRA
	}
	return 1200 // 800 reserved + 400 DRA
}

// isDRA interleaves the two parts so that every batch (and the race pass, which runs a prefix of each batch)
// executes both: quick 1 in 3, thorough 2 in 7.
func isDRA(tier string, idx int) bool {
	if tier == "thorough" {
		return idx%7 >= 5
	}
	return idx%3 == 2
}

func run(r *mon.Report, tier string, idx int, rng *rand.Rand) {
	if isDRA(tier, idx) {
		runDRA(r, tier, idx, rng)
		return
	}
	runReserved(r, idx, rng)
}

// ---------------------------------------------------------------------------------------------------------------
// world
// ---------------------------------------------------------------------------------------------------------------

type resWorld struct {
	s       *common.Scenario
	batch   []*corev1.Pod
	gate    bool
	respect bool // preference policy Respect
	dense   bool
	par     int64
	desc    map[string]any
	offSpec map[*cloudprovider.Offering]gen.OfferingSpec
	capMin  map[string]int // reservation id -> smallest advertised capacity over the catalogs of all NodePools
	capMax  map[string]int
	idPools map[string]map[string]bool // reservation id -> NodePools whose catalog offers it
}

// buildReserved builds the world of one case from a seed; parallelism is the only parameter not drawn from it, so
// that the determinism diagnostic can re-run the identical world with a different worker count.
func buildReserved(seed int64, par int64) *resWorld {
	rng := rand.New(rand.NewSource(seed))
	w := &resWorld{par: par, offSpec: map[*cloudprovider.Offering]gen.OfferingSpec{}, capMin: map[string]int{}, capMax: map[string]int{}, idPools: map[string]map[string]bool{}}
	pp := []options.PreferencePolicy{options.PreferencePolicyRespect, options.PreferencePolicyIgnore}[rng.Intn(2)]
	mv := []options.MinValuesPolicy{options.MinValuesPolicyStrict, options.MinValuesPolicyBestEffort}[rng.Intn(2)]
	w.gate = rng.Intn(100) >= 15
	w.respect = pp == options.PreferencePolicyRespect
	cpu := par * 1000
	gate := w.gate
	cfg := common.DefaultScenarioCfg()
	cfg.Options = test.OptionsFields{PreferencePolicy: &pp, MinValuesPolicy: &mv, CPURequests: &cpu, FeatureGates: test.FeatureGates{ReservedCapacity: &gate}}
	cfg.Catalog.Reserved = true
	cfg.Catalog.GPU = false
	cfg.PerPoolCatalog = rng.Intn(3) == 0
	cfg.Weights = true
	cfg.MaxDaemons = 1
	cfg.Pool.PMinValues = 0
	cfg.Pool.PLimits = 0
	cfg.MinPools, cfg.MaxPools = 1, 3
	s := common.Build(rng, cfg)
	w.s = s
	e := s.Env
	// dense reserved overlay (3 in 4 cases); otherwise the stock generator's sparse reserved offerings
	w.dense = rng.Intn(4) != 0
	if w.dense {
		rcfg := gen.DefaultC17ReservedCfg()
		rcfg.IDs = 2 + rng.Intn(3)
		caps := gen.C17Capacities(rng, rcfg)
		for _, key := range common.SortedKeys(s.Specs) {
			its, specs := gen.C17AddReserved(rng, s.Specs[key], caps, rcfg)
			s.Specs[key] = specs
			if key == "" {
				e.Provider.Default = its
			} else {
				e.Provider.Catalog[key] = its
			}
		}
	}
	for _, np := range s.Pools {
		if its, ok := e.Provider.Catalog[np.Name]; ok {
			s.Types[np.Name] = its
		} else {
			s.Types[np.Name] = e.Provider.Default
		}
	}
	s.Types[""] = e.Provider.Default
	// NodePools: replace the capacity-type requirement by one that (mostly) admits reserved capacity
	for _, np := range s.Pools {
		var reqs []gen.Req
		for _, q := range np.Spec.Template.Spec.Requirements {
			if q.Key != v1.CapacityTypeLabelKey {
				reqs = append(reqs, q)
			}
		}
		switch x := rng.Intn(100); {
		case x < 45:
		case x < 60:
			reqs = append(reqs, gen.R(v1.CapacityTypeLabelKey, corev1.NodeSelectorOpIn, v1.CapacityTypeReserved))
		case x < 80:
			reqs = append(reqs, gen.R(v1.CapacityTypeLabelKey, corev1.NodeSelectorOpIn, v1.CapacityTypeOnDemand, v1.CapacityTypeReserved))
		case x < 90:
			reqs = append(reqs, gen.R(v1.CapacityTypeLabelKey, corev1.NodeSelectorOpNotIn, v1.CapacityTypeSpot))
		default:
			reqs = append(reqs, gen.R(v1.CapacityTypeLabelKey, corev1.NodeSelectorOpIn, gen.CapTypes...))
		}
		np.Spec.Template.Spec.Requirements = reqs
		e.Apply(np)
	}
	// index offerings -> generator spec; reservation capacities over the catalogs the scheduler will see
	for _, np := range s.Pools {
		specKey := ""
		if _, ok := e.Provider.Catalog[np.Name]; ok {
			specKey = np.Name
		}
		specs := s.Specs[specKey]
		for i, it := range s.Types[np.Name] {
			for j, of := range it.Offerings {
				sp := specs[i].Offerings[j]
				w.offSpec[of] = sp
				if sp.CapType != v1.CapacityTypeReserved {
					continue
				}
				if c, ok := w.capMin[sp.ReservationID]; !ok || sp.ReservationCapacity < c {
					w.capMin[sp.ReservationID] = sp.ReservationCapacity
				}
				if c, ok := w.capMax[sp.ReservationID]; !ok || sp.ReservationCapacity > c {
					w.capMax[sp.ReservationID] = sp.ReservationCapacity
				}
				if w.idPools[sp.ReservationID] == nil {
					w.idPools[sp.ReservationID] = map[string]bool{}
				}
				w.idPools[sp.ReservationID][np.Name] = true
			}
		}
	}
	// pod batch
	pcfg := gen.C17PodCfg{IDLabel: cloudprovider.ReservationIDLabel}
	if w.gate && rng.Intn(10) < 7 {
		pcfg.ReservationIDs = common.SortedKeys(w.capMin)
	}
	n := 2 + rng.Intn(13)
	for i := 0; i < n; i++ {
		p := gen.C17Pod(rng, s.NextPodName("p"), pcfg)
		e.Apply(p)
		w.batch = append(w.batch, p)
	}
	var pools []map[string]any
	for _, np := range s.Pools {
		pools = append(pools, map[string]any{"name": np.Name, "weight": np.Spec.Weight, "requirements": np.Spec.Template.Spec.Requirements,
			"taints": np.Spec.Template.Spec.Taints, "labels": np.Spec.Template.Labels, "ownCatalog": e.Provider.Catalog[np.Name] != nil})
	}
	var ds []map[string]any
	for _, d := range s.Daemons {
		ds = append(ds, map[string]any{"name": d.Name, "spec": d.Spec.Template.Spec})
	}
	w.desc = map[string]any{"worldSeed": seed, "parallelism": par, "reservedCapacityGate": w.gate, "preferencePolicy": string(pp), "minValuesPolicy": string(mv),
		"denseReserved": w.dense, "pools": pools, "catalogs": s.Specs, "daemonsets": ds, "batch": podSummaries(w.batch), "reservationCapacityMin": w.capMin}
	return w
}

func podSummaries(ps []*corev1.Pod) []map[string]any {
	var out []map[string]any
	for _, p := range ps {
		m := map[string]any{"name": p.Name, "requests": p.Spec.Containers[0].Resources.Requests}
		if len(p.Spec.NodeSelector) > 0 {
			m["nodeSelector"] = p.Spec.NodeSelector
		}
		if p.Spec.Affinity != nil {
			m["affinity"] = p.Spec.Affinity
		}
		if len(p.Spec.Tolerations) > 0 {
			m["tolerations"] = p.Spec.Tolerations
		}
		if len(p.Spec.ResourceClaims) > 0 {
			m["resourceClaims"] = p.Spec.ResourceClaims
		}
		out = append(out, m)
	}
	return out
}

func podNames(ps []*corev1.Pod) []string {
	var out []string
	for _, p := range ps {
		out = append(out, p.Name)
	}
	sort.Strings(out)
	return out
}

func snapshotPods(e *world.Env) map[types.UID]*corev1.Pod {
	pods := &corev1.PodList{}
	_ = e.API.Raw.List(context.Background(), pods)
	out := map[types.UID]*corev1.Pod{}
	for i := range pods.Items {
		out[pods.Items[i].UID] = &pods.Items[i]
	}
	return out
}

// ---------------------------------------------------------------------------------------------------------------
// views of a claim's final requirements
// ---------------------------------------------------------------------------------------------------------------

// reqView answers "do the claim's requirements admit value v / absence for label key".
type reqView struct {
	name    string
	admits  func(key, val string) bool
	absent  func(key string) bool
	hasType func(name string) bool
}

// memView judges the in-memory requirements of Results (what the property's observe_at names).
func memView(nc *provscheduling.NodeClaim) reqView {
	return reqView{
		name: "results",
		admits: func(key, val string) bool {
			q, ok := nc.Requirements[key]
			return !ok || q.Has(val)
		},
		absent: func(key string) bool {
			q, ok := nc.Requirements[key]
			if !ok {
				return true
			}
			op := q.Operator()
			return op == corev1.NodeSelectorOpNotIn || op == corev1.NodeSelectorOpDoesNotExist
		},
		hasType: func(string) bool { return true },
	}
}

// serializedSpec renders the NodeClaim object Karpenter would create, from a copy (ToNodeClaim narrows the template's
// requirements in place; the Results under judgement must stay untouched).
func serializedSpec(nc *provscheduling.NodeClaim) *v1.NodeClaim {
	tmpl := nc.NodeClaimTemplate
	tmpl.Requirements = scheduling.NewRequirements(nc.Requirements.Values()...)
	tmpl.Labels = map[string]string{}
	for k, v := range nc.Labels {
		tmpl.Labels[k] = v
	}
	tmpl.Annotations = map[string]string{}
	for k, v := range nc.Annotations {
		tmpl.Annotations[k] = v
	}
	return tmpl.ToNodeClaim()
}

// serView judges the serialized spec.requirements with plain Kubernetes operator semantics (what a provider sees).
func serView(obj *v1.NodeClaim) reqView {
	reqs := obj.Spec.Requirements
	return reqView{
		name:   "serialized",
		admits: func(key, val string) bool { return world.AdmitsSerialized(reqs, key, val, true) },
		absent: func(key string) bool { return world.AdmitsSerialized(reqs, key, "", false) },
		hasType: func(name string) bool {
			return world.AdmitsSerialized(reqs, corev1.LabelInstanceTypeStable, name, true)
		},
	}
}

type reach struct {
	it *cloudprovider.InstanceType
	of *cloudprovider.Offering
	sp gen.OfferingSpec
}

// reachable enumerates the (instance-type option, available offering) pairs the claim's requirements admit.
func (w *resWorld) reachable(nc *provscheduling.NodeClaim, v reqView) (reserved, other []reach) {
	for _, it := range nc.InstanceTypeOptions {
		if !v.hasType(it.Name) {
			continue
		}
		for _, of := range it.Offerings {
			sp, ok := w.offSpec[of]
			if !ok || !sp.Available {
				continue
			}
			if !v.admits(corev1.LabelTopologyZone, sp.Zone) || !v.admits(v1.CapacityTypeLabelKey, sp.CapType) {
				continue
			}
			if sp.CapType == v1.CapacityTypeReserved {
				if v.admits(cloudprovider.ReservationIDLabel, sp.ReservationID) {
					reserved = append(reserved, reach{it, of, sp})
				}
			} else if v.absent(cloudprovider.ReservationIDLabel) {
				other = append(other, reach{it, of, sp})
			}
		}
	}
	return
}

func idsOf(rs []reach) []string {
	m := map[string]bool{}
	for _, x := range rs {
		m[x.sp.ReservationID] = true
	}
	return common.SortedKeys(m)
}

// ---------------------------------------------------------------------------------------------------------------
// independent "pod alone on a fresh node of this pool" oracle
// ---------------------------------------------------------------------------------------------------------------

func poolByName(s *common.Scenario, name string) *v1.NodePool {
	for _, np := range s.Pools {
		if np.Name == name {
			return np
		}
	}
	return nil
}

// aloneAdmissible enumerates the available offerings of the pool's catalog on which the pod - alone, plus the
// daemons that would run there - is admissible by Kubernetes rules and the pool's own requirements.
func (w *resWorld) aloneAdmissible(np *v1.NodePool, pod *corev1.Pod, onlyReserved bool) []reach {
	var out []reach
	daemons := w.s.DaemonPodTemplates()
	for _, it := range w.s.Types[np.Name] {
		for _, g := range it.AllocatableOfferingsList() {
			for _, of := range g.Offerings {
				sp, ok := w.offSpec[of]
				if !ok || !sp.Available {
					continue
				}
				if onlyReserved && sp.CapType != v1.CapacityTypeReserved {
					continue
				}
				lbls := common.TypeLabels(it, of)
				okPool := true
				for _, q := range np.Spec.Template.Spec.Requirements {
					_, defT := it.Requirements[q.Key]
					_, defO := of.Requirements[q.Key]
					if !defT && !defO {
						continue // custom label: carried by the NodeClaim itself; C17 pods never select on it
					}
					val, present := lbls[q.Key]
					if !oracle.Admits(string(q.Operator), q.Values, val, present) {
						okPool = false
						break
					}
				}
				if !okPool {
					continue
				}
				for k, v := range np.Spec.Template.Labels {
					lbls[k] = v
				}
				lbls[v1.NodePoolLabelKey] = np.Name
				lbls[v1.NodeRegisteredLabelKey] = "true"
				lbls[v1.NodeInitializedLabelKey] = "true"
				cn := oracle.ConcreteNode{Name: "alone", Labels: lbls, Taints: np.Spec.Template.Spec.Taints, Allocatable: g.Allocatable}
				var others []*corev1.Pod
				for _, d := range daemons {
					if oracle.DaemonAdmissible(d, cn) {
						others = append(others, d)
					}
				}
				if ar := oracle.AdmitAll(cn, []*corev1.Pod{pod}, others); ar.OK {
					out = append(out, reach{it, of, sp})
				}
			}
		}
	}
	return out
}

// ---------------------------------------------------------------------------------------------------------------
// the case
// ---------------------------------------------------------------------------------------------------------------

func panicKey(pv any) string {
	msg := fmt.Sprint(pv)
	switch {
	case strings.Contains(msg, "over-reserve"):
		return "panic-reservation-over-reserved"
	case strings.Contains(msg, "non-existent offering"):
		return "panic-reservation-unknown-id"
	}
	return "panic-in-schedule"
}

func bucket(n int, max int) string {
	if n >= max {
		return fmt.Sprintf("%d+", max)
	}
	return fmt.Sprint(n)
}

// outcome is a canonical rendering of Results used only by the determinism diagnostic.
func outcome(res provscheduling.Results) string {
	var parts []string
	for _, nc := range res.NewNodeClaims {
		var its []string
		for _, it := range nc.InstanceTypeOptions {
			its = append(its, it.Name)
		}
		sort.Strings(its)
		ids := ""
		if q, ok := nc.Requirements[cloudprovider.ReservationIDLabel]; ok {
			v := append([]string(nil), q.Values()...)
			sort.Strings(v)
			ids = string(q.Operator()) + fmt.Sprint(v)
		}
		parts = append(parts, fmt.Sprintf("%s|%v|%v|%s", nc.NodePoolName, podNames(nc.Pods), its, ids))
	}
	for p, err := range res.PodErrors {
		parts = append(parts, fmt.Sprintf("err:%s:%v", p.Name, provscheduling.IsReservedOfferingError(err)))
	}
	sort.Strings(parts)
	return strings.Join(parts, ";")
}

func runReserved(r *mon.Report, idx int, rng *rand.Rand) {
	seed := rng.Int63()
	pars := []int64{1, 4, 8}
	pi := rng.Intn(3)
	w := buildReserved(seed, pars[pi])
	e := w.s.Env
	r.Inc("reserved_cases")
	if err := e.SyncState(); err != nil {
		r.Inconcl("case %d: state sync error: %v", idx, err)
		r.Eval()
		return
	}
	originals := snapshotPods(e)
	var res provscheduling.Results
	var err error
	panicked, pv, stack := mon.Guard(func() { res, err = e.Prov.Schedule(e.Ctx) })
	r.Eval()
	cs := map[string]any{"case": idx, "part": "reserved", "world": w.desc}
	if panicked {
		r.Violate(panicKey(pv), fmt.Sprintf("Provisioner.Schedule panicked: %v", pv), cs, stack)
		return
	}
	if err != nil {
		r.Inc("schedule_errors")
		return
	}
	sig := w.judge(r, res, originals, cs)
	// determinism diagnostic: identical fresh world, different worker count
	w2 := buildReserved(seed, pars[(pi+1+rng.Intn(2))%3])
	if w2.s.Env.SyncState() == nil {
		var res2 provscheduling.Results
		var err2 error
		p2, pv2, stack2 := mon.Guard(func() { res2, err2 = w2.s.Env.Prov.Schedule(w2.s.Env.Ctx) })
		switch {
		case p2:
			cs2 := map[string]any{"case": idx, "part": "reserved", "world": w2.desc, "note": "second (determinism) run"}
			r.Violate(panicKey(pv2), fmt.Sprintf("Provisioner.Schedule panicked: %v", pv2), cs2, stack2)
		case err2 == nil:
			r.Inc("determinism_pairs")
			if outcome(res) == outcome(res2) {
				r.Inc("determinism_same_outcome")
			} else {
				r.Inc("determinism_different_outcome")
			}
			// the second run is a legitimate execution too: judge it (no evidence signature, no samples)
			cs2 := map[string]any{"case": idx, "part": "reserved", "world": w2.desc, "note": "second (determinism) run"}
			w2.judge(r, res2, snapshotPods(w2.s.Env), cs2)
		}
	}
	if sig != "" {
		r.Sig("%s", sig)
	}
	if r.WantSample() && strings.Contains(sig, "pinned=") && !strings.Contains(sig, "pinned=0") {
		r.Sample(map[string]any{"case": idx, "part": "reserved", "world": w.desc, "result": summarize(res)})
	}
}

func summarize(res provscheduling.Results) map[string]any {
	var ncs []map[string]any
	for _, nc := range res.NewNodeClaims {
		var its []string
		for _, it := range nc.InstanceTypeOptions {
			its = append(its, it.Name)
		}
		ncs = append(ncs, map[string]any{"pool": nc.NodePoolName, "pods": podNames(nc.Pods), "instanceTypes": its, "requirements": nc.Requirements.String()})
	}
	errs := map[string]string{}
	for p, err := range res.PodErrors {
		kind := "error"
		if provscheduling.IsReservedOfferingError(err) {
			kind = "reserved-offering-error"
		}
		errs[p.Name] = kind
	}
	return map[string]any{"newNodeClaims": ncs, "podErrors": errs}
}

// judge applies the oracle to one Results and returns the evidence signature ("" when no antecedent fired).
func (w *resWorld) judge(r *mon.Report, res provscheduling.Results, originals map[types.UID]*corev1.Pod, cs map[string]any) string {
	s := w.s
	type claimInfo struct {
		nc       *provscheduling.NodeClaim
		memRes   []reach
		serRes   []reach
		serOther []reach
		pinned   bool
	}
	var claims []claimInfo
	holders := map[string][]int{}    // results view: reservation id -> claim indexes
	holdersSer := map[string][]int{} // serialized view
	witnessClaims := func(idxs []int) []map[string]any {
		var out []map[string]any
		for _, i := range idxs {
			nc := claims[i].nc
			out = append(out, map[string]any{"pool": nc.NodePoolName, "pods": podNames(nc.Pods), "requirements": nc.Requirements.String(), "reachableReserved": describe(claims[i].memRes)})
		}
		return out
	}
	nPinned, nMulti, nNarrow := 0, 0, 0
	for _, nc := range res.NewNodeClaims {
		if len(nc.Pods) == 0 {
			continue
		}
		r.Inc("claims_checked")
		ci := claimInfo{nc: nc}
		mv := memView(nc)
		ci.memRes, _ = w.reachable(nc, mv)
		obj := serializedSpec(nc)
		ci.serRes, ci.serOther = w.reachable(nc, serView(obj))
		idReq, hasID := nc.Requirements[cloudprovider.ReservationIDLabel]
		ctReq, hasCT := nc.Requirements[v1.CapacityTypeLabelKey]
		ctExactlyReserved := hasCT && ctReq.Operator() == corev1.NodeSelectorOpIn && len(ctReq.Values()) == 1 && ctReq.Values()[0] == v1.CapacityTypeReserved
		idFinite := hasID && idReq.Operator() == corev1.NodeSelectorOpIn && len(idReq.Values()) > 0
		ci.pinned = ctExactlyReserved && idFinite
		k := len(claims)
		claims = append(claims, ci)
		wit := func() map[string]any {
			return map[string]any{"pool": nc.NodePoolName, "pods": podNames(nc.Pods), "requirements": nc.Requirements.String(),
				"serializedRequirements": obj.Spec.Requirements, "reachableReserved": describe(ci.memRes), "reachableReservedSerialized": describe(ci.serRes),
				"reachableOtherSerialized": describe(ci.serOther)}
		}
		if !w.gate {
			// negative control: with the ReservedCapacity gate off nothing may be pinned (pods never select on the id here)
			r.Inc("gate_off_claims_checked")
			if hasID {
				r.Violate("claim-pinned-with-gate-off", fmt.Sprintf("NodeClaim (pool %s) carries a reservation-id requirement although the ReservedCapacity feature gate is off", nc.NodePoolName), cs, wit())
			}
			continue
		}
		for _, id := range idsOf(ci.memRes) {
			holders[id] = append(holders[id], k)
		}
		for _, id := range idsOf(ci.serRes) {
			holdersSer[id] = append(holdersSer[id], k)
		}
		if len(ci.memRes) == 0 && len(ci.serRes) == 0 {
			r.Inc("claims_without_reachable_reservation")
			if ci.pinned {
				r.Violate("pinned-claim-without-reachable-reservation", fmt.Sprintf("NodeClaim (pool %s) is pinned to reserved capacity %v but none of its instance-type options has an available compatible offering of those reservations", nc.NodePoolName, idReq.Values()), cs, wit())
			}
			continue
		}
		// (b)/(c): a claim that can launch into reserved capacity must be pinned to it
		r.Inc("claims_reaching_reserved")
		if !ctExactlyReserved {
			r.Violate("unpinned-claim-admits-reserved-offering", fmt.Sprintf("NodeClaim (pool %s) can launch into reservation(s) %v but its capacity-type requirement is not exactly {reserved}: it can consume reserved capacity it does not hold, or silently fell back", nc.NodePoolName, idsOf(append(append([]reach{}, ci.memRes...), ci.serRes...))), cs, wit())
			continue
		}
		if !idFinite {
			r.Violate("reserved-claim-without-reservation-id-set", fmt.Sprintf("NodeClaim (pool %s) is restricted to capacity type reserved but has no finite reservation-id In requirement", nc.NodePoolName), cs, wit())
			continue
		}
		nPinned++
		r.Inc("claims_pinned")
		reachIDs := map[string]bool{}
		for _, id := range idsOf(ci.memRes) {
			reachIDs[id] = true
		}
		for _, id := range idReq.Values() {
			r.Inc("pinned_ids_checked")
			if !reachIDs[id] {
				r.Violate("pinned-id-without-compatible-offering", fmt.Sprintf("NodeClaim (pool %s) is pinned to reservation %q but no instance-type option has an available offering of it that the claim's other requirements admit", nc.NodePoolName, id), cs, wit())
			}
		}
		if len(idReq.Values()) > 1 {
			nMulti++
			r.Inc("claims_pinned_to_several_ids")
		}
		if len(ci.serOther) > 0 {
			r.Violate("pinned-claim-can-launch-unreserved", fmt.Sprintf("serialized NodeClaim (pool %s) is pinned to reservations %v but still admits a non-reserved offering", nc.NodePoolName, idReq.Values()), cs, wit())
		}
		if a, b := fmt.Sprint(idsOf(ci.memRes)), fmt.Sprint(idsOf(ci.serRes)); a != b {
			r.Violate("serialized-pin-differs", fmt.Sprintf("NodeClaim (pool %s): reservations reachable through the in-memory requirements %s differ from those reachable through the serialized spec %s", nc.NodePoolName, a, b), cs, wit())
		}
		// diagnostic: did the pin end up narrower than what the opener alone was compatible with (narrowing / release / exhaustion)?
		if np := poolByName(s, nc.NodePoolName); np != nil {
			if o := originals[nc.Pods[0].UID]; o != nil {
				alone := idsOf(w.aloneAdmissible(np, o, true))
				if len(alone) > len(idReq.Values()) {
					nNarrow++
					r.Inc("claims_pin_narrower_than_opener_alone")
				}
			}
		}
	}
	// (c) no silent fallback at claim creation: the pod that opened a claim must not have been admissible, alone, on an
	// available reserved offering of an earlier (higher-weight) NodePool - then it had to be placed there or deferred -
	// and if it was admissible on a reserved offering of the claim's own pool the claim must have stayed pinned.
	if w.gate {
		for k := range claims {
			ci := claims[k]
			pc := ci.nc.Pods[0]
			o := originals[pc.UID]
			if o == nil {
				continue
			}
			if w.respect && pc.Spec.Affinity != nil && pc.Spec.Affinity.NodeAffinity != nil && len(pc.Spec.Affinity.NodeAffinity.PreferredDuringSchedulingIgnoredDuringExecution) > 0 {
				// the opener was placed while a preferred term was still treated as required: the required-only oracle does not apply
				r.Inc("opener_checks_skipped_unrelaxed_preference")
				continue
			}
			r.Inc("opener_checks")
			for _, np := range orderedPools(s.Pools) {
				own := np.Name == ci.nc.NodePoolName
				if !own && untoleratedPreferNoSchedule(pc, np.Spec.Template.Spec.Taints) {
					// a PreferNoSchedule taint is honoured as long as another pool takes the pod: passing over this pool is legitimate
					r.Inc("opener_checks_pool_skipped_prefer_no_schedule")
					continue
				}
				rs := w.aloneAdmissible(np, o, true)
				if len(rs) > 0 {
					r.Inc("openers_compatible_with_reserved_offering")
					wit := map[string]any{"claimPool": ci.nc.NodePoolName, "pods": podNames(ci.nc.Pods), "opener": podSummaries([]*corev1.Pod{o}), "requirements": ci.nc.Requirements.String(),
						"reservedPool": np.Name, "compatibleReservedOfferings": describe(rs), "result": summarize(res)}
					if !own {
						r.Violate("claim-opened-in-later-pool-despite-compatible-reserved-capacity", fmt.Sprintf("pod %s opened a NodeClaim in pool %s although it is admissible on available reserved offering(s) %v of the earlier-ordered pool %s: it had to be placed there or deferred with the reserved-offering error", o.Name, ci.nc.NodePoolName, describe(rs), np.Name), cs, wit)
					} else if !ci.pinned {
						r.Violate("claim-lost-its-reservation", fmt.Sprintf("pod %s opened a NodeClaim in pool %s while admissible on available reserved offering(s) %v of that pool, yet the final claim is not pinned to reserved capacity (silent fallback)", o.Name, np.Name, describe(rs)), cs, wit)
					}
				}
				if own || len(rs) > 0 {
					break
				}
			}
		}
	}
	// (a) capacity per reservation id
	exhausted, zeroCap := 0, 0
	if w.gate {
		for _, id := range common.SortedKeys(w.capMin) {
			r.Inc("reservation_ids_checked")
			capMin := w.capMin[id]
			if w.capMin[id] != w.capMax[id] {
				r.Inc("reservation_ids_with_disagreeing_capacities")
			}
			if len(w.idPools[id]) > 1 {
				r.Inc("reservation_ids_shared_across_pools")
			}
			n := len(holders[id])
			if n > capMin {
				r.Violate("reservation-overcommitted", fmt.Sprintf("%d new NodeClaims can launch into reservation %q whose smallest advertised capacity is %d", n, id, capMin), cs,
					map[string]any{"reservation": id, "capacity": capMin, "claims": witnessClaims(holders[id])})
			} else if ns := len(holdersSer[id]); ns > capMin {
				r.Violate("reservation-overcommitted-serialized", fmt.Sprintf("%d serialized NodeClaims admit reservation %q whose smallest advertised capacity is %d", ns, id, capMin), cs,
					map[string]any{"reservation": id, "capacity": capMin, "claims": witnessClaims(holdersSer[id])})
			}
			if n > 0 {
				r.Inc("reservation_ids_held")
			}
			if capMin == 0 {
				zeroCap++
			} else if n == capMin {
				exhausted++
				r.Inc("reservation_ids_fully_committed")
			}
		}
	}
	// (c) pods left unscheduled
	roe := res.ReservedOfferingErrors()
	nROE := len(roe)
	r.Count("pods_deferred_reserved", nROE)
	if !w.gate && nROE > 0 {
		r.Violate("reserved-offering-error-with-gate-off", "a pod carries the reserved-offering error although the ReservedCapacity feature gate is off", cs, summarize(res))
	}
	nFailed := 0
	for p, perr := range res.PodErrors {
		o := originals[p.UID]
		if o == nil || !w.gate {
			continue
		}
		isROE := provscheduling.IsReservedOfferingError(perr)
		var compat []reach
		var inPool string
		for _, np := range s.Pools {
			if rs := w.aloneAdmissible(np, o, true); len(rs) > 0 {
				compat, inPool = rs, np.Name
				break
			}
		}
		if isROE {
			// sanity of the antecedent (diagnostic): a deferred pod should be compatible with some reserved offering
			if len(compat) == 0 {
				r.Inc("deferred_pods_without_compatible_reserved_offering")
			} else {
				r.Inc("deferred_pods_with_compatible_reserved_offering")
			}
			continue
		}
		nFailed++
		r.Inc("failed_pods_checked")
		if len(compat) > 0 {
			r.Violate("unscheduled-pod-lacks-reserved-offering-error", fmt.Sprintf("pod %s is admissible on its own on available reserved offering(s) %v of pool %s, was neither placed nor deferred with the reserved-offering error kind: %v", o.Name, describe(compat), inPool, perr), cs,
				map[string]any{"pod": podSummaries([]*corev1.Pod{o}), "error": perr.Error(), "result": summarize(res)})
		}
	}
	if len(claims) == 0 && nROE == 0 {
		return ""
	}
	if !w.gate {
		return fmt.Sprintf("reserved|gate=off|claims=%s|par=%d", bucket(len(claims), 3), w.par)
	}
	if nPinned == 0 && nROE == 0 && exhausted == 0 {
		return fmt.Sprintf("reserved|gate=on|pinned=0|claims=%s|par=%d", bucket(len(claims), 3), w.par)
	}
	return fmt.Sprintf("reserved|gate=on|pinned=%s|multiID=%v|narrowed=%v|fullyCommitted=%s|zeroCap=%v|deferred=%s|failed=%v|pools=%d|ownCatalogs=%v|par=%d",
		bucket(nPinned, 3), nMulti > 0, nNarrow > 0, bucket(exhausted, 2), zeroCap > 0, bucket(nROE, 2), nFailed > 0, len(s.Pools), len(s.Env.Provider.Catalog) > 0, w.par)
}

// untoleratedPreferNoSchedule: does the (possibly relaxed) placed copy of the pod lack a toleration for a PreferNoSchedule taint?
func untoleratedPreferNoSchedule(p *corev1.Pod, taints []corev1.Taint) bool {
	for _, t := range taints {
		if t.Effect != corev1.TaintEffectPreferNoSchedule {
			continue
		}
		tolerated := false
		for _, tol := range p.Spec.Tolerations {
			if tol.Effect != "" && tol.Effect != t.Effect {
				continue
			}
			if tol.Key != "" && tol.Key != t.Key {
				continue
			}
			if tol.Operator == corev1.TolerationOpExists || tol.Value == t.Value {
				tolerated = true
				break
			}
		}
		if !tolerated {
			return true
		}
	}
	return false
}

// orderedPools re-implements the scheduler's template order: weight descending, ties by name descending.
func orderedPools(in []*v1.NodePool) []*v1.NodePool {
	out := append([]*v1.NodePool(nil), in...)
	wt := func(np *v1.NodePool) int32 {
		if np.Spec.Weight == nil {
			return 0
		}
		return *np.Spec.Weight
	}
	sort.SliceStable(out, func(i, j int) bool {
		if wt(out[i]) != wt(out[j]) {
			return wt(out[i]) > wt(out[j])
		}
		return out[i].Name > out[j].Name
	})
	return out
}

func describe(rs []reach) []string {
	var out []string
	for _, x := range rs {
		if x.sp.CapType == v1.CapacityTypeReserved {
			out = append(out, fmt.Sprintf("%s/%s/%s(cap %d)", x.it.Name, x.sp.Zone, x.sp.ReservationID, x.sp.ReservationCapacity))
		} else {
			out = append(out, fmt.Sprintf("%s/%s/%s", x.it.Name, x.sp.Zone, x.sp.CapType))
		}
	}
	sort.Strings(out)
	return out
}

func init() {
	reg.Register(&reg.Prop{
		ID: "C17", Level: "exploration", Race: true, RaceIsViolation: false,
		Rule:  "two interleaved case kinds. RESERVED (2 of 3 quick, 5 of 7 thorough): generated world = 1-3 weighted NodePools (shared or own catalogs of 3-8 types) whose capacity-type requirement mostly admits `reserved`, reserved offerings with reservation ids shared across instance types, zones and pools (capacities 0-3, occasionally disagreeing advertisements, some unavailable), 0-1 daemonsets, ReservedCapacity gate on (85%) or off (negative control), + batch of 2-14 pending pods (100m-7 CPU; zone / capacity-type incl. reserved / family / reservation-id selectors, preferred terms, tolerations) scheduled by the real Provisioner.Schedule (strict reserved mode) with parallelism 1/4/8; every case is re-run on an identical fresh world with a different worker count (judged too; outcome equality is a counter only). DRA (the rest): generated world = 2-5 instance types carrying ResourceSliceTemplates (exclusive GPUs with a model attribute, multi-allocatable vGPUs with a consumable memory capacity, partitionable cards drawing from a shared counter set), 1-2 NodePools, published ResourceSlices (cluster-wide exclusive / shared / partitionable pools, a zoned pool, a node-local pool on an initialised unmanaged node), DeviceClasses, ResourceClaims already allocated in-cluster to a live pod, 2-10 pods referencing 0-2 unallocated ResourceClaims (some shared between pods; exact counts, capacity requests, driver/attribute-equality CEL selectors); 30% of the worlds first run a warm-up pass whose NodeClaims are created, launched and left uninitialised (in-flight nodes whose devices are template devices); the real deviceallocation controller is hydrated and reconciled, then the real Provisioner.Schedule (IgnoreDRARequests=false, parallelism 1/4/8) is judged from Results.DRAClaimAllocationMetadata against the generated device definitions. A reserved case is non-trivial when a NodeClaim or a reserved-offering deferral was judged; distinct by (gate, #pinned claims, multi-id pins, narrowed pins, #fully committed ids, zero-capacity ids, #deferred pods, failed pods, #pools, own catalogs, parallelism); DRA cases are distinct by (device kinds, #claims allocated, sharing shape, parallelism).",
		Cases: cases, Run: run,
		RaceFrac: map[string]float64{"quick": 0.34, "thorough": 0.1},
		MinObserved: map[string]int{"claims_pinned": 40, "reservation_ids_fully_committed": 20, "pods_deferred_reserved": 20, "gate_off_claims_checked": 10,
			"claims_pinned_to_several_ids": 5, "failed_pods_checked": 5, "opener_checks": 50, "claims_pin_narrower_than_opener_alone": 5,
			"dra_device_allocations_checked": 300, "dra_exclusive_devices_checked": 200, "dra_shared_devices_with_several_allocations": 15,
			"dra_counters_checked": 100, "dra_targets_with_several_dra_pods": 50, "dra_template_device_allocations": 100, "dra_in_cluster_device_allocations": 100},
	})
}
