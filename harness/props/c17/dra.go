package c17

import (
	"math/rand"

	"verif/mon"
)

func runDRA(r *mon.Report, tier string, idx int, rng *rand.Rand) {
	r.Inc("dra_cases_stub")
}
