package c17

// Part 2 of C17: dynamic resource allocation. With IgnoreDRARequests=false the real Provisioner.Schedule builds the
// real dynamicresources.Allocator over (a) ResourceSlices published in the (fake) API server - cluster-wide, zoned and
// node-local on an initialised node - and (b) ResourceSliceTemplates on the generated instance types, fed with the
// in-cluster allocations tracked by the real deviceallocation controller. The oracle reads
// Results.DRAClaimAllocationMetadata and the *generated* device definitions only:
//
//   - an exclusive device never serves two allocations that can co-occur (different NodeClaims: any instance types;
//     same NodeClaim: same instance type), nor any allocation when it is already allocated in-cluster to a live pod;
//   - per multi-allocatable device and capacity dimension, in-cluster consumption + the worst co-occurring sum of
//     consumed capacity <= the device's capacity;
//   - per counter set of a partitionable pool, the worst co-occurring sum of consumed counters <= the shared counters.
//
// Breadth is bounded (and said so in evidence): exclusive devices, consumable capacity without request policies,
// partitionable devices; CEL selectors are driver / attribute equality only; Exactly requests with exact counts.

import (
	"context"
	"fmt"
	"math/rand"
	"reflect"
	"sort"
	"strings"
	"unique"

	corev1 "k8s.io/api/core/v1"
	resourcev1 "k8s.io/api/resource/v1"
	"k8s.io/apimachinery/pkg/api/resource"
	metav1 "k8s.io/apimachinery/pkg/apis/meta/v1"
	"k8s.io/apimachinery/pkg/types"
	"sigs.k8s.io/controller-runtime/pkg/reconcile"

	v1 "sigs.k8s.io/karpenter/pkg/apis/v1"
	"sigs.k8s.io/karpenter/pkg/cloudprovider"
	provscheduling "sigs.k8s.io/karpenter/pkg/controllers/provisioning/scheduling"
	"sigs.k8s.io/karpenter/pkg/operator/options"
	"sigs.k8s.io/karpenter/pkg/test"

	"verif/gen"
	"verif/mon"
	"verif/world"
)

const (
	drvGPU  = "gpu.example.com"  // exclusive devices (templates + in-cluster)
	drvVGPU = "vgpu.example.com" // multi-allocatable devices with a consumable "memory" capacity
	drvMIG  = "mig.example.com"  // partitionable devices drawing from shared counters
	dimMem  = "memory"
	cntMem  = "memory"
	cntCmp  = "compute"
)

// devSpec is the generator's own record of one device (the oracle never asks Karpenter what a device is).
type devSpec struct {
	Driver, Pool, Name string
	Shared             bool
	Capacity           map[string]resource.Quantity            // dimension -> total
	Consumes           map[string]map[string]resource.Quantity // counter set -> counter -> amount
	Attrs              map[string]string
	IT                 string // template devices: owning instance type
	Zone               string // zoned in-cluster slice
	Node               string // node-local in-cluster slice
}

func (d *devSpec) key() string { return d.Driver + "|" + d.Pool + "|" + d.Name }

type draWorld struct {
	e         *world.Env
	par       int64
	desc      map[string]any
	types     []*cloudprovider.InstanceType
	inCluster map[string]*devSpec                                           // key -> device
	templates map[string]map[string]*devSpec                                // instance type -> key -> device
	counters  map[string]map[string]map[string]resource.Quantity            // in-cluster: driver|pool -> set -> counter -> value
	tcounters map[string]map[string]map[string]map[string]resource.Quantity // instance type -> driver|pool -> set -> counter -> value
	preExcl   map[string]string                                             // in-cluster exclusive device key -> pre-allocated claim (live consumer)
	preShared map[string]map[string]resource.Quantity                       // in-cluster shared device key -> dimension -> consumed by live consumers
	claims    map[string]*resourcev1.ResourceClaim
	batch     []*corev1.Pod
	late      []*corev1.Pod // applied only after the warm-up pass (warm worlds)
	warm      bool          // run a first pass, launch its NodeClaims (uninitialised in-flight nodes with template devices), then judge a second pass
	kinds     map[string]bool
	nodeName  string
}

func q(s string) resource.Quantity { return resource.MustParse(s) }

func strAttr(s string) resourcev1.DeviceAttribute { return resourcev1.DeviceAttribute{StringValue: &s} }

func attrsOf(m map[string]string) map[resourcev1.QualifiedName]resourcev1.DeviceAttribute {
	if len(m) == 0 {
		return nil
	}
	out := map[resourcev1.QualifiedName]resourcev1.DeviceAttribute{}
	for k, v := range m {
		out[resourcev1.QualifiedName(k)] = strAttr(v)
	}
	return out
}

func capOf(m map[string]resource.Quantity) map[resourcev1.QualifiedName]resourcev1.DeviceCapacity {
	if len(m) == 0 {
		return nil
	}
	out := map[resourcev1.QualifiedName]resourcev1.DeviceCapacity{}
	for k, v := range m {
		out[resourcev1.QualifiedName(k)] = resourcev1.DeviceCapacity{Value: v}
	}
	return out
}

func consumesOf(m map[string]map[string]resource.Quantity) []resourcev1.DeviceCounterConsumption {
	var out []resourcev1.DeviceCounterConsumption
	for _, set := range sortedKeys(m) {
		c := map[string]resourcev1.Counter{}
		for n, v := range m[set] {
			c[n] = resourcev1.Counter{Value: v}
		}
		out = append(out, resourcev1.DeviceCounterConsumption{CounterSet: set, Counters: c})
	}
	return out
}

func counterSetsOf(m map[string]map[string]resource.Quantity) []resourcev1.CounterSet {
	var out []resourcev1.CounterSet
	for _, set := range sortedKeys(m) {
		c := map[string]resourcev1.Counter{}
		for n, v := range m[set] {
			c[n] = resourcev1.Counter{Value: v}
		}
		out = append(out, resourcev1.CounterSet{Name: set, Counters: c})
	}
	return out
}

func sortedKeys[V any](m map[string]V) []string {
	out := make([]string, 0, len(m))
	for k := range m {
		out = append(out, k)
	}
	sort.Strings(out)
	return out
}

func (d *devSpec) cloud() cloudprovider.Device {
	return cloudprovider.Device{Name: unique.Make(d.Name), Attributes: attrsOf(d.Attrs), Capacity: capOf(d.Capacity), AllowMultipleAllocations: d.Shared, ConsumesCounters: consumesOf(d.Consumes)}
}

func (d *devSpec) api() resourcev1.Device {
	out := resourcev1.Device{Name: d.Name, Attributes: attrsOf(d.Attrs), Capacity: capOf(d.Capacity), ConsumesCounters: consumesOf(d.Consumes)}
	if d.Shared {
		t := true
		out.AllowMultipleAllocations = &t
	}
	return out
}

// migProfiles: partition profiles of a 40Gi / 8-compute card.
var migProfiles = []struct {
	name string
	mem  string
	cmp  string
}{{"1g", "10Gi", "2"}, {"2g", "20Gi", "4"}, {"4g", "40Gi", "8"}, {"1g", "10Gi", "2"}, {"2g", "20Gi", "4"}}

func migDevices(rng *rand.Rand, driver, pool, prefix, set string) []*devSpec {
	n := 2 + rng.Intn(4)
	var out []*devSpec
	for i := 0; i < n; i++ {
		p := migProfiles[(i+rng.Intn(2))%len(migProfiles)]
		out = append(out, &devSpec{Driver: driver, Pool: pool, Name: fmt.Sprintf("%s-%s-%d", prefix, p.name, i), Attrs: map[string]string{"profile": p.name},
			Consumes: map[string]map[string]resource.Quantity{set: {cntMem: q(p.mem), cntCmp: q(p.cmp)}}})
	}
	return out
}

func slice(name, driver, pool string, count int64, devs []*devSpec) *resourcev1.ResourceSlice {
	s := &resourcev1.ResourceSlice{ObjectMeta: metav1.ObjectMeta{Name: name},
		Spec: resourcev1.ResourceSliceSpec{Driver: driver, Pool: resourcev1.ResourcePool{Name: pool, Generation: 1, ResourceSliceCount: count}}}
	for _, d := range devs {
		s.Spec.Devices = append(s.Spec.Devices, d.api())
	}
	return s
}

func buildDRA(seed int64, par int64) *draWorld {
	rng := rand.New(rand.NewSource(seed))
	w := &draWorld{par: par, inCluster: map[string]*devSpec{}, templates: map[string]map[string]*devSpec{}, counters: map[string]map[string]map[string]resource.Quantity{},
		tcounters: map[string]map[string]map[string]map[string]resource.Quantity{}, preExcl: map[string]string{}, preShared: map[string]map[string]resource.Quantity{},
		claims: map[string]*resourcev1.ResourceClaim{}, kinds: map[string]bool{}}
	pp := []options.PreferencePolicy{options.PreferencePolicyRespect, options.PreferencePolicyIgnore}[rng.Intn(2)]
	cpu := par * 1000
	ignore := false
	e := world.NewEnv(rng, test.OptionsFields{PreferencePolicy: &pp, CPURequests: &cpu, IgnoreDRARequests: &ignore})
	w.e = e
	e.Apply(gen.NodeClass())
	// ---- instance types with ResourceSliceTemplates
	nt := 2 + rng.Intn(4)
	var specs []gen.TypeSpec
	var typeDesc []map[string]any
	for i := 0; i < nt; i++ {
		c := []int{4, 8, 16}[rng.Intn(3)]
		sp := gen.TypeSpec{Name: fmt.Sprintf("d%d-c%d", i, c), CPU: c, MemGi: c * 4, Pods: []int{8, 16, 110}[rng.Intn(3)], Arch: v1.ArchitectureAmd64, Family: gen.Families[rng.Intn(3)], Gen: 1 + rng.Intn(5)}
		for _, zi := range rng.Perm(3)[:1+rng.Intn(3)] {
			sp.Offerings = append(sp.Offerings, gen.OfferingSpec{Zone: gen.Zones[zi], CapType: v1.CapacityTypeOnDemand, Price: float64(c) * 0.05, Available: true})
			if rng.Intn(2) == 0 {
				sp.Offerings = append(sp.Offerings, gen.OfferingSpec{Zone: gen.Zones[zi], CapType: v1.CapacityTypeSpot, Price: float64(c) * 0.02, Available: true})
			}
		}
		it := gen.BuildType(sp)
		w.templates[sp.Name] = map[string]*devSpec{}
		w.tcounters[sp.Name] = map[string]map[string]map[string]resource.Quantity{}
		var tdesc []string
		addT := func(driver, pool string, devs []*devSpec) {
			t := &cloudprovider.ResourceSliceTemplate{Driver: unique.Make(driver), Pool: cloudprovider.ResourcePool{Name: unique.Make(pool)}}
			for _, d := range devs {
				d.IT = sp.Name
				w.templates[sp.Name][d.key()] = d
				t.Devices = append(t.Devices, d.cloud())
			}
			it.DynamicResources.ResourceSliceTemplates = append(it.DynamicResources.ResourceSliceTemplates, t)
		}
		if rng.Intn(100) < 65 { // exclusive GPUs
			n := []int{1, 2, 2, 4}[rng.Intn(4)]
			model := []string{"a100", "h100"}[rng.Intn(2)]
			var devs []*devSpec
			for k := 0; k < n; k++ {
				m := model
				if rng.Intn(5) == 0 {
					m = []string{"a100", "h100"}[rng.Intn(2)]
				}
				devs = append(devs, &devSpec{Driver: drvGPU, Pool: sp.Name + "-gpu", Name: fmt.Sprintf("gpu-%d", k), Attrs: map[string]string{"model": m}})
			}
			addT(drvGPU, sp.Name+"-gpu", devs)
			tdesc = append(tdesc, fmt.Sprintf("%dx exclusive gpu", n))
			w.kinds["template-exclusive"] = true
		}
		if rng.Intn(100) < 50 { // multi-allocatable vGPU(s)
			n := 1 + rng.Intn(2)
			var devs []*devSpec
			for k := 0; k < n; k++ {
				devs = append(devs, &devSpec{Driver: drvVGPU, Pool: sp.Name + "-vgpu", Name: fmt.Sprintf("vgpu-%d", k), Shared: true,
					Capacity: map[string]resource.Quantity{dimMem: q([]string{"16Gi", "24Gi", "40Gi"}[rng.Intn(3)])}})
			}
			addT(drvVGPU, sp.Name+"-vgpu", devs)
			tdesc = append(tdesc, fmt.Sprintf("%dx shared vgpu", n))
			w.kinds["template-shared"] = true
		}
		if rng.Intn(100) < 45 { // partitionable card
			pool := sp.Name + "-mig"
			set := "card0"
			budget := map[string]map[string]resource.Quantity{set: {cntMem: q("40Gi"), cntCmp: q("8")}}
			w.tcounters[sp.Name][drvMIG+"|"+pool] = budget
			it.DynamicResources.ResourceSliceTemplates = append(it.DynamicResources.ResourceSliceTemplates,
				&cloudprovider.ResourceSliceTemplate{Driver: unique.Make(drvMIG), Pool: cloudprovider.ResourcePool{Name: unique.Make(pool)}, SharedCounters: counterSetsOf(budget)})
			devs := migDevices(rng, drvMIG, pool, "mig", set)
			addT(drvMIG, pool, devs)
			tdesc = append(tdesc, fmt.Sprintf("partitionable card with %d profiles", len(devs)))
			w.kinds["template-partitionable"] = true
		}
		specs = append(specs, sp)
		w.types = append(w.types, it)
		typeDesc = append(typeDesc, map[string]any{"name": sp.Name, "cpu": sp.CPU, "pods": sp.Pods, "zones": zonesOf(sp), "templates": tdesc})
	}
	e.Provider.Default = w.types
	// ---- NodePools
	np := 1 + rng.Intn(2)
	var poolDesc []map[string]any
	for i := 0; i < np; i++ {
		p := gen.NodePool(rng, fmt.Sprintf("pool-%d", i), gen.PoolCfg{})
		if rng.Intn(3) == 0 {
			p.Spec.Template.Spec.Requirements = append(p.Spec.Template.Spec.Requirements, gen.R(corev1.LabelTopologyZone, corev1.NodeSelectorOpIn, gen.Zones[rng.Intn(3)], gen.Zones[rng.Intn(3)]))
		}
		if rng.Intn(2) == 0 {
			wt := int32(1 + rng.Intn(3)*10)
			p.Spec.Weight = &wt
		}
		e.Apply(p)
		poolDesc = append(poolDesc, map[string]any{"name": p.Name, "weight": p.Spec.Weight, "requirements": p.Spec.Template.Spec.Requirements})
	}
	// ---- an initialised (unmanaged) node with a node-local slice and live pods
	var sliceDesc []map[string]any
	addIn := func(s *resourcev1.ResourceSlice, devs []*devSpec, what string) {
		for _, d := range devs {
			w.inCluster[d.key()] = d
		}
		e.Apply(s)
		var names []string
		for _, d := range devs {
			names = append(names, d.Name)
		}
		sliceDesc = append(sliceDesc, map[string]any{"name": s.Name, "driver": s.Spec.Driver, "pool": s.Spec.Pool.Name, "kind": what, "devices": names})
	}
	w.nodeName = "dra-node"
	node := &corev1.Node{
		ObjectMeta: metav1.ObjectMeta{Name: w.nodeName, UID: types.UID("node-" + w.nodeName), Labels: map[string]string{corev1.LabelHostname: w.nodeName, corev1.LabelTopologyZone: gen.Zones[rng.Intn(3)],
			corev1.LabelArchStable: v1.ArchitectureAmd64, corev1.LabelOSStable: "linux"}},
		Spec: corev1.NodeSpec{ProviderID: "unmanaged://" + w.nodeName},
		Status: corev1.NodeStatus{Phase: corev1.NodeRunning,
			Capacity:    corev1.ResourceList{corev1.ResourceCPU: gen.Q("4"), corev1.ResourceMemory: gen.Q("16Gi"), corev1.ResourcePods: gen.Q("10")},
			Allocatable: corev1.ResourceList{corev1.ResourceCPU: gen.Q("4"), corev1.ResourceMemory: gen.Q("15Gi"), corev1.ResourcePods: gen.Q("10")},
			Conditions:  []corev1.NodeCondition{{Type: corev1.NodeReady, Status: corev1.ConditionTrue}}},
	}
	e.Apply(node)
	live := gen.Pod("live-0", 500, 256, gen.Bound(w.nodeName, e.Clock.Now()))
	e.Apply(live)
	liveRef := resourcev1.ResourceClaimConsumerReference{Resource: "pods", Name: live.Name, UID: live.UID}
	if rng.Intn(100) < 40 {
		n := 1 + rng.Intn(2)
		var devs []*devSpec
		pool := drvGPU + "/" + w.nodeName
		for k := 0; k < n; k++ {
			devs = append(devs, &devSpec{Driver: drvGPU, Pool: pool, Name: fmt.Sprintf("local-gpu-%d", k), Attrs: map[string]string{"model": "a100"}, Node: w.nodeName})
		}
		s := slice(w.nodeName+"-gpu", drvGPU, pool, 1, devs)
		s.OwnerReferences = []metav1.OwnerReference{{APIVersion: "v1", Kind: "Node", Name: node.Name, UID: node.UID}}
		s.Spec.NodeName = &w.nodeName
		addIn(s, devs, "node-local exclusive")
		w.kinds["node-local"] = true
	}
	// ---- published cluster-wide / zoned slices
	all := true
	var cwGPU []*devSpec
	if rng.Intn(100) < 60 {
		n := 1 + rng.Intn(3)
		for k := 0; k < n; k++ {
			cwGPU = append(cwGPU, &devSpec{Driver: drvGPU, Pool: "cw-gpu", Name: fmt.Sprintf("cw-gpu-%d", k), Attrs: map[string]string{"model": []string{"a100", "h100"}[rng.Intn(2)]}})
		}
		s := slice("cw-gpu", drvGPU, "cw-gpu", 1, cwGPU)
		s.Spec.AllNodes = &all
		addIn(s, cwGPU, "cluster-wide exclusive")
		w.kinds["cluster-exclusive"] = true
	}
	if rng.Intn(100) < 35 {
		z := gen.Zones[rng.Intn(3)]
		var devs []*devSpec
		for k := 0; k < 1+rng.Intn(2); k++ {
			devs = append(devs, &devSpec{Driver: drvGPU, Pool: "zoned-gpu", Name: fmt.Sprintf("zoned-gpu-%d", k), Attrs: map[string]string{"model": "h100"}, Zone: z})
		}
		s := slice("zoned-gpu", drvGPU, "zoned-gpu", 1, devs)
		s.Spec.NodeSelector = &corev1.NodeSelector{NodeSelectorTerms: []corev1.NodeSelectorTerm{{MatchExpressions: []corev1.NodeSelectorRequirement{{Key: corev1.LabelTopologyZone, Operator: corev1.NodeSelectorOpIn, Values: []string{z}}}}}}
		addIn(s, devs, "zoned exclusive ("+z+")")
		w.kinds["zoned-exclusive"] = true
	}
	var cwV *devSpec
	if rng.Intn(100) < 50 {
		cwV = &devSpec{Driver: drvVGPU, Pool: "cw-vgpu", Name: "cw-vgpu-0", Shared: true, Capacity: map[string]resource.Quantity{dimMem: q([]string{"16Gi", "24Gi", "40Gi"}[rng.Intn(3)])}}
		s := slice("cw-vgpu", drvVGPU, "cw-vgpu", 1, []*devSpec{cwV})
		s.Spec.AllNodes = &all
		addIn(s, []*devSpec{cwV}, "cluster-wide shared")
		w.kinds["cluster-shared"] = true
	}
	var cwMig []*devSpec
	if rng.Intn(100) < 40 {
		budget := map[string]map[string]resource.Quantity{"cwcard": {cntMem: q("40Gi"), cntCmp: q("8")}}
		w.counters[drvMIG+"|cw-mig"] = budget
		cs := slice("cw-mig-counters", drvMIG, "cw-mig", 2, nil)
		cs.Spec.SharedCounters = counterSetsOf(budget)
		cs.Spec.AllNodes = &all
		e.Apply(cs)
		cwMig = migDevices(rng, drvMIG, "cw-mig", "cwmig", "cwcard")
		s := slice("cw-mig-devices", drvMIG, "cw-mig", 2, cwMig)
		s.Spec.AllNodes = &all
		addIn(s, cwMig, "cluster-wide partitionable")
		w.kinds["cluster-partitionable"] = true
	}
	// a node-local partitionable card (counter set and devices in slices pinned to the node by spec.nodeName), one of whose
	// devices is multi-allocatable AND draws from the shared counters
	var nlShared *devSpec
	if rng.Intn(100) < 35 {
		budget := map[string]map[string]resource.Quantity{"nlcard": {cntMem: q("40Gi"), cntCmp: q("8")}}
		w.counters[drvMIG+"|nl-mig"] = budget
		cs := slice(w.nodeName+"-mig-counters", drvMIG, "nl-mig", 2, nil)
		cs.Spec.SharedCounters = counterSetsOf(budget)
		cs.Spec.NodeName = &w.nodeName
		e.Apply(cs)
		devs := migDevices(rng, drvMIG, "nl-mig", "nlmig", "nlcard")
		nlShared = &devSpec{Driver: drvMIG, Pool: "nl-mig", Name: "nlmig-shared", Shared: true, Attrs: map[string]string{"profile": "shared"},
			Capacity: map[string]resource.Quantity{dimMem: q("30Gi")},
			Consumes: map[string]map[string]resource.Quantity{"nlcard": {cntMem: q([]string{"20Gi", "30Gi"}[rng.Intn(2)]), cntCmp: q("4")}}}
		devs = append(devs, nlShared)
		for _, d := range devs {
			d.Node = w.nodeName
		}
		s := slice(w.nodeName+"-mig-devices", drvMIG, "nl-mig", 2, devs)
		s.Spec.NodeName = &w.nodeName
		addIn(s, devs, "node-local partitionable (one device multi-allocatable and counter-consuming)")
		w.kinds["node-local-partitionable"] = true
	}
	// ---- device classes
	for name, drv := range map[string]string{"gpu": drvGPU, "vgpu": drvVGPU, "mig": drvMIG} {
		e.Apply(&resourcev1.DeviceClass{ObjectMeta: metav1.ObjectMeta{Name: name},
			Spec: resourcev1.DeviceClassSpec{Selectors: []resourcev1.DeviceSelector{{CEL: &resourcev1.CELDeviceSelector{Expression: fmt.Sprintf("device.driver == %q", drv)}}}}})
	}
	// ---- claims already allocated in-cluster to the live pod
	var preDesc []string
	preClaim := func(name string, d *devSpec, consumed map[string]resource.Quantity) {
		res := resourcev1.DeviceRequestAllocationResult{Request: "req", Driver: d.Driver, Pool: d.Pool, Device: d.Name}
		req := resourcev1.DeviceRequest{Name: "req", Exactly: &resourcev1.ExactDeviceRequest{DeviceClassName: map[string]string{drvGPU: "gpu", drvVGPU: "vgpu", drvMIG: "mig"}[d.Driver], AllocationMode: resourcev1.DeviceAllocationModeExactCount, Count: 1}}
		if consumed != nil {
			res.ConsumedCapacity = map[resourcev1.QualifiedName]resource.Quantity{}
			req.Exactly.Capacity = &resourcev1.CapacityRequirements{Requests: map[resourcev1.QualifiedName]resource.Quantity{}}
			for k, v := range consumed {
				res.ConsumedCapacity[resourcev1.QualifiedName(k)] = v
				req.Exactly.Capacity.Requests[resourcev1.QualifiedName(k)] = v
			}
			w.preShared[d.key()] = consumed
		} else {
			w.preExcl[d.key()] = name
		}
		c := &resourcev1.ResourceClaim{ObjectMeta: metav1.ObjectMeta{Name: name, Namespace: "default"},
			Spec:   resourcev1.ResourceClaimSpec{Devices: resourcev1.DeviceClaim{Requests: []resourcev1.DeviceRequest{req}}},
			Status: resourcev1.ResourceClaimStatus{Allocation: &resourcev1.AllocationResult{Devices: resourcev1.DeviceAllocationResult{Results: []resourcev1.DeviceRequestAllocationResult{res}}}, ReservedFor: []resourcev1.ResourceClaimConsumerReference{liveRef}}}
		e.Apply(c)
		preDesc = append(preDesc, fmt.Sprintf("%s -> %s %v", name, d.key(), consumed))
	}
	if len(cwGPU) > 0 && rng.Intn(100) < 50 {
		preClaim("pre-gpu", cwGPU[rng.Intn(len(cwGPU))], nil)
		w.kinds["prealloc-exclusive"] = true
	}
	if cwV != nil && rng.Intn(100) < 50 {
		preClaim("pre-vgpu", cwV, map[string]resource.Quantity{dimMem: q([]string{"4Gi", "8Gi", "12Gi"}[rng.Intn(3)])})
		w.kinds["prealloc-shared"] = true
	}
	if len(cwMig) > 0 && rng.Intn(100) < 50 {
		preClaim("pre-mig", cwMig[rng.Intn(len(cwMig))], nil)
		w.kinds["prealloc-partition"] = true
	}
	if nlShared != nil && rng.Intn(100) < 70 {
		preClaim("pre-nlmig-shared", nlShared, map[string]resource.Quantity{dimMem: q([]string{"4Gi", "8Gi"}[rng.Intn(2)])})
		w.kinds["prealloc-shared-counter-consuming"] = true
	}
	// ---- unallocated claims and the pod batch
	newClaim := func(name string) *resourcev1.ResourceClaim {
		c := &resourcev1.ResourceClaim{ObjectMeta: metav1.ObjectMeta{Name: name, Namespace: "default"}}
		nreq := 1
		if rng.Intn(6) == 0 {
			nreq = 2
		}
		for k := 0; k < nreq; k++ {
			ex := &resourcev1.ExactDeviceRequest{AllocationMode: resourcev1.DeviceAllocationModeExactCount, Count: 1}
			switch x := rng.Intn(100); {
			case x < 40:
				ex.DeviceClassName = "gpu"
				if rng.Intn(4) == 0 {
					ex.Count = 2
				}
				if rng.Intn(3) == 0 {
					ex.Selectors = []resourcev1.DeviceSelector{{CEL: &resourcev1.CELDeviceSelector{Expression: fmt.Sprintf("device.attributes[%q].model == %q", drvGPU, []string{"a100", "h100"}[rng.Intn(2)])}}}
				}
			case x < 72:
				ex.DeviceClassName = "vgpu"
				if rng.Intn(6) != 0 {
					ex.Capacity = &resourcev1.CapacityRequirements{Requests: map[resourcev1.QualifiedName]resource.Quantity{dimMem: q([]string{"4Gi", "8Gi", "10Gi", "16Gi", "24Gi"}[rng.Intn(5)])}}
				}
			default:
				ex.DeviceClassName = "mig"
				if rng.Intn(2) == 0 {
					ex.Selectors = []resourcev1.DeviceSelector{{CEL: &resourcev1.CELDeviceSelector{Expression: fmt.Sprintf("device.attributes[%q].profile == %q", drvMIG, []string{"1g", "2g", "4g"}[rng.Intn(3)])}}}
				}
			}
			c.Spec.Devices.Requests = append(c.Spec.Devices.Requests, resourcev1.DeviceRequest{Name: fmt.Sprintf("r%d", k), Exactly: ex})
		}
		e.Apply(c)
		w.claims[name] = c
		return c
	}
	n := 2 + rng.Intn(9)
	w.warm = rng.Intn(100) < 30
	nEarly := n
	if w.warm {
		nEarly = 1 + rng.Intn(n)
	}
	var claimNames []string
	for i := 0; i < n; i++ {
		cpuM := []int64{100, 250, 500, 1000, 1500, 3000}[rng.Intn(6)]
		p := gen.Pod(fmt.Sprintf("p%d", i+1), cpuM, []int64{128, 512, 1024}[rng.Intn(3)])
		nc := 1
		switch x := rng.Intn(100); {
		case x < 12:
			nc = 0
		case x < 25:
			nc = 2
		}
		used := map[string]bool{}
		for k := 0; k < nc; k++ {
			var name string
			if len(claimNames) > 0 && rng.Intn(5) == 0 {
				name = claimNames[rng.Intn(len(claimNames))] // share an existing claim with another pod
				w.kinds["claim-shared-by-pods"] = true
			} else {
				name = fmt.Sprintf("claim-%d", len(claimNames))
				newClaim(name)
				claimNames = append(claimNames, name)
			}
			if used[name] {
				continue
			}
			used[name] = true
			ref := fmt.Sprintf("rc%d", k)
			cn := name
			p.Spec.ResourceClaims = append(p.Spec.ResourceClaims, corev1.PodResourceClaim{Name: ref, ResourceClaimName: &cn})
			p.Spec.Containers[0].Resources.Claims = append(p.Spec.Containers[0].Resources.Claims, corev1.ResourceClaim{Name: ref})
		}
		if rng.Intn(6) == 0 {
			gen.WithNodeSelector(corev1.LabelTopologyZone, gen.Zones[rng.Intn(3)])(p)
		}
		if i < nEarly {
			e.Apply(p)
		} else {
			w.late = append(w.late, p)
		}
		w.batch = append(w.batch, p)
	}
	var claimDesc []map[string]any
	for _, name := range claimNames {
		claimDesc = append(claimDesc, map[string]any{"name": name, "requests": w.claims[name].Spec.Devices.Requests})
	}
	w.desc = map[string]any{"worldSeed": seed, "parallelism": par, "warmUpPassWithPods": map[bool]int{true: nEarly, false: 0}[w.warm], "preferencePolicy": string(pp), "instanceTypes": typeDesc, "pools": poolDesc, "publishedSlices": sliceDesc,
		"inClusterCounters": w.counters, "preAllocated": preDesc, "claims": claimDesc, "batch": podSummaries(w.batch), "node": map[string]any{"name": w.nodeName, "zone": node.Labels[corev1.LabelTopologyZone]}}
	return w
}

func zonesOf(sp gen.TypeSpec) []string {
	m := map[string]bool{}
	for _, o := range sp.Offerings {
		m[o.Zone] = true
	}
	return sortedKeys(m)
}

// hostnameOf reads the scheduler-internal placeholder hostname of a new NodeClaim (read-only reflection): it is the
// NodeClaimID under which the allocator files the claim's allocations.
func hostnameOf(nc *provscheduling.NodeClaim) string {
	f := reflect.ValueOf(nc).Elem().FieldByName("hostname")
	if !f.IsValid() || f.Kind() != reflect.String {
		return ""
	}
	return f.String()
}

// alloc is one device allocation reported for (claim, NodeClaim, instance type).
type alloc struct {
	claim    string
	nc       string
	it       string
	dev      *devSpec
	template bool
	request  string
	consumed map[string]resource.Quantity // the oracle's own consumption for shared devices
	reported map[string]resource.Quantity
}

func (a alloc) String() string {
	return fmt.Sprintf("claim=%s request=%s nodeclaim=%s instanceType=%s device=%s template=%v consumed=%v", a.claim, a.request, a.nc, a.it, a.dev.key(), a.template, fmtQ(a.consumed))
}

func fmtQ(m map[string]resource.Quantity) string {
	var parts []string
	for _, k := range sortedKeys(m) {
		v := m[k]
		parts = append(parts, k+"="+v.String())
	}
	return "{" + strings.Join(parts, ",") + "}"
}

func runDRA(r *mon.Report, tier string, idx int, rng *rand.Rand) {
	r.Assume("DRA breadth is bounded: exclusive devices, multi-allocatable devices with one consumable capacity dimension and no request policy, partitionable devices with one counter set per pool; Exactly requests with exact counts 1-2; CEL selectors limited to driver and attribute equality; no constraints (MatchAttribute/DistinctAttribute), no FirstAvailable/All modes, no admin access, no deleting pods")
	seed := rng.Int63()
	par := []int64{1, 4, 8}[rng.Intn(3)]
	w := buildDRA(seed, par)
	e := w.e
	r.Inc("dra_cases")
	cs := map[string]any{"case": idx, "part": "dra", "world": w.desc}
	if w.warm {
		// warm-up: schedule the early pods, create and launch their NodeClaims and leave them uninitialised, so that the judged
		// pass sees in-flight nodes whose devices are still template devices (plus the same, still pending, pods)
		if e.SyncState() == nil {
			w.hydrate(r, idx)
			var res0 provscheduling.Results
			var err0 error
			if p0, pv0, st0 := mon.Guard(func() { res0, err0 = e.Prov.Schedule(e.Ctx) }); p0 {
				r.Violate(draPanicKey(pv0), fmt.Sprintf("Provisioner.Schedule panicked (warm-up pass): %v", pv0), cs, st0)
				r.Eval()
				return
			}
			if err0 == nil {
				for _, nc := range res0.NewNodeClaims {
					name, cerr := e.Prov.Create(e.Ctx, nc)
					if cerr != nil {
						continue
					}
					st := []world.Stage{world.StageLaunched, world.StageNodeAppeared, world.StageRegistered}[rng.Intn(3)]
					if inst, _, derr := e.DriveClaim(name, st); derr == nil && inst != nil {
						r.Inc("dra_inflight_nodes_from_warmup")
					}
				}
			}
		}
		for _, p := range w.late {
			e.Apply(p)
		}
	}
	if err := e.SyncState(); err != nil {
		r.Inconcl("case %d: state sync error: %v", idx, err)
		r.Eval()
		return
	}
	// kube-controller-manager / manager runnable emulation: hydrate the real deviceallocation controller and reconcile every claim
	w.hydrate(r, idx)
	var res provscheduling.Results
	var err error
	panicked, pv, stack := mon.Guard(func() { res, err = e.Prov.Schedule(e.Ctx) })
	r.Eval()
	if panicked {
		r.Violate(draPanicKey(pv), fmt.Sprintf("Provisioner.Schedule panicked: %v", pv), cs, stack)
		return
	}
	if err != nil {
		r.Inc("dra_schedule_errors")
		r.Inconcl("case %d: Schedule error: %v", idx, err)
		return
	}
	w.judge(r, res, cs, idx)
}

func draPanicKey(pv any) string {
	if msg := fmt.Sprint(pv); strings.Contains(msg, "already allocated") {
		return "panic-dra-double-allocation"
	}
	return "panic-in-schedule-dra"
}

// hydrate drives the real deviceallocation controller the way the manager would: hydration, then one reconcile per claim.
func (w *draWorld) hydrate(r *mon.Report, idx int) {
	e := w.e
	e.DeviceAlloc.Hydrate(e.Ctx)
	claims := &resourcev1.ResourceClaimList{}
	_ = e.API.Raw.List(context.Background(), claims)
	for i := range claims.Items {
		if _, err := e.DeviceAlloc.Reconcile(e.Ctx, reconcile.Request{NamespacedName: types.NamespacedName{Namespace: claims.Items[i].Namespace, Name: claims.Items[i].Name}}); err != nil {
			r.Inconcl("case %d: deviceallocation reconcile: %v", idx, err)
		}
	}
}

func (w *draWorld) judge(r *mon.Report, res provscheduling.Results, cs map[string]any, idx int) {
	// final instance-type options per NodeClaimID; DRA pods per target
	options := map[string]map[string]bool{}
	draPodsOn := map[string]int{}
	placed := map[string]string{} // pod -> target id
	for _, nc := range res.NewNodeClaims {
		id := hostnameOf(nc)
		if id == "" {
			r.Inconcl("case %d: cannot read the NodeClaim placeholder hostname", idx)
			return
		}
		options[id] = map[string]bool{}
		for _, it := range nc.InstanceTypeOptions {
			options[id][it.Name] = true
		}
		for _, p := range nc.Pods {
			placed[p.Name] = id
			if len(p.Spec.ResourceClaims) > 0 {
				draPodsOn[id]++
			}
		}
	}
	existing := map[string]bool{}
	for _, en := range res.ExistingNodes {
		existing[en.ProviderID()] = true
		for _, p := range en.Pods {
			placed[p.Name] = en.ProviderID()
			if len(p.Spec.ResourceClaims) > 0 {
				draPodsOn[en.ProviderID()]++
				if en.NodeClaim != nil {
					r.Inc("dra_pods_on_inflight_managed_node")
				} else {
					r.Inc("dra_pods_on_initialised_unmanaged_node")
				}
			}
		}
	}
	for _, n := range draPodsOn {
		if n >= 2 {
			r.Inc("dra_targets_with_several_dra_pods")
		}
	}
	r.Count("dra_pods_unscheduled", len(res.PodErrors))
	// ---- collect the reported allocations
	var allocs []alloc
	stale := 0
	for key, meta := range res.DRAClaimAllocationMetadata {
		if meta == nil {
			continue
		}
		r.Inc("dra_claims_allocated")
		claim := w.claims[key.Name]
		nc := meta.NodeClaimID.Value()
		if !existing[nc] && options[nc] == nil {
			r.Inc("dra_allocations_for_unknown_nodeclaim")
		}
		for itID, results := range meta.Devices {
			it := itID.Value()
			if opts, ok := options[nc]; ok && !opts[it] {
				// the instance type is no longer an option of that NodeClaim: this combination cannot occur
				stale++
				continue
			}
			for _, dr := range results {
				k := dr.DeviceID.Driver.Value() + "|" + dr.DeviceID.Pool.Value() + "|" + dr.DeviceID.Device.Value()
				var d *devSpec
				if dr.DeviceID.Template {
					d = w.templates[it][k]
				} else {
					d = w.inCluster[k]
				}
				if d == nil {
					r.Violate("dra-allocated-nonexistent-device", fmt.Sprintf("claim %s was allocated device %s (template=%v, instance type %s) which no generated slice or template of that instance type contains", key.Name, k, dr.DeviceID.Template, it), cs, nil)
					continue
				}
				a := alloc{claim: key.Name, nc: nc, it: it, dev: d, template: dr.DeviceID.Template, request: dr.RequestName.String(), reported: map[string]resource.Quantity{}}
				for dn, qv := range dr.ConsumedCapacity {
					a.reported[string(dn)] = qv
				}
				if d.Shared {
					// own consumption: the request's capacity for the dimension, the whole device when it asks for none
					a.consumed = map[string]resource.Quantity{}
					var asked map[resourcev1.QualifiedName]resource.Quantity
					if claim != nil {
						for _, rq := range claim.Spec.Devices.Requests {
							if rq.Name == dr.RequestName.Parent && rq.Exactly != nil && rq.Exactly.Capacity != nil {
								asked = rq.Exactly.Capacity.Requests
							}
						}
					}
					for dim, total := range d.Capacity {
						if v, ok := asked[resourcev1.QualifiedName(dim)]; ok {
							a.consumed[dim] = v
						} else {
							a.consumed[dim] = total
						}
						if rep, ok := a.reported[dim]; !ok || rep.Cmp(a.consumed[dim]) != 0 {
							r.Inc("dra_reported_consumption_differs_from_oracle")
						}
					}
				}
				allocs = append(allocs, a)
				r.Inc("dra_device_allocations_checked")
				if a.template {
					r.Inc("dra_template_device_allocations")
				} else {
					r.Inc("dra_in_cluster_device_allocations")
				}
			}
		}
	}
	r.Count("dra_stale_instance_type_entries_skipped", stale)
	// every placed pod's unallocated claims must have been allocated (otherwise nothing can be judged about them)
	for _, p := range w.batch {
		if _, ok := placed[p.Name]; !ok {
			continue
		}
		for _, pc := range p.Spec.ResourceClaims {
			if _, ok := res.DRAClaimAllocationMetadata[types.NamespacedName{Namespace: "default", Name: *pc.ResourceClaimName}]; !ok {
				r.Violate("dra-placed-pod-without-allocation", fmt.Sprintf("pod %s was placed but its ResourceClaim %s has no allocation metadata", p.Name, *pc.ResourceClaimName), cs, nil)
			}
		}
	}
	sharedClaims := map[string]map[string]bool{}
	for _, p := range w.batch {
		if t, ok := placed[p.Name]; ok {
			for _, pc := range p.Spec.ResourceClaims {
				if sharedClaims[*pc.ResourceClaimName] == nil {
					sharedClaims[*pc.ResourceClaimName] = map[string]bool{}
				}
				sharedClaims[*pc.ResourceClaimName][p.Name+"@"+t] = true
			}
		}
	}
	nSharedClaims := 0
	for _, m := range sharedClaims {
		if len(m) > 1 {
			nSharedClaims++
			r.Inc("dra_claims_shared_by_placed_pods")
		}
	}
	// ---- exclusive devices
	byDev := map[string][]alloc{}
	for _, a := range allocs {
		k := a.dev.key()
		if a.template {
			k = "T|" + a.nc + "|" + a.it + "|" + k // a template device exists once per (NodeClaim, instance type)
		}
		byDev[k] = append(byDev[k], a)
	}
	for _, k := range sortedKeys(byDev) {
		as := byDev[k]
		d := as[0].dev
		if d.Shared {
			continue
		}
		r.Inc("dra_exclusive_devices_checked")
		if !as[0].template {
			if pre, ok := w.preExcl[d.key()]; ok {
				r.Violate("dra-exclusive-device-already-allocated-in-cluster", fmt.Sprintf("exclusive device %s is allocated in-cluster to claim %s reserved for a live pod, yet the pass allocated it again", d.key(), pre), cs, allocStrings(as))
				continue
			}
		}
		for i := 0; i < len(as); i++ {
			for j := i + 1; j < len(as); j++ {
				if as[i].nc != as[j].nc || as[i].it == as[j].it {
					key := "dra-exclusive-device-allocated-twice"
					if as[i].template {
						key = "dra-exclusive-template-device-allocated-twice"
					}
					r.Violate(key, fmt.Sprintf("exclusive device %s serves two allocations that can co-occur", d.key()), cs, []string{as[i].String(), as[j].String()})
				}
			}
		}
		if len(as) > 1 {
			r.Inc("dra_exclusive_devices_with_several_compatible_allocations") // one NodeClaim, different instance types
		}
	}
	// ---- multi-allocatable devices: worst co-occurring sum per dimension
	for _, k := range sortedKeys(byDev) {
		as := byDev[k]
		d := as[0].dev
		if !d.Shared {
			continue
		}
		r.Inc("dra_shared_devices_checked")
		for dim, total := range d.Capacity {
			sum := resource.Quantity{}
			if !as[0].template {
				if pre, ok := w.preShared[d.key()][dim]; ok {
					sum.Add(pre)
				}
			}
			perNC := map[string]map[string]resource.Quantity{} // nodeclaim -> instance type -> sum
			for _, a := range as {
				if perNC[a.nc] == nil {
					perNC[a.nc] = map[string]resource.Quantity{}
				}
				cur := perNC[a.nc][a.it]
				cur.Add(a.consumed[dim])
				perNC[a.nc][a.it] = cur
			}
			for _, byIT := range perNC {
				worst := resource.Quantity{}
				for _, v := range byIT {
					if v.Cmp(worst) > 0 {
						worst = v
					}
				}
				sum.Add(worst)
			}
			if len(as) > 1 {
				r.Inc("dra_shared_devices_with_several_allocations")
			}
			if sum.Cmp(total) == 0 {
				r.Inc("dra_shared_devices_exactly_full")
			}
			if sum.Cmp(total) > 0 {
				key := "dra-shared-device-capacity-overcommitted"
				if as[0].template {
					key = "dra-shared-template-device-capacity-overcommitted"
				}
				r.Violate(key, fmt.Sprintf("multi-allocatable device %s: co-occurring allocations (plus in-cluster consumption) consume %s of %s > capacity %s", d.key(), sum.String(), dim, total.String()), cs, allocStrings(as))
			}
		}
	}
	// ---- counter sets of partitionable pools
	type poolScope struct{ scope, pool string }
	byPool := map[poolScope][]alloc{}
	for _, a := range allocs {
		if len(a.dev.Consumes) == 0 {
			continue
		}
		sc := poolScope{"", a.dev.Driver + "|" + a.dev.Pool}
		if a.template {
			sc.scope = "T|" + a.nc + "|" + a.it
		}
		byPool[sc] = append(byPool[sc], a)
	}
	for sc, as := range byPool {
		var budget map[string]map[string]resource.Quantity
		if as[0].template {
			budget = w.tcounters[as[0].it][sc.pool]
		} else {
			budget = w.counters[sc.pool]
		}
		for set, cnts := range budget {
			for cname, total := range cnts {
				r.Inc("dra_counters_checked")
				sum := resource.Quantity{}
				countedShared := map[string]bool{}
				if !as[0].template {
					for dk := range w.preExcl {
						if pd := w.inCluster[dk]; pd != nil && pd.Driver+"|"+pd.Pool == sc.pool {
							sum.Add(pd.Consumes[set][cname])
						}
					}
					// an in-use multi-allocatable device draws from the counters as well (once, however many claims share it)
					for dk := range w.preShared {
						if pd := w.inCluster[dk]; pd != nil && pd.Driver+"|"+pd.Pool == sc.pool && len(pd.Consumes) > 0 {
							sum.Add(pd.Consumes[set][cname])
							countedShared[dk] = true
						}
					}
				}
				perNC := map[string]map[string]resource.Quantity{}
				for _, a := range as {
					if a.dev.Shared {
						// a multi-allocatable device consumes its counters once: skip further allocations of one already counted
						if countedShared[a.dev.key()] {
							continue
						}
						countedShared[a.dev.key()] = true
					}
					if perNC[a.nc] == nil {
						perNC[a.nc] = map[string]resource.Quantity{}
					}
					cur := perNC[a.nc][a.it]
					cur.Add(a.dev.Consumes[set][cname])
					perNC[a.nc][a.it] = cur
				}
				for _, byIT := range perNC {
					worst := resource.Quantity{}
					for _, v := range byIT {
						if v.Cmp(worst) > 0 {
							worst = v
						}
					}
					sum.Add(worst)
				}
				if sum.Cmp(total) == 0 {
					r.Inc("dra_counters_exactly_exhausted")
				}
				if sum.Cmp(total) > 0 {
					key := "dra-shared-counter-overconsumed"
					if as[0].template {
						key = "dra-template-shared-counter-overconsumed"
					}
					r.Violate(key, fmt.Sprintf("pool %s counter set %s: co-occurring allocations (plus in-cluster consumption) consume %s of counter %s > %s", sc.pool, set, sum.String(), cname, total.String()), cs, allocStrings(as))
				}
			}
		}
	}
	if len(allocs) == 0 {
		return
	}
	kinds := map[string]bool{}
	for _, a := range allocs {
		k := "excl"
		if a.dev.Shared {
			k = "shared"
		} else if len(a.dev.Consumes) > 0 {
			k = "part"
		}
		if a.template {
			k = "t-" + k
		} else {
			k = "c-" + k
		}
		kinds[k] = true
	}
	multi := false
	for _, n := range draPodsOn {
		if n >= 2 {
			multi = true
		}
	}
	r.Sig("dra|kinds=%s|claims=%s|multiPodTarget=%v|sharedClaim=%v|prealloc=%v|warm=%v|unscheduled=%v|par=%d", strings.Join(sortedKeys(kinds), "+"), bucket(len(res.DRAClaimAllocationMetadata), 4), multi, nSharedClaims > 0,
		len(w.preExcl)+len(w.preShared) > 0, w.warm, len(res.PodErrors) > 0, w.par)
	if r.WantSample() && idx%5 == 2 {
		var as []string
		for _, a := range allocs {
			as = append(as, a.String())
		}
		sort.Strings(as)
		r.Sample(map[string]any{"case": idx, "part": "dra", "world": w.desc, "result": summarize(res), "allocations": as})
	}
}

func allocStrings(as []alloc) []string {
	var out []string
	for _, a := range as {
		out = append(out, a.String())
	}
	sort.Strings(out)
	return out
}
