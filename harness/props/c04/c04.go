// Package c04: new capacity is opened only when existing capacity cannot admit the pod.
//
// Lifecycle replay: a batch of pods without inter-pod constraints and without preferences is provisioned by the
// real provisioner; the pods are left pending while every created NodeClaim is moved, step by step and each at its
// own pace, through created → launched → node appeared → registered → initialized (real lifecycle controller +
// kubelet actor, hostile provider choosing any permitted instance type/offering). After every step provisioning
// is re-run and every pod that lands on a NEW NodeClaim must be inadmissible on every active existing node given
// that node's final load in that pass.
package c04

import (
	"context"
	"fmt"
	"math/rand"
	"sigs.k8s.io/controller-runtime/pkg/reconcile"
	"sigs.k8s.io/karpenter/pkg/controllers/state/nodeclaimgc"
	"strings"

	corev1 "k8s.io/api/core/v1"
	"k8s.io/apimachinery/pkg/types"
	"sigs.k8s.io/controller-runtime/pkg/client"

	v1 "sigs.k8s.io/karpenter/pkg/apis/v1"
	provscheduling "sigs.k8s.io/karpenter/pkg/controllers/provisioning/scheduling"
	"sigs.k8s.io/karpenter/pkg/scheduling"

	"verif/gen"
	"verif/mon"
	"verif/oracle"
	"verif/props/common"
	"verif/props/reg"
	"verif/world"
)

func cases(tier string) int {
	if tier == "thorough" {
		return 60000
	}
	return 3200
}

type claimState struct {
	name  string
	stage world.Stage
	inst  *world.Instance
	node  string
	dead  bool
	// faulted: the launching reconcile of this claim has already lost a write once
	faulted bool
}

// advance moves a claim one stage forward with the real lifecycle controller and the kubelet actor.
// faultRng (set per case) lets the launching reconcile lose a write now and then; faultsInjected counts them.
var faultRng *rand.Rand
var faultsInjected int

func advance(e *world.Env, c *claimState) {
	switch c.stage {
	case world.StageCreated:
		if faultRng != nil && !c.faulted && faultRng.Intn(4) == 0 {
			// the launching reconcile loses one of its NodeClaim writes (500, once); the retry comes with a later step. What the
			// failed reconcile did persist decides whether the claim already counts as launched.
			c.faulted = true
			k := 1 + faultRng.Intn(3)
			e.API.SetFaults(&world.Fault{AtCall: k, Kind: "500", Match: func(verb, kind, caller string) bool {
				return kind == "NodeClaim" && (verb == "patch" || verb == "status-patch" || verb == "update" || verb == "status-update")
			}})
			_, _ = e.ReconcileClaim(c.name)
			_, _ = e.ReconcileClaim(c.name)
			e.API.ClearFaults()
			faultsInjected++
			nc := &v1.NodeClaim{}
			if e.API.Raw.Get(context.Background(), types.NamespacedName{Name: c.name}, nc) != nil || !nc.DeletionTimestamp.IsZero() {
				c.dead = true
				return
			}
			if nc.Status.ProviderID == "" {
				return // still unlaunched as far as anybody can tell: retried later
			}
			c.inst = e.Provider.Instance(nc.Status.ProviderID)
			c.stage = world.StageLaunched
			return
		}
		for i := 0; i < 2; i++ {
			_, _ = e.ReconcileClaim(c.name)
		}
		nc := &v1.NodeClaim{}
		if e.API.Raw.Get(context.Background(), types.NamespacedName{Name: c.name}, nc) != nil || nc.Status.ProviderID == "" || !nc.DeletionTimestamp.IsZero() {
			c.dead = true
			return
		}
		c.inst = e.Provider.Instance(nc.Status.ProviderID)
		c.stage = world.StageLaunched
	case world.StageLaunched:
		n := e.KubeletRegister(c.inst, world.KubeletOpts{Ready: false, NotReadyTaints: true, ZeroExtended: true})
		c.node = n.Name
		c.stage = world.StageNodeAppeared
	case world.StageNodeAppeared:
		_, _ = e.ReconcileClaim(c.name)
		c.stage = world.StageRegistered
	case world.StageRegistered:
		e.KubeletReady(c.node, true)
		_, _ = e.ReconcileClaim(c.name)
		c.stage = world.StageInitialized
	}
}

func run(r *mon.Report, tier string, idx int, rng *rand.Rand) {
	cfg := common.DefaultScenarioCfg()
	opts, optDesc := common.RandomOptions(rng)
	cfg.Options = opts
	cfg.Pod.PPreferred = 0
	cfg.Pod.PGPU = 0.2
	cfg.MaxDaemons = 2
	cfg.SelectiveDaemons = true
	cfg.Catalog.Reserved = false
	s := common.Build(rng, cfg)
	e := s.Env
	r.Eval()
	faultRng = rand.New(rand.NewSource(rng.Int63()))
	faultsInjected = 0
	defer func() { r.Count("launching_reconciles_that_lost_a_nodeclaim_write", faultsInjected) }()
	// some pools get startup taints (must not count against pods while the node is uninitialised)
	for _, np := range s.Pools {
		if rng.Intn(3) == 0 {
			cur := &v1.NodePool{}
			if e.API.Raw.Get(context.Background(), types.NamespacedName{Name: np.Name}, cur) == nil {
				cur.Spec.Template.Spec.StartupTaints = []corev1.Taint{{Key: "startup.example.com/agent", Value: "pending", Effect: corev1.TaintEffectNoSchedule}}
				e.Apply(cur)
			}
		}
	}
	e.Provider.Policy = []string{"cheapest", "dearest", "largest", "smallest", "random", "random", "random"}[rng.Intn(7)]
	if rng.Intn(4) == 0 {
		s.AddUnmanagedNode(rng)
	}
	s.Pending(rng, 1+rng.Intn(10), cfg.Pod)
	if err := e.SyncState(); err != nil {
		r.Inconcl("sync: %v", err)
		return
	}
	caseDesc := map[string]any{"case": idx, "options": optDesc, "world": s.Desc, "providerPolicy": e.Provider.Policy}
	var claims []*claimState
	var lastPlaced []placedOn
	history := []string{}
	maxPasses := 3 + rng.Intn(6)
	for pass := 1; pass <= maxPasses; pass++ {
		// is any claim still unlaunched?
		unlaunched := false
		for _, c := range claims {
			if !c.dead && c.stage == world.StageCreated {
				unlaunched = true
			}
		}
		_ = e.SyncState()
		if !unlaunched {
			// what the real reconcile loop does before every pass (also flips the cluster into its "has synced once" mode)
			if !e.Cluster.Synced(e.Ctx) {
				r.Inc("unsynced_without_unlaunched_claim")
			}
		}
		if unlaunched {
			checkGate(r, e, caseDesc, history)
		} else {
			var res provscheduling.Results
			var err error
			// interleaving: kube-scheduler binds a pending pod to the node the previous pass chose for it, and the informer
			// tells cluster state, right after this pass has listed the pending pods (i.e. between the pass' reads)
			boundDuringPass = ""
			if len(lastPlaced) > 0 && rng.Intn(3) == 0 {
				armed := true
				e.API.PostRead = []func(verb, kind, caller string){func(verb, kind, caller string) {
					if !armed || verb != "list" || kind != "Pod" {
						return
					}
					armed = false
					for _, pl := range lastPlaced {
						cur := &corev1.Pod{}
						node := &corev1.Node{}
						if e.API.Raw.Get(context.Background(), client.ObjectKeyFromObject(pl.pod), cur) != nil || cur.Spec.NodeName != "" || cur.DeletionTimestamp != nil {
							continue
						}
						if e.API.Raw.Get(context.Background(), types.NamespacedName{Name: pl.node}, node) != nil || node.DeletionTimestamp != nil {
							continue
						}
						e.Bind(cur, pl.node)
						_ = e.SyncState()
						boundDuringPass = string(cur.UID)
						r.Inc("pods_bound_between_the_reads_of_a_pass")
						history = append(history, fmt.Sprintf("pass%d:%s bound to %s right after the pending-pod list", pass, cur.Name, pl.node))
						return
					}
				}}
			}
			if p, v, st := mon.Guard(func() { res, err = e.Prov.Schedule(e.Ctx) }); p {
				r.Violate("panic-in-schedule", fmt.Sprintf("Schedule panicked: %v", v), caseDesc, st)
				return
			}
			if err != nil {
				r.Inc("schedule_errors")
				return
			}
			e.API.PostRead = nil
			judge(r, s, res, claims, pass, caseDesc, history)
			lastPlaced = lastPlaced[:0]
			for _, en := range res.ExistingNodes {
				if en.Node == nil {
					continue
				}
				for _, p := range en.Pods {
					lastPlaced = append(lastPlaced, placedOn{p, en.Node.Name})
				}
			}
			for _, nc := range res.NewNodeClaims {
				name, err := e.Prov.Create(e.Ctx, nc)
				if err == nil {
					claims = append(claims, &claimState{name: name, stage: world.StageCreated})
				}
			}
			history = append(history, fmt.Sprintf("pass%d:new=%d", pass, len(res.NewNodeClaims)))
		}
		// advance a PRNG-chosen subset of claims by one stage (at least one if any can move)
		moved := false
		for _, c := range claims {
			if c.dead || c.stage == world.StageInitialized {
				continue
			}
			if rng.Intn(3) != 0 {
				advance(e, c)
				moved = true
				history = append(history, fmt.Sprintf("%s->%d", c.name, c.stage))
			}
		}
		if !moved {
			for _, c := range claims {
				if !c.dead && c.stage != world.StageInitialized {
					advance(e, c)
					history = append(history, fmt.Sprintf("%s->%d", c.name, c.stage))
					break
				}
			}
		}
	}
}

type placedOn struct {
	pod  *corev1.Pod
	node string
}

// boundDuringPass: UID of the pod the harness bound between the reads of the current pass ("" none).
var boundDuringPass string

// checkGate: while a created NodeClaim is unlaunched, Provisioner.Reconcile must not run a scheduling pass.
func checkGate(r *mon.Report, e *world.Env, cs map[string]any, history []string) {
	pods := &corev1.PodList{}
	_ = e.API.Raw.List(context.Background(), pods)
	for _, p := range pods.Items {
		e.Prov.Trigger(p.UID)
	}
	// the state garbage collector looks at every NodeClaim a grace period after its creation; it may only forget an
	// unlaunched claim that is really gone. Half of its visits here read through a transient API error.
	if faultRng != nil && faultRng.Intn(2) == 0 {
		gc := nodeclaimgc.NewController(e.API.Client, e.Cluster)
		ncs := &v1.NodeClaimList{}
		_ = e.API.Raw.List(context.Background(), ncs)
		for i := range ncs.Items {
			if ncs.Items[i].Status.ProviderID != "" {
				continue
			}
			kind := ""
			if faultRng.Intn(2) == 0 {
				kind = []string{"500", "timeout", "429"}[faultRng.Intn(3)]
				e.API.SetFaults(&world.Fault{AtCall: 1, Kind: kind, Match: func(verb, k, caller string) bool { return verb == "get" && k == "NodeClaim" }})
			}
			if p, v, st := mon.Guard(func() {
				_, _ = gc.Reconcile(e.Ctx, reconcile.Request{NamespacedName: types.NamespacedName{Name: ncs.Items[i].Name}})
			}); p {
				r.Violate("panic-in-nodeclaimgc", fmt.Sprintf("%v", v), cs, st)
			}
			e.API.ClearFaults()
			r.Inc("state_gc_visits_of_unlaunched_claims" + map[bool]string{true: ":read-failed", false: ""}[kind != ""])
			history = append(history, fmt.Sprintf("state-gc visits %s (read fault %q)", ncs.Items[i].Name, kind))
		}
	}
	before := e.API.LogLen()
	wbefore := e.API.Writes
	e.API.KeepReads = true
	var err error
	for i := 0; i < 3; i++ { // the batcher may need a retry to see the trigger
		if p, v, st := mon.Guard(func() { _, err = e.Prov.Reconcile(e.Ctx) }); p {
			r.Violate("panic-in-provisioner-reconcile", fmt.Sprintf("%v", v), cs, st)
			break
		}
	}
	_ = err
	e.API.KeepReads = false
	r.Inc("gate_checks")
	r.Sig("gate")
	for _, ev := range e.API.LogSince(before) {
		for _, f := range ev.Stack {
			if strings.Contains(f, "(*Provisioner).Schedule") || strings.Contains(f, "(*Provisioner).GetPendingPods") {
				r.Violate("scheduling-pass-while-nodeclaim-unlaunched", "Provisioner.Reconcile reached a scheduling pass although a NodeClaim Karpenter created has not been launched yet",
					cs, map[string]any{"history": history, "event": fmt.Sprintf("%s %s %s via %v", ev.Verb, ev.Kind, ev.Key, ev.Stack)})
				return
			}
		}
	}
	if e.API.Writes != wbefore {
		for _, ev := range e.API.LogSince(before) {
			if ev.Verb == "create" && ev.Kind == "NodeClaim" {
				r.Violate("nodeclaim-created-while-nodeclaim-unlaunched", "a NodeClaim was created while another one is unlaunched", cs, map[string]any{"history": history})
			}
		}
	}
}

// truthNode materialises the ground truth of an existing node as kube-scheduler would (eventually) see it.
func truthNode(e *world.Env, en *provscheduling.ExistingNode) (oracle.ConcreteNode, string, bool) {
	cn := oracle.ConcreteNode{Name: en.Name()}
	kind := "unmanaged"
	var startup []corev1.Taint
	initialized := true
	if en.NodeClaim != nil {
		initialized = false
		kind = "launched"
		startup = en.NodeClaim.Spec.StartupTaints
		inst := e.Provider.Instance(en.NodeClaim.Status.ProviderID)
		if inst == nil {
			return cn, kind, false
		}
		cn.Allocatable = inst.Allocatable
		cn.Labels = map[string]string{}
		for k, v := range inst.Labels {
			cn.Labels[k] = v
		}
		for k, v := range en.NodeClaim.Labels {
			cn.Labels[k] = v
		}
		cn.Taints = en.NodeClaim.Spec.Taints
	}
	if en.Node != nil {
		node := &corev1.Node{}
		if e.API.Raw.Get(context.Background(), types.NamespacedName{Name: en.Node.Name}, node) == nil {
			if en.NodeClaim == nil {
				cn.Allocatable, cn.Labels, cn.Taints = node.Status.Allocatable, node.Labels, node.Spec.Taints
			} else {
				kind = "node-appeared"
				if node.Labels[v1.NodeRegisteredLabelKey] == "true" {
					kind = "registered"
					for k, v := range node.Labels {
						cn.Labels[k] = v
					}
					cn.Taints = node.Spec.Taints
					if node.Labels[v1.NodeInitializedLabelKey] == "true" {
						kind = "initialized"
						initialized = true
						cn.Allocatable = node.Status.Allocatable
					}
				}
			}
		}
	}
	if !initialized {
		var keep []corev1.Taint
		for _, t := range cn.Taints {
			if scheduling.IsKnownEphemeralTaint(&t) {
				continue
			}
			isStartup := false
			for _, st := range startup {
				if st.MatchTaint(&t) {
					isStartup = true
				}
			}
			if !isStartup {
				keep = append(keep, t)
			}
		}
		cn.Taints = keep
	}
	return cn, kind, true
}

// hardTaintsTolerated: Karpenter treats every taint (incl. PreferNoSchedule) as hard for the placed copy.
func allTaintsTolerated(p *corev1.Pod, taints []corev1.Taint) bool {
	for _, t := range taints {
		if t.Effect == corev1.TaintEffectPreferNoSchedule {
			tol := false
			for _, tl := range p.Spec.Tolerations {
				if (tl.Key == "" || tl.Key == t.Key) && (tl.Effect == "" || tl.Effect == t.Effect) && (tl.Operator == corev1.TolerationOpExists || tl.Value == t.Value) {
					tol = true
				}
			}
			if !tol {
				return false
			}
		}
	}
	_, bad := oracle.UntoleratedTaint(p, taints)
	return !bad
}

// firstTermPod: the constraint Karpenter evaluates for the placed copy (nodeSelector AND first required term).
func firstTermPod(p *corev1.Pod) *corev1.Pod {
	q := p.DeepCopy()
	if q.Spec.Affinity != nil && q.Spec.Affinity.NodeAffinity != nil && q.Spec.Affinity.NodeAffinity.RequiredDuringSchedulingIgnoredDuringExecution != nil {
		t := q.Spec.Affinity.NodeAffinity.RequiredDuringSchedulingIgnoredDuringExecution.NodeSelectorTerms
		if len(t) > 1 {
			q.Spec.Affinity.NodeAffinity.RequiredDuringSchedulingIgnoredDuringExecution.NodeSelectorTerms = t[:1]
		}
	}
	return q
}

func judge(r *mon.Report, s *common.Scenario, res provscheduling.Results, claims []*claimState, pass int, cs map[string]any, history []string) {
	e := s.Env
	stageOf := map[string]world.Stage{}
	for _, c := range claims {
		stageOf[c.name] = c.stage
	}
	type target struct {
		cn     oracle.ConcreteNode
		kind   string
		load   []*corev1.Pod // bound + placed in this pass
		daemon []*corev1.Pod // admissible daemons not yet bound (resources only)
	}
	var targets []target
	for _, en := range res.ExistingNodes {
		// (c) nodes being deleted are not capacity
		if len(en.Pods) > 0 && (en.MarkedForDeletion() || (en.NodeClaim != nil && !en.NodeClaim.DeletionTimestamp.IsZero())) {
			r.Violate("pods-placed-on-node-marked-for-deletion", fmt.Sprintf("node %s is marked for deletion but received %d pods", en.Name(), len(en.Pods)), cs, nil)
		}
		cn, kind, ok := truthNode(e, en)
		if !ok {
			continue
		}
		t := target{cn: cn, kind: kind}
		boundDaemons := map[string]bool{}
		if en.Node != nil {
			pods := &corev1.PodList{}
			_ = e.API.Raw.List(context.Background(), pods, client.MatchingFields{"spec.nodeName": en.Node.Name})
			for i := range pods.Items {
				p := &pods.Items[i]
				if p.Status.Phase == corev1.PodSucceeded || p.Status.Phase == corev1.PodFailed {
					continue
				}
				t.load = append(t.load, p)
				for _, or := range p.OwnerReferences {
					if or.Kind == "DaemonSet" {
						boundDaemons[string(or.UID)] = true
					}
				}
			}
		}
		t.load = append(t.load, en.Pods...)
		for i, d := range s.DaemonPodTemplates() {
			if !boundDaemons[string(s.Daemons[i].UID)] && oracle.DaemonAdmissible(d, cn) {
				t.daemon = append(t.daemon, d)
			}
		}
		targets = append(targets, t)
	}
	r.Count("existing_targets", len(targets))
	for _, nc := range res.NewNodeClaims {
		for _, p := range nc.Pods {
			r.Inc("pods_on_new_claims")
			eff := firstTermPod(p)
			for _, t := range targets {
				r.Inc("existing_node_admission_judgements")
				if !allTaintsTolerated(p, t.cn.Taints) {
					continue
				}
				load := t.load
				if string(p.UID) == boundDuringPass {
					// the pod was bound (to this or another node) while the pass ran: its own binding is not load it competes with
					load = nil
					for _, q := range t.load {
						if q.UID != p.UID {
							load = append(load, q)
						}
					}
				}
				if ar := oracle.AdmitAllEx(t.cn, []*corev1.Pod{eff}, load, t.daemon); ar.OK {
					key := "new-claim-although-existing-node-admits:" + t.kind
					r.Violate(key, fmt.Sprintf("pass %d: pod %s was put on a new NodeClaim although existing node %s (%s) admits it alongside its final load of %d pods", pass, p.Name, t.cn.Name, t.kind, len(t.load)),
						cs, map[string]any{"history": history, "node": t.cn, "pod": p.Spec, "load": names(t.load), "pendingDaemons": names(t.daemon)})
				}
			}
			if len(targets) > 0 {
				kinds := map[string]bool{}
				for _, t := range targets {
					kinds[t.kind] = true
				}
				r.Sig("pass%d|%s", min(pass, 4), strings.Join(common.SortedKeys(kinds), "+"))
			}
		}
	}
	if pass > 1 {
		r.Inc("repeat_passes")
		if len(res.NewNodeClaims) == 0 {
			r.Inc("repeat_passes_without_new_capacity")
		}
		kinds := map[string]bool{}
		for _, t := range targets {
			kinds[t.kind] = true
		}
		r.Sig("repeat|%s|new=%v", strings.Join(common.SortedKeys(kinds), "+"), len(res.NewNodeClaims) > 0)
	}
	if r.WantSample() && pass > 2 {
		r.Sample(map[string]any{"history": history, "targets": len(targets), "new_claims_this_pass": len(res.NewNodeClaims), "options": cs["options"], "pools": s.Desc["pools"]})
	}
}

func names(ps []*corev1.Pod) []string {
	var out []string
	for _, p := range ps {
		out = append(out, p.Name)
	}
	return out
}

var _ = gen.Q

func init() {
	reg.Register(&reg.Prop{
		ID: "C04", Level: "exploration",
		Rule:  "each case = generated world + batch of 1-10 pods without inter-pod constraints or preferences (some requesting an extended resource; some pools with startup taints), provisioned by the real provisioner and left pending while every created NodeClaim advances at its own PRNG-chosen pace through created/launched/node-appeared/registered/initialized (real lifecycle controller, kubelet actor with not-ready taints and zeroed extended resources, hostile provider launch choice); after every step provisioning is re-run (3-8 passes). While any claim is unlaunched the real Provisioner.Reconcile must not reach a scheduling pass; otherwise every pod on a new NodeClaim must be inadmissible (independent oracle, provider ground truth) on every active existing node with that node's final load. Non-trivial = a pass in which existing/in-flight nodes were present and judged; distinct by (pass number, set of lifecycle stages present, whether new capacity was opened).",
		Cases: cases, Run: run,
		MinObserved: map[string]int{"repeat_passes": 200, "existing_node_admission_judgements": 50, "gate_checks": 50},
	})
}
