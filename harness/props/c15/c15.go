// Package c15: drift is reported for drift-relevant changes and never self-inflicted.
//
// Every case runs
//
//	(a) a reflection walk over a randomly populated v1.NodePoolSpec: every leaf below Template is set to two distinct
//	    values -> NodePool.Hash() must differ unless the leaf is below Template.Spec.Requirements; every leaf outside
//	    Template (budgets, limits, weight, consolidation settings, replicas) and every permutation of a list / map must
//	    leave the hash unchanged; nil-vs-empty edits are counted as a diagnostic only;
//	(b) end to end: generated NodePool (accepted by the real CRD schema + CEL + RuntimeValidate) -> real hash controller
//	    -> real Provisioner.Schedule / Create -> the hostile provider launches EVERY (type, offering) the serialized
//	    NodeClaim permits through the real lifecycle controller -> real nodeclaim disruption controller: Drifted must be
//	    absent on the fresh claim (also after the claim aged past the instance-type-not-found grace hour);
//	(c) on launched claims: requirements edited so that the labels stop satisfying them -> Drifted; a hashed template
//	    field edited -> Drifted; benign requirement edits / reorders / budget-limit-weight-consolidation edits -> hash
//	    annotation unchanged and not Drifted; every edit reverted -> Drifted cleared; hash-version scenarios.
package c15

import (
	"math/rand"

	"verif/mon"
	"verif/props/reg"
)

func cases(tier string) int {
	if tier == "thorough" {
		return 5000
	}
	return 640
}

func run(r *mon.Report, tier string, idx int, rng *rand.Rand) {
	r.Eval()
	r.Assume("the cloud provider's own IsDrifted answers 'not drifted' and Create returns the NodeClaim's annotations unchanged: only Karpenter's static / requirements / instance-type drift logic speaks")
	r.Assume("after every NodePool edit the hash controller reconciles before the nodeclaim disruption controller (the property does not quantify over schedules; the window in between is not explored)")
	r.Assume("NodePool edits pass CRD schema + CEL + RuntimeValidate as on create; CEL transition rules (oldSelf) are not evaluated, the generated edits never touch nodeClassRef group/kind or the static/dynamic mode")
	r.Assume("the fake API server does not validate metadata: NodeClaims whose labels a real API server would refuse are counted and skipped")
	checkHashWalk(r, rng, idx)
	runE2E(r, tier, idx, rng)
}

func init() {
	reg.Register(&reg.Prop{
		ID: "C15", Level: "exploration",
		Rule:  "each case = (a) one randomly populated NodePoolSpec walked by reflection (every leaf edited to two distinct values, every list/map permuted, every container nil-vs-empty) and (b,c) one generated world: catalog of 2-6 instance types, one NodePool accepted by the real CRD schema+CEL+RuntimeValidate pipeline (requirements over all eight operators incl. NotIn/Exists/Gt/Lt/Gte/Lte on custom integer/string labels, template labels/annotations/taints/startupTaints/expireAfter/terminationGracePeriod, budgets, limits, weight), 1-3 pending pods (some constraining the custom keys), real hash controller, real Schedule+Create, then for every launch choice the serialized NodeClaim permits a fresh claim is created and driven through the real lifecycle controller to launched/registered/initialized and handed to the real nodeclaim disruption controller; on launched claims the NodePool is edited (violating / benign requirement edit, hashed template field edit, reorder + non-drifting edit, hash-version scenario) and every edit is reverted. Non-trivial = at least one launched claim was judged; distinct by (pool requirement shape x stages x edit kinds exercised).",
		Cases: cases, Run: run,
		MinObserved: map[string]int{
			"hash_template_leaf_edit_checks": 3000, "hash_requirements_leaf_edit_checks": 1000, "hash_nontemplate_leaf_edit_checks": 2000, "hash_permutation_checks": 1000,
			"hash_zero_to_nonzero_checks":      3000,
			"nodepools_rejected_by_validation": 5, "static_pool_cases": 10,
			"fresh_claim_drift_checks": 400, "drift_subreconciler_ran": 400, "instance_type_not_found_evaluations": 100,
			"requirement_violation_drift_checks": 300, "benign_requirement_edit_checks": 300, "template_edit_drift_checks": 300, "benign_pool_edit_checks": 300,
			"version_differs_checks": 80, "version_migration_equal_checks": 80, "version_same_hash_differs_checks": 80, "version_migration_drifted_checks": 80,
			"revert_checks": 1000,
		},
	})
}
