package c15

import (
	"fmt"
	"math/rand"
	"time"

	corev1 "k8s.io/api/core/v1"
	metav1 "k8s.io/apimachinery/pkg/apis/meta/v1"

	v1 "sigs.k8s.io/karpenter/pkg/apis/v1"

	"verif/gen"
)

const (
	labelStatic = "example.com/static"
	annNote     = "example.com/note"
)

func pick[T any](rng *rand.Rand, xs ...T) T { return xs[rng.Intn(len(xs))] }

// customShape adds requirements / labels on the custom keys (gen.LabelTier integer valued, gen.LabelTeam) and returns
// the name of the shape (part of the case signature).
func customShape(rng *rand.Rand, np *v1.NodePool) string {
	t := &np.Spec.Template
	add := func(rs ...gen.Req) { t.Spec.Requirements = append(t.Spec.Requirements, rs...) }
	dropKey := func(key string) {
		var keep []gen.Req
		for _, r := range t.Spec.Requirements {
			if r.Key != key {
				keep = append(keep, r)
			}
		}
		t.Spec.Requirements = keep
		delete(t.Labels, key)
	}
	setLabel := func(k, v string) {
		if t.Labels == nil {
			t.Labels = map[string]string{}
		}
		t.Labels[k] = v
	}
	x := rng.Intn(100)
	switch {
	case x < 14: // narrow integer range with holes: Gt a, Lt b, NotIn inside
		dropKey(gen.LabelTier)
		a := rng.Intn(4)
		b := a + 2 + rng.Intn(4)
		add(gen.R(gen.LabelTier, corev1.NodeSelectorOpGt, fmt.Sprint(a)), gen.R(gen.LabelTier, corev1.NodeSelectorOpLt, fmt.Sprint(b)))
		var holes []string
		for v := a + 1; v < b; v++ {
			if rng.Intn(2) == 0 {
				holes = append(holes, fmt.Sprint(v))
			}
		}
		if len(holes) == b-a-1 { // keep at least one admitted value
			holes = holes[1:]
		}
		if len(holes) > 0 {
			add(gen.R(gen.LabelTier, corev1.NodeSelectorOpNotIn, holes...))
			return "tier:Gt+Lt+NotIn"
		}
		return "tier:Gt+Lt"
	case x < 17: // a range whose every value is excluded: accepted by validation, admits no node at all
		dropKey(gen.LabelTier)
		a := rng.Intn(4)
		b := a + 2 + rng.Intn(3)
		var all []string
		for v := a + 1; v < b; v++ {
			all = append(all, fmt.Sprint(v))
		}
		add(gen.R(gen.LabelTier, corev1.NodeSelectorOpGt, fmt.Sprint(a)), gen.R(gen.LabelTier, corev1.NodeSelectorOpLt, fmt.Sprint(b)), gen.R(gen.LabelTier, corev1.NodeSelectorOpNotIn, all...))
		return "tier:range-fully-excluded"
	case x < 22: // Gte / Lte range with holes
		dropKey(gen.LabelTier)
		a := rng.Intn(3)
		b := a + 1 + rng.Intn(3)
		add(gen.R(gen.LabelTier, v1.NodeSelectorOpGte, fmt.Sprint(a)), gen.R(gen.LabelTier, v1.NodeSelectorOpLte, fmt.Sprint(b)))
		if rng.Intn(2) == 0 {
			add(gen.R(gen.LabelTier, corev1.NodeSelectorOpNotIn, fmt.Sprint(a+rng.Intn(b-a+1)), "100"))
			// may exclude the only value of a one-point range a==b only when b==a (never: b>=a+1)
			return "tier:Gte+Lte+NotIn"
		}
		return "tier:Gte+Lte"
	case x < 28:
		dropKey(gen.LabelTier)
		add(gen.R(gen.LabelTier, corev1.NodeSelectorOpNotIn, pick(rng, []string{"0"}, []string{"1", "2"}, []string{"3"}, []string{"0", "1", "2", "3"})...))
		return "tier:NotIn"
	case x < 34:
		dropKey(gen.LabelTier)
		add(gen.R(gen.LabelTier, corev1.NodeSelectorOpExists))
		return "tier:Exists"
	case x < 40:
		dropKey(gen.LabelTier)
		if rng.Intn(2) == 0 {
			add(gen.R(gen.LabelTier, corev1.NodeSelectorOpGt, fmt.Sprint(pick(rng, 0, 1, 5, 100))))
			return "tier:Gt"
		}
		add(gen.R(gen.LabelTier, v1.NodeSelectorOpGte, fmt.Sprint(pick(rng, 0, 1, 5, 100))))
		return "tier:Gte"
	case x < 47:
		dropKey(gen.LabelTier)
		if rng.Intn(2) == 0 {
			add(gen.R(gen.LabelTier, corev1.NodeSelectorOpLt, fmt.Sprint(pick(rng, 1, 2, 3, 8))))
			return "tier:Lt"
		}
		add(gen.R(gen.LabelTier, v1.NodeSelectorOpLte, fmt.Sprint(pick(rng, 0, 1, 2, 8))))
		return "tier:Lte"
	case x < 50: // upper bound below zero: accepted by CEL (int >= 0) and by RuntimeValidate (value >= 0)
		dropKey(gen.LabelTier)
		add(gen.R(gen.LabelTier, corev1.NodeSelectorOpLt, "0"))
		return "tier:Lt0"
	case x < 52: // bounds at the end of the integer range
		dropKey(gen.LabelTier)
		switch rng.Intn(3) {
		case 0:
			add(gen.R(gen.LabelTier, corev1.NodeSelectorOpGt, "9223372036854775806"))
		case 1:
			add(gen.R(gen.LabelTier, v1.NodeSelectorOpGte, "9223372036854775807"))
		default:
			add(gen.R(gen.LabelTier, v1.NodeSelectorOpLte, "9223372036854775807"))
		}
		return "tier:maxint-bound"
	case x < 58:
		dropKey(gen.LabelTier)
		add(gen.R(gen.LabelTier, corev1.NodeSelectorOpIn, pick(rng, []string{"1"}, []string{"0", "2"}, []string{"1", "2", "3"})...))
		if rng.Intn(2) == 0 {
			add(gen.R(gen.LabelTier, corev1.NodeSelectorOpGt, "0"))
			return "tier:In+Gt"
		}
		return "tier:In"
	case x < 64: // template label on the integer key plus a consistent bound requirement
		dropKey(gen.LabelTier)
		v := 1 + rng.Intn(4)
		setLabel(gen.LabelTier, fmt.Sprint(v))
		switch rng.Intn(3) {
		case 0:
			add(gen.R(gen.LabelTier, corev1.NodeSelectorOpGt, fmt.Sprint(v-1)))
		case 1:
			add(gen.R(gen.LabelTier, corev1.NodeSelectorOpNotIn, fmt.Sprint(v+1)))
		}
		return "tier:label(+req)"
	case x < 68: // template label contradicting a requirement on the same key (accepted by validation)
		switch rng.Intn(4) {
		case 0:
			dropKey(gen.LabelTeam)
			setLabel(gen.LabelTeam, "red")
			add(gen.R(gen.LabelTeam, corev1.NodeSelectorOpIn, "blue"))
		case 1:
			dropKey(gen.LabelTeam)
			setLabel(gen.LabelTeam, "red")
			add(gen.R(gen.LabelTeam, corev1.NodeSelectorOpNotIn, "red"))
		case 2:
			dropKey(gen.LabelTeam)
			setLabel(gen.LabelTeam, "red")
			add(gen.R(gen.LabelTeam, corev1.NodeSelectorOpDoesNotExist))
		default:
			dropKey(gen.LabelTier)
			setLabel(gen.LabelTier, "1")
			add(gen.R(gen.LabelTier, corev1.NodeSelectorOpGt, "3"))
		}
		return "label-contradicts-requirement"
	case x < 74:
		dropKey(gen.LabelTeam)
		add(gen.R(gen.LabelTeam, corev1.NodeSelectorOpNotIn, pick(rng, []string{"red"}, []string{"red", "blue"})...))
		return "team:NotIn"
	case x < 78:
		dropKey(gen.LabelTeam)
		add(gen.R(gen.LabelTeam, corev1.NodeSelectorOpExists))
		return "team:Exists"
	case x < 81:
		dropKey(gen.LabelTeam)
		add(gen.R(gen.LabelTeam, corev1.NodeSelectorOpDoesNotExist))
		return "team:DoesNotExist"
	case x < 88: // several operators per key drawn blindly (C13's generator); unsatisfiable sets just yield no claim
		t.Spec.Requirements = gen.ExoticRequirements(rng, 3)
		t.Labels = nil
		return "exotic"
	case x < 94: // bound + exclusion on a well-known integer key (what static pools hand to the provider un-narrowed)
		k := pick(rng, gen.LabelGen, gen.LabelSize)
		dropKey(k)
		if k == gen.LabelGen {
			a := rng.Intn(3)
			add(gen.R(k, corev1.NodeSelectorOpGt, fmt.Sprint(a)), gen.R(k, corev1.NodeSelectorOpNotIn, fmt.Sprint(a+1+rng.Intn(3)), fmt.Sprint(a+1+rng.Intn(4))))
		} else {
			add(gen.R(k, v1.NodeSelectorOpLte, pick(rng, "8", "16")), gen.R(k, corev1.NodeSelectorOpNotIn, pick(rng, "1", "2", "4", "8")))
		}
		return "wellknown-int:bound+NotIn"
	}
	return "plain"
}

// decorate fills the rest of the template and the non-template fields with varied, valid values.
func decorate(rng *rand.Rand, np *v1.NodePool) {
	t := &np.Spec.Template
	if rng.Intn(3) == 0 {
		if t.Labels == nil {
			t.Labels = map[string]string{}
		}
		t.Labels[labelStatic] = pick(rng, "v", "w")
	}
	if rng.Intn(12) == 0 { // an alias key Karpenter normalizes (beta zone label)
		t.Spec.Requirements = append(t.Spec.Requirements, gen.R(corev1.LabelFailureDomainBetaZone, corev1.NodeSelectorOpIn, gen.Zones...))
	}
	if rng.Intn(4) == 0 { // a well-known key as template label
		if t.Labels == nil {
			t.Labels = map[string]string{}
		}
		t.Labels[corev1.LabelTopologyZone] = pick(rng, gen.Zones...)
	}
	if rng.Intn(3) == 0 {
		t.Annotations = map[string]string{annNote: pick(rng, "a", "b")}
		if rng.Intn(2) == 0 {
			t.Annotations["example.com/other"] = "z"
		}
	}
	if rng.Intn(4) == 0 {
		t.Spec.Taints = append(t.Spec.Taints, corev1.Taint{Key: "second", Effect: corev1.TaintEffectPreferNoSchedule})
	}
	if rng.Intn(3) == 0 {
		t.Spec.StartupTaints = []corev1.Taint{{Key: "startup", Value: "x", Effect: corev1.TaintEffectNoSchedule}}
		if rng.Intn(2) == 0 {
			t.Spec.StartupTaints = append(t.Spec.StartupTaints, corev1.Taint{Key: "startup2", Effect: corev1.TaintEffectNoExecute})
		}
	}
	if rng.Intn(8) == 0 && len(t.Spec.Taints) > 0 {
		ts := metav1.NewTime(time.Date(2029, 5, 1, 12, 0, 0, 0, time.UTC))
		t.Spec.Taints[0].TimeAdded = &ts
	}
	t.Spec.ExpireAfter = v1.MustParseNillableDuration(pick(rng, "Never", "720h", "1h", "90m", "Never"))
	if rng.Intn(3) == 0 {
		d := metav1.Duration{Duration: pick(rng, 30*time.Second, time.Hour, 0)}
		t.Spec.TerminationGracePeriod = &d
	}
	if rng.Intn(3) == 0 {
		np.Spec.Limits = v1.Limits{corev1.ResourceCPU: gen.Q("100000")}
	}
	if rng.Intn(3) == 0 {
		w := int32(1 + rng.Intn(100))
		np.Spec.Weight = &w
	}
	switch rng.Intn(4) {
	case 0:
		np.Spec.Disruption.Budgets = nil // defaulted by the CRD
	case 1:
		s, d := "0 9 * * 1", metav1.Duration{Duration: 8 * time.Hour}
		np.Spec.Disruption.Budgets = []v1.Budget{{Nodes: "0", Schedule: &s, Duration: &d, Reasons: []v1.DisruptionReason{v1.DisruptionReasonDrifted}}, {Nodes: "20%"}}
	}
	np.Spec.Disruption.ConsolidationPolicy = pick(rng, v1.ConsolidationPolicyWhenEmpty, v1.ConsolidationPolicyWhenEmptyOrUnderutilized)
	np.Spec.Disruption.ConsolidateAfter = v1.MustParseNillableDuration(pick(rng, "0s", "30s", "Never"))
}

// genPool returns a candidate NodePool and its shape name.
func genPool(rng *rand.Rand, name string, static bool) (*v1.NodePool, string) {
	cfg := gen.PoolCfg{PTaint: 0.3, PRequirement: 0.5, PCustomLabel: 0.35, NumericOps: true, PMinValues: 0.1}
	np := gen.NodePool(rng, name, cfg)
	shape := customShape(rng, np)
	decorate(rng, np)
	if static {
		one := int64(1)
		np.Spec.Replicas = &one
		if rng.Intn(4) != 0 { // weight and resource limits are refused on static pools by the CRD's CEL rules
			np.Spec.Weight = nil
		}
		if rng.Intn(4) != 0 {
			np.Spec.Limits = nil
			if rng.Intn(2) == 0 {
				np.Spec.Limits = v1.Limits{"nodes": gen.Q("10")}
			}
		}
		shape = "static/" + shape
	}
	// shapes the API server / RuntimeValidate refuse (they must be dropped by the admission pipeline)
	if rng.Intn(16) == 0 {
		t := &np.Spec.Template
		switch rng.Intn(6) {
		case 0:
			t.Spec.Requirements = append(t.Spec.Requirements, gen.R(gen.LabelTier, corev1.NodeSelectorOpGt, "-1"))
		case 1:
			t.Spec.Requirements = append(t.Spec.Requirements, gen.R(gen.LabelTier, corev1.NodeSelectorOpIn))
		case 2:
			t.Spec.Requirements = append(t.Spec.Requirements, gen.R(gen.LabelTier, corev1.NodeSelectorOpLt, "1", "2"))
		case 3:
			t.Spec.Requirements = append(t.Spec.Requirements, gen.R("karpenter.sh/custom", corev1.NodeSelectorOpExists))
		case 4:
			t.Labels = map[string]string{corev1.LabelHostname: "h"}
		case 5:
			t.Spec.Taints = append(t.Spec.Taints, corev1.Taint{Key: "dup", Effect: corev1.TaintEffectNoSchedule}, corev1.Taint{Key: "dup", Value: "x", Effect: corev1.TaintEffectNoSchedule})
		}
		shape += "+invalid"
	}
	if np.Spec.Template.Spec.Requirements == nil {
		np.Spec.Template.Spec.Requirements = []gen.Req{} // "requirements" is a required field
	}
	return np, shape
}

// genPods: small pods; some constrain the custom keys so that the scheduler intersects pool and pod requirements.
func genPods(rng *rand.Rand, n int) []*corev1.Pod {
	var out []*corev1.Pod
	for i := 0; i < n; i++ {
		cpu := pick(rng, int64(50), 100, 250, 400)
		var opts []gen.PodOpt
		switch rng.Intn(12) {
		case 0:
			opts = append(opts, gen.WithNodeSelector(corev1.LabelTopologyZone, pick(rng, gen.Zones...)))
		case 1:
			opts = append(opts, gen.WithNodeSelector(v1.CapacityTypeLabelKey, pick(rng, gen.CapTypes...)))
		case 2:
			opts = append(opts, gen.WithNodeSelector(gen.LabelTier, fmt.Sprint(rng.Intn(5))))
		case 3:
			a := rng.Intn(3)
			opts = append(opts, gen.WithRequiredTerms([]corev1.NodeSelectorRequirement{
				gen.NSR(gen.LabelTier, corev1.NodeSelectorOpGt, fmt.Sprint(a)), gen.NSR(gen.LabelTier, corev1.NodeSelectorOpLt, fmt.Sprint(a+2+rng.Intn(3)))}))
		case 4:
			opts = append(opts, gen.WithRequiredTerms([]corev1.NodeSelectorRequirement{gen.NSR(gen.LabelTier, corev1.NodeSelectorOpNotIn, fmt.Sprint(1+rng.Intn(3)))}))
		case 5:
			opts = append(opts, gen.WithRequiredTerms([]corev1.NodeSelectorRequirement{gen.NSR(gen.LabelTier, corev1.NodeSelectorOpLt, fmt.Sprint(1+rng.Intn(4)))}))
		case 6:
			opts = append(opts, gen.WithNodeSelector(gen.LabelTeam, pick(rng, "red", "blue", "green")))
		case 7:
			opts = append(opts, gen.WithRequiredTerms([]corev1.NodeSelectorRequirement{gen.NSR(gen.LabelTeam, corev1.NodeSelectorOpNotIn, "blue")}))
		}
		p := gen.Pod(fmt.Sprintf("p%d", i), cpu, 64, opts...)
		// tolerate everything: taints are not what this property is about
		gen.WithToleration(corev1.Toleration{Operator: corev1.TolerationOpExists})(p)
		out = append(out, p)
	}
	return out
}
