package c15

// Part (a): reflection walk over v1.NodePoolSpec (and therefore over v1.NodeClaimTemplate, the only input of
// NodePool.Hash). The walk is generic: a field added to the template later is visited automatically, so a
// missing / superfluous `hash:"ignore"` tag cannot stay silent.

import (
	"encoding/json"
	"fmt"
	"math/rand"
	"reflect"
	"regexp"
	"sort"
	"strings"
	"time"

	"k8s.io/apimachinery/pkg/api/resource"
	metav1 "k8s.io/apimachinery/pkg/apis/meta/v1"

	v1 "sigs.k8s.io/karpenter/pkg/apis/v1"

	"verif/mon"
)

var (
	tNillable  = reflect.TypeOf(v1.NillableDuration{})
	tMetaTime  = reflect.TypeOf(metav1.Time{})
	tQuantity  = reflect.TypeOf(resource.Quantity{})
	tMarshaler = reflect.TypeOf((*json.Marshaler)(nil)).Elem()
)

func isAtomType(t reflect.Type) bool {
	return t == tNillable || t == tMetaTime || t == tQuantity
}

// atomValue returns the n-th canonical non-zero value (n>=1) or the zero value (n==0) for an atom / scalar leaf.
// Values are chosen from the domain the API accepts for the field where the field name tells it.
func atomValue(t reflect.Type, path string, n int) reflect.Value {
	out := reflect.New(t).Elem()
	if n == 0 {
		return out
	}
	switch {
	case t == tNillable:
		out.Set(reflect.ValueOf(v1.MustParseNillableDuration(fmt.Sprintf("%dh", n+1))))
	case t == tMetaTime:
		out.Set(reflect.ValueOf(metav1.NewTime(time.Date(2031, 1, n, 0, 0, 0, 0, time.UTC))))
	case t == tQuantity:
		out.Set(reflect.ValueOf(resource.MustParse(fmt.Sprintf("%d", 10*n))))
	case t.Kind() == reflect.String:
		s := fmt.Sprintf("v%d-%s", n, shortHash(path))
		switch {
		case strings.HasSuffix(path, ".Effect"):
			s = []string{"NoSchedule", "NoExecute", "PreferNoSchedule"}[(n-1)%3]
		case strings.HasSuffix(path, ".Operator"):
			s = []string{"In", "NotIn", "Exists", "DoesNotExist", "Gt", "Lt", "Gte", "Lte"}[(n-1)%8]
		case strings.HasSuffix(path, ".ConsolidationPolicy"):
			s = []string{"WhenEmpty", "WhenEmptyOrUnderutilized", "Balanced"}[(n-1)%3]
		case strings.HasSuffix(path, ".Nodes"):
			s = fmt.Sprintf("%d%%", 10*n)
		case strings.Contains(path, ".Reasons["):
			s = []string{"Underutilized", "Empty", "Drifted"}[(n-1)%3]
		case strings.HasSuffix(path, ".Schedule"):
			s = fmt.Sprintf("%d * * * *", n)
		}
		out.SetString(s)
	case t.Kind() >= reflect.Int && t.Kind() <= reflect.Int64:
		if t == reflect.TypeOf(time.Duration(0)) {
			out.SetInt(int64(time.Duration(n) * 10 * time.Minute))
		} else {
			out.SetInt(int64(n + 1))
		}
	case t.Kind() >= reflect.Uint && t.Kind() <= reflect.Uint64:
		out.SetUint(uint64(n + 1))
	case t.Kind() == reflect.Bool:
		out.SetBool(true)
	case t.Kind() == reflect.Float32 || t.Kind() == reflect.Float64:
		out.SetFloat(float64(n) + 0.5)
	}
	return out
}

func shortHash(s string) string {
	var h uint32 = 2166136261
	for i := 0; i < len(s); i++ {
		h = (h ^ uint32(s[i])) * 16777619
	}
	return fmt.Sprintf("%06x", h&0xffffff)
}

func isScalarKind(k reflect.Kind) bool {
	return k == reflect.String || k == reflect.Bool || (k >= reflect.Int && k <= reflect.Float64)
}

// ---- populate ----

type populator struct {
	rng     *rand.Rand
	seq     int
	sparse  float64 // probability an optional pointer / slice / map is left nil
	unknown []string
}

func (p *populator) fill(v reflect.Value, path string) {
	t := v.Type()
	switch {
	case isAtomType(t) || isScalarKind(t.Kind()):
		p.seq++
		v.Set(atomValue(t, fmt.Sprintf("%s#%d", path, p.seq), 1+p.rng.Intn(3)))
		if strings.HasSuffix(path, ".Effect") || strings.HasSuffix(path, ".Operator") || strings.HasSuffix(path, ".ConsolidationPolicy") || strings.Contains(path, ".Reasons[") {
			v.Set(atomValue(t, path, 1+p.rng.Intn(8)))
		}
	case t.Kind() == reflect.Ptr:
		if p.rng.Float64() < p.sparse {
			return
		}
		v.Set(reflect.New(t.Elem()))
		p.fill(v.Elem(), path)
	case t.Kind() == reflect.Struct:
		for i := 0; i < t.NumField(); i++ {
			f := t.Field(i)
			if f.PkgPath != "" {
				continue
			}
			if tag := f.Tag.Get("json"); tag == "-" {
				continue
			}
			p.fill(v.Field(i), path+"."+f.Name)
		}
	case t.Kind() == reflect.Slice:
		if p.rng.Float64() < p.sparse {
			return
		}
		n := 2 + p.rng.Intn(2)
		s := reflect.MakeSlice(t, n, n)
		for i := 0; i < n; i++ {
			p.fill(s.Index(i), fmt.Sprintf("%s[%d]", path, i))
		}
		v.Set(s)
	case t.Kind() == reflect.Map:
		if p.rng.Float64() < p.sparse {
			return
		}
		n := 2 + p.rng.Intn(2)
		m := reflect.MakeMap(t)
		for i := 0; i < n; i++ {
			k := reflect.New(t.Key()).Elem()
			p.fill(k, fmt.Sprintf("%s{k%d}", path, i))
			e := reflect.New(t.Elem()).Elem()
			p.fill(e, fmt.Sprintf("%s{%d}", path, i))
			m.SetMapIndex(k, e)
		}
		v.Set(m)
	default:
		p.unknown = append(p.unknown, path+":"+t.String())
	}
}

// ---- walk / mutate ----

type site struct {
	Path string
	Kind string // leaf | mapkey | slice | map | ptr
}

// walker visits every leaf (scalar / atom / map key) and every container (slice / map / pointer) of a populated
// value in a deterministic order. When target >= 0 the target-th site is mutated by mutate().
type walker struct {
	sites         []site
	target        int
	mutate        func(v reflect.Value, s site) // v is settable (for map keys: the *map*, see mapKeyMut)
	keyMut        func(m reflect.Value, key reflect.Value, s site)
	skippedNonAPI map[string]bool
	customMarshal map[string]bool
}

func (w *walker) at(v reflect.Value, s site) {
	if w.target == len(w.sites) && w.mutate != nil {
		w.mutate(v, s)
	}
	w.sites = append(w.sites, s)
}

func sortedMapKeys(m reflect.Value) []reflect.Value {
	keys := m.MapKeys()
	sort.Slice(keys, func(i, j int) bool { return fmt.Sprint(keys[i].Interface()) < fmt.Sprint(keys[j].Interface()) })
	return keys
}

func (w *walker) walk(v reflect.Value, path string) {
	t := v.Type()
	switch {
	case isAtomType(t) || isScalarKind(t.Kind()):
		w.at(v, site{path, "leaf"})
	case t.Kind() == reflect.Ptr:
		w.at(v, site{path, "ptr"})
		if !v.IsNil() {
			w.walk(v.Elem(), path)
		}
	case t.Kind() == reflect.Struct:
		if reflect.PointerTo(t).Implements(tMarshaler) && w.customMarshal != nil {
			w.customMarshal[t.String()] = true
		}
		for i := 0; i < t.NumField(); i++ {
			f := t.Field(i)
			if f.PkgPath != "" {
				continue
			}
			if tag := f.Tag.Get("json"); tag == "-" {
				if w.skippedNonAPI != nil {
					w.skippedNonAPI[path+"."+f.Name] = true
				}
				continue
			}
			w.walk(v.Field(i), path+"."+f.Name)
		}
	case t.Kind() == reflect.Slice:
		w.at(v, site{path, "slice"})
		for i := 0; i < v.Len(); i++ {
			w.walk(v.Index(i), fmt.Sprintf("%s[%d]", path, i))
		}
	case t.Kind() == reflect.Map:
		w.at(v, site{path, "map"})
		if v.IsNil() {
			return
		}
		// map elements are not addressable: copy out, walk, write back. The set of original keys is fixed before
		// any mutation so that the site numbering is the same on every copy of the object.
		for i, k := range sortedMapKeys(v) {
			ks := site{fmt.Sprintf("%s{%d}#key", path, i), "mapkey"}
			if w.target == len(w.sites) && w.keyMut != nil {
				w.keyMut(v, k, ks)
				w.sites = append(w.sites, ks)
				// the key changed: walk the element under its new key is unnecessary for a single mutation
				continue
			}
			w.sites = append(w.sites, ks)
			e := reflect.New(t.Elem()).Elem()
			e.Set(v.MapIndex(k))
			w.walk(e, fmt.Sprintf("%s{%d}", path, i))
			v.SetMapIndex(k, e)
		}
	}
}

var idxRe = regexp.MustCompile(`\[\d+\]|\{\d+\}`)

// normPath removes indices: Template.Spec.Taints[1].Value -> Template.Spec.Taints[].Value
func normPath(p string) string {
	return idxRe.ReplaceAllStringFunc(p, func(s string) string { return s[:1] + s[len(s)-1:] })
}

// class of a NodePoolSpec path with respect to the statement.
//
//	hashed      : a template field not listed as non-drifting -> an edit must change the hash
//	requirements: Template.Spec.Requirements -> must not change the hash
//	outside     : budgets / limits / weight / consolidation settings / replicas -> must not change the hash
func pathClass(p string) string {
	switch {
	case strings.HasPrefix(p, ".Template.Spec.Requirements"):
		return "requirements"
	case strings.HasPrefix(p, ".Template"):
		return "hashed"
	}
	return "outside"
}

func hashOf(spec *v1.NodePoolSpec) string {
	np := &v1.NodePool{Spec: *spec}
	return np.Hash()
}

// mutateSite returns a deep copy of base in which site number idx carries variant n (0 = zero value).
func mutateSite(base *v1.NodePoolSpec, idx int, n int) *v1.NodePoolSpec {
	cp := base.DeepCopy()
	w := &walker{target: idx}
	w.mutate = func(v reflect.Value, s site) {
		if s.Kind == "leaf" {
			v.Set(atomValue(v.Type(), s.Path, n))
		}
	}
	w.keyMut = func(m, key reflect.Value, s site) {
		val := reflect.New(m.Type().Elem()).Elem()
		val.Set(m.MapIndex(key))
		m.SetMapIndex(key, reflect.Value{})
		m.SetMapIndex(atomValue(key.Type(), s.Path, n), val)
	}
	w.walk(reflect.ValueOf(cp).Elem(), "")
	return cp
}

// nilOrEmpty returns a copy in which container site idx is nil (empty=false) or empty / pointer-to-zero (empty=true).
func nilOrEmpty(base *v1.NodePoolSpec, idx int, empty bool) *v1.NodePoolSpec {
	cp := base.DeepCopy()
	w := &walker{target: idx}
	w.mutate = func(v reflect.Value, s site) {
		t := v.Type()
		switch s.Kind {
		case "ptr":
			if empty {
				v.Set(reflect.New(t.Elem()))
			} else {
				v.Set(reflect.Zero(t))
			}
		case "slice":
			if empty {
				v.Set(reflect.MakeSlice(t, 0, 0))
			} else {
				v.Set(reflect.Zero(t))
			}
		case "map":
			if empty {
				v.Set(reflect.MakeMap(t))
			} else {
				v.Set(reflect.Zero(t))
			}
		}
	}
	w.walk(reflect.ValueOf(cp).Elem(), "")
	return cp
}

// permuteSite returns a copy in which the slice at site idx is permuted (a real, non-identity permutation) or the
// map at site idx is rebuilt with the reverse insertion order. idx < 0: every slice and map.
func permuteSite(base *v1.NodePoolSpec, idx int, rng *rand.Rand) (*v1.NodePoolSpec, bool) {
	cp := base.DeepCopy()
	changed := false
	perm := func(v reflect.Value, s site) {
		switch s.Kind {
		case "slice":
			n := v.Len()
			if n < 2 {
				return
			}
			// rotate by 1..n-1 then optionally shuffle the tail: never the identity for distinct elements
			rot := 1 + rng.Intn(n-1)
			out := reflect.MakeSlice(v.Type(), n, n)
			for i := 0; i < n; i++ {
				out.Index(i).Set(v.Index((i + rot) % n))
			}
			v.Set(out)
			changed = true
		case "map":
			if v.IsNil() || v.Len() < 2 {
				return
			}
			keys := sortedMapKeys(v)
			out := reflect.MakeMapWithSize(v.Type(), v.Len())
			for i := len(keys) - 1; i >= 0; i-- {
				out.SetMapIndex(keys[i], v.MapIndex(keys[i]))
			}
			v.Set(out)
			changed = true
		}
	}
	if idx >= 0 {
		w := &walker{target: idx, mutate: perm}
		w.walk(reflect.ValueOf(cp).Elem(), "")
		return cp, changed
	}
	permuteRec(reflect.ValueOf(cp).Elem(), func(v reflect.Value, kind string) { perm(v, site{Kind: kind}) })
	return cp, changed
}

// permuteRec applies f to every slice and map (bottom-up so that element moves do not hide inner containers).
func permuteRec(v reflect.Value, f func(v reflect.Value, kind string)) {
	t := v.Type()
	switch {
	case isAtomType(t) || isScalarKind(t.Kind()):
	case t.Kind() == reflect.Ptr:
		if !v.IsNil() {
			permuteRec(v.Elem(), f)
		}
	case t.Kind() == reflect.Struct:
		for i := 0; i < t.NumField(); i++ {
			if t.Field(i).PkgPath == "" && t.Field(i).Tag.Get("json") != "-" {
				permuteRec(v.Field(i), f)
			}
		}
	case t.Kind() == reflect.Slice:
		for i := 0; i < v.Len(); i++ {
			permuteRec(v.Index(i), f)
		}
		f(v, "slice")
	case t.Kind() == reflect.Map:
		if v.IsNil() {
			return
		}
		for _, k := range sortedMapKeys(v) {
			e := reflect.New(t.Elem()).Elem()
			e.Set(v.MapIndex(k))
			permuteRec(e, f)
			v.SetMapIndex(k, e)
		}
		f(v, "map")
	}
}

func jsonOf(x any) string {
	b, _ := json.Marshal(x)
	return string(b)
}

// checkHashWalk runs part (a) on one randomly populated NodePoolSpec.
func checkHashWalk(r *mon.Report, rng *rand.Rand, idx int) {
	base := &v1.NodePoolSpec{}
	p := &populator{rng: rng, sparse: []float64{0, 0, 0.15, 0.3}[rng.Intn(4)]}
	p.fill(reflect.ValueOf(base).Elem(), "")
	for _, u := range p.unknown {
		r.Inconcl("hash walk: field of unsupported kind %s (extend the walker)", u)
	}
	w := &walker{target: -1, skippedNonAPI: map[string]bool{}, customMarshal: map[string]bool{}}
	w.walk(reflect.ValueOf(base).Elem(), "")
	for k := range w.skippedNonAPI {
		r.DistinctAdd("non_api_fields_skipped", k)
	}
	h0 := hashOf(base)
	// determinism of the hash itself (map iteration order inside the hasher)
	for i := 0; i < 3; i++ {
		r.Inc("hash_determinism_checks")
		if h := hashOf(base.DeepCopy()); h != h0 {
			r.Violate("hash-nondeterministic", "NodePool.Hash() of equal objects differs between calls", map[string]any{"case": idx}, map[string]any{"spec": jsonOf(base), "h0": h0, "h": h})
		}
	}
	viol := func(key, what string, s site, a, b *v1.NodePoolSpec, ha, hb string) {
		r.Violate(key, what, map[string]any{"case": idx, "path": s.Path},
			map[string]any{"path": s.Path, "specA": jsonOf(a), "specB": jsonOf(b), "hashA": ha, "hashB": hb})
	}
	for i, s := range w.sites {
		cls := pathClass(s.Path)
		np := normPath(s.Path)
		switch s.Kind {
		case "leaf", "mapkey":
			a, b := mutateSite(base, i, 4), mutateSite(base, i, 5)
			if s.Kind == "leaf" && (strings.HasSuffix(s.Path, ".Effect") || strings.HasSuffix(s.Path, ".ConsolidationPolicy") || strings.Contains(s.Path, ".Reasons[")) {
				a, b = mutateSite(base, i, 1), mutateSite(base, i, 2)
			}
			ha, hb := hashOf(a), hashOf(b)
			if jsonOf(a) == jsonOf(b) {
				// e.g. a bool leaf has only one non-zero value: compare zero with non-zero below only
				r.Inc("hash_leaf_pairs_without_api_difference")
			} else {
				switch cls {
				case "hashed":
					r.Inc("hash_template_leaf_edit_checks")
					r.DistinctAdd("hashed_leaf_paths", np)
					if ha == hb {
						viol("hashed-field-edit-keeps-hash:"+np, fmt.Sprintf("two templates that differ in %s have the same hash: a drift-relevant change is not reported", np), s, a, b, ha, hb)
					}
				case "requirements":
					r.Inc("hash_requirements_leaf_edit_checks")
					r.DistinctAdd("requirements_leaf_paths", np)
					if ha != hb {
						viol("requirements-edit-changes-hash:"+np, fmt.Sprintf("editing %s (documented as non-drifting) changes the hash", np), s, a, b, ha, hb)
					}
				default:
					r.Inc("hash_nontemplate_leaf_edit_checks")
					r.DistinctAdd("nontemplate_leaf_paths", np)
					if ha != hb {
						viol("non-template-edit-changes-hash:"+np, fmt.Sprintf("editing %s (outside the template: budgets/limits/weight/consolidation/replicas) changes the hash", np), s, a, b, ha, hb)
					}
				}
			}
			// zero -> non-zero (adding a value where there was none)
			z := mutateSite(base, i, 0)
			hz := hashOf(z)
			if jsonOf(z) != jsonOf(a) {
				switch cls {
				case "hashed":
					r.Inc("hash_zero_to_nonzero_checks")
					if hz == ha {
						viol("hashed-field-set-from-zero-keeps-hash:"+np, fmt.Sprintf("setting %s from its zero value to a value keeps the hash", np), s, z, a, hz, ha)
					}
				default:
					r.Inc("hash_zero_to_nonzero_ignored_checks")
					if hz != ha {
						viol("non-drifting-edit-changes-hash:"+np, fmt.Sprintf("setting %s from zero changes the hash although the field is documented as non-drifting", np), s, z, a, hz, ha)
					}
				}
			}
		case "slice", "map":
			pc, changed := permuteSite(base, i, rng)
			if changed {
				r.Inc("hash_permutation_checks")
				r.DistinctAdd("permuted_container_paths", np)
				if hp := hashOf(pc); hp != h0 {
					viol("reorder-changes-hash:"+np, fmt.Sprintf("reordering %s changes the hash", np), s, base, pc, h0, hp)
				}
			}
			fallthrough
		case "ptr":
			// nil vs empty / pointer-to-zero: diagnostic only (ZeroNil / IgnoreZeroValue are by design)
			hn, he := hashOf(nilOrEmpty(base, i, false)), hashOf(nilOrEmpty(base, i, true))
			r.Inc("nilzero_probes")
			if hn != he {
				r.Inc("nilzero_hash_differs")
				r.DistinctAdd("nilzero_differs_paths", np+"("+cls+")")
			} else {
				r.DistinctAdd("nilzero_same_paths", np+"("+cls+")")
			}
		}
	}
	// everything permuted at once
	if pc, changed := permuteSite(base, -1, rng); changed {
		r.Inc("hash_permutation_checks")
		if hp := hashOf(pc); hp != h0 {
			r.Violate("reorder-changes-hash:all", "reordering every list and map of the NodePool spec changes the hash", map[string]any{"case": idx},
				map[string]any{"specA": jsonOf(base), "specB": jsonOf(pc), "hashA": h0, "hashB": hp})
		}
	}
	// respelling of expireAfter (Raw is kept to re-marshal in the user's format): same duration, other spelling.
	// Diagnostic: the statement does not cover it.
	a, b := base.DeepCopy(), base.DeepCopy()
	a.Template.Spec.ExpireAfter = v1.MustParseNillableDuration("60m")
	b.Template.Spec.ExpireAfter = v1.MustParseNillableDuration("1h")
	r.Inc("expireafter_respelling_probes")
	if hashOf(a) != hashOf(b) {
		r.Inc("expireafter_respelling_changes_hash")
	}
	// JSON round trip (what the API server hands back) must not change the hash: otherwise a controller that hashes
	// the object it built and another that hashes the object it read disagree.
	rt := &v1.NodePoolSpec{}
	if err := json.Unmarshal([]byte(jsonOf(base)), rt); err == nil {
		r.Inc("hash_json_roundtrip_probes")
		if hashOf(rt) != h0 {
			r.Inc("hash_json_roundtrip_differs")
		}
	}
}
