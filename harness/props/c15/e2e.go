package c15

// Parts (b) and (c): NodePool -> real hash controller -> real scheduler -> real Provisioner.Create -> hostile launch of
// every permitted (instance type, offering) through the real lifecycle controller -> real nodeclaim disruption
// controller. Oracle: Kubernetes operator semantics over the NodeClaim's labels, annotations as stored.

import (
	"context"
	"fmt"
	"math/rand"
	"sort"
	"strconv"
	"strings"
	"time"

	corev1 "k8s.io/api/core/v1"
	metav1 "k8s.io/apimachinery/pkg/apis/meta/v1"
	"k8s.io/apimachinery/pkg/types"
	"k8s.io/apimachinery/pkg/util/validation"

	v1 "sigs.k8s.io/karpenter/pkg/apis/v1"
	"sigs.k8s.io/karpenter/pkg/cloudprovider"
	"sigs.k8s.io/karpenter/pkg/controllers/nodeclaim/disruption"
	"sigs.k8s.io/karpenter/pkg/controllers/nodepool/hash"
	provscheduling "sigs.k8s.io/karpenter/pkg/controllers/provisioning/scheduling"
	staticprov "sigs.k8s.io/karpenter/pkg/controllers/static/provisioning"

	"verif/gen"
	"verif/mon"
	"verif/oracle"
	"verif/props/common"
	"verif/world"
)

const poolName = "pool-0"

// countingProvider lets the monitor see that the drift sub-reconciler really ran to its end: the provider's IsDrifted
// is consulted only after Karpenter's own static / requirements / instance-type checks found nothing.
type countingProvider struct {
	*world.Provider
	isDriftedCalls, instanceTypeCalls int
}

func (c *countingProvider) IsDrifted(ctx context.Context, nc *v1.NodeClaim) (cloudprovider.DriftReason, error) {
	c.isDriftedCalls++
	return c.Provider.IsDrifted(ctx, nc)
}

func (c *countingProvider) GetInstanceTypes(ctx context.Context, np *v1.NodePool) ([]*cloudprovider.InstanceType, error) {
	c.instanceTypeCalls++
	return c.Provider.GetInstanceTypes(ctx, np)
}

type e2e struct {
	r          *mon.Report
	e          *world.Env
	rng        *rand.Rand
	idx        int
	cp         *countingProvider
	hashC      *hash.Controller
	disC       *disruption.Controller
	desc       map[string]any
	sig        map[string]bool
	tmplLabels map[string]string
	lateHash   bool // the NodePool template was edited and nodepool.hash has not reconciled the edit yet
}

func (x *e2e) pool() *v1.NodePool {
	np := &v1.NodePool{}
	if x.e.API.Raw.Get(context.Background(), types.NamespacedName{Name: poolName}, np) != nil {
		return nil
	}
	return np
}

func (x *e2e) claim(name string) *v1.NodeClaim {
	nc := &v1.NodeClaim{}
	if x.e.API.Raw.Get(context.Background(), types.NamespacedName{Name: name}, nc) != nil {
		return nil
	}
	return nc
}

// reconcileHash hands the stored NodePool to the real hash controller.
func (x *e2e) reconcileHash() bool {
	np := x.pool()
	if np == nil {
		return false
	}
	var err error
	panicked, pv, stack := mon.Guard(func() { _, err = x.hashC.Reconcile(x.e.Ctx, np) })
	x.r.Inc("hash_controller_reconciles")
	if panicked {
		x.r.Violate("panic-in-hash-controller", fmt.Sprintf("nodepool.hash Reconcile panicked: %v", pv), x.desc, stack)
		return false
	}
	if err != nil {
		x.r.Inconcl("case %d: hash controller error: %v", x.idx, err)
		return false
	}
	return true
}

type driftObs struct {
	drifted   bool
	reason    string
	evaluated bool // the drift sub-reconciler demonstrably ran for this claim
	ok        bool
}

// reconcileDrift hands the stored NodeClaim to the real nodeclaim disruption controller and reads the condition back.
func (x *e2e) reconcileDrift(name string) driftObs {
	nc := x.claim(name)
	if nc == nil {
		return driftObs{}
	}
	before := x.cp.isDriftedCalls
	var err error
	panicked, pv, stack := mon.Guard(func() { _, err = x.disC.Reconcile(x.e.Ctx, nc) })
	x.r.Inc("disruption_controller_reconciles")
	if panicked {
		x.r.Violate("panic-in-nodeclaim-disruption-controller", fmt.Sprintf("nodeclaim.disruption Reconcile panicked: %v", pv), x.desc, stack)
		return driftObs{}
	}
	if err != nil {
		x.r.Inconcl("case %d: disruption controller error: %v", x.idx, err)
		return driftObs{}
	}
	nc = x.claim(name)
	if nc == nil {
		return driftObs{}
	}
	o := driftObs{ok: true}
	if c := nc.StatusConditions().Get(v1.ConditionTypeDrifted); c != nil && c.IsTrue() {
		o.drifted, o.reason = true, c.Reason
	}
	o.evaluated = o.drifted || x.cp.isDriftedCalls > before
	return o
}

// labelsSatisfy: plain Kubernetes operator semantics, every requirement separately (a conjunction).
func labelsSatisfy(reqs []v1.NodeSelectorRequirementWithMinValues, lbls map[string]string) (bool, []v1.NodeSelectorRequirementWithMinValues) {
	var bad []v1.NodeSelectorRequirementWithMinValues
	for _, r := range reqs {
		key := r.Key
		if n, ok := v1.NormalizedLabels[key]; ok { // documented aliases (beta zone / arch / os / instance-type labels)
			key = n
		}
		v, present := lbls[key]
		if !oracle.Admits(string(r.Operator), r.Values, v, present) {
			bad = append(bad, r)
		}
	}
	return len(bad) == 0, bad
}

// unsatKey returns a key among the violated requirements whose requirement set admits neither absence nor any valid
// label value of a probe universe that contains a witness whenever one exists (mentioned values, integers at and next to every
// bound plus |excluded|+1 consecutive integers above each lower bound, a fresh non-integer string).
func unsatKey(all, violated []v1.NodeSelectorRequirementWithMinValues) string {
	for _, b := range violated {
		var on []v1.NodeSelectorRequirementWithMinValues
		probes := map[string]bool{"fresh-zz": true, "0": true}
		nvals := 0
		for _, q := range all {
			if q.Key == b.Key {
				on = append(on, q)
				nvals += len(q.Values)
			}
		}
		for _, q := range on {
			for _, v := range q.Values {
				probes[v] = true
				if iv, ok := isInt(v); ok {
					for d := int64(-1); d <= int64(nvals)+2; d++ {
						probes[fmt.Sprint(iv+d)] = true
					}
				}
			}
		}
		admits := func(v string, present bool) bool {
			for _, q := range on {
				if !oracle.Admits(string(q.Operator), q.Values, v, present) {
					return false
				}
			}
			return true
		}
		sat := admits("", false)
		for v := range probes {
			if sat {
				break
			}
			// only values a node can actually carry: "-1" is not a valid label value
			if len(validation.IsValidLabelValue(v)) > 0 {
				continue
			}
			sat = admits(v, true)
		}
		if !sat {
			return b.Key
		}
	}
	return ""
}

func onKey(reqs []v1.NodeSelectorRequirementWithMinValues, key string) []string {
	var out []v1.NodeSelectorRequirementWithMinValues
	for _, q := range reqs {
		if q.Key == key {
			out = append(out, q)
		}
	}
	return reqStrings(out)
}

func copyLabels(m map[string]string) map[string]string {
	out := map[string]string{}
	for k, v := range m {
		out[k] = v
	}
	return out
}

func reqStrings(reqs []v1.NodeSelectorRequirementWithMinValues) []string {
	var out []string
	for _, r := range reqs {
		s := fmt.Sprintf("%s %s %v", r.Key, r.Operator, r.Values)
		if r.MinValues != nil {
			s += fmt.Sprintf(" minValues=%d", *r.MinValues)
		}
		out = append(out, s)
	}
	return out
}

func runE2E(r *mon.Report, tier string, idx int, rng *rand.Rand) {
	opts, optDesc := common.RandomOptions(rng)
	static := rng.Intn(5) == 0
	if static {
		t := true
		opts.FeatureGates.StaticCapacity = &t
		optDesc["staticCapacity"] = true
	}
	e := world.NewEnv(rng, opts)
	e.Apply(gen.NodeClass())
	ccfg := gen.DefaultCatalogCfg()
	ccfg.Reserved = rng.Intn(4) == 0
	ccfg.PUnavailable = 0.1
	ccfg.MinTypes, ccfg.MaxTypes = 2, 6
	its, specs := gen.Catalog(rng, ccfg, "")
	e.Provider.Default = its
	x := &e2e{r: r, e: e, rng: rng, idx: idx, sig: map[string]bool{}}
	x.cp = &countingProvider{Provider: e.Provider}
	x.hashC = hash.NewController(e.API.Client, x.cp)
	x.disC = disruption.NewController(e.Clock, e.API.Client, x.cp)

	var np *v1.NodePool
	shape := ""
	for try := 0; try < 8 && np == nil; try++ {
		cand, sh := genPool(rng, poolName, static)
		r.Inc("nodepools_generated")
		admitted, errs := world.AdmitNodePool(e.Ctx, cand)
		if len(errs) > 0 {
			r.Inc("nodepools_rejected_by_validation")
			r.DistinctAdd("validation_rejections", sh+": "+firstWords(errs[0], 14))
			continue
		}
		r.Inc("nodepools_accepted_by_validation")
		if !poolFeasible(admitted, its) && try < 7 {
			r.Inc("nodepools_without_compatible_instance_type")
			continue
		}
		np, shape = admitted, sh
	}
	if np == nil {
		r.Inc("cases_without_accepted_pool")
		return
	}
	x.tmplLabels = copyLabels(np.Spec.Template.Labels)
	e.Apply(np)
	x.desc = map[string]any{"case": idx, "options": optDesc, "shape": shape, "catalog": specs,
		"pool": map[string]any{"requirements": reqStrings(np.Spec.Template.Spec.Requirements), "labels": np.Spec.Template.Labels, "annotations": np.Spec.Template.Annotations,
			"taints": np.Spec.Template.Spec.Taints, "startupTaints": np.Spec.Template.Spec.StartupTaints, "expireAfter": jsonOf(np.Spec.Template.Spec.ExpireAfter),
			"terminationGracePeriod": np.Spec.Template.Spec.TerminationGracePeriod, "limits": np.Spec.Limits, "weight": np.Spec.Weight}}
	if !x.reconcileHash() {
		return
	}
	if st := x.pool(); st == nil || st.Annotations[v1.NodePoolHashAnnotationKey] == "" || st.Annotations[v1.NodePoolHashVersionAnnotationKey] != v1.NodePoolHashVersion {
		r.Violate("hash-controller-did-not-annotate", "after nodepool.hash Reconcile the NodePool carries no hash / current hash-version annotation", x.desc, nil)
		return
	}
	// interleaving: a hashed template field is edited and NodeClaims are created from the edited NodePool BEFORE the
	// nodepool.hash controller reconciles the edit (its annotation still describes the old template); the hash controller
	// catches up right after the create. The fresh NodeClaim carries the new template and must not be reported Drifted.
	if rng.Intn(3) == 0 {
		if spec, what := x.templateEdit(x.pool()); spec != nil {
			cand := x.pool().DeepCopy()
			cand.Spec = *spec.DeepCopy()
			if admitted, errs := world.AdmitNodePool(e.Ctx, cand); len(errs) == 0 {
				e.Apply(admitted)
				np = x.pool()
				x.tmplLabels = copyLabels(np.Spec.Template.Labels)
				x.lateHash = true
				x.desc["editBeforeHashReconcile"] = what
				x.sig["edit-before-hash:"+what] = true
				r.Inc("cases_with_template_edit_before_hash_reconcile")
			}
		}
	}
	n := 0
	if np.Spec.Replicas != nil {
		// static NodePool: NodeClaims come from the real static provisioning controller, not from the scheduler
		staticC := staticprov.NewController(e.API.Client, e.Cluster, e.Recorder, x.cp, e.Prov, e.Clock, e.DeviceAlloc, e.VPods)
		create := func() (string, error) {
			before := map[string]bool{}
			for _, c := range e.ClaimNames() {
				before[c] = true
			}
			if err := e.SyncState(); err != nil {
				return "", err
			}
			_, err := staticC.Reconcile(e.Ctx, x.pool())
			for _, c := range e.ClaimNames() {
				if !before[c] {
					return c, nil
				}
			}
			return "", fmt.Errorf("static provisioning created no NodeClaim (err=%v)", err)
		}
		x.sig["static"] = true
		r.Inc("static_pool_cases")
		x.processClaim(create, strings.Join(reqStrings(np.Spec.Template.Spec.Requirements), ", "), shape)
		n = 1
	} else {
		pods := genPods(rng, 1+rng.Intn(3))
		var podDesc []map[string]any
		for _, p := range pods {
			e.Apply(p)
			podDesc = append(podDesc, map[string]any{"name": p.Name, "nodeSelector": p.Spec.NodeSelector, "affinity": p.Spec.Affinity})
		}
		x.desc["pods"] = podDesc
		if err := e.SyncState(); err != nil {
			r.Inconcl("case %d: state sync error: %v", idx, err)
			return
		}
		var res provscheduling.Results
		var err error
		if panicked, pv, stack := mon.Guard(func() { res, err = e.Prov.Schedule(e.Ctx) }); panicked {
			r.Violate("panic-in-schedule", fmt.Sprintf("Provisioner.Schedule panicked: %v", pv), x.desc, stack)
			return
		}
		if err != nil {
			r.Inc("schedule_errors")
			return
		}
		for _, nc := range res.NewNodeClaims {
			if len(nc.Pods) == 0 {
				continue
			}
			if n++; n > 2 {
				break
			}
			nc := nc
			x.processClaim(func() (string, error) { return e.Prov.Create(e.Ctx, nc) }, nc.Requirements.String(), shape)
		}
	}
	if n == 0 {
		r.Inc("cases_without_new_nodeclaim")
		r.Inc("cases_without_new_nodeclaim:" + shape)
		return
	}
	if len(x.sig) > 0 {
		r.Sig("%s|%s", shape, strings.Join(common.SortedKeys(x.sig), "+"))
	}
}

// poolFeasible: some (type, available offering) satisfies the pool's requirements on the keys the type defines.
func poolFeasible(np *v1.NodePool, its []*cloudprovider.InstanceType) bool {
	for _, it := range its {
		for _, of := range it.Offerings.Available() {
			l := common.TypeLabels(it, of)
			for k, v := range np.Spec.Template.Labels {
				if _, defined := l[k]; defined && l[k] != v {
					l["\x00mismatch"] = "1"
				}
			}
			if _, mm := l["\x00mismatch"]; mm {
				continue
			}
			ok := true
			for _, q := range np.Spec.Template.Spec.Requirements {
				_, d1 := it.Requirements[q.Key]
				_, d2 := of.Requirements[q.Key]
				if !d1 && !d2 {
					continue
				}
				v, present := l[q.Key]
				if !oracle.Admits(string(q.Operator), q.Values, v, present) {
					ok = false
					break
				}
			}
			if ok {
				return true
			}
		}
	}
	return false
}

func invalidLabels(l map[string]string) string {
	for _, k := range common.SortedKeys(l) {
		if errs := validation.IsValidLabelValue(l[k]); len(errs) > 0 {
			return fmt.Sprintf("%s=%q", k, l[k])
		}
	}
	return ""
}

func firstWords(s string, n int) string {
	f := strings.Fields(s)
	if len(f) > n {
		f = f[:n]
	}
	return strings.Join(f, " ")
}

const maxChoices = 64

// cleanup removes a NodeClaim, its node and its instance (harness actor) so that the next launch choice starts fresh.
func (x *e2e) cleanup(name, node string) {
	ctx := context.Background()
	if nc := x.claim(name); nc != nil {
		if nc.Status.ProviderID != "" {
			x.e.Provider.Vanish(nc.Status.ProviderID)
		}
		nc.Finalizers = nil
		_ = x.e.API.Raw.Update(ctx, nc)
		_ = x.e.API.Raw.Delete(ctx, nc)
	}
	if node != "" {
		n := &corev1.Node{}
		if x.e.API.Raw.Get(ctx, types.NamespacedName{Name: node}, n) == nil {
			n.Finalizers = nil
			_ = x.e.API.Raw.Update(ctx, n)
			_ = x.e.API.Raw.Delete(ctx, n)
		}
		_ = x.e.Deliver(world.Request{Kind: "Node", Name: node})
	}
	// the watch event of the deletion (the claim may never have been delivered through SyncState before)
	_ = x.e.Deliver(world.Request{Kind: "NodeClaim", Name: name})
	_ = x.e.SyncState()
}

func (x *e2e) classifyCreatePanic(reqs string, pv any, stack string) {
	key := "panic-in-provisioner-create"
	if strings.Contains(stack, "scheduling.(*Requirement).Any") {
		key = "panic-any-empty-or-overflowing-range"
		if strings.Contains(reqs, "<=-") || strings.Contains(reqs, "Lt [0]") {
			key = "panic-any-negative-upper-bound"
		}
	}
	x.r.Violate(key, fmt.Sprintf("Provisioner.Create panicked while building the NodeClaim (NodeClaimTemplate.ToNodeClaim -> resolveCustomLabelsFromRequirements -> Requirement.Any): %v; requirements=%s", pv, reqs),
		x.desc, map[string]any{"requirements": reqs, "stack": firstLines(stack, 40)})
}

func firstLines(s string, n int) string {
	l := strings.Split(s, "\n")
	if len(l) > n {
		l = l[:n]
	}
	return strings.Join(l, "\n")
}

// processClaim: create() yields a fresh NodeClaim through the real code (Provisioner.Create for scheduled claims, the
// static provisioning controller for static NodePools); one fresh claim per launch choice.
func (x *e2e) processClaim(create func() (string, error), reqDesc string, shape string) {
	r, e, rng := x.r, x.e, x.rng
	K := -1
	for i := 0; K < 0 || i < K; i++ {
		var name string
		var err error
		if panicked, pv, stack := mon.Guard(func() { name, err = create() }); panicked {
			r.Inc("create_panics")
			x.sig["create-panic"] = true
			x.classifyCreatePanic(reqDesc, pv, stack)
			return
		}
		if err != nil {
			r.Inc("create_errors")
			r.DistinctAdd("create_errors", firstWords(err.Error(), 12))
			return
		}
		r.Inc("nodeclaims_created")
		if x.lateHash {
			x.lateHash = false
			r.Inc("claims_created_before_hash_controller_caught_up")
			if !x.reconcileHash() {
				return
			}
		}
		stored := x.claim(name)
		if stored == nil {
			r.Inconcl("case %d: created NodeClaim %s not in store", x.idx, name)
			return
		}
		pre := copyLabels(stored.Labels)
		// the fake API does no metadata validation: a NodeClaim a real API server would refuse never exists
		if bad := invalidLabels(stored.Labels); bad != "" {
			r.Inc("nodeclaims_with_label_a_real_apiserver_rejects")
			r.DistinctAdd("invalid_claim_labels", shape+": "+bad)
			x.sig["invalid-claim-label"] = true
			x.cleanup(name, "")
			return
		}
		choices := e.Provider.Choices(stored)
		if K < 0 {
			K = len(choices)
			if K > maxChoices {
				K = maxChoices
				r.Inc("claims_with_truncated_choice_list")
			}
			r.Count("launch_choices_enumerated", K)
			if K == 0 {
				r.Inc("claims_without_launch_choice")
				x.cleanup(name, "")
				return
			}
		}
		if i >= len(choices) {
			x.cleanup(name, "")
			break
		}
		e.Provider.Policy = fmt.Sprintf("index:%d", i)
		stage := pick(rng, world.StageLaunched, world.StageLaunched, world.StageLaunched, world.StageRegistered, world.StageInitialized)
		var inst *world.Instance
		var node string
		if panicked, pv, stack := mon.Guard(func() { inst, node, err = e.DriveClaim(name, stage) }); panicked {
			r.Violate("panic-in-lifecycle", fmt.Sprintf("nodeclaim lifecycle panicked: %v", pv), x.desc, firstLines(stack, 40))
			return
		}
		if err != nil || inst == nil {
			r.Inc("launch_failed")
			x.cleanup(name, node)
			continue
		}
		if inst.Type != choices[i].Type || inst.Offering != choices[i].Offering {
			r.Inconcl("case %d: provider launched a different choice than index %d", x.idx, i)
		}
		r.Inc("launches")
		launched := x.claim(name)
		if launched == nil || !launched.StatusConditions().Get(v1.ConditionTypeLaunched).IsTrue() {
			r.Inc("claims_not_marked_launched")
			x.cleanup(name, node)
			continue
		}
		cs := map[string]any{"claim": name, "choice": i, "of": K, "instanceType": inst.Type.Name, "zone": inst.Offering.Zone(), "capacityType": inst.Offering.CapacityType(), "stage": int(stage)}
		// ---- (b) never self-inflicted ----
		o := x.reconcileDrift(name)
		if !o.ok {
			x.cleanup(name, node)
			return
		}
		r.Inc("fresh_claim_drift_checks")
		if o.evaluated {
			r.Inc("drift_subreconciler_ran")
		} else {
			r.Inc("drift_subreconciler_did_not_run")
			r.Inconcl("case %d: the drift sub-reconciler did not demonstrably run for launched claim %s", x.idx, name)
		}
		x.sig[fmt.Sprintf("fresh@stage%d", stage)] = true
		selfDrift := false
		if o.drifted {
			selfDrift = true
			x.reportSelfDrift(name, pre, o, cs, "fresh")
		} else if rng.Intn(3) == 0 {
			// age the claim beyond the 1 h after which instance-type-not-found drift is evaluated; nothing else changes
			before := x.cp.instanceTypeCalls
			e.Clock.Step(61*time.Minute + time.Duration(rng.Intn(3600))*time.Second)
			o2 := x.reconcileDrift(name)
			if o2.ok {
				r.Inc("aged_claim_drift_checks")
				if x.cp.instanceTypeCalls > before {
					r.Inc("instance_type_not_found_evaluations")
					x.sig["aged"] = true
				}
				if o2.drifted {
					selfDrift = true
					x.reportSelfDrift(name, pre, o2, cs, "aged")
				}
			}
		}
		// ---- (c) drift-relevant changes are reported ----
		if !selfDrift && (i == 0 || rng.Intn(3) != 0) {
			x.partC(name, cs)
		}
		if r.WantSample() && i == 0 && !selfDrift {
			cur := x.claim(name)
			r.Sample(map[string]any{"case": x.desc, "launch": cs, "claimLabels": cur.Labels, "claimAnnotations": cur.Annotations,
				"claimRequirements": reqStrings(cur.Spec.Requirements), "driftedAfterLaunch": o.drifted, "driftEvaluated": o.evaluated, "choices": K})
		}
		x.cleanup(name, node)
	}
}

// reportSelfDrift classifies why a NodeClaim nobody touched is reported Drifted.
func (x *e2e) reportSelfDrift(name string, pre map[string]string, o driftObs, cs map[string]any, when string) {
	nc, np := x.claim(name), x.pool()
	if nc == nil || np == nil {
		return
	}
	wit := map[string]any{"launch": cs, "when": when, "reason": o.reason, "claimLabels": nc.Labels, "labelsBeforeLaunch": pre,
		"claimSpecRequirements": reqStrings(nc.Spec.Requirements), "poolRequirements": reqStrings(np.Spec.Template.Spec.Requirements),
		"poolTemplateLabels": np.Spec.Template.Labels,
		"poolHashAnnotation": np.Annotations[v1.NodePoolHashAnnotationKey], "poolHashVersion": np.Annotations[v1.NodePoolHashVersionAnnotationKey],
		"claimHashAnnotation": nc.Annotations[v1.NodePoolHashAnnotationKey], "claimHashVersion": nc.Annotations[v1.NodePoolHashVersionAnnotationKey]}
	key := "self-drift-other:" + o.reason
	what := ""
	switch o.reason {
	case string(disruption.NodePoolDrifted):
		key = "self-drift-hash-mismatch"
		what = "the hash annotation stamped on the fresh NodeClaim differs from the NodePool's under the same hash version although the template was not edited"
	case string(disruption.InstanceTypeNotFound):
		key = "self-drift-instance-type-not-found"
		what = "the instance type / offering the claim was launched as is reported as not found although the catalog did not change"
	case string(disruption.RequirementsDrifted):
		sat, bad := labelsSatisfy(np.Spec.Template.Spec.Requirements, nc.Labels)
		if sat {
			key = "self-drift-requirements-satisfied-but-reported"
			what = "every NodePool requirement admits the NodeClaim's labels (Kubernetes operator semantics), yet RequirementsDrifted is reported"
			break
		}
		b := bad[0]
		wit["violatedRequirement"] = reqStrings(bad)
		val, present := nc.Labels[b.Key]
		_, fromTemplate := x.tmplLabels[b.Key]
		_, fromKarpenter := pre[b.Key]
		complement := false
		for _, q := range np.Spec.Template.Spec.Requirements {
			if q.Key == b.Key && q.Operator != corev1.NodeSelectorOpIn && q.Operator != corev1.NodeSelectorOpDoesNotExist {
				complement = true
			}
		}
		switch {
		case fromTemplate && present:
			key = "self-drift-template-label-contradicts-requirement"
			what = fmt.Sprintf("the NodePool's own template label %s=%s violates its requirement %s; validation accepted the NodePool and the scheduler created the claim", b.Key, val, reqStrings(bad)[0])
		case !v1.WellKnownLabels.Has(b.Key) && present && fromKarpenter && complement:
			// what the scheduler knew about the key = NodePool requirements AND pod requirements = the claim's serialized
			// requirements on it. If that conjunction admits no value at all, no choice of Any() could have been right:
			// the claim should never have been created (own key); otherwise Any() picked an excluded value although an
			// admitted one exists.
			joint := append(append([]v1.NodeSelectorRequirementWithMinValues{}, np.Spec.Template.Spec.Requirements...), nc.Spec.Requirements...)
			if unsatKey(joint, []v1.NodeSelectorRequirementWithMinValues{b}) != "" {
				key = "self-drift-custom-label-range-fully-excluded"
				what = fmt.Sprintf("the requirements on %s (NodePool: %v; claim: %v) admit no value at all, yet the scheduler created a claim and Requirement.Any() labelled it %s=%s, which the NodePool requirement %s excludes", b.Key,
					onKey(np.Spec.Template.Spec.Requirements, b.Key), onKey(nc.Spec.Requirements, b.Key), b.Key, val, reqStrings(bad)[0])
				break
			}
			key = "self-drift-custom-label-any-excluded"
			what = fmt.Sprintf("Karpenter itself chose %s=%s for the claim (NodeClaimTemplate.resolveCustomLabelsFromRequirements -> Requirement.Any), a value the NodePool requirement %s excludes although an admitted value exists", b.Key, val, reqStrings(bad)[0])
		case !v1.WellKnownLabels.Has(b.Key) && present && fromKarpenter:
			key = "self-drift-custom-label-outside-in-set"
			what = fmt.Sprintf("Karpenter chose %s=%s which the NodePool requirement %s does not admit", b.Key, val, reqStrings(bad)[0])
		case !present:
			key = "self-drift-required-label-missing"
			if v1.WellKnownLabels.Has(b.Key) {
				key += ":well-known"
			} else {
				key += ":custom"
			}
			what = fmt.Sprintf("the NodePool requires %s but the launched claim carries no such label", reqStrings(bad)[0])
		default:
			// value supplied by the provider: was it permitted by the serialized spec?
			if !world.AdmitsSerialized(nc.Spec.Requirements, b.Key, val, true) {
				x.r.Inconcl("case %d: hostile provider launched %s=%s outside the serialized spec (harness defect)", x.idx, b.Key, val)
				return
			}
			key = "self-drift-launch-permitted-by-spec-violates-pool:" + b.Key
			what = fmt.Sprintf("the serialized NodeClaim requirements admit %s=%s but the NodePool requirement %s does not: the launch request is weaker than the NodePool", b.Key, val, reqStrings(bad)[0])
		}
	}
	x.sig["SELF-DRIFT"] = true
	x.r.Violate(key, fmt.Sprintf("NodeClaim %s freshly created from the NodePool and launched as a permitted choice is reported Drifted (%s): %s", name, o.reason, what), x.desc, wit)
}

// ---------------- part (c) ----------------

func (x *e2e) setPoolSpec(spec *v1.NodePoolSpec) {
	cur := x.pool()
	if cur == nil {
		return
	}
	cur.Spec = *spec.DeepCopy()
	x.e.Apply(cur)
}

// tryPoolEdit validates the edited spec like the API server + validation controller would, applies it and runs the
// hash controller. ok=false when validation rejects the edit.
func (x *e2e) tryPoolEdit(spec *v1.NodePoolSpec) (*v1.NodePool, bool) {
	cur := x.pool()
	if cur == nil {
		return nil, false
	}
	cand := cur.DeepCopy()
	cand.Spec = *spec.DeepCopy()
	admitted, errs := world.AdmitNodePool(x.e.Ctx, cand)
	if len(errs) > 0 {
		x.r.Inc("pool_edits_rejected_by_validation")
		x.r.DistinctAdd("edit_rejections", firstWords(errs[0], 14))
		return nil, false
	}
	x.e.Apply(admitted)
	if !x.reconcileHash() {
		return nil, false
	}
	return x.pool(), true
}

func (x *e2e) partC(name string, cs map[string]any) {
	r := x.r
	nc := x.claim(name)
	np0 := x.pool()
	if nc == nil || np0 == nil {
		return
	}
	L := nc.Labels
	hash0 := np0.Annotations[v1.NodePoolHashAnnotationKey]
	wit := func(extra map[string]any) map[string]any {
		out := map[string]any{"launch": cs, "claimLabels": L, "poolRequirementsBefore": reqStrings(np0.Spec.Template.Spec.Requirements)}
		for k, v := range extra {
			out[k] = v
		}
		return out
	}
	revert := func(kind string) bool {
		x.setPoolSpec(&np0.Spec)
		if !x.reconcileHash() {
			return false
		}
		o := x.reconcileDrift(name)
		if !o.ok {
			return false
		}
		r.Inc("revert_checks")
		if cur := x.pool(); cur.Annotations[v1.NodePoolHashAnnotationKey] != hash0 {
			r.Violate("hash-not-restored-after-revert", "restoring the NodePool spec does not restore its hash annotation", x.desc, wit(map[string]any{"edit": kind}))
			return false
		}
		if o.drifted {
			r.Violate("drift-not-cleared-after-revert:"+kind, fmt.Sprintf("after the NodePool was restored (labels satisfy the requirements, hash equal) the claim is still reported Drifted (%s)", o.reason), x.desc, wit(map[string]any{"edit": kind}))
			return false
		}
		return true
	}

	// The fresh claim's labels must satisfy the NodePool's requirements for "stop satisfying" to be meaningful. They do
	// not when the requirements on some key are jointly unsatisfiable (Karpenter represents that as DoesNotExist and
	// creates a claim without the label; class owned by C01/C12) - counted, and (i)/(i') are skipped for such claims.
	sat0, bad0 := labelsSatisfy(np0.Spec.Template.Spec.Requirements, L)
	if !sat0 {
		r.Inc("claims_whose_labels_never_satisfied_the_pool")
		r.DistinctAdd("never_satisfied_requirements", strings.Join(reqStrings(bad0), " & "))
	}
	// (i) requirements edited so that the labels stop satisfying them -> Drifted (RequirementsDrifted); hash unchanged
	if spec, kind := x.violatingReqEdit(np0, L); spec != nil && sat0 {
		if cur, ok := x.tryPoolEdit(spec); ok {
			if sat, bad := labelsSatisfy(cur.Spec.Template.Spec.Requirements, L); sat {
				r.Inc("requirement_edits_not_violating")
			} else {
				o := x.reconcileDrift(name)
				if o.ok {
					r.Inc("requirement_violation_drift_checks")
					x.sig["req-edit"] = true
					r.DistinctAdd("edit_kinds", "req-violating:"+kind)
					w := wit(map[string]any{"edit": kind, "poolRequirementsAfter": reqStrings(cur.Spec.Template.Spec.Requirements), "violated": reqStrings(bad), "observed": o})
					if !o.drifted {
						key, why := "requirements-drift-not-reported:"+kind, ""
						if k := unsatKey(cur.Spec.Template.Spec.Requirements, bad); k != "" {
							// the edited requirement set admits no node at all on that key; Karpenter's algebra collapses it to
							// DoesNotExist, which the label-less claim satisfies (class also seen by C01 / C12)
							key = "requirements-drift-not-reported:unsat-conjunction-treated-as-DoesNotExist"
							why = fmt.Sprintf(" (the requirements on %s are jointly unsatisfiable; Karpenter evaluates them like DoesNotExist)", k)
						}
						r.Violate(key, fmt.Sprintf("the NodePool requirements were edited (%s) so that the NodeClaim's labels no longer satisfy them, but Drifted is not reported%s", kind, why), x.desc, w)
					} else if o.reason != string(disruption.RequirementsDrifted) {
						r.Violate("requirements-edit-reported-as:"+o.reason, fmt.Sprintf("a requirements-only edit (%s) is reported as %s", kind, o.reason), x.desc, w)
					}
					if cur.Annotations[v1.NodePoolHashAnnotationKey] != hash0 {
						r.Violate("requirements-edit-changes-hash-annotation", "editing only spec.template.spec.requirements changed the NodePool hash annotation", x.desc, w)
					}
				}
			}
			if !revert("requirements:" + kind) {
				return
			}
		}
	}
	// (i') requirements edited but the labels still satisfy them -> not Drifted
	if spec, kind := x.benignReqEdit(np0, L); spec != nil && sat0 {
		if cur, ok := x.tryPoolEdit(spec); ok {
			if sat, _ := labelsSatisfy(cur.Spec.Template.Spec.Requirements, L); !sat {
				r.Inc("benign_requirement_edits_violating")
			} else {
				o := x.reconcileDrift(name)
				if o.ok {
					r.Inc("benign_requirement_edit_checks")
					x.sig["req-benign"] = true
					r.DistinctAdd("edit_kinds", "req-benign:"+kind)
					if o.drifted {
						r.Violate("benign-requirements-edit-reported-drifted:"+kind, fmt.Sprintf("the NodePool requirements were edited (%s), the NodeClaim's labels still satisfy every requirement, yet Drifted (%s) is reported", kind, o.reason), x.desc,
							wit(map[string]any{"edit": kind, "poolRequirementsAfter": reqStrings(cur.Spec.Template.Spec.Requirements), "observed": o}))
					}
				}
			}
			if !revert("benign-requirements:" + kind) {
				return
			}
		}
	}
	// (ii) a hashed template field edited -> Drifted (NodePoolDrifted)
	if spec, kind := x.templateEdit(np0); spec != nil {
		if cur, ok := x.tryPoolEdit(spec); ok {
			if jsonOf(cur.Spec.Template) == jsonOf(np0.Spec.Template) {
				r.Inc("template_edits_without_effect")
			} else {
				o := x.reconcileDrift(name)
				if o.ok {
					r.Inc("template_edit_drift_checks")
					x.sig["tmpl-edit"] = true
					r.DistinctAdd("edit_kinds", "template:"+kind)
					w := wit(map[string]any{"edit": kind, "templateBefore": jsonOf(np0.Spec.Template), "templateAfter": jsonOf(cur.Spec.Template), "observed": o,
						"poolHashBefore": hash0, "poolHashAfter": cur.Annotations[v1.NodePoolHashAnnotationKey], "claimHash": nc.Annotations[v1.NodePoolHashAnnotationKey]})
					if !o.drifted {
						r.Violate("template-edit-not-reported:"+kind, fmt.Sprintf("the NodePool template was edited (%s) but the existing NodeClaim is not reported Drifted", kind), x.desc, w)
					} else if o.reason != string(disruption.NodePoolDrifted) {
						r.Violate("template-edit-reported-as:"+o.reason, fmt.Sprintf("a template edit (%s) is reported as %s", kind, o.reason), x.desc, w)
					}
				}
			}
			if !revert("template:" + kind) {
				return
			}
		}
	}
	// (iv) reordering and non-drifting edits -> hash annotation unchanged, not Drifted
	{
		spec, kind := x.benignPoolEdit(np0)
		if cur, ok := x.tryPoolEdit(spec); ok {
			o := x.reconcileDrift(name)
			if o.ok {
				r.Inc("benign_pool_edit_checks")
				x.sig["benign-edit"] = true
				r.DistinctAdd("edit_kinds", "benign:"+kind)
				w := wit(map[string]any{"edit": kind, "specBefore": jsonOf(np0.Spec), "specAfter": jsonOf(cur.Spec), "observed": o})
				if cur.Annotations[v1.NodePoolHashAnnotationKey] != hash0 {
					r.Violate("non-drifting-edit-changes-hash-annotation:"+kind, fmt.Sprintf("a reorder / non-drifting edit (%s) changed the hash annotation written by the hash controller", kind), x.desc, w)
				}
				if o.drifted {
					r.Violate("non-drifting-edit-reported-drifted:"+kind, fmt.Sprintf("a reorder / non-drifting edit (%s) makes the claim Drifted (%s)", kind, o.reason), x.desc, w)
				}
			}
			if !revert("benign:" + kind) {
				return
			}
		}
	}
	// (iii) hash versions
	x.versionChecks(name, cs)
}

// setAnnotations overwrites the two hash annotations of an object (harness actor = "state left behind by another
// Karpenter version").
func setHashAnn(m map[string]string, hashVal, version string) map[string]string {
	out := map[string]string{}
	for k, v := range m {
		out[k] = v
	}
	if hashVal == "" {
		delete(out, v1.NodePoolHashAnnotationKey)
	} else {
		out[v1.NodePoolHashAnnotationKey] = hashVal
	}
	if version == "" {
		delete(out, v1.NodePoolHashVersionAnnotationKey)
	} else {
		out[v1.NodePoolHashVersionAnnotationKey] = version
	}
	return out
}

func (x *e2e) annotateClaim(name, hashVal, version string) {
	nc := x.claim(name)
	if nc == nil {
		return
	}
	nc.Annotations = setHashAnn(nc.Annotations, hashVal, version)
	_ = x.e.API.Raw.Update(context.Background(), nc)
}

func (x *e2e) annotatePool(hashVal, version string) {
	np := x.pool()
	if np == nil {
		return
	}
	np.Annotations = setHashAnn(np.Annotations, hashVal, version)
	_ = x.e.API.Raw.Update(context.Background(), np)
}

func (x *e2e) versionChecks(name string, cs map[string]any) {
	r := x.r
	nc0, np0 := x.claim(name), x.pool()
	if nc0 == nil || np0 == nil {
		return
	}
	goodHash, goodVer := np0.Annotations[v1.NodePoolHashAnnotationKey], np0.Annotations[v1.NodePoolHashVersionAnnotationKey]
	claimHash, claimVer := nc0.Annotations[v1.NodePoolHashAnnotationKey], nc0.Annotations[v1.NodePoolHashVersionAnnotationKey]
	restore := func() {
		x.annotatePool(goodHash, goodVer)
		x.annotateClaim(name, claimHash, claimVer)
		x.reconcileHash()
		x.reconcileDrift(name)
	}
	w := func(o driftObs, what string) map[string]any {
		c, p := x.claim(name), x.pool()
		return map[string]any{"launch": cs, "scenario": what, "observed": o, "poolAnnotations": p.Annotations, "claimAnnotations": c.Annotations}
	}
	old := pick(x.rng, "v1", "v2", "v4")
	switch x.rng.Intn(3) {
	case 0:
		// claim stamped by another Karpenter version (other hash version, other hash value); pool current.
		// "its hash differs under the SAME hash version" is false -> hash comparison must not report drift.
		x.annotateClaim(name, "1234567890", old)
		o := x.reconcileDrift(name)
		if o.ok {
			r.Inc("hash_version_checks")
			r.Inc("version_differs_checks")
			x.sig["version:claim-older"] = true
			if o.drifted {
				r.Violate("drift-across-hash-versions", fmt.Sprintf("the NodeClaim's hash version (%s) differs from the NodePool's (%s); hashes of different versions are incomparable, yet Drifted (%s) is reported", old, goodVer, o.reason), x.desc, w(o, "claim-older"))
			}
		}
	case 1:
		// upgrade: both carry the previous version and EQUAL hashes; the new hash controller migrates both.
		x.annotatePool("1234567890", old)
		x.annotateClaim(name, "1234567890", old)
		if x.reconcileHash() {
			o := x.reconcileDrift(name)
			if o.ok {
				r.Inc("hash_version_checks")
				r.Inc("version_migration_equal_checks")
				x.sig["version:migrate-equal"] = true
				c, p := x.claim(name), x.pool()
				if o.drifted {
					r.Violate("drift-after-hash-version-migration", fmt.Sprintf("NodePool and NodeClaim carried equal hashes under the previous hash version %s; after the hash controller migrated them the claim is reported Drifted (%s) although nothing but the version changed", old, o.reason), x.desc, w(o, "migrate-equal"))
				} else if p.Annotations[v1.NodePoolHashVersionAnnotationKey] != v1.NodePoolHashVersion || c.Annotations[v1.NodePoolHashVersionAnnotationKey] != v1.NodePoolHashVersion ||
					c.Annotations[v1.NodePoolHashAnnotationKey] != p.Annotations[v1.NodePoolHashAnnotationKey] {
					r.Violate("hash-version-migration-incomplete", "after the hash controller ran on a NodePool with an outdated hash version, NodePool and un-drifted NodeClaim do not carry the current version with equal hashes", x.desc, w(o, "migrate-equal"))
				}
			}
		}
	default:
		// upgrade while the claim is genuinely drifted under the previous version: hashes differ under the same
		// (old) version -> Drifted; the migration must not launder it.
		x.annotatePool("1234567890", old)
		x.annotateClaim(name, "999", old)
		o := x.reconcileDrift(name)
		if o.ok {
			r.Inc("hash_version_checks")
			r.Inc("version_same_hash_differs_checks")
			x.sig["version:migrate-drifted"] = true
			if !o.drifted {
				r.Violate("hash-differs-same-version-not-reported", fmt.Sprintf("NodePool and NodeClaim carry different hashes under the same hash version %s but Drifted is not reported", old), x.desc, w(o, "old-version-drifted"))
			} else if x.reconcileHash() {
				o2 := x.reconcileDrift(name)
				if o2.ok {
					r.Inc("version_migration_drifted_checks")
					if !o2.drifted {
						r.Violate("hash-version-migration-clears-real-drift", "a claim that was Drifted by hash under the previous hash version is no longer Drifted after the version migration", x.desc, w(o2, "migrate-drifted"))
					}
				}
			}
		}
	}
	restore()
	// the restore must bring the claim back to not-drifted (annotations as before)
	if c := x.claim(name); c != nil {
		if d := c.StatusConditions().Get(v1.ConditionTypeDrifted); d != nil && d.IsTrue() {
			r.Inc("version_restore_left_drifted")
		}
	}
}

// ---------------- edits ----------------

func isInt(s string) (int64, bool) {
	v, err := strconv.ParseInt(s, 10, 64)
	return v, err == nil
}

func otherValue(key, cur string) string {
	var dom []string
	switch key {
	case corev1.LabelTopologyZone:
		dom = append(append([]string{}, gen.Zones...), "zone-d")
	case v1.CapacityTypeLabelKey:
		dom = []string{v1.CapacityTypeSpot, v1.CapacityTypeOnDemand, v1.CapacityTypeReserved}
	case corev1.LabelArchStable:
		dom = gen.Archs
	case gen.LabelFamily:
		dom = gen.Families
	case gen.LabelTeam:
		dom = []string{"red", "blue", "green"}
	default:
		if v, ok := isInt(cur); ok {
			return fmt.Sprint(v + 1)
		}
		return cur + "-other"
	}
	for _, d := range dom {
		if d != cur {
			return d
		}
	}
	return cur + "-other"
}

var editKeys = []string{corev1.LabelTopologyZone, v1.CapacityTypeLabelKey, corev1.LabelInstanceTypeStable, corev1.LabelArchStable, corev1.LabelOSStable,
	gen.LabelFamily, gen.LabelGen, gen.LabelSize, gen.LabelTeam, gen.LabelTier, labelStatic}

func presentKeys(L map[string]string) []string {
	var out []string
	for _, k := range editKeys {
		if _, ok := L[k]; ok {
			out = append(out, k)
		}
	}
	return out
}

func absentKeys(L map[string]string) []string {
	var out []string
	for _, k := range []string{gen.LabelTeam, gen.LabelTier, labelStatic, "example.com/absent"} {
		if _, ok := L[k]; !ok {
			out = append(out, k)
		}
	}
	return out
}

func withReq(np *v1.NodePool, rng *rand.Rand, add ...gen.Req) *v1.NodePoolSpec {
	spec := np.Spec.DeepCopy()
	reqs := spec.Template.Spec.Requirements
	if rng.Intn(2) == 0 { // replace the requirements on that key instead of adding to them
		var keep []gen.Req
		for _, q := range reqs {
			if q.Key != add[0].Key {
				keep = append(keep, q)
			}
		}
		reqs = keep
	}
	// insert at a random position
	pos := 0
	if len(reqs) > 0 {
		pos = rng.Intn(len(reqs) + 1)
	}
	out := append([]gen.Req{}, reqs[:pos]...)
	out = append(out, add...)
	out = append(out, reqs[pos:]...)
	spec.Template.Spec.Requirements = out
	return spec
}

// violatingReqEdit: a requirement the NodeClaim's labels do not satisfy.
func (x *e2e) violatingReqEdit(np *v1.NodePool, L map[string]string) (*v1.NodePoolSpec, string) {
	rng := x.rng
	pres, abs := presentKeys(L), absentKeys(L)
	if len(pres) == 0 {
		return nil, ""
	}
	if rng.Intn(5) == 0 && len(abs) > 0 {
		k := pick(rng, abs...)
		switch rng.Intn(3) {
		case 0:
			return withReq(np, rng, gen.R(k, corev1.NodeSelectorOpExists)), "absent-key:Exists"
		case 1:
			return withReq(np, rng, gen.R(k, corev1.NodeSelectorOpIn, "x")), "absent-key:In"
		default:
			return withReq(np, rng, gen.R(k, corev1.NodeSelectorOpGt, "0")), "absent-key:Gt"
		}
	}
	k := pick(rng, pres...)
	v := L[k]
	iv, numeric := isInt(v)
	n := 3
	if numeric {
		n = 7
	}
	switch rng.Intn(n) {
	case 0:
		return withReq(np, rng, gen.R(k, corev1.NodeSelectorOpNotIn, v)), "NotIn-current"
	case 1:
		return withReq(np, rng, gen.R(k, corev1.NodeSelectorOpIn, otherValue(k, v))), "In-other"
	case 2:
		return withReq(np, rng, gen.R(k, corev1.NodeSelectorOpDoesNotExist)), "DoesNotExist"
	case 3:
		return withReq(np, rng, gen.R(k, corev1.NodeSelectorOpGt, fmt.Sprint(iv))), "Gt-current"
	case 4:
		return withReq(np, rng, gen.R(k, corev1.NodeSelectorOpLt, fmt.Sprint(iv))), "Lt-current"
	case 5:
		return withReq(np, rng, gen.R(k, v1.NodeSelectorOpGte, fmt.Sprint(iv+1))), "Gte-above"
	default:
		if iv == 0 {
			return withReq(np, rng, gen.R(k, corev1.NodeSelectorOpLt, "0")), "Lt-current"
		}
		return withReq(np, rng, gen.R(k, v1.NodeSelectorOpLte, fmt.Sprint(iv-1))), "Lte-below"
	}
}

// benignReqEdit: an added / changed requirement the labels still satisfy.
func (x *e2e) benignReqEdit(np *v1.NodePool, L map[string]string) (*v1.NodePoolSpec, string) {
	rng := x.rng
	pres, abs := presentKeys(L), absentKeys(L)
	if len(pres) == 0 {
		return nil, ""
	}
	add := func(q gen.Req) *v1.NodePoolSpec { // always ADD (replacing could drop a requirement, which is benign too)
		spec := np.Spec.DeepCopy()
		spec.Template.Spec.Requirements = append(spec.Template.Spec.Requirements, q)
		return spec
	}
	if rng.Intn(5) == 0 && len(abs) > 0 {
		k := pick(rng, abs...)
		if rng.Intn(2) == 0 {
			return add(gen.R(k, corev1.NodeSelectorOpDoesNotExist)), "absent-key:DoesNotExist"
		}
		return add(gen.R(k, corev1.NodeSelectorOpNotIn, "x")), "absent-key:NotIn"
	}
	k := pick(rng, pres...)
	v := L[k]
	iv, numeric := isInt(v)
	n := 4
	if numeric {
		n = 8
	}
	switch rng.Intn(n) {
	case 0:
		return add(gen.R(k, corev1.NodeSelectorOpNotIn, otherValue(k, v))), "NotIn-other"
	case 1:
		return add(gen.R(k, corev1.NodeSelectorOpIn, v, otherValue(k, v))), "In-current+other"
	case 2:
		return add(gen.R(k, corev1.NodeSelectorOpExists)), "Exists"
	case 3:
		// drop one existing requirement (labels that satisfied a superset satisfy the subset)
		spec := np.Spec.DeepCopy()
		if len(spec.Template.Spec.Requirements) == 0 {
			return add(gen.R(k, corev1.NodeSelectorOpExists)), "Exists"
		}
		i := rng.Intn(len(spec.Template.Spec.Requirements))
		spec.Template.Spec.Requirements = append(append([]gen.Req{}, spec.Template.Spec.Requirements[:i]...), spec.Template.Spec.Requirements[i+1:]...)
		return spec, "drop-one"
	case 4:
		if iv == 0 {
			return add(gen.R(k, v1.NodeSelectorOpGte, "0")), "Gte-current"
		}
		return add(gen.R(k, corev1.NodeSelectorOpGt, fmt.Sprint(iv-1))), "Gt-below"
	case 5:
		return add(gen.R(k, corev1.NodeSelectorOpLt, fmt.Sprint(iv+1))), "Lt-above"
	case 6:
		return add(gen.R(k, v1.NodeSelectorOpGte, fmt.Sprint(iv))), "Gte-current"
	default:
		return add(gen.R(k, v1.NodeSelectorOpLte, fmt.Sprint(iv))), "Lte-current"
	}
}

// templateEdit: one edit of a hashed template field.
func (x *e2e) templateEdit(np *v1.NodePool) (*v1.NodePoolSpec, string) {
	rng := x.rng
	spec := np.Spec.DeepCopy()
	t := &spec.Template
	for try := 0; try < 6; try++ {
		switch rng.Intn(14) {
		case 0:
			if t.Labels == nil {
				t.Labels = map[string]string{}
			}
			t.Labels["example.com/added"] = "x"
			return spec, "label-add"
		case 1:
			if v, ok := t.Labels[labelStatic]; ok {
				t.Labels[labelStatic] = v + "2"
				return spec, "label-change"
			}
		case 2:
			if _, ok := t.Labels[labelStatic]; ok {
				delete(t.Labels, labelStatic)
				return spec, "label-remove"
			}
		case 3:
			if t.Annotations == nil {
				t.Annotations = map[string]string{}
			}
			t.Annotations["example.com/added"] = "x"
			return spec, "annotation-add"
		case 4:
			if v, ok := t.Annotations[annNote]; ok {
				t.Annotations[annNote] = v + "2"
				return spec, "annotation-change"
			}
		case 5:
			t.Spec.Taints = append(t.Spec.Taints, corev1.Taint{Key: "added", Value: "x", Effect: corev1.TaintEffectNoSchedule})
			return spec, "taint-add"
		case 6:
			if len(t.Spec.Taints) > 0 {
				i := rng.Intn(len(t.Spec.Taints))
				switch rng.Intn(3) {
				case 0:
					t.Spec.Taints[i].Value += "z"
					return spec, "taint-value"
				case 1:
					if t.Spec.Taints[i].Effect == corev1.TaintEffectNoSchedule {
						t.Spec.Taints[i].Effect = corev1.TaintEffectNoExecute
					} else {
						t.Spec.Taints[i].Effect = corev1.TaintEffectNoSchedule
					}
					return spec, "taint-effect"
				default:
					t.Spec.Taints[i].Key += "-k"
					return spec, "taint-key"
				}
			}
		case 7:
			if len(t.Spec.Taints) > 0 {
				i := rng.Intn(len(t.Spec.Taints))
				t.Spec.Taints = append(append([]corev1.Taint{}, t.Spec.Taints[:i]...), t.Spec.Taints[i+1:]...)
				return spec, "taint-remove"
			}
		case 8:
			t.Spec.StartupTaints = append(t.Spec.StartupTaints, corev1.Taint{Key: "startup-added", Effect: corev1.TaintEffectNoSchedule})
			return spec, "startuptaint-add"
		case 9:
			if len(t.Spec.StartupTaints) > 0 {
				if rng.Intn(2) == 0 {
					t.Spec.StartupTaints[0].Value += "z"
					return spec, "startuptaint-value"
				}
				t.Spec.StartupTaints = t.Spec.StartupTaints[1:]
				return spec, "startuptaint-remove"
			}
		case 10:
			cur := jsonOf(t.Spec.ExpireAfter)
			for _, cand := range []string{"2h", "Never", "720h"} {
				nd := v1.MustParseNillableDuration(cand)
				if jsonOf(nd) != cur && !(nd.Duration != nil && t.Spec.ExpireAfter.Duration != nil && *nd.Duration == *t.Spec.ExpireAfter.Duration) {
					t.Spec.ExpireAfter = nd
					return spec, "expireAfter->" + cand
				}
			}
		case 11:
			if t.Spec.TerminationGracePeriod == nil {
				d := metav1.Duration{Duration: pick(rng, 0, 45*time.Second)}
				t.Spec.TerminationGracePeriod = &d
				if d.Duration == 0 {
					return spec, "tgp-unset->0s"
				}
				return spec, "tgp-set"
			}
			if rng.Intn(2) == 0 {
				t.Spec.TerminationGracePeriod = nil
				return spec, "tgp-unset"
			}
			d := metav1.Duration{Duration: t.Spec.TerminationGracePeriod.Duration + time.Minute}
			t.Spec.TerminationGracePeriod = &d
			return spec, "tgp-change"
		case 12:
			if len(t.Spec.Taints) > 0 && len(t.Spec.StartupTaints) == 0 {
				// move a taint to startupTaints
				t.Spec.StartupTaints = []corev1.Taint{t.Spec.Taints[0]}
				t.Spec.Taints = t.Spec.Taints[1:]
				return spec, "taint->startuptaint"
			}
		case 13:
			ref := *t.Spec.NodeClassRef
			ref.Name = "other"
			t.Spec.NodeClassRef = &ref
			return spec, "nodeClassRef-name"
		}
	}
	return nil, ""
}

func rotate[T any](s []T) []T {
	if len(s) < 2 {
		return s
	}
	return append(append([]T{}, s[1:]...), s[0])
}

// benignPoolEdit: reorder every list / map of the template and edit the fields documented as non-drifting.
func (x *e2e) benignPoolEdit(np *v1.NodePool) (*v1.NodePoolSpec, string) {
	rng := x.rng
	spec := np.Spec.DeepCopy()
	var kinds []string
	t := &spec.Template
	if rng.Intn(2) == 0 {
		n := 0
		if len(t.Spec.Taints) > 1 {
			t.Spec.Taints = rotate(t.Spec.Taints)
			n++
		}
		if len(t.Spec.StartupTaints) > 1 {
			t.Spec.StartupTaints = rotate(t.Spec.StartupTaints)
			n++
		}
		if len(t.Spec.Requirements) > 1 {
			t.Spec.Requirements = rotate(t.Spec.Requirements)
			n++
		}
		for i := range t.Spec.Requirements {
			if len(t.Spec.Requirements[i].Values) > 1 {
				t.Spec.Requirements[i].Values = rotate(t.Spec.Requirements[i].Values)
				n++
			}
		}
		for _, m := range []*map[string]string{&t.Labels, &t.Annotations} {
			if len(*m) > 1 {
				keys := common.SortedKeys(*m)
				out := map[string]string{}
				for i := len(keys) - 1; i >= 0; i-- {
					out[keys[i]] = (*m)[keys[i]]
				}
				*m = out
				n++
			}
		}
		if n > 0 {
			kinds = append(kinds, "reorder")
		}
	}
	switch rng.Intn(5) {
	case 0:
		spec.Disruption.Budgets = []v1.Budget{{Nodes: fmt.Sprintf("%d%%", 5+rng.Intn(90))}, {Nodes: fmt.Sprint(rng.Intn(9)), Reasons: []v1.DisruptionReason{v1.DisruptionReasonEmpty}}}
		kinds = append(kinds, "budgets")
	case 1:
		spec.Limits = v1.Limits{corev1.ResourceCPU: gen.Q(fmt.Sprint(200000 + rng.Intn(1000))), corev1.ResourceMemory: gen.Q("100000Gi")}
		kinds = append(kinds, "limits")
	case 2:
		w := int32(1 + rng.Intn(100))
		if spec.Weight != nil && *spec.Weight == w {
			w = w%100 + 1
		}
		spec.Weight = &w
		kinds = append(kinds, "weight")
	case 3:
		if spec.Disruption.ConsolidationPolicy == v1.ConsolidationPolicyWhenEmpty {
			spec.Disruption.ConsolidationPolicy = v1.ConsolidationPolicyWhenEmptyOrUnderutilized
		} else {
			spec.Disruption.ConsolidationPolicy = v1.ConsolidationPolicyWhenEmpty
		}
		spec.Disruption.ConsolidateAfter = v1.MustParseNillableDuration(pick(rng, "5m", "17s", "Never"))
		kinds = append(kinds, "consolidation")
	default:
		// requirements on keys the claim does not care about are covered by (i'); here: minValues only
		for i := range t.Spec.Requirements {
			q := &t.Spec.Requirements[i]
			if q.Operator == corev1.NodeSelectorOpIn && len(q.Values) >= 1 && q.MinValues == nil {
				one := 1
				q.MinValues = &one
				kinds = append(kinds, "minValues")
				break
			}
		}
	}
	sort.Strings(kinds)
	if len(kinds) == 0 {
		spec.Disruption.Budgets = []v1.Budget{{Nodes: "33%"}}
		kinds = []string{"budgets"}
	}
	return spec, strings.Join(kinds, "+")
}
