//go:build all || c15

package all

import _ "verif/props/c15"
