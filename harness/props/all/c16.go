//go:build all || c16

package all

import _ "verif/props/c16"
