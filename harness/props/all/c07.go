//go:build all || c07

package all

import _ "verif/props/c07"
