//go:build all || c02

package all

import _ "verif/props/c02"
