// Package all links every property package into vharness.
package all

import (
	
	_ "verif/props/c20"
)
