//go:build all || c09

package all

import _ "verif/props/c09"
