//go:build all || c01

package all

import _ "verif/props/c01"
