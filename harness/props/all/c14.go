//go:build all || c14

package all

import _ "verif/props/c14"
