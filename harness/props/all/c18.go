//go:build all || c18

package all

import _ "verif/props/c18"
