// Package all links property packages into vharness: one file per property, each guarded by the
// build constraint `all || cNN`, so that a single property can be built in isolation.
package all
