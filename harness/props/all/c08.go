//go:build all || c08

package all

import _ "verif/props/c08"
