//go:build all || c13

package all

import _ "verif/props/c13"
