//go:build all || c11

package all

import _ "verif/props/c11"
