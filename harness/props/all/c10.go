//go:build all || c10

package all

import _ "verif/props/c10"
