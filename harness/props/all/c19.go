//go:build all || c19

package all

import _ "verif/props/c19"
