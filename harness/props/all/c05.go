//go:build all || c05

package all

import _ "verif/props/c05"
