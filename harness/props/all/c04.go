//go:build all || c04

package all

import _ "verif/props/c04"
