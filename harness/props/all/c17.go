//go:build all || c17

package all

import _ "verif/props/c17"
