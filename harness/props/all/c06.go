//go:build all || c06

package all

import _ "verif/props/c06"
