//go:build all || c03

package all

import _ "verif/props/c03"
