//go:build all || c20

package all

import _ "verif/props/c20"
