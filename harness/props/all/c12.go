//go:build all || c12

package all

import _ "verif/props/c12"
