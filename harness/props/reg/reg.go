// Package reg is the registry of property checkers run by cmd/vharness.
package reg

import (
	"math/rand"

	"verif/mon"
)

// Prop is one property's checker: a fixed, tier-determined list of cases, each executed
// against the real Karpenter code with monitors attached.
type Prop struct {
	ID    string
	Level string // exploration | fault_enumeration
	Rule  string // how cases are generated and what makes one non-trivial/distinct
	// Cases returns the number of cases for the tier (fixed; never a time budget).
	Cases func(tier string) int
	// Run executes case idx. rng is seeded from (seed, idx) only.
	Run func(r *mon.Report, tier string, idx int, rng *rand.Rand)
	// Race is true when the property wants its workload repeated in the -race binary.
	Race bool
	// RaceIsViolation: a data race between two Karpenter code paths refutes the property
	// (its quantifier ranges over schedules).
	RaceIsViolation bool
	// RaceFrac: fraction of the case list repeated in the -race binary, per tier.
	RaceFrac map[string]float64
	// MinObserved: counters that must reach the given value for the run to be conclusive.
	MinObserved map[string]int
	// Finish is called once per batch after the last case (optional).
	Finish func(r *mon.Report, tier string)
}

var Props = map[string]*Prop{}

func Register(p *Prop) { Props[p.ID] = p }

// CaseSeed derives the per-case seed.
func CaseSeed(seed int64, idx int) int64 {
	x := uint64(seed)*0x9E3779B97F4A7C15 + uint64(idx)*0xBF58476D1CE4E5B9 + 0x94D049BB133111EB
	x ^= x >> 30
	x *= 0xBF58476D1CE4E5B9
	x ^= x >> 27
	x *= 0x94D049BB133111EB
	x ^= x >> 31
	return int64(x & 0x7fffffffffffffff)
}
