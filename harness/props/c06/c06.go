// Package c06: consolidation keeps pods schedulable and strictly lowers cost.
package c06

import (
	"context"
	"fmt"
	"math"
	"math/rand"
	"sort"
	"strconv"
	"strings"
	"time"

	corev1 "k8s.io/api/core/v1"
	"k8s.io/apimachinery/pkg/api/resource"
	"k8s.io/apimachinery/pkg/types"

	v1 "sigs.k8s.io/karpenter/pkg/apis/v1"
	"sigs.k8s.io/karpenter/pkg/cloudprovider"
	"sigs.k8s.io/karpenter/pkg/controllers/disruption"
	"sigs.k8s.io/karpenter/pkg/operator/options"
	"sigs.k8s.io/karpenter/pkg/scheduling"
	"sigs.k8s.io/karpenter/pkg/test"

	"verif/gen"
	"verif/mon"
	"verif/oracle"
	"verif/props/common"
	"verif/props/reg"
	"verif/world"
)

func cases(tier string) int {
	if tier == "thorough" {
		return 8000
	}
	return 1600
}

// evictionCost re-implements the documented formula: 1 + deletionCost/2^27 + priority/2^25, clamped to [-10, 10].
func evictionCost(p *corev1.Pod) float64 {
	c := 1.0
	if s, ok := p.Annotations[corev1.PodDeletionCost]; ok {
		if f, err := strconv.ParseFloat(s, 64); err == nil {
			c += f / math.Pow(2, 27)
		}
	}
	if p.Spec.Priority != nil {
		c += float64(*p.Spec.Priority) / math.Pow(2, 25)
	}
	return math.Max(-10, math.Min(10, c))
}

func reschedulable(p *corev1.Pod) bool {
	if p.Status.Phase == corev1.PodSucceeded || p.Status.Phase == corev1.PodFailed {
		return false
	}
	sts := false
	for _, or := range p.OwnerReferences {
		if or.Kind == "DaemonSet" || or.Kind == "Node" {
			return false
		}
		if or.Kind == "StatefulSet" {
			sts = true
		}
	}
	if p.DeletionTimestamp != nil && !sts {
		return false
	}
	return true
}

// soldOut: instance types whose every offering the harness made unavailable during the validation wait of the current round.
var soldOut = map[string]bool{}

// minAdvertisedCapacity: the smallest ReservationCapacity any offering of any catalog advertises for the reservation id.
func minAdvertisedCapacity(d *common.DWorld, id string) int {
	min := -1
	for _, its := range d.Types {
		for _, it := range its {
			for _, of := range it.Offerings {
				if of.CapacityType() == v1.CapacityTypeReserved && of.ReservationID() == id && (min < 0 || of.ReservationCapacity < min) {
					min = of.ReservationCapacity
				}
			}
		}
	}
	return min
}

func run(r *mon.Report, tier string, idx int, rng *rand.Rand) {
	cfg := common.DefaultDCfg()
	s2s := rng.Intn(3) == 0
	opts, optDesc := common.RandomOptions(rng)
	opts.FeatureGates = test.FeatureGates{SpotToSpotConsolidation: &s2s}
	optDesc["spotToSpot"] = s2s
	cfg.Scenario.Catalog.Reserved = false
	if rng.Intn(3) == 0 {
		// capacity reservations, half of them exhausted (offering present but unavailable): a cheap unavailable offering must
		// not make an instance type look cheaper than it can launch
		yes := true
		opts.FeatureGates.ReservedCapacity = &yes
		cfg.Scenario.Catalog.Reserved = true
		cfg.Scenario.Catalog.PReservedUnavailable = 0.5
		optDesc["reservedCapacity"] = true
	}
	cfg.Scenario.Options = opts
	cfg.Scenario.Pod.PPreferred = 0
	if s2s && rng.Intn(2) == 0 {
		cfg.Scenario.Catalog.MinTypes, cfg.Scenario.Catalog.MaxTypes = 16, 24
	}
	cfg.Rounds = 2 + rng.Intn(4)
	cfg.PodsPerRound = 3 + rng.Intn(5)
	cfg.PDeletePod = []float64{0.3, 0.5, 0.7}[rng.Intn(3)]
	cfg.PDrift = 0
	cfg.ConsolidateAfter = []string{"0s", "0s", "0s", "30s"}
	cfg.SmallPods = rng.Intn(2) == 0
	d := common.BuildDisruption(rng, cfg)
	e := d.Env
	e.Provider.Policy = "random"
	r.Eval()
	// give some remaining pods non-positive / boundary eviction costs
	pods := &corev1.PodList{}
	_ = e.API.Raw.List(context.Background(), pods)
	for i := range pods.Items {
		p := &pods.Items[i]
		if !reschedulable(p) || rng.Intn(4) != 0 {
			continue
		}
		if p.Annotations == nil {
			p.Annotations = map[string]string{}
		}
		p.Annotations[corev1.PodDeletionCost] = []string{"-2147483647", "-134217728", "-134217727", "-134217729", "100000"}[rng.Intn(5)]
		e.Apply(p)
	}
	// sometimes freeze a pool at its current size (limit = current capacity): pods of its nodes can then only move to
	// existing nodes, and commands whose simulation leaves a pod unschedulable must not be accepted
	frozen := []string{}
	for _, np := range d.Pools {
		if rng.Intn(3) != 0 {
			continue
		}
		total := resource.MustParse("0")
		for _, inst := range e.Provider.Live() {
			if inst.Pool == np.Name {
				total.Add(inst.Capacity[corev1.ResourceCPU])
			}
		}
		cur := &v1.NodePool{}
		if e.API.Raw.Get(context.Background(), types.NamespacedName{Name: np.Name}, cur) == nil {
			cur.Spec.Limits = v1.Limits{corev1.ResourceCPU: total}
			e.Apply(cur)
			frozen = append(frozen, np.Name)
		}
	}
	_ = e.SyncState()
	caseDesc := map[string]any{"case": idx, "options": optDesc, "pools": d.Desc["pools"], "nodes": d.NodeInfo, "catalogs": d.Specs, "frozen_pools": frozen}
	// churn during the validation wait: some of the cheaper instance types sell out completely (every offering becomes
	// unavailable). The validator simulates again after the wait; a command whose replacement still lists a sold-out type is
	// not a subset of what is possible now and must be dropped.
	soldOut = map[string]bool{}
	savedDefault := e.Provider.Default
	savedCatalog := map[string][]*cloudprovider.InstanceType{}
	churned := false
	// the provider hands out NEW instance-type objects when availability changes (instance types are immutable
	// snapshots: Karpenter caches derived data on them), so the sold-out types are replaced, not edited in place
	soldOutCopy := func(it *cloudprovider.InstanceType) *cloudprovider.InstanceType {
		c := &cloudprovider.InstanceType{Name: it.Name, Requirements: it.Requirements, Capacity: it.Capacity, Overhead: it.Overhead}
		for _, of := range it.Offerings {
			o := *of
			o.Available = false
			c.Offerings = append(c.Offerings, &o)
		}
		return c
	}
	replace := func(its []*cloudprovider.InstanceType, names map[string]bool) []*cloudprovider.InstanceType {
		out := make([]*cloudprovider.InstanceType, len(its))
		for i, it := range its {
			if names[it.Name] {
				out[i] = soldOutCopy(it)
			} else {
				out[i] = it
			}
		}
		return out
	}
	e.Clock.OnWait(func(w time.Duration) {
		if w < 10*time.Second || churned || rng.Intn(2) != 0 {
			return
		}
		churned = true
		var all []*cloudprovider.InstanceType
		seen := map[string]bool{}
		for _, its := range d.Types {
			for _, it := range its {
				if !seen[it.Name] {
					seen[it.Name] = true
					all = append(all, it)
				}
			}
		}
		sort.Slice(all, func(i, j int) bool {
			ci, cj := all[i].Capacity[corev1.ResourceCPU], all[j].Capacity[corev1.ResourceCPU]
			if ci.Cmp(cj) != 0 {
				return ci.Cmp(cj) < 0
			}
			return all[i].Name < all[j].Name
		})
		for k := 0; k < 2 && len(all) > 1; k++ {
			soldOut[all[rng.Intn((len(all)+1)/2)].Name] = true // one of the smaller half
		}
		e.Provider.Default = replace(savedDefault, soldOut)
		for pool, its := range e.Provider.Catalog {
			if _, ok := savedCatalog[pool]; !ok {
				savedCatalog[pool] = its
			}
			e.Provider.Catalog[pool] = replace(savedCatalog[pool], soldOut)
		}
		r.Inc("validation_waits_during_which_instance_types_sold_out")
	})
	rounds := 2 + rng.Intn(4)
	for round := 0; round < rounds; round++ {
		churned = false
		cmds, err, panicked, pv, stack := d.Round()
		if panicked {
			r.Violate("panic-in-disruption-reconcile", fmt.Sprintf("%v", pv), caseDesc, stack)
			return
		}
		if err != nil {
			r.Inc("reconcile_errors")
		}
		for _, cmd := range cmds {
			judge(r, d, cmd, caseDesc, s2s)
		}
		// the sold-out types come back (for the next round)
		e.Provider.Default = savedDefault
		for pool, its := range savedCatalog {
			e.Provider.Catalog[pool] = its
		}
		soldOut = map[string]bool{}
		// commands stay in flight (their candidates keep their pods and are marked for deletion); most replacements come
		// up as far as Registered: managed, with room, NOT initialized - nothing of another candidate may be re-homed there
		for _, cmd := range cmds {
			for _, rep := range cmd.Replacements {
				if rep.Name == "" || rng.Intn(3) == 0 {
					continue
				}
				if _, _, err := e.DriveClaim(rep.Name, world.StageRegistered); err == nil {
					r.Inc("replacements_brought_up_to_registered_while_their_command_is_in_flight")
				}
			}
		}
		_ = e.SyncState()
	}
}

func judge(r *mon.Report, d *common.DWorld, cmd *disruption.Command, cs map[string]any, s2sGate bool) {
	e := d.Env
	respect := e.Opts.PreferencePolicy == options.PreferencePolicyRespect
	reason := cmd.Reason()
	r.Inc("commands:" + string(reason))
	if reason != v1.DisruptionReasonUnderutilized && reason != v1.DisruptionReasonEmpty {
		return
	}
	originals := common.SnapshotPods(e)
	candNames := map[string]bool{}
	var candDesc []string
	sum := 0.0
	allSpot := true
	var mustMove []*corev1.Pod
	for _, c := range cmd.Candidates {
		candNames[c.Name()] = true
		inst := e.Provider.Instance(c.NodeClaim.Status.ProviderID)
		if inst == nil {
			r.Inconcl("candidate %s has no provider instance", c.Name())
			return
		}
		sum += inst.Offering.Price
		if inst.Offering.CapacityType() != v1.CapacityTypeSpot {
			allSpot = false
		}
		candDesc = append(candDesc, fmt.Sprintf("%s %s %s/%s $%.4f", c.Name(), inst.Type.Name, inst.Offering.Zone(), inst.Offering.CapacityType(), inst.Offering.Price))
		if c.Node != nil {
			for _, p := range d.PodsOn(c.Node.Name) {
				if reschedulable(p) {
					mustMove = append(mustMove, p)
				}
			}
		}
	}
	witness := func(extra map[string]any) map[string]any {
		w := map[string]any{"command": cmd.String(), "candidates": candDesc, "candidate_price_sum": sum}
		for k, v := range extra {
			w[k] = v
		}
		return w
	}
	sigKind := fmt.Sprintf("%s|cands=%d|repl=%d|allspot=%v", reason, min(len(cmd.Candidates), 3), len(cmd.Replacements), allSpot)
	r.Sig("%s", sigKind)
	// ---- Empty: no reschedulable pod with a positive eviction cost ----
	if reason == v1.DisruptionReasonEmpty {
		r.Inc("empty_commands")
		for _, p := range mustMove {
			r.Inc("empty_pod_cost_checks")
			if c := evictionCost(p); c > 0 {
				r.Violate("node-deleted-as-empty-with-positive-cost-pod", fmt.Sprintf("Empty command removes a node hosting reschedulable pod %s whose eviction cost is %.9f > 0", p.Name, c), cs,
					witness(map[string]any{"pod": p.Name, "annotations": p.Annotations, "priority": p.Spec.Priority}))
			}
		}
		if len(cmd.Replacements) != 0 {
			r.Violate("empty-command-with-replacement", "Empty command carries a replacement", cs, witness(nil))
		}
		return
	}
	// ---- Underutilized ----
	r.Inc("consolidation_commands")
	if len(cmd.Replacements) > 1 {
		r.Violate("more-than-one-replacement", fmt.Sprintf("consolidation command with %d replacements", len(cmd.Replacements)), cs, witness(nil))
	}
	// every reschedulable pod of the candidates has a home in the command's simulation
	home := map[types.UID]string{}
	for _, en := range cmd.Results.ExistingNodes {
		for _, p := range en.Pods {
			home[p.UID] = "existing:" + en.Name()
		}
	}
	for _, nc := range cmd.Results.NewNodeClaims {
		for _, p := range nc.Pods {
			home[p.UID] = "replacement"
		}
	}
	for _, p := range mustMove {
		r.Inc("pods_to_rehome")
		if home[p.UID] == "" {
			r.Violate("reschedulable-pod-without-home", fmt.Sprintf("pod %s on a candidate node has no placement in the accepted command", p.Name), cs, witness(map[string]any{"pod": p.Name}))
		}
	}
	// placements on existing nodes: initialized, not a candidate, not deleting, admissible
	for _, en := range cmd.Results.ExistingNodes {
		if len(en.Pods) == 0 {
			continue
		}
		r.Inc("existing_targets_judged")
		if candNames[en.Name()] {
			r.Violate("pods-rehomed-onto-candidate", fmt.Sprintf("pods are placed on candidate node %s", en.Name()), cs, witness(nil))
			continue
		}
		why, kind, cn, judged := common.JudgeExisting(d.Scenario, en, originals)
		if !judged {
			continue
		}
		// pods of the candidates must land on initialized nodes
		for _, p := range en.Pods {
			o := originals[p.UID]
			if o != nil && o.Spec.NodeName != "" && candidateNode(cmd, o.Spec.NodeName) && kind != "initialized" && kind != "unmanaged" {
				r.Violate("pod-rehomed-onto-uninitialized-node", fmt.Sprintf("candidate pod %s is re-homed onto %s node %s", p.Name, kind, en.Name()), cs, witness(nil))
			}
		}
		if en.NodeClaim != nil && !en.NodeClaim.DeletionTimestamp.IsZero() {
			r.Violate("pod-rehomed-onto-deleting-node", fmt.Sprintf("node %s is being deleted", en.Name()), cs, witness(nil))
		}
		if why != "" {
			key := violKey("rehome-placement-inadmissible", why, en.Pods, respect)
			r.Violate(key, fmt.Sprintf("placement on %s node %s is not admissible: %s", kind, en.Name(), why), cs, witness(map[string]any{"node": cn, "pods": podSpecs(en.Pods)}))
		}
	}
	if len(cmd.Replacements) == 0 {
		return
	}
	// ---- the replacement ----
	nc := cmd.Replacements[0].NodeClaim
	r.Inc("replacements_judged")
	var placed []*corev1.Pod
	for _, p := range nc.Pods {
		if o := originals[p.UID]; o != nil {
			placed = append(placed, o)
		} else {
			placed = append(placed, p)
		}
	}
	daemons := d.DaemonPodTemplates()
	ctReq := nc.Requirements.Get(v1.CapacityTypeLabelKey)
	admitsSpot, admitsOD := ctReq.Has(v1.CapacityTypeSpot), ctReq.Has(v1.CapacityTypeOnDemand)
	launchable := 0
	for _, it := range nc.InstanceTypeOptions {
		if soldOut[it.Name] {
			r.Violate("replacement-lists-a-type-that-sold-out-during-validation", fmt.Sprintf("the accepted command's replacement still lists instance type %s, every offering of which became unavailable during the validation wait", it.Name), cs,
				witness(map[string]any{"option": it.Name}))
			break
		}
	}
	for _, it := range nc.InstanceTypeOptions {
		r.Inc("replacement_options_priced")
		// price: worst case over every available offering the final requirements admit
		worst, anyOf := -1.0, false
		var worstOf *cloudprovider.Offering
		for _, of := range it.Offerings {
			if !of.Available {
				continue
			}
			ok := true
			for k, q := range of.Requirements {
				if q.Operator() != corev1.NodeSelectorOpIn {
					continue
				}
				if req, has := nc.Requirements[k]; has && !req.Has(q.Values()[0]) {
					ok = false
				}
			}
			if !ok {
				continue
			}
			anyOf = true
			if of.Price > worst {
				worst, worstOf = of.Price, of
			}
		}
		if !anyOf {
			r.Inc("options_without_compatible_offering")
			continue
		}
		launchable++
		if !(worst < sum) {
			key := "replacement-not-strictly-cheaper"
			if worstOf.CapacityType() == v1.CapacityTypeOnDemand && admitsSpot {
				key = "on-demand-fallback-not-cheaper"
			}
			// classification: was the option priced by an AVAILABLE reserved offering below the candidates' price that the
			// claim is not pinned to, while the same reservation id is advertised with zero capacity elsewhere in the catalogs
			// (the ReservationManager tracks the smallest advertised capacity, so it refused to reserve)?
			if !ctReq.Has(v1.CapacityTypeReserved) {
				for _, of := range it.Offerings {
					if of.Available && of.CapacityType() == v1.CapacityTypeReserved && of.Price < sum && minAdvertisedCapacity(d, of.ReservationID()) == 0 {
						key += ":priced-by-available-reserved-offering-whose-id-is-advertised-with-zero-capacity-elsewhere"
						break
					}
				}
			}
			r.Violate(key, fmt.Sprintf("replacement option %s can launch in %s/%s at $%.4f which is not below the $%.4f of the nodes it replaces", it.Name, worstOf.Zone(), worstOf.CapacityType(), worst, sum), cs,
				witness(map[string]any{"requirements": nc.Requirements.String(), "option": it.Name}))
			break
		}
		ok, why, nodes, partial := common.OptionFeasible(nc, it, placed, daemons)
		r.Count("concrete_nodes_materialised", nodes)
		if partial {
			r.Inc("partial_enumerations")
		}
		if !ok && why != common.NoOffering {
			key := violKey("replacement-option-infeasible", why, nc.Pods, respect)
			if strings.HasSuffix(key, ":resources") {
				// would the option have fitted before consolidation pinned the capacity type (after the simulation)?
				relaxed := *nc
				relaxed.Requirements = scheduling.NewRequirements()
				for k, q := range nc.Requirements {
					if k != v1.CapacityTypeLabelKey {
						relaxed.Requirements[k] = q
					}
				}
				if ok2, _, _, _ := common.OptionFeasible(&relaxed, it, placed, daemons); ok2 {
					key = "capacity-type-pin-after-simulation-leaves-only-offerings-that-do-not-fit"
				}
			}
			r.Violate(key, fmt.Sprintf("replacement option %s does not admit the %d pods planned for it: %s", it.Name, len(placed), why), cs,
				witness(map[string]any{"requirements": nc.Requirements.String(), "pods": podSpecs(placed)}))
			break
		}
	}
	if launchable == 0 {
		// the replacement can never launch, so the command can never remove its candidates (C08): the pods keep their
		// homes and the statement is vacuous for this action; counted as a diagnostic only
		r.Inc("diagnostic_replacement_unlaunchable")
	}
	// on-demand candidates must not be replaced by a request that admits both spot and on-demand
	if !allSpot && admitsSpot && admitsOD {
		r.Violate("replacement-admits-spot-and-on-demand", "replacement of a non-spot node admits both spot and on-demand (priced as spot, may launch as on-demand)", cs, witness(map[string]any{"requirements": nc.Requirements.String()}))
	}
	// spot → spot
	if allSpot && admitsSpot {
		r.Inc("spot_to_spot_commands")
		if !s2sGate {
			r.Violate("spot-to-spot-with-gate-off", "all candidates are spot and the replacement admits spot although SpotToSpotConsolidation is disabled", cs, witness(map[string]any{"requirements": nc.Requirements.String()}))
		}
		if len(cmd.Candidates) == 1 && len(nc.InstanceTypeOptions) < 15 {
			r.Violate("spot-to-spot-single-node-with-too-few-options", fmt.Sprintf("single-node spot-to-spot replacement with only %d cheaper options (<15)", len(nc.InstanceTypeOptions)), cs, witness(nil))
		}
	}
	if r.WantSample() {
		var its []string
		for _, it := range nc.InstanceTypeOptions {
			its = append(its, it.Name)
		}
		r.Sample(witness(map[string]any{"replacement_requirements": nc.Requirements.String(), "replacement_options": its, "pods_on_replacement": common.PodNames(placed)}))
	}
}

func candidateNode(cmd *disruption.Command, node string) bool {
	for _, c := range cmd.Candidates {
		if c.Node != nil && c.Node.Name == node {
			return true
		}
	}
	return false
}

// violKey refines a refusal: unsatisfiable conjunctions that Karpenter represents as DoesNotExist get the key of
// the recorded finding; everything else is classified by the kind of refusal.
func violKey(prefix, why string, copies []*corev1.Pod, respect bool) string {
	if strings.Contains(why, "affinity") {
		for _, p := range copies {
			if strings.Contains(why, "pod "+p.Name+":") && len(oracle.CollapsedKeys(p, respect)) > 0 {
				return "unsat-conjunction-treated-as-DoesNotExist"
			}
		}
	}
	return prefix + ":" + classify(why)
}

func podSpecs(ps []*corev1.Pod) []map[string]any {
	var out []map[string]any
	for _, p := range ps {
		out = append(out, map[string]any{"name": p.Name, "requests": p.Spec.Containers[0].Resources.Requests, "nodeSelector": p.Spec.NodeSelector, "affinity": p.Spec.Affinity, "tolerations": p.Spec.Tolerations, "ports": p.Spec.Containers[0].Ports})
	}
	return out
}

func classify(why string) string {
	switch {
	case strings.Contains(why, "host port"):
		return "hostport"
	case strings.Contains(why, "taint"):
		return "taint"
	case strings.Contains(why, "affinity"):
		return "affinity"
	case strings.Contains(why, "requests"):
		return "resources"
	}
	return "other"
}

var _ = gen.Q

func init() {
	reg.Register(&reg.Prop{
		ID: "C06", Level: "exploration",
		Rule:  "each case = cluster grown through the real pipeline (2-5 provisioning rounds, hostile provider picking random launch choices → over-provisioned / underutilised / empty nodes after a fraction of the workload is removed), price tables with ties, spot/on-demand inversions and unavailable offerings, pools with WhenEmpty / WhenEmptyOrUnderutilized / Balanced policies, SpotToSpot gate both ways (16-24 types when on), pods with boundary eviction costs; 2-5 reconciles of the real disruption controller (all methods, 15 s validation on the virtual clock). Every Underutilized/Empty command that entered the orchestration queue is judged: homes for all reschedulable candidate pods (admissibility oracle), <=1 replacement, every replacement option strictly cheaper in its worst admitted launch, spot-to-spot and on-demand fallback rules, Empty only with non-positive eviction costs. Non-trivial = a command was judged; distinct by (reason, #candidates, #replacements, all-spot).",
		Cases: cases, Run: run,
		MinObserved: map[string]int{"consolidation_commands": 20, "empty_commands": 20},
	})
}
