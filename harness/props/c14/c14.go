// Package c14: a NodeClaim launches one instance and its lifecycle moves forward.
//
// One case = one generated scenario (world + pending pods → NodeClaims through the real
// Provisioner.Schedule/Create pipeline, a per-claim provider error plan, a per-claim kubelet plan and
// a PRNG-ordered script of {lifecycle reconcile (fresh or monotonically stale snapshot), kubelet step,
// clock step}) executed
//
//	once fault-free (the calls Karpenter makes are enumerated: K),
//	K times per error kind with one injected API/provider failure at call k,
//	K times with a crash point at call k (CrashSentinel recovered at the reconcile boundary, then
//	Env.Restart() = every in-memory component, including the launch cache, is thrown away).
//
// After the script every run continues with bounded fault-free rounds of {kubelet fix-up, fresh reconcile}.
//
// Monitors (all independent of the lifecycle code):
//
//	M1 at most one successful provider Create per NodeClaim UID per controller lifetime (provider call log
//	   split at restarts + provider ground truth),
//	M2 every provider Create happens while the *stored* NodeClaim carries the termination finalizer,
//	M3 synchronous PostWrite monitor on every NodeClaim write: Launched/Registered/Initialized become True only
//	   in that order and only if the observable precondition holds on the authoritative store / provider at that
//	   very instant; a condition never leaves True,
//	M4 a capacity error (InsufficientCapacity / NodeClassNotReady) is followed by deletion of the NodeClaim in the
//	   same reconcile (or within 3 further fresh reconciles when the delete call itself was the injected failure).
package c14

import (
	"context"
	"errors"
	"fmt"
	"math/rand"
	"sort"
	"strings"
	"time"

	corev1 "k8s.io/api/core/v1"
	apierrors "k8s.io/apimachinery/pkg/api/errors"
	metav1 "k8s.io/apimachinery/pkg/apis/meta/v1"
	"k8s.io/apimachinery/pkg/types"
	"sigs.k8s.io/controller-runtime/pkg/client"
	"sigs.k8s.io/controller-runtime/pkg/client/interceptor"
	"sigs.k8s.io/controller-runtime/pkg/controller/controllerutil"

	v1 "sigs.k8s.io/karpenter/pkg/apis/v1"
	"sigs.k8s.io/karpenter/pkg/cloudprovider"
	"sigs.k8s.io/karpenter/pkg/controllers/nodeclaim/lifecycle"

	"verif/gen"
	"verif/mon"
	"verif/props/common"
	"verif/props/reg"
	"verif/world"
)

const (
	msgICE    = "c14: insufficient capacity"
	msgNCNR   = "c14: nodeclass not ready"
	msgNatICE = "no instance type / offering satisfies the request"

	startupKeyA = "example.com/agent-not-ready"
	startupKeyB = "example.com/cni-not-ready"

	taintUninitialized = "node.cloudprovider.kubernetes.io/uninitialized"

	closingRounds = 12
	noAdvance     = 1 << 20
)

func isCapacityErr(s string) bool {
	return strings.Contains(s, msgICE) || strings.Contains(s, msgNCNR) || strings.Contains(s, msgNatICE)
}

func cases(tier string) int {
	if tier == "thorough" {
		return 800
	}
	return 120
}

// ---- scenario ----

type scen struct {
	Idx        int
	WorldSeed  int64
	ScriptSeed int64
	Policy     string
	Probe      bool     // outside-the-quantifier probe: readiness flaps + deep staleness (diagnostics)
	Expect     []string // NodeClaim names of the fault-free run (the world must rebuild identically)
}

type faultSpec struct {
	Kind       string // 500 409 404 429 timeout crash
	K          int
	WritesOnly bool
	Target     string // descriptor of call k in the fault-free run
}

func (f *faultSpec) String() string {
	if f == nil {
		return "none"
	}
	return fmt.Sprintf("%s@%d(%s)", f.Kind, f.K, f.Target)
}

type claimPlan struct {
	PErr     string // none generic1 generic2 createerr1 ice-sticky ice-once ncnr-sticky ncnr-once ice-in-createerr ncnr-in-createerr-once
	Reg      world.KubeletOpts
	ExtraEph []string
	AtOnce   bool // the node appears Ready, untainted (except unregistered) and with its resources reported
}

type step struct {
	Op    string // R K T
	C     int
	Stale int
	Act   string
	Dur   time.Duration
}

func (s step) String() string {
	switch s.Op {
	case "R":
		if s.Stale == noAdvance {
			return fmt.Sprintf("R%d~lag", s.C)
		}
		return fmt.Sprintf("R%d~%d", s.C, s.Stale)
	case "K":
		return fmt.Sprintf("K%d:%s", s.C, s.Act)
	case "X":
		return fmt.Sprintf("X%d:external-delete", s.C)
	}
	return fmt.Sprintf("T+%s", s.Dur)
}

type claimState struct {
	idx      int
	name     string
	uid      types.UID
	plan     claimPlan
	versions []*v1.NodeClaim // every stored version (nil = gone), oldest first
	floor    int             // oldest version the (monotone) informer cache may still serve
	// M4 bookkeeping
	capPending  bool
	capBudget   int
	capDeleted  bool
	createErrs  int
	wantStartup bool
	wantGPU     bool
}

type exec struct {
	r      *mon.Report
	sc     scen
	fault  *faultSpec
	e      *world.Env
	s      *common.Scenario
	claims []*claimState
	byName map[string]*claimState

	epoch       int
	epochStarts []int // index into provider calls where each epoch after the first begins
	curStale    bool
	curStep     string
	trace       []string
	sig         map[string]bool
	calls       []string // fault-free run: descriptor of every Karpenter call in order
	violated    bool
	crashed     int
	lc          *lifecycle.Controller // only for the lost-response fault kind (own client wrapper)
	lostSeen    int
	lostFired   bool
	desc        map[string]any
}

func (x *exec) tr(format string, a ...any) {
	if len(x.trace) < 400 {
		x.trace = append(x.trace, fmt.Sprintf(format, a...))
	}
}

func (x *exec) violate(key, what string, extra any) {
	x.violated = true
	x.r.Violate(key, what, x.desc, map[string]any{"fault": x.fault.String(), "step": x.curStep, "trace": append([]string(nil), x.trace...), "detail": extra, "events": x.eventTail(40)})
}

func (x *exec) eventTail(n int) []string {
	log := x.e.API.Log()
	if len(log) > n {
		log = log[len(log)-n:]
	}
	var out []string
	for _, ev := range log {
		inj := ""
		if ev.Injected {
			inj = " INJECTED"
		}
		out = append(out, fmt.Sprintf("#%d %s %s %s by %s err=%q%s", ev.Seq, ev.Verb, ev.Kind, ev.Key, ev.Caller, ev.Err, inj))
	}
	return out
}

// ---- world ----

func tolerateAll() gen.PodOpt {
	return gen.WithToleration(corev1.Toleration{Operator: corev1.TolerationOpExists})
}

func gpuType() gen.TypeSpec {
	spec := gen.TypeSpec{Name: "c14-gpu-c8-m16", CPU: 8, MemGi: 16, Pods: 16, GPU: 2, Arch: v1.ArchitectureAmd64, Family: "fa", Gen: 3}
	for _, z := range gen.Zones {
		for _, ct := range gen.CapTypes {
			spec.Offerings = append(spec.Offerings, gen.OfferingSpec{Zone: z, CapType: ct, Price: 1.9, Available: true})
		}
	}
	return spec
}

// build creates the world and the NodeClaims through the real pipeline. Deterministic in sc.WorldSeed (up to
// Go map iteration inside the scheduler).
func build(sc scen) (*common.Scenario, []string) {
	rng := rand.New(rand.NewSource(sc.WorldSeed))
	cfg := common.DefaultScenarioCfg()
	cfg.MinPools, cfg.MaxPools = 1, 2
	cfg.MaxDaemons = 1
	cfg.Unmanaged = false
	cfg.Pool.PTaint = 0.35
	cfg.Pool.PRequirement = 0.4
	s := common.Build(rng, cfg)
	e := s.Env
	e.Provider.Policy = sc.Policy
	hasGPU := false
	for _, it := range e.Provider.Default {
		if _, ok := it.Capacity[gen.ResGPU]; ok {
			hasGPU = true
		}
	}
	if !hasGPU {
		e.Provider.Default = append(e.Provider.Default, gen.BuildType(gpuType()))
	}
	for _, np := range s.Pools {
		switch rng.Intn(4) {
		case 0:
			np.Spec.Template.Spec.StartupTaints = []corev1.Taint{{Key: startupKeyA, Effect: corev1.TaintEffectNoExecute}}
		case 1:
			np.Spec.Template.Spec.StartupTaints = []corev1.Taint{{Key: startupKeyA, Effect: corev1.TaintEffectNoSchedule}, {Key: startupKeyB, Value: "true", Effect: corev1.TaintEffectNoSchedule}}
		}
		if len(np.Spec.Template.Spec.StartupTaints) > 0 {
			e.Apply(np)
		}
	}
	npods := 1 + rng.Intn(3)
	samePort := rng.Intn(5) < 2
	for i := 0; i < npods; i++ {
		opts := []gen.PodOpt{tolerateAll()}
		if rng.Intn(2) == 0 {
			opts = append(opts, gen.WithResource(gen.ResGPU, "1"))
		}
		if samePort {
			opts = append(opts, gen.WithHostPort(8000, corev1.ProtocolTCP, ""))
		}
		if rng.Intn(4) == 0 {
			opts = append(opts, gen.WithNodeSelector(corev1.LabelTopologyZone, gen.Zones[rng.Intn(3)]))
		}
		p := gen.Pod(s.NextPodName("p"), []int64{100, 500, 1500}[rng.Intn(3)], []int64{128, 512}[rng.Intn(2)], opts...)
		e.Apply(p)
	}
	if err := e.SyncState(); err != nil {
		return s, nil
	}
	res, err := e.Prov.Schedule(e.Ctx)
	if err != nil {
		return s, nil
	}
	var names []string
	for _, nc := range res.NewNodeClaims {
		name, err := e.Prov.Create(e.Ctx, nc)
		if err == nil {
			names = append(names, name)
		}
	}
	sort.Strings(names)
	if rng.Intn(5) == 0 {
		// a Node that is not Karpenter's and has no provider id (yet): joined but not stamped by the cloud controller manager,
		// or bare metal. It is nobody's registration target.
		e.Apply(&corev1.Node{ObjectMeta: metav1.ObjectMeta{Name: "foreign-node", Labels: map[string]string{corev1.LabelHostname: "foreign-node"}},
			Status: corev1.NodeStatus{Phase: corev1.NodeRunning, Conditions: []corev1.NodeCondition{{Type: corev1.NodeReady, Status: corev1.ConditionTrue}},
				Capacity:    corev1.ResourceList{corev1.ResourceCPU: gen.Q("4"), corev1.ResourceMemory: gen.Q("8Gi"), corev1.ResourcePods: gen.Q("10")},
				Allocatable: corev1.ResourceList{corev1.ResourceCPU: gen.Q("4"), corev1.ResourceMemory: gen.Q("8Gi"), corev1.ResourcePods: gen.Q("10")}}})
		s.Desc["foreignNodeWithoutProviderID"] = true
	}
	return s, names
}

// ---- plans and scripts ----

func genPlans(rng *rand.Rand, claims []*claimState) {
	perrs := []string{"none", "none", "none", "none", "none", "generic1", "generic2", "createerr1", "ice-sticky", "ice-sticky", "ice-once", "ncnr-sticky", "ncnr-once", "ice-in-createerr", "ncnr-in-createerr-once"}
	for _, c := range claims {
		p := claimPlan{PErr: perrs[rng.Intn(len(perrs))]}
		p.Reg = world.KubeletOpts{Ready: rng.Intn(5) == 0, NotReadyTaints: rng.Intn(10) < 7, ZeroExtended: rng.Intn(10) < 7, NoUnregistered: rng.Intn(6) == 0,
			StartupTaintVariant: []int{0, 0, 1, 2}[rng.Intn(4)]}
		for _, t := range []string{"notready-noexec", "unreachable", "uninit"} {
			if rng.Intn(4) == 0 {
				p.ExtraEph = append(p.ExtraEph, t)
			}
		}
		if rng.Intn(5) == 0 {
			p.AtOnce = true
			p.Reg.Ready, p.Reg.NotReadyTaints, p.Reg.ZeroExtended, p.ExtraEph = true, false, false, nil
		}
		c.plan = p
	}
}

func genScript(rng *rand.Rand, n int, probe bool) []step {
	lanes := make([][]step, n)
	maxStale := 3
	if probe {
		maxStale = 8
	}
	recon := func(c int) step {
		st := step{Op: "R", C: c}
		switch x := rng.Intn(100); {
		case probe && x < 55, x < 8:
			st.Stale = noAdvance // the informer cache has not moved since the last reconcile of this claim
		case x < 40:
			st.Stale = 1 + rng.Intn(maxStale)
		}
		return st
	}
	for c := 0; c < n; c++ {
		var l []step
		add := func(k int) {
			for i := 0; i < k; i++ {
				if rng.Intn(5) == 0 {
					l = append(l, step{Op: "T", Dur: time.Duration(1+rng.Intn(20)) * time.Second})
				}
				l = append(l, recon(c))
			}
		}
		if !probe && rng.Intn(10) == 0 {
			// the NodeClaim is deleted by someone else before its first reconcile has stored the finalizer (it vanishes at
			// once); the informer cache still serves the version from before the delete
			l = append(l, step{Op: "X", C: c}, step{Op: "R", C: c, Stale: 1})
		}
		add(2 + rng.Intn(2))
		acts := []string{"ready", "rm-startup", "rm-ephemeral", "report-ext"}
		rng.Shuffle(len(acts), func(i, j int) { acts[i], acts[j] = acts[j], acts[i] })
		acts = append([]string{"register"}, acts...)
		if probe {
			// a NotReady flap somewhere after registration, followed by recovery
			at := 1 + rng.Intn(len(acts))
			acts = append(acts[:at], append([]string{"flap-notready"}, acts[at:]...)...)
			acts = append(acts, "ready")
		}
		for _, a := range acts {
			l = append(l, step{Op: "K", C: c, Act: a})
			add([]int{0, 1, 1, 2}[rng.Intn(4)])
		}
		add(1 + rng.Intn(2))
		lanes[c] = l
	}
	var out []step
	for {
		var live []int
		for i, l := range lanes {
			if len(l) > 0 {
				live = append(live, i)
			}
		}
		if len(live) == 0 {
			return out
		}
		i := live[rng.Intn(len(live))]
		out = append(out, lanes[i][0])
		lanes[i] = lanes[i][1:]
	}
}

// ---- execution ----

func condStatus(nc *v1.NodeClaim, t string) string {
	if nc == nil {
		return ""
	}
	for _, c := range nc.Status.Conditions {
		if c.Type == t {
			return string(c.Status)
		}
	}
	return ""
}

func condTrue(nc *v1.NodeClaim, t string) bool { return condStatus(nc, t) == "True" }

func (x *exec) stored(name string) *v1.NodeClaim {
	nc := &v1.NodeClaim{}
	if x.e.API.Raw.Get(context.Background(), types.NamespacedName{Name: name}, nc) != nil {
		return nil
	}
	return nc
}

func sameContent(a, b *v1.NodeClaim) bool {
	if a == nil || b == nil {
		return a == b
	}
	ac, bc := a.DeepCopy(), b.DeepCopy()
	ac.ResourceVersion, bc.ResourceVersion = "", ""
	ac.ManagedFields, bc.ManagedFields = nil, nil
	return fmt.Sprintf("%v", ac) == fmt.Sprintf("%v", bc)
}

func (c *claimState) finalizerEverStored() bool {
	for _, v := range c.versions {
		if v != nil && controllerutil.ContainsFinalizer(v, v1.TerminationFinalizer) {
			return true
		}
	}
	return false
}

func (c *claimState) addVersion(nc *v1.NodeClaim) {
	if n := len(c.versions); n > 0 && sameContent(c.versions[n-1], nc) {
		if nc != nil {
			c.versions[n-1] = nc.DeepCopy() // same content, newer resourceVersion
		}
		return
	}
	if nc != nil {
		nc = nc.DeepCopy()
	}
	c.versions = append(c.versions, nc)
}

func (x *exec) nodesFor(providerID string) []*corev1.Node {
	if providerID == "" {
		return nil
	}
	nodes := &corev1.NodeList{}
	_ = x.e.API.Raw.List(context.Background(), nodes)
	var out []*corev1.Node
	for i := range nodes.Items {
		if nodes.Items[i].Spec.ProviderID == providerID {
			out = append(out, &nodes.Items[i])
		}
	}
	return out
}

func isExtended(n corev1.ResourceName) bool { return strings.Contains(string(n), "/") }

// knownEphemeral: the taints the statement calls "ephemeral" (documented list: not-ready NoSchedule/NoExecute,
// unreachable NoSchedule, cloud-provider uninitialized, karpenter unregistered).
func knownEphemeral(t corev1.Taint) bool {
	switch {
	case t.Key == corev1.TaintNodeNotReady && (t.Effect == corev1.TaintEffectNoSchedule || t.Effect == corev1.TaintEffectNoExecute):
		return true
	case t.Key == corev1.TaintNodeUnreachable && t.Effect == corev1.TaintEffectNoSchedule:
		return true
	case t.Key == taintUninitialized && t.Effect == corev1.TaintEffectNoSchedule:
		return true
	case t.Key == v1.UnregisteredTaintKey:
		return true
	}
	return false
}

func hasTaint(ts []corev1.Taint, key string, eff corev1.TaintEffect) bool {
	for _, t := range ts {
		if t.Key == key && t.Effect == eff {
			return true
		}
	}
	return false
}

// onWrite is the synchronous M3 monitor (runs inside every successful write, atomically with it).
func (x *exec) onWrite(ev *world.Event) {
	if ev.Kind != "NodeClaim" {
		return
	}
	cs := x.byName[ev.Key]
	if cs == nil {
		return
	}
	after, _ := ev.After.(*v1.NodeClaim)
	before, _ := ev.Before.(*v1.NodeClaim)
	cs.addVersion(after)
	if before == nil || after == nil {
		return
	}
	x.r.Inc("m3_nodeclaim_writes_observed")
	order := []string{v1.ConditionTypeLaunched, v1.ConditionTypeRegistered, v1.ConditionTypeInitialized}
	for i, t := range order {
		b, a := condTrue(before, t), condTrue(after, t)
		if b {
			x.r.Inc("m3_writes_on_true_condition")
		}
		if b && !a {
			w := map[string]any{"condition": t, "before": before.Status.Conditions, "after": after.Status.Conditions, "verb": ev.Verb, "caller": ev.Caller, "staleSnapshot": x.curStale}
			if x.curStale {
				// produced by a status merge patch computed from a lagging snapshot; the statement's clauses speak about
				// becoming True, so this is reported as a diagnostic (see final report), not as a refutation.
				mode := "in-quantifier"
				if x.sc.Probe {
					mode = "probe"
				}
				x.r.Inc("diag_condition_left_true_by_stale_patch:" + t + ":" + mode)
				x.sig["regress-stale:"+t] = true
				if _, have := x.r.Extra["diag_regress_witness"]; !have {
					x.r.Extra["diag_regress_witness"] = map[string]any{"kind": "diagnostic (not a verdict): condition left True through a status patch computed from a lagging snapshot", "mode": mode, "step": x.curStep, "scenario": x.desc, "witness": w, "trace": append([]string(nil), x.trace...)}
				}
			} else {
				x.violate("condition-left-true:"+t, fmt.Sprintf("NodeClaim %s: condition %s went from True to %q in a reconcile of the current stored object", cs.name, t, condStatus(after, t)), w)
			}
			continue
		}
		if b || !a {
			continue
		}
		// t became True in this write
		if x.curStale && cs.wasTrueBefore(t) {
			// a status patch computed from a lagging snapshot had taken the condition back (diagnostic above); this one,
			// computed from a lagging snapshot that already showed it True, re-asserts it without the sub-reconciler having
			// run. The transition that counts was the first one, judged then against the world of that moment.
			x.r.Inc("diag_condition_reasserted_by_stale_patch:" + t)
			continue
		}
		x.r.Inc("m3_became_true:" + t)
		x.sig["true:"+t] = true
		if i > 0 && !condTrue(after, order[i-1]) {
			x.violate("condition-order:"+t+"-before-"+order[i-1], fmt.Sprintf("NodeClaim %s: %s became True while %s is %q", cs.name, t, order[i-1], condStatus(after, order[i-1])),
				map[string]any{"conditions": after.Status.Conditions})
		}
		switch t {
		case v1.ConditionTypeLaunched:
			x.checkLaunched(cs, after)
		case v1.ConditionTypeRegistered:
			x.checkRegistered(cs, after)
		case v1.ConditionTypeInitialized:
			x.checkInitialized(cs, after)
		}
	}
}

// wasTrueBefore: some stored version older than the latest one already showed the condition True.
func (cs *claimState) wasTrueBefore(t string) bool {
	for i := 0; i < len(cs.versions)-1; i++ {
		if v := cs.versions[i]; v != nil && condTrue(v, t) {
			return true
		}
	}
	return false
}

func (x *exec) checkLaunched(cs *claimState, nc *v1.NodeClaim) {
	x.r.Inc("m3_precondition_checks")
	if nc.Status.ProviderID == "" {
		x.violate("launched-without-provider-id", fmt.Sprintf("NodeClaim %s: Launched=True stored with empty status.providerID", cs.name), nil)
		return
	}
	for _, in := range x.e.Provider.InstancesForUID(nc.UID) {
		if in.ProviderID == nc.Status.ProviderID && in.State != "gone" {
			return
		}
	}
	x.violate("launched-without-instance", fmt.Sprintf("NodeClaim %s: Launched=True stored but the provider has no live instance %q created for UID %s", cs.name, nc.Status.ProviderID, nc.UID), nil)
}

func (x *exec) checkRegistered(cs *claimState, nc *v1.NodeClaim) {
	x.r.Inc("m3_precondition_checks")
	nodes := x.nodesFor(nc.Status.ProviderID)
	if len(nodes) != 1 {
		x.violate("registered-without-node", fmt.Sprintf("NodeClaim %s: Registered=True stored while %d Nodes carry providerID %q", cs.name, len(nodes), nc.Status.ProviderID), nil)
		return
	}
	n := nodes[0]
	bad := func(what, detail string) {
		x.violate("registered-node-not-synced:"+what, fmt.Sprintf("NodeClaim %s: Registered=True stored while Node %s %s", cs.name, n.Name, detail),
			map[string]any{"nodeLabels": n.Labels, "nodeTaints": n.Spec.Taints, "nodeOwners": n.OwnerReferences, "nodeFinalizers": n.Finalizers, "claimLabels": nc.Labels, "claimTaints": nc.Spec.Taints, "claimStartupTaints": nc.Spec.StartupTaints})
	}
	for _, t := range n.Spec.Taints {
		if t.Key == v1.UnregisteredTaintKey {
			bad("unregistered-taint", "still carries the karpenter.sh/unregistered taint")
			return
		}
	}
	if n.Labels[v1.NodeRegisteredLabelKey] != "true" {
		bad("registered-label", "lacks the label karpenter.sh/registered=true")
		return
	}
	owned := false
	for _, o := range n.OwnerReferences {
		if o.UID == nc.UID && o.Kind == "NodeClaim" {
			owned = true
		}
	}
	if !owned {
		bad("owner-reference", "has no owner reference to the NodeClaim")
		return
	}
	hasFin := false
	for _, f := range n.Finalizers {
		if f == v1.TerminationFinalizer {
			hasFin = true
		}
	}
	if !hasFin {
		bad("finalizer", "lacks the termination finalizer")
		return
	}
	for k, v := range nc.Labels {
		if n.Labels[k] != v {
			bad("labels", fmt.Sprintf("lacks NodeClaim label %s=%s (node has %q)", k, v, n.Labels[k]))
			return
		}
	}
	for k, v := range nc.Annotations {
		if n.Annotations[k] != v {
			bad("annotations", fmt.Sprintf("lacks NodeClaim annotation %s", k))
			return
		}
	}
	if n.Labels[v1.NodeDoNotSyncTaintsLabelKey] != "true" {
		for _, t := range append(append([]corev1.Taint{}, nc.Spec.Taints...), nc.Spec.StartupTaints...) {
			if !hasTaint(n.Spec.Taints, t.Key, t.Effect) {
				bad("taints", fmt.Sprintf("lacks NodeClaim taint %s:%s", t.Key, t.Effect))
				return
			}
		}
	}
	if nc.Status.NodeName != n.Name {
		bad("node-name", fmt.Sprintf("is not named by status.nodeName=%q", nc.Status.NodeName))
	}
}

func (x *exec) checkInitialized(cs *claimState, nc *v1.NodeClaim) {
	x.r.Inc("m3_precondition_checks")
	nodes := x.nodesFor(nc.Status.ProviderID)
	if len(nodes) != 1 {
		x.violate("initialized-without-node", fmt.Sprintf("NodeClaim %s: Initialized=True stored while %d Nodes carry providerID %q", cs.name, len(nodes), nc.Status.ProviderID), nil)
		return
	}
	n := nodes[0]
	w := map[string]any{"nodeConditions": n.Status.Conditions, "nodeTaints": n.Spec.Taints, "allocatable": n.Status.Allocatable, "requests": nc.Spec.Resources.Requests, "startupTaints": nc.Spec.StartupTaints}
	ready := false
	for _, c := range n.Status.Conditions {
		if c.Type == corev1.NodeReady && c.Status == corev1.ConditionTrue {
			ready = true
		}
	}
	if !ready {
		x.violate("initialized-node-not-ready", fmt.Sprintf("NodeClaim %s: Initialized=True stored while Node %s is not Ready", cs.name, n.Name), w)
		return
	}
	for _, st := range nc.Spec.StartupTaints {
		if hasTaint(n.Spec.Taints, st.Key, st.Effect) {
			x.violate("initialized-with-startup-taint", fmt.Sprintf("NodeClaim %s: Initialized=True stored while Node %s still carries startup taint %s:%s", cs.name, n.Name, st.Key, st.Effect), w)
			return
		}
	}
	for _, t := range n.Spec.Taints {
		if knownEphemeral(t) {
			x.violate("initialized-with-ephemeral-taint", fmt.Sprintf("NodeClaim %s: Initialized=True stored while Node %s still carries ephemeral taint %s:%s", cs.name, n.Name, t.Key, t.Effect), w)
			return
		}
	}
	for name, q := range nc.Spec.Resources.Requests {
		if !isExtended(name) || q.IsZero() {
			continue
		}
		x.r.Inc("m3_extended_resource_checks")
		if a, ok := n.Status.Allocatable[name]; !ok || a.IsZero() {
			x.violate("initialized-without-extended-resource", fmt.Sprintf("NodeClaim %s: Initialized=True stored while Node %s reports no allocatable %s (requested %s)", cs.name, n.Name, name, q.String()), w)
			return
		}
	}
}

// ---- kubelet actor ----

func (x *exec) mutateNodes(cs *claimState, f func(n *corev1.Node, inst *world.Instance)) int {
	k := 0
	for _, inst := range x.e.Provider.InstancesForUID(cs.uid) {
		if inst.State == "gone" {
			continue
		}
		for _, n := range x.nodesFor(inst.ProviderID) {
			if n.DeletionTimestamp != nil {
				continue
			}
			f(n, inst)
			x.e.Apply(n)
			k++
		}
	}
	return k
}

func dropTaints(n *corev1.Node, drop func(t corev1.Taint) bool) {
	var keep []corev1.Taint
	for _, t := range n.Spec.Taints {
		if !drop(t) {
			keep = append(keep, t)
		}
	}
	n.Spec.Taints = keep
}

func setReady(n *corev1.Node, ready bool, now time.Time) {
	st := corev1.ConditionFalse
	if ready {
		st = corev1.ConditionTrue
	}
	var conds []corev1.NodeCondition
	for _, c := range n.Status.Conditions {
		if c.Type != corev1.NodeReady {
			conds = append(conds, c)
		}
	}
	n.Status.Conditions = append(conds, corev1.NodeCondition{Type: corev1.NodeReady, Status: st, Reason: "Kubelet"})
	_ = now
}

func (x *exec) startupTaintsOf(cs *claimState) []corev1.Taint {
	for i := len(cs.versions) - 1; i >= 0; i-- {
		if cs.versions[i] != nil {
			return cs.versions[i].Spec.StartupTaints
		}
	}
	return nil
}

func (x *exec) kubelet(cs *claimState, act string) int {
	e := x.e
	switch act {
	case "register":
		k := 0
		if x.stored(cs.name) == nil {
			return 0
		}
		for _, inst := range e.Provider.InstancesForUID(cs.uid) {
			if inst.State == "gone" || len(x.nodesFor(inst.ProviderID)) > 0 {
				continue
			}
			n := e.KubeletRegister(inst, cs.plan.Reg)
			for _, t := range cs.plan.ExtraEph {
				switch t {
				case "notready-noexec":
					n.Spec.Taints = append(n.Spec.Taints, corev1.Taint{Key: corev1.TaintNodeNotReady, Effect: corev1.TaintEffectNoExecute})
				case "unreachable":
					n.Spec.Taints = append(n.Spec.Taints, corev1.Taint{Key: corev1.TaintNodeUnreachable, Effect: corev1.TaintEffectNoSchedule})
				case "uninit":
					n.Spec.Taints = append(n.Spec.Taints, corev1.Taint{Key: taintUninitialized, Value: "true", Effect: corev1.TaintEffectNoSchedule})
				}
			}
			if cs.plan.AtOnce {
				st := x.startupTaintsOf(cs)
				dropTaints(n, func(t corev1.Taint) bool { return hasTaint(st, t.Key, t.Effect) })
			}
			if len(cs.plan.ExtraEph) > 0 || cs.plan.AtOnce {
				e.Apply(n)
			}
			k++
		}
		return k
	case "ready":
		return x.mutateNodes(cs, func(n *corev1.Node, _ *world.Instance) { setReady(n, true, e.Clock.Now()) })
	case "flap-notready":
		return x.mutateNodes(cs, func(n *corev1.Node, _ *world.Instance) { setReady(n, false, e.Clock.Now()) })
	case "rm-startup":
		st := x.startupTaintsOf(cs)
		return x.mutateNodes(cs, func(n *corev1.Node, _ *world.Instance) {
			dropTaints(n, func(t corev1.Taint) bool { return hasTaint(st, t.Key, t.Effect) })
		})
	case "rm-ephemeral":
		return x.mutateNodes(cs, func(n *corev1.Node, _ *world.Instance) {
			dropTaints(n, func(t corev1.Taint) bool { return knownEphemeral(t) && t.Key != v1.UnregisteredTaintKey })
		})
	case "report-ext":
		return x.mutateNodes(cs, func(n *corev1.Node, inst *world.Instance) {
			n.Status.Capacity, n.Status.Allocatable = inst.Capacity.DeepCopy(), inst.Allocatable.DeepCopy()
		})
	}
	return 0
}

// ---- reconcile step with per-step monitors ----

func (x *exec) successesInEpoch(uid types.UID, calls []world.ProviderCall) int {
	start := 0
	if len(x.epochStarts) > 0 {
		start = x.epochStarts[len(x.epochStarts)-1]
	}
	n := 0
	for i := start; i < len(calls); i++ {
		if calls[i].Verb == "create" && calls[i].ClaimUID == uid && calls[i].Err == "" {
			n++
		}
	}
	return n
}

func (x *exec) restart() {
	x.e.Restart()
	x.lc = nil
	x.epoch++
	x.crashed++
	x.epochStarts = append(x.epochStarts, len(x.e.Provider.CallsCopy()))
	for _, c := range x.claims {
		c.floor = len(c.versions) - 1 // a restarted controller lists before it reconciles
	}
	x.r.Inc("restarts")
}

func (x *exec) reconcile(cs *claimState, stale int) {
	e := x.e
	latest := len(cs.versions) - 1
	idx := latest - stale
	if idx < cs.floor {
		idx = cs.floor
	}
	cs.floor = idx
	snap := cs.versions[idx]
	if snap == nil {
		x.tr("%s: %s gone, nothing to reconcile", x.curStep, cs.name)
		return
	}
	isStale := idx != latest
	x.curStale = isStale
	x.r.Inc("reconciles")
	if isStale {
		x.r.Inc("reconciles_stale_snapshot")
		x.sig["stale"] = true
		if cs.versions[latest] == nil {
			x.r.Inc("diag_stale_reconcile_of_gone_claim")
		}
	}
	callsBefore := e.Provider.CallsCopy()
	logN := e.API.LogLen()
	hadSuccess := x.successesInEpoch(cs.uid, callsBefore) > 0
	storedNow := cs.versions[latest]
	antecedent := ""
	if hadSuccess && !condTrue(snap, v1.ConditionTypeLaunched) {
		switch {
		case storedNow != nil && !condTrue(storedNow, v1.ConditionTypeLaunched):
			antecedent = "status-not-persisted"
		default:
			antecedent = "snapshot-lags"
		}
		x.r.Inc("m1_reconcile_after_create_with_unlaunched_view:" + antecedent)
		x.sig["bridge:"+antecedent] = true
	}
	wasPending := cs.capPending
	var err error
	panicked, val, stack := mon.Guard(func() { _, err = x.controller().Reconcile(e.Ctx, snap.DeepCopy()) })
	crashed := false
	if panicked {
		if _, ok := val.(world.CrashSentinel); ok {
			crashed = true
		} else {
			x.violate("panic-in-lifecycle-reconcile", fmt.Sprintf("lifecycle Reconcile panicked: %v", val), stack)
		}
	}
	calls := e.Provider.CallsCopy()
	newCalls := calls[len(callsBefore):]
	creates, ok, capErr := 0, 0, 0
	for _, c := range newCalls {
		if c.Verb != "create" {
			continue
		}
		creates++
		x.r.Inc("provider_create_calls")
		// M2
		switch {
		case c.HadFinalizerInStore == nil && !cs.finalizerEverStored():
			// the NodeClaim is gone and never carried the finalizer: nothing will ever clean this instance up
			x.violate("create-before-finalizer-stored", fmt.Sprintf("provider Create for NodeClaim %s was called although no stored version of it ever carried the termination finalizer (the object is gone)", c.ClaimName), c)
		case c.HadFinalizerInStore == nil:
			x.r.Inc("diag_create_for_absent_claim")
		case !*c.HadFinalizerInStore:
			x.violate("create-before-finalizer-stored", fmt.Sprintf("provider Create for NodeClaim %s was called while the stored object lacks the termination finalizer", c.ClaimName), c)
		default:
			x.r.Inc("m2_creates_with_finalizer_in_store")
		}
		switch {
		case c.Err == "":
			ok++
			x.r.Inc("provider_create_success")
		case isCapacityErr(c.Err):
			capErr++
		default:
			x.r.Inc("provider_create_other_error")
		}
	}
	// M1 (incremental form; the whole-run form is in finish)
	if ok > 0 {
		x.sig["create"] = true
		if n := x.successesInEpoch(cs.uid, calls); n > 1 {
			x.violate("duplicate-create-same-controller-lifetime:"+dupClass(antecedent, isStale), fmt.Sprintf("NodeClaim %s (UID %s): %d successful provider Creates within one controller lifetime", cs.name, cs.uid, n),
				map[string]any{"antecedent": antecedent, "staleSnapshot": isStale, "instances": x.instanceIDs(cs.uid)})
		}
		if cs.capDeleted {
			if isStale {
				x.r.Inc("diag_create_after_capacity_delete_by_stale_reconcile")
			} else {
				x.violate("create-after-capacity-delete", fmt.Sprintf("NodeClaim %s was deleted for a capacity error and later launched successfully by a reconcile of the current object", cs.name), nil)
			}
		}
	}
	if antecedent != "" && ok == 0 && !crashed {
		x.r.Inc("m1_launch_bridged_without_second_create")
	}
	// M4
	now := x.stored(cs.name)
	deleted := now == nil || now.DeletionTimestamp != nil
	wasDeleted := storedNow == nil || storedNow.DeletionTimestamp != nil
	injectedDelete := crashed
	for _, ev := range e.API.LogSince(logN) {
		if ev.Injected && ev.Kind == "NodeClaim" && ev.Verb == "delete" {
			injectedDelete = true
		}
	}
	if capErr > 0 {
		x.r.Count("m4_capacity_errors", capErr)
		x.sig["capacity-error"] = true
		switch {
		case wasDeleted:
			x.r.Inc("m4_capacity_error_on_already_deleting_claim")
		case deleted:
			x.r.Inc("m4_deleted_in_same_reconcile")
			cs.capDeleted, cs.capPending = true, false
		case injectedDelete:
			x.r.Inc("m4_delete_was_the_injected_failure")
			x.sig["capacity-error-delete-faulted"] = true
			cs.capPending, cs.capBudget = true, 3
		default:
			x.violate("capacity-error-not-deleted", fmt.Sprintf("NodeClaim %s: provider Create returned a capacity error and the NodeClaim was not deleted by the end of that reconcile (no injected failure on the delete)", cs.name),
				map[string]any{"providerCalls": newCalls})
		}
	} else if wasPending {
		switch {
		case deleted:
			x.r.Inc("m4_deleted_after_retry")
			cs.capDeleted, cs.capPending = true, false
		case ok > 0:
			x.r.Inc("m4_retry_launched_after_failed_delete")
			cs.capPending = false
		case !isStale && !crashed:
			cs.capBudget--
			if cs.capBudget <= 0 {
				cs.capPending = false
				x.violate("capacity-error-not-deleted-after-retries", fmt.Sprintf("NodeClaim %s: capacity error, injected failure on the delete, and still not deleted after 3 further fault-free fresh reconciles", cs.name), nil)
			}
		}
	}
	es := ""
	if err != nil {
		es = err.Error()
		if len(es) > 90 {
			es = es[:90]
		}
	}
	x.tr("%s: %s view=v%d/%d creates=%d ok=%d capErr=%d crashed=%v err=%q -> L=%s R=%s I=%s del=%v", x.curStep, cs.name, idx, latest, creates, ok, capErr, crashed, es,
		condStatus(now, v1.ConditionTypeLaunched), condStatus(now, v1.ConditionTypeRegistered), condStatus(now, v1.ConditionTypeInitialized), deleted)
	x.curStale = false
	if crashed {
		x.restart()
	}
}

// controller returns the real lifecycle controller. For the "lost" fault kind it is built (with its real
// constructor) over a thin wrapper of the intercepted client that lets the k-th API write go through and then
// reports a timeout to the caller: the write was applied, the response was lost.
func (x *exec) controller() *lifecycle.Controller {
	if x.fault == nil || x.fault.Kind != "lost" {
		return x.e.Lifecycle()
	}
	if x.lc != nil {
		return x.lc
	}
	lost := func(err error) error {
		x.lostSeen++
		if err != nil {
			return err
		}
		if x.lostSeen == x.fault.K {
			x.lostFired = true
			x.tr("%s: write applied, response lost", x.curStep)
			return apierrors.NewTimeoutError("c14: response lost after the write was applied", 1)
		}
		return nil
	}
	under := x.e.API.Client.(client.WithWatch)
	wrapped := interceptor.NewClient(under, interceptor.Funcs{
		Create: func(ctx context.Context, c client.WithWatch, obj client.Object, opts ...client.CreateOption) error {
			return lost(c.Create(ctx, obj, opts...))
		},
		Update: func(ctx context.Context, c client.WithWatch, obj client.Object, opts ...client.UpdateOption) error {
			return lost(c.Update(ctx, obj, opts...))
		},
		Delete: func(ctx context.Context, c client.WithWatch, obj client.Object, opts ...client.DeleteOption) error {
			return lost(c.Delete(ctx, obj, opts...))
		},
		Patch: func(ctx context.Context, c client.WithWatch, obj client.Object, patch client.Patch, opts ...client.PatchOption) error {
			return lost(c.Patch(ctx, obj, patch, opts...))
		},
		SubResourceUpdate: func(ctx context.Context, c client.Client, sub string, obj client.Object, opts ...client.SubResourceUpdateOption) error {
			return lost(c.SubResource(sub).Update(ctx, obj, opts...))
		},
		SubResourcePatch: func(ctx context.Context, c client.Client, sub string, obj client.Object, patch client.Patch, opts ...client.SubResourcePatchOption) error {
			return lost(c.SubResource(sub).Patch(ctx, obj, patch, opts...))
		},
	})
	x.lc = lifecycle.NewController(x.e.Clock, wrapped, x.e.Provider, x.e.Recorder, x.e.NPHealth, nil)
	return x.lc
}

func dupClass(antecedent string, stale bool) string {
	switch {
	case antecedent != "":
		return antecedent
	case stale:
		return "stale-snapshot"
	}
	return "fresh"
}

func (x *exec) instanceIDs(uid types.UID) []string {
	var out []string
	for _, in := range x.e.Provider.InstancesForUID(uid) {
		out = append(out, in.ProviderID+"("+in.State+")")
	}
	sort.Strings(out)
	return out
}

func isWrite(verb, _, _ string) bool {
	return verb != "get" && verb != "list" && verb != "provider-get" && verb != "provider-list"
}

// execute runs the scenario once under the given fault. Returns the executed context (nil when the world
// produced no NodeClaim).
func execute(r *mon.Report, sc scen, f *faultSpec) *exec {
	s, names := build(sc)
	if len(names) == 0 {
		return nil
	}
	if sc.Expect != nil && strings.Join(names, ",") != strings.Join(sc.Expect, ",") {
		// Go map iteration inside the scheduler made the pipeline produce different claims: the call index of the
		// fault-free run does not apply to this world
		r.Inc("world_rebuild_mismatch_skipped")
		return nil
	}
	e := s.Env
	x := &exec{r: r, sc: sc, fault: f, e: e, s: s, byName: map[string]*claimState{}, sig: map[string]bool{}}
	for i, n := range names {
		nc := x.stored(n)
		if nc == nil {
			continue
		}
		cs := &claimState{idx: i, name: n, uid: nc.UID, wantStartup: len(nc.Spec.StartupTaints) > 0}
		for name, q := range nc.Spec.Resources.Requests {
			if isExtended(name) && !q.IsZero() {
				cs.wantGPU = true
			}
		}
		cs.versions = []*v1.NodeClaim{nc}
		x.claims = append(x.claims, cs)
		x.byName[n] = cs
	}
	rs := rand.New(rand.NewSource(sc.ScriptSeed))
	genPlans(rs, x.claims)
	script := genScript(rs, len(x.claims), sc.Probe)
	var planDesc []map[string]any
	for _, c := range x.claims {
		planDesc = append(planDesc, map[string]any{"claim": c.name, "providerErr": c.plan.PErr, "register": c.plan.Reg, "extraEphemeralTaints": c.plan.ExtraEph, "nodeAppearsCompleteAtOnce": c.plan.AtOnce, "startupTaints": c.wantStartup, "extendedResource": c.wantGPU})
	}
	var ss []string
	for _, st := range script {
		ss = append(ss, st.String())
	}
	x.desc = map[string]any{"case": sc.Idx, "worldSeed": sc.WorldSeed, "scriptSeed": sc.ScriptSeed, "providerPolicy": sc.Policy, "probe": sc.Probe, "claims": planDesc, "script": strings.Join(ss, " "), "fault": f.String(), "pools": s.Desc["pools"]}
	// provider error plan
	counts := map[string]int{}
	byName := x.byName
	e.Provider.CreateErrFn = func(nc *v1.NodeClaim) error {
		cs := byName[nc.Name]
		if cs == nil {
			return nil
		}
		n := counts[nc.Name]
		counts[nc.Name]++
		switch cs.plan.PErr {
		case "generic1", "generic2":
			if n < int(cs.plan.PErr[len(cs.plan.PErr)-1]-'0') {
				return errors.New("c14: transient provider failure")
			}
		case "createerr1":
			if n < 1 {
				return cloudprovider.NewCreateError(errors.New("c14: quota"), "QuotaExceeded", "c14: quota exceeded")
			}
		case "ice-sticky":
			return cloudprovider.NewInsufficientCapacityError(errors.New(msgICE))
		case "ice-once":
			if n < 1 {
				return cloudprovider.NewInsufficientCapacityError(errors.New(msgICE))
			}
		case "ice-in-createerr":
			// the shape real providers return: the capacity error wrapped by the CreateError that carries the condition reason
			return cloudprovider.NewCreateError(fmt.Errorf("creating instance, %w", cloudprovider.NewInsufficientCapacityError(errors.New(msgICE))), "InstanceCreationFailed", "c14: no capacity")
		case "ncnr-in-createerr-once":
			if n < 1 {
				return cloudprovider.NewCreateError(fmt.Errorf("resolving nodeclass, %w", cloudprovider.NewNodeClassNotReadyError(errors.New(msgNCNR))), "NodeClassNotReady", "c14: nodeclass not ready")
			}
		case "ncnr-sticky":
			return cloudprovider.NewNodeClassNotReadyError(errors.New(msgNCNR))
		case "ncnr-once":
			if n < 1 {
				return cloudprovider.NewNodeClassNotReadyError(errors.New(msgNCNR))
			}
		}
		return nil
	}
	e.API.PostWrite = append(e.API.PostWrite, x.onWrite)
	// faults
	var wf *world.Fault
	if f == nil {
		wf = &world.Fault{AtCall: 1 << 30, Kind: "500", Match: func(verb, kind, caller string) bool {
			x.calls = append(x.calls, verb+":"+kind)
			return true
		}}
	} else if f.Kind == "lost" {
		wf = &world.Fault{AtCall: 1 << 30, Kind: "500"}
	} else {
		wf = &world.Fault{AtCall: f.K, Kind: f.Kind}
		if f.WritesOnly {
			wf.Match = isWrite
		}
	}
	e.API.SetFaults(wf)
	e.API.StartCounting()
	for i, st := range script {
		x.curStep = fmt.Sprintf("%d:%s", i, st)
		switch st.Op {
		case "T":
			e.Clock.Step(st.Dur)
		case "K":
			n := x.kubelet(x.claims[st.C], st.Act)
			if n > 0 {
				x.r.Inc("kubelet_steps_applied:" + st.Act)
				x.tr("%s: applied to %d node(s)", x.curStep, n)
			}
		case "R":
			x.reconcile(x.claims[st.C], st.Stale)
		case "X":
			cs := x.claims[st.C]
			if nc := x.stored(cs.name); nc != nil {
				_ = e.API.Raw.Delete(context.Background(), nc)
				cs.addVersion(x.stored(cs.name))
				x.r.Inc("external_deletes_before_first_reconcile")
				x.sig["external-delete"] = true
			}
		}
	}
	// closing phase: fault-free (a one-shot fault that has not fired yet may still fire here), bounded
	for round := 0; round < closingRounds && !x.allDone(); round++ {
		for _, cs := range x.claims {
			if x.done(cs) {
				continue
			}
			for _, a := range []string{"register", "ready", "rm-ephemeral", "rm-startup", "report-ext"} {
				x.kubelet(cs, a)
			}
			x.curStep = fmt.Sprintf("closing%d:R%d", round, cs.idx)
			e.Clock.Step(2 * time.Second)
			x.reconcile(cs, 0)
		}
	}
	x.finish(wf)
	return x
}

func (x *exec) done(cs *claimState) bool {
	nc := x.stored(cs.name)
	return nc == nil || nc.DeletionTimestamp != nil || condTrue(nc, v1.ConditionTypeInitialized)
}

func (x *exec) allDone() bool {
	for _, cs := range x.claims {
		if !x.done(cs) || cs.capPending {
			return false
		}
	}
	return true
}

func (x *exec) finish(wf *world.Fault) {
	r := x.r
	r.Eval()
	r.Inc("runs")
	if x.sc.Probe {
		r.Inc("runs_probe_outside_quantifier")
	} else if x.fault == nil {
		r.Inc("runs_fault_free")
	} else {
		r.Inc("runs_fault:" + x.fault.Kind)
		if wf.Fired || x.lostFired {
			r.Inc("faults_fired:" + x.fault.Kind)
		} else {
			r.Inc("faults_not_fired")
		}
	}
	calls := x.e.Provider.CallsCopy()
	// M1 whole-run form: successful creates per (UID, epoch) from the provider call log; ground truth cross-check.
	bounds := append([]int{0}, x.epochStarts...)
	bounds = append(bounds, len(calls))
	for _, cs := range x.claims {
		total := 0
		epochsWith := 0
		for ep := 0; ep+1 < len(bounds); ep++ {
			n := 0
			for i := bounds[ep]; i < bounds[ep+1]; i++ {
				if calls[i].Verb == "create" && calls[i].ClaimUID == cs.uid && calls[i].Err == "" {
					n++
				}
			}
			r.Inc("m1_uid_lifetimes_checked")
			if n > 1 {
				x.violate("duplicate-create-same-controller-lifetime:whole-run", fmt.Sprintf("NodeClaim %s (UID %s): %d successful provider Creates in controller lifetime %d", cs.name, cs.uid, n, ep), map[string]any{"instances": x.instanceIDs(cs.uid)})
			}
			if n > 0 {
				epochsWith++
			}
			total += n
		}
		if epochsWith > 1 {
			r.Inc("diag_second_create_after_restart")
			x.sig["recreate-after-restart"] = true
		}
		if got := len(x.e.Provider.InstancesForUID(cs.uid)); got != total {
			x.violate("provider-ground-truth-mismatch", fmt.Sprintf("NodeClaim %s: provider holds %d instances for the UID but the call log shows %d successful creates", cs.name, got, total), nil)
		}
		// end state / bounded progress
		nc := x.stored(cs.name)
		switch {
		case nc == nil || nc.DeletionTimestamp != nil:
			r.Inc("end_deleted")
			x.sig["end:deleted"] = true
		case condTrue(nc, v1.ConditionTypeInitialized):
			r.Inc("end_initialized")
			x.sig["end:initialized"] = true
		default:
			r.Inc("end_no_progress")
			r.Inconcl("case %d fault %s: NodeClaim %s neither Initialized nor deleted after %d fault-free closing rounds (L=%s R=%s I=%s, providerErr=%s)", x.sc.Idx, x.fault.String(), cs.name, closingRounds,
				condStatus(nc, v1.ConditionTypeLaunched), condStatus(nc, v1.ConditionTypeRegistered), condStatus(nc, v1.ConditionTypeInitialized), cs.plan.PErr)
		}
		if cs.capPending {
			r.Inc("m4_obligation_open_at_end")
			r.Inconcl("case %d fault %s: NodeClaim %s capacity-error obligation still open at the end of the run", x.sc.Idx, x.fault.String(), cs.name)
		}
		// diagnostics outside the statement
		if nc == nil {
			for _, in := range x.e.Provider.InstancesForUID(cs.uid) {
				if in.State != "gone" {
					r.Inc("diag_live_instance_of_gone_claim")
					if _, have := r.Extra["diag_leak_witness"]; !have {
						r.Extra["diag_leak_witness"] = map[string]any{"kind": "diagnostic (outside C14's statement): NodeClaim gone while an instance created for its UID is still running", "instance": in.ProviderID, "scenario": x.desc, "trace": append([]string(nil), x.trace...), "events": x.eventTail(25)}
					}
				}
			}
		}
		if cs.wantStartup {
			x.sig["startup-taints"] = true
		}
		if cs.wantGPU {
			x.sig["extended-resource"] = true
		}
		x.sig["perr:"+cs.plan.PErr] = true
	}
	tgt := "none"
	if x.fault != nil {
		tgt = x.fault.Kind + "@" + x.fault.Target
	}
	if x.sc.Probe {
		tgt = "probe"
	}
	r.Sig("fault=%s|%s", tgt, strings.Join(common.SortedKeys(x.sig), ","))
	r.DistinctAdd("fault_targets", tgt)
	if x.fault != nil && (wf.Fired || x.lostFired) && r.WantSample() {
		for _, k := range []string{"bridge:status-not-persisted", "capacity-error-delete-faulted", "recreate-after-restart"} {
			if x.sig[k] && !sampled[k] {
				sampled[k] = true
				tr := x.trace
				if len(tr) > 120 {
					tr = tr[:120]
				}
				r.Sample(map[string]any{"why": k, "scenario": x.desc, "trace": tr, "events": x.eventTail(30)})
				break
			}
		}
	}
}

var sampled = map[string]bool{}

func run(r *mon.Report, tier string, idx int, rng *rand.Rand) {
	sc := scen{Idx: idx, WorldSeed: rng.Int63(), ScriptSeed: rng.Int63(), Policy: []string{"cheapest", "dearest", "random", "largest"}[rng.Intn(4)]}
	base := execute(r, sc, nil)
	if base == nil {
		r.Inc("scenarios_without_nodeclaim")
		return
	}
	r.Inc("scenarios")
	sc.Expect = nil
	for _, c := range base.claims {
		sc.Expect = append(sc.Expect, c.name)
	}
	r.Count("claims_in_scenarios", len(base.claims))
	r.Count("fault_free_calls_K", len(base.calls))
	var writes []string
	for _, c := range base.calls {
		p := strings.SplitN(c, ":", 2)
		if isWrite(p[0], "", "") {
			writes = append(writes, c)
		}
	}
	r.Count("fault_free_write_calls_Kw", len(writes))
	kinds := []string{"500", "409", "404"}
	targets, writesOnly := writes, true
	if tier == "thorough" {
		kinds = []string{"500", "409", "404", "429", "timeout"}
		targets, writesOnly = base.calls, false
	}
	for _, kind := range kinds {
		for k := 1; k <= len(targets); k++ {
			execute(r, sc, &faultSpec{Kind: kind, K: k, WritesOnly: writesOnly, Target: targets[k-1]})
		}
	}
	for k := 1; k <= len(writes); k++ {
		execute(r, sc, &faultSpec{Kind: "crash", K: k, WritesOnly: true, Target: writes[k-1]})
	}
	// lost responses: the k-th API write is applied and the caller is told it timed out
	var apiWrites []string
	for _, w := range writes {
		if !strings.HasPrefix(w, "provider-") {
			apiWrites = append(apiWrites, w)
		}
	}
	for k := 1; k <= len(apiWrites); k++ {
		execute(r, sc, &faultSpec{Kind: "lost", K: k, WritesOnly: true, Target: apiWrites[k-1]})
	}
	// probe outside the quantifier (readiness flaps, deep cache lag): diagnostics only for regressions
	psc := sc
	psc.Probe = true
	execute(r, psc, nil)
}

func init() {
	reg.Register(&reg.Prop{
		ID: "C14", Level: "fault_enumeration",
		Rule:  "each case = generated scenario: world (catalog incl. an extended-resource type, 1-2 NodePools with taints / 0-2 startup taints, 0-1 daemonset) + 1-3 pending pods (half request verif.io/gpu, host-port conflicts force several claims) -> NodeClaims through the real Provisioner.Schedule/Create; per claim a provider error plan {none, generic x1/x2, CreateError, ICE sticky/once, NodeClassNotReady sticky/once, ICE / NodeClassNotReady wrapped inside a CreateError} and a kubelet plan (register with/without unregistered taint, not-ready/unreachable/uninitialized taints, zeroed extended resources, Ready at once or later); PRNG-interleaved script of lifecycle reconciles (32% on a monotonically stale snapshot up to 3 stored versions old, 8% on a cache that did not advance at all since the claim's previous reconcile), kubelet steps {register, ready, remove startup taints, remove ephemeral taints, report extended resources} in every order, clock steps, for one claim in ten an external delete before its first reconcile followed by a reconcile of the cached pre-delete copy; run once fault-free (K calls enumerated), then once per (error kind, call k) [quick: 500, 409, 404 on every API write and provider call; thorough: 500, 409, 404, 429, timeout on every call incl. reads], once per crash point k (CrashSentinel at write k, recovered at the reconcile boundary, Env.Restart()), once per lost response k (API write k applied, caller told it timed out), each followed by <=12 fault-free closing rounds of {kubelet fix-up, fresh reconcile}; plus one probe run outside the quantifier (NotReady flaps, 55% non-advancing cache) whose True->Unknown regressions are diagnostics only. One evaluation = one run. Non-trivial = a monitor antecedent fired; distinct by (fault kind x faulted call x antecedents/features seen).",
		Cases: cases, Run: run,
		MinObserved: map[string]int{
			"provider_create_success":                                             50,
			"m2_creates_with_finalizer_in_store":                                  50,
			"m1_reconcile_after_create_with_unlaunched_view:status-not-persisted": 10,
			"m1_reconcile_after_create_with_unlaunched_view:snapshot-lags":        10,
			"m1_launch_bridged_without_second_create":                             20,
			"m3_became_true:Launched":                                             50,
			"m3_became_true:Registered":                                           50,
			"m3_became_true:Initialized":                                          50,
			"m3_extended_resource_checks":                                         10,
			"m4_capacity_errors":                                                  20,
			"m4_deleted_in_same_reconcile":                                        20,
			"m4_delete_was_the_injected_failure":                                  3,
			"restarts":                                                            20,
			"faults_fired:500":                                                    100,
			"faults_fired:409":                                                    100,
			"faults_fired:crash":                                                  100,
			"faults_fired:lost":                                                   50,
		},
	})
}
