package c03

import (
	"fmt"
	"math/rand"
	"reflect"
	"runtime"
	"sort"
	"strings"
	"sync"
	"sync/atomic"
	"time"
	"unsafe"

	"github.com/anishathalye/porcupine"
	metav1 "k8s.io/apimachinery/pkg/apis/meta/v1"

	v1 "sigs.k8s.io/karpenter/pkg/apis/v1"
	"sigs.k8s.io/karpenter/pkg/controllers/state"

	"verif/mon"
)

const (
	opReserve = iota
	opRelease
	opUpdate
	opMarkActive
	opMarkDeleting
	opMarkPending
	opCleanup
	opCount
)

var mopNames = []string{"Reserve", "Release", "UpdateNodeClaim", "MarkActive", "MarkDeleting", "MarkPendingDisruption", "Cleanup", "GetNodeCount"}

type mop struct {
	Op    int
	Pool  string
	Claim string
	Limit int64
	N     int64
	Del   bool
}

func (o mop) String() string {
	switch o.Op {
	case opReserve:
		return fmt.Sprintf("Reserve(%s,limit=%d,want=%d)", o.Pool, o.Limit, o.N)
	case opRelease:
		return fmt.Sprintf("Release(%s,%d)", o.Pool, o.N)
	case opUpdate:
		return fmt.Sprintf("UpdateNodeClaim(%s,deleting=%v)", o.Claim, o.Del)
	case opCleanup:
		return fmt.Sprintf("Cleanup(%s)", o.Claim)
	case opCount:
		return fmt.Sprintf("GetNodeCount(%s)", o.Pool)
	}
	return fmt.Sprintf("%s(%s)", mopNames[o.Op], o.Claim)
}

type mout struct {
	Granted int64
	A, D, P int
	Panic   string
}

func (o mout) String() string {
	if o.Panic != "" {
		return "PANIC"
	}
	return fmt.Sprintf("granted=%d counts=(%d,%d,%d)", o.Granted, o.A, o.D, o.P)
}

func poolOfClaim(c string) string { return c[:strings.Index(c, "/")] }

// apply executes one operation on the real NodePoolState.
func applyOp(nps *state.NodePoolState, o mop) (out mout) {
	panicked, val, stack := mon.Guard(func() {
		switch o.Op {
		case opReserve:
			out.Granted = nps.ReserveNodeCount(o.Pool, o.Limit, o.N)
		case opRelease:
			nps.ReleaseNodeCount(o.Pool, o.N)
		case opUpdate:
			nps.UpdateNodeClaim(&v1.NodeClaim{ObjectMeta: metav1.ObjectMeta{Name: o.Claim, Labels: map[string]string{v1.NodePoolLabelKey: o.Pool}}}, o.Del)
		case opMarkActive:
			nps.SetNodeClaimMapping(o.Pool, o.Claim)
			nps.MarkNodeClaimActive(o.Pool, o.Claim)
		case opMarkDeleting:
			nps.SetNodeClaimMapping(o.Pool, o.Claim)
			nps.MarkNodeClaimDeleting(o.Pool, o.Claim)
		case opMarkPending:
			nps.SetNodeClaimMapping(o.Pool, o.Claim)
			nps.MarkNodeClaimPendingDisruption(o.Pool, o.Claim)
		case opCleanup:
			nps.Cleanup(o.Claim)
		case opCount:
			out.A, out.D, out.P = nps.GetNodeCount(o.Pool)
		}
	})
	if panicked {
		out.Panic = fmt.Sprintf("%v @ %s", val, panicSite(stack))
	}
	return
}

// reservedOf reads the private reservation counters (read-only, at quiescent points only).
func reservedOf(nps *state.NodePoolState) map[string]int64 {
	f := reflect.ValueOf(nps).Elem().FieldByName("nodePoolNameToNodePoolLimit")
	if !f.IsValid() {
		return nil
	}
	m, ok := reflect.NewAt(f.Type(), unsafe.Pointer(f.UnsafeAddr())).Elem().Interface().(map[string]*atomic.Int64)
	if !ok {
		return nil
	}
	out := map[string]int64{}
	for k, v := range m {
		if v != nil {
			out[k] = v.Load()
		}
	}
	return out
}

// ---- diagnostic sequential model (documented semantics) for porcupine ----
// state string: "A:a,b|D:c|P:d|R:2"

type mstate struct {
	A, D, P map[string]bool
	R       int64
}

func parseM(s string) mstate {
	st := mstate{A: map[string]bool{}, D: map[string]bool{}, P: map[string]bool{}}
	if s == "" {
		return st
	}
	parts := strings.Split(s, "|")
	for i, set := range []map[string]bool{st.A, st.D, st.P} {
		for _, c := range strings.Split(parts[i], ",") {
			if c != "" {
				set[c] = true
			}
		}
	}
	fmt.Sscanf(parts[3], "%d", &st.R)
	return st
}

func (m mstate) String() string {
	ks := func(s map[string]bool) string {
		var l []string
		for k := range s {
			l = append(l, k)
		}
		sort.Strings(l)
		return strings.Join(l, ",")
	}
	return fmt.Sprintf("%s|%s|%s|%d", ks(m.A), ks(m.D), ks(m.P), m.R)
}

func (m mstate) used() int64 { return int64(len(m.A)+len(m.D)+len(m.P)) + m.R }

// microModel: Reserve grants min(want, limit-used) (0 when negative); Release subtracts with floor 0; marks move a
// claim between the three sets; Cleanup removes only the named claim; reservations and pending-disruption entries
// survive a Cleanup; no operation panics.
var microModel = porcupine.Model{
	Partition: func(history []porcupine.Operation) [][]porcupine.Operation {
		by := map[string][]porcupine.Operation{}
		for _, op := range history {
			in := op.Input.(mop)
			p := in.Pool
			if p == "" {
				p = poolOfClaim(in.Claim)
			}
			by[p] = append(by[p], op)
		}
		var out [][]porcupine.Operation
		for _, v := range by {
			out = append(out, v)
		}
		return out
	},
	Init: func() any { return "" },
	Step: func(st, input, output any) (bool, any) {
		m := parseM(st.(string))
		in, out := input.(mop), output.(mout)
		if out.Panic != "" {
			return false, st
		}
		move := func(to map[string]bool) {
			delete(m.A, in.Claim)
			delete(m.D, in.Claim)
			delete(m.P, in.Claim)
			to[in.Claim] = true
		}
		switch in.Op {
		case opReserve:
			rem := in.Limit - m.used()
			g := in.N
			if rem < 0 {
				g = 0
			} else if g > rem {
				g = rem
			}
			if out.Granted != g {
				return false, st
			}
			m.R += g
		case opRelease:
			m.R -= in.N
			if m.R < 0 {
				m.R = 0
			}
		case opUpdate:
			if in.Del {
				move(m.D)
			} else {
				move(m.A)
			}
		case opMarkActive:
			move(m.A)
		case opMarkDeleting:
			move(m.D)
		case opMarkPending:
			move(m.P)
		case opCleanup:
			delete(m.A, in.Claim)
			delete(m.D, in.Claim)
			delete(m.P, in.Claim)
		case opCount:
			if out.A != len(m.A) || out.D != len(m.D) || out.P != len(m.P) {
				return false, st
			}
		}
		return true, m.String()
	},
	Equal:             func(a, b any) bool { return a.(string) == b.(string) },
	DescribeOperation: func(in, out any) string { return fmt.Sprintf("%v -> %v", in, out) },
}

// ---- ground truth kept by the harness ----

type microTruth struct {
	limit       map[string]int64
	members     map[string]map[string]bool // pool -> claims introduced and not yet cleaned up
	outstanding map[string]int64           // pool -> grants not yet released
}

func (t *microTruth) sum(pool string) int64 { return int64(len(t.members[pool])) + t.outstanding[pool] }

type microRun struct {
	r        *mon.Report
	nps      *state.NodePoolState
	truth    *microTruth
	hist     []string
	ops      []porcupine.Operation
	mu       sync.Mutex
	clock    int64
	caseDesc map[string]any
	reported map[string]bool
	cleanups atomic.Int64
}

func (m *microRun) record(client int, o mop, call int64, out mout, ret int64) {
	m.mu.Lock()
	m.ops = append(m.ops, porcupine.Operation{ClientId: client, Input: o, Call: call, Output: out, Return: ret})
	m.hist = append(m.hist, fmt.Sprintf("g%d [%d,%d] %v -> %v", client, call, ret, o, out))
	m.mu.Unlock()
}

func (m *microRun) do(client int, o mop) mout {
	call := atomic.AddInt64(&m.clock, 1)
	out := applyOp(m.nps, o)
	ret := atomic.AddInt64(&m.clock, 1)
	if o.Op == opCleanup {
		m.cleanups.Add(1)
	}
	m.record(client, o, call, out, ret)
	m.r.Inc("micro_ops")
	if out.Panic != "" {
		site := out.Panic[strings.LastIndex(out.Panic, "@ ")+2:]
		key := "micro-panic:" + site
		m.mu.Lock()
		dup := m.reported[key]
		m.reported[key] = true
		m.mu.Unlock()
		m.r.Inc("micro_panics")
		if !dup {
			m.mu.Lock()
			h := append([]string(nil), m.hist...)
			m.mu.Unlock()
			m.r.Violate(key, fmt.Sprintf("%v panicked on a bare NodePoolState: %s", o, out.Panic), m.caseDesc, map[string]any{"history": h})
		}
	}
	if o.Op == opCount && (out.A < 0 || out.D < 0 || out.P < 0) {
		m.r.Violate("micro-negative-count", fmt.Sprintf("%v returned a negative count %v", o, out), m.caseDesc, map[string]any{"history": m.hist})
	}
	return out
}

// barrier evaluates the deciding invariant at a quiescent point: outstanding grants + existing claims <= max(limit, before).
func (m *microRun) barrier(where string, before map[string]int64) {
	res := reservedOf(m.nps)
	for pool, lim := range m.truth.limit {
		m.r.Inc("micro_barrier_checks")
		if v, ok := res[pool]; ok && v < 0 {
			m.r.Violate("micro-negative-reservation", fmt.Sprintf("reservation counter of %s is %d", pool, v), m.caseDesc, map[string]any{"history": m.hist})
		}
		bound := lim
		if b := before[pool]; b > bound {
			bound = b
		}
		got := m.truth.sum(pool)
		if got <= bound {
			continue
		}
		a, dd, p := m.nps.GetNodeCount(pool)
		class := "without-any-cleanup"
		if m.cleanups.Load() > 0 {
			class = "after-cleanup-gc"
		}
		cause := "not visible in the final state (entry re-created after the grant)"
		switch {
		case int64(a+dd+p) < int64(len(m.truth.members[pool])) && res[pool] < m.truth.outstanding[pool]:
			cause = "cleanup-dropped-pending-entries-and-reservation"
		case int64(a+dd+p) < int64(len(m.truth.members[pool])):
			cause = "cleanup-dropped-pending-disruption-entries"
		case res[pool] < m.truth.outstanding[pool]:
			cause = "cleanup-dropped-live-reservation"
		}
		key := "micro-reserve-overgrant:" + class
		if m.reported[key] {
			continue
		}
		m.reported[key] = true
		var mem []string
		for c := range m.truth.members[pool] {
			mem = append(mem, c)
		}
		sort.Strings(mem)
		m.r.Violate(key, fmt.Sprintf("%s: pool %s limit=%d but %d claims exist (not cleaned up) + %d grants outstanding = %d; ReserveNodeCount granted beyond limit-(active+deleting+pending+reserved)",
			where, pool, lim, len(mem), m.truth.outstanding[pool], got), m.caseDesc,
			map[string]any{"pool": pool, "limit": lim, "cause": cause, "existing_claims": mem, "outstanding_grants": m.truth.outstanding[pool], "state_counts": []int{a, dd, p}, "state_reserved": res[pool], "history": m.hist})
	}
}

func (m *microRun) sums() map[string]int64 {
	out := map[string]int64{}
	for p := range m.truth.limit {
		out[p] = m.truth.sum(p)
	}
	return out
}

func sortedMembers(s map[string]bool) []string {
	var l []string
	for k := range s {
		l = append(l, k)
	}
	sort.Strings(l)
	return l
}

// runLaunchStorm: the pattern of the real launch path on a bare NodePoolState. Several "reconcilers" reserve nodes against
// the limit and launch every granted NodeClaim from a goroutine of its own (UpdateNodeClaim -> the claim is active, then
// ReleaseNodeCount: the reservation has turned into a claim); a terminator keeps removing claims so that there is always
// something to provision. At every instant active + deleting + pending must stay within the limit: every claim that
// exists was covered by a reservation when it was created.
func runLaunchStorm(r *mon.Report, rng *rand.Rand, iters int) {
	nps := state.NewNodePoolState()
	const pool = "storm"
	limit := int64(3 + rng.Intn(4))
	var seq int64
	var mu sync.Mutex
	live := []string{}
	var bad atomic.Value
	var stop atomic.Bool
	claim := func(name string) *v1.NodeClaim {
		return &v1.NodeClaim{ObjectMeta: metav1.ObjectMeta{Name: name, Labels: map[string]string{v1.NodePoolLabelKey: pool}}}
	}
	check := func(where string) {
		a, d, p := nps.GetNodeCount(pool)
		if int64(a+d+p) > limit && bad.Load() == nil {
			bad.Store(fmt.Sprintf("%s: NodePool has %d NodeClaims (active=%d deleting=%d pending=%d), node limit is %d", where, a+d+p, a, d, p, limit))
			stop.Store(true)
		}
	}
	var wg sync.WaitGroup
	nRec := 4 + rng.Intn(5)
	var grants int64
	for g := 0; g < nRec; g++ {
		wg.Add(1)
		want := int64(1 + rng.Intn(3))
		go func() {
			defer wg.Done()
			for i := 0; i < iters && !stop.Load(); i++ {
				n := nps.ReserveNodeCount(pool, limit, want)
				var lw sync.WaitGroup
				for k := int64(0); k < n; k++ {
					lw.Add(1)
					go func() {
						defer lw.Done()
						name := fmt.Sprintf("c%d", atomic.AddInt64(&seq, 1))
						nps.UpdateNodeClaim(claim(name), false)
						check("after a granted NodeClaim became active")
						nps.ReleaseNodeCount(pool, 1)
						mu.Lock()
						live = append(live, name)
						mu.Unlock()
					}()
				}
				lw.Wait()
				atomic.AddInt64(&grants, n)
			}
		}()
	}
	wg.Add(1)
	go func() { // terminator
		defer wg.Done()
		for i := 0; i < iters*nRec && !stop.Load(); i++ {
			mu.Lock()
			var name string
			if len(live) > 0 {
				name, live = live[0], live[1:]
			}
			mu.Unlock()
			if name == "" {
				runtime.Gosched()
				continue
			}
			nps.UpdateNodeClaim(claim(name), true)
			nps.Cleanup(name)
		}
	}()
	wg.Wait()
	r.Count("micro_launch_storm_grants", int(atomic.LoadInt64(&grants)))
	if v := bad.Load(); v != nil {
		r.Violate("micro-node-limit-exceeded:concurrent-reserve-launch-release", fmt.Sprintf("bare NodePoolState, %d reconcilers reserving and launching concurrently: %s", nRec, v.(string)), map[string]any{"limit": limit, "reconcilers": nRec}, nil)
	}
}

func runMicro(r *mon.Report, tier string, idx, ord int, rng *rand.Rand) {
	if ord%4 == 0 {
		runLaunchStorm(r, rng, 1500)
	}
	nps := state.NewNodePoolState()
	npools := 1 + rng.Intn(2)
	truth := &microTruth{limit: map[string]int64{}, members: map[string]map[string]bool{}, outstanding: map[string]int64{}}
	var pools []string
	for i := 0; i < npools; i++ {
		p := fmt.Sprintf("p%d", i)
		pools = append(pools, p)
		truth.limit[p] = int64(1 + rng.Intn(6))
		truth.members[p] = map[string]bool{}
	}
	m := &microRun{r: r, nps: nps, truth: truth, reported: map[string]bool{}}
	sequential := ord%3 == 0
	nG := 8 + rng.Intn(9)
	m.caseDesc = map[string]any{"case": idx, "kind": "micro", "ordinal": ord, "sequential": sequential, "goroutines": nG, "limits": truth.limit}
	r.Eval()
	r.Inc("micro_histories")
	claimSeq := 0
	newClaim := func(p string) string { claimSeq++; return fmt.Sprintf("%s/c%d", p, claimSeq) }
	budget := 60
	grantsChecked := 0

	if sequential {
		// one goroutine, exact check after every Reserve
		for budget > 0 {
			budget--
			p := pools[rng.Intn(len(pools))]
			mem := sortedMembers(truth.members[p])
			var o mop
			switch x := rng.Intn(100); {
			case x < 22:
				o = mop{Op: opReserve, Pool: p, Limit: truth.limit[p], N: int64(1 + rng.Intn(3))}
			case x < 34 && truth.outstanding[p] > 0:
				o = mop{Op: opRelease, Pool: p, N: 1 + rng.Int63n(truth.outstanding[p])}
			case x < 50 && truth.sum(p) < truth.limit[p]+1:
				o = mop{Op: opUpdate, Pool: p, Claim: newClaim(p), Del: rng.Intn(4) == 0}
			case x < 78 && len(mem) > 0:
				o = mop{Op: []int{opMarkActive, opMarkDeleting, opMarkPending, opMarkPending, opUpdate}[rng.Intn(5)], Pool: p, Claim: mem[rng.Intn(len(mem))], Del: rng.Intn(2) == 0}
			case x < 92 && len(mem) > 0:
				o = mop{Op: opCleanup, Claim: mem[rng.Intn(len(mem))]}
			default:
				o = mop{Op: opCount, Pool: p}
			}
			before := truth.sum(p)
			out := m.do(0, o)
			switch o.Op {
			case opReserve:
				if out.Panic != "" {
					break
				}
				truth.outstanding[p] += out.Granted
				grantsChecked++
				r.Inc("micro_reserve_grants_checked")
				allowed := truth.limit[p] - before
				if allowed < 0 {
					allowed = 0
				}
				if out.Granted > allowed {
					bm := m.sums()
					bm[p] = before
					m.barrier(fmt.Sprintf("sequential, right after %v -> %d", o, out.Granted), bm)
				}
				if out.Granted > 0 {
					r.Inc("micro_positive_grants")
				}
			case opRelease:
				if out.Panic == "" {
					truth.outstanding[p] -= o.N
				}
			case opUpdate, opMarkActive, opMarkDeleting, opMarkPending:
				if out.Panic == "" {
					truth.members[p][o.Claim] = true
				}
			case opCleanup:
				if out.Panic == "" {
					delete(truth.members[poolOfClaim(o.Claim)], o.Claim)
				}
			}
		}
		m.barrier("end of sequential history", m.sums())
	} else {
		phases := 2 + rng.Intn(3)
		for ph := 0; ph < phases && budget > 0; ph++ {
			reservePhase := ph%2 == 1
			n := budget
			if ph < phases-1 {
				n = budget / (phases - ph)
			}
			budget -= n
			before := m.sums()
			// plan per goroutine (plans only depend on the rng, not on outcomes, except releases of own grants)
			plans := make([][]mop, nG)
			var cleanSet = map[string]bool{}
			transition := map[string][]string{}
			if reservePhase {
				for _, p := range pools {
					for _, c := range sortedMembers(truth.members[p]) {
						if rng.Intn(2) == 0 {
							cleanSet[c] = true
						} else {
							transition[p] = append(transition[p], c)
						}
					}
				}
			}
			cleanList := sortedMembers(cleanSet)
			for k := 0; k < n; k++ {
				g := rng.Intn(nG)
				p := pools[rng.Intn(len(pools))]
				var o mop
				if !reservePhase {
					mem := sortedMembers(truth.members[p])
					switch x := rng.Intn(100); {
					case x < 45 && int64(len(truth.members[p])) < truth.limit[p]:
						c := newClaim(p)
						truth.members[p][c] = true // introduced in this phase
						o = mop{Op: []int{opUpdate, opUpdate, opMarkActive, opMarkDeleting}[rng.Intn(4)], Pool: p, Claim: c, Del: rng.Intn(4) == 0}
					case x < 85 && len(mem) > 0:
						o = mop{Op: []int{opMarkActive, opMarkDeleting, opMarkPending, opMarkPending, opUpdate}[rng.Intn(5)], Pool: p, Claim: mem[rng.Intn(len(mem))], Del: rng.Intn(2) == 0}
					default:
						o = mop{Op: opCount, Pool: p}
					}
				} else {
					switch x := rng.Intn(100); {
					case x < 35:
						o = mop{Op: opReserve, Pool: p, Limit: truth.limit[p], N: int64(1 + rng.Intn(3))}
					case x < 50:
						o = mop{Op: opRelease, Pool: p, N: 1} // executed only if this goroutine holds a grant
					case x < 72 && len(cleanList) > 0:
						o = mop{Op: opCleanup, Claim: cleanList[rng.Intn(len(cleanList))]}
					case x < 90 && len(transition[p]) > 0:
						o = mop{Op: []int{opMarkActive, opMarkDeleting, opMarkPending, opMarkPending}[rng.Intn(4)], Pool: p, Claim: transition[p][rng.Intn(len(transition[p]))]}
					default:
						o = mop{Op: opCount, Pool: p}
					}
				}
				plans[g] = append(plans[g], o)
			}
			var wg sync.WaitGroup
			var tmu sync.Mutex
			cleaned := map[string]bool{}
			start := make(chan struct{})
			for g := 0; g < nG; g++ {
				if len(plans[g]) == 0 {
					continue
				}
				wg.Add(1)
				go func(g int) {
					defer wg.Done()
					<-start
					own := map[string]int64{}
					for _, o := range plans[g] {
						if o.Op == opRelease {
							if own[o.Pool] == 0 {
								continue
							}
						}
						out := m.do(g+1, o)
						if out.Panic != "" {
							continue
						}
						switch o.Op {
						case opReserve:
							own[o.Pool] += out.Granted
							tmu.Lock()
							truth.outstanding[o.Pool] += out.Granted
							tmu.Unlock()
							r.Inc("micro_reserve_grants_checked")
							if out.Granted > 0 {
								r.Inc("micro_positive_grants")
							}
						case opRelease:
							own[o.Pool] -= o.N
							tmu.Lock()
							truth.outstanding[o.Pool] -= o.N
							tmu.Unlock()
						case opCleanup:
							tmu.Lock()
							cleaned[o.Claim] = true
							tmu.Unlock()
						}
					}
				}(g)
			}
			close(start)
			wg.Wait()
			for c := range cleaned {
				delete(truth.members[poolOfClaim(c)], c)
			}
			if reservePhase {
				grantsChecked++
				m.barrier(fmt.Sprintf("after concurrent reserve phase %d", ph), before)
			} else {
				m.barrier(fmt.Sprintf("after concurrent grow phase %d", ph), m.sums())
			}
		}
	}

	// diagnostic: linearizability w.r.t. the documented sequential semantics
	res, _ := porcupine.CheckOperationsVerbose(microModel, m.ops, 5*time.Second)
	switch res {
	case porcupine.Ok:
		r.Inc("micro_porcupine_ok")
	case porcupine.Illegal:
		r.Inc("micro_porcupine_illegal_diagnostic")
	default:
		r.Inc("micro_porcupine_unknown_diagnostic")
	}
	if grantsChecked > 0 {
		lims := []string{}
		for _, p := range pools {
			lims = append(lims, fmt.Sprint(truth.limit[p]))
		}
		r.Sig("micro|seq=%v|g=%d|pools=%d|limits=%s", sequential, nG, npools, strings.Join(lims, "/"))
	}
	if wantSample(r, "micro") && !sequential {
		sampled["micro"] = true
		r.Sample(map[string]any{"case": idx, "kind": "micro", "sequential": sequential, "goroutines": nG, "limits": truth.limit, "history": m.hist, "porcupine": fmt.Sprint(res)})
	}
}
