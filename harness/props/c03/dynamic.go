package c03

import (
	"context"
	"fmt"
	"math/rand"
	"sort"
	"strings"
	"time"

	corev1 "k8s.io/api/core/v1"
	"k8s.io/apimachinery/pkg/api/resource"
	"k8s.io/apimachinery/pkg/types"
	"sigs.k8s.io/controller-runtime/pkg/client"

	v1 "sigs.k8s.io/karpenter/pkg/apis/v1"
	"sigs.k8s.io/karpenter/pkg/controllers/provisioning"

	"verif/gen"
	"verif/mon"
	"verif/props/common"
	"verif/world"
)

var bg = context.Background()

// dyn is one dynamic-pool history.
type dyn struct {
	r      *mon.Report
	rng    *rand.Rand
	s      *common.Scenario
	e      *world.Env
	podCtl *provisioning.PodController
	w      *watches

	limits     map[string]v1.Limits // pool -> limits (fixed for the whole history)
	passOf     map[string]int       // NodeClaim name -> provisioning pass that created it
	pass       int
	trace      []string
	backlog    map[world.Request]bool
	caseDesc   map[string]any
	reported   map[string]bool
	sig        map[string]bool
	nontrivial bool
}

func (d *dyn) step(format string, a ...any) {
	if len(d.trace) < 400 {
		d.trace = append(d.trace, fmt.Sprintf(format, a...))
	}
}

func registered(nc *v1.NodeClaim) bool {
	for _, c := range nc.Status.Conditions {
		if c.Type == v1.ConditionTypeRegistered {
			return c.Status == "True"
		}
	}
	return false
}

type claimUse struct {
	Name     string
	Pass     int
	Type     string
	Source   string // node | instance
	Capacity map[string]string
	capacity corev1.ResourceList
}

// usage computes, from API + provider ground truth only, what every limited pool currently holds in launched,
// non-deleting capacity.
func (d *dyn) usage() (sum map[string]corev1.ResourceList, members map[string][]claimUse, unlaunched int) {
	e := d.e
	ncs := &v1.NodeClaimList{}
	_ = e.API.Raw.List(bg, ncs)
	nodes := &corev1.NodeList{}
	_ = e.API.Raw.List(bg, nodes)
	nodeByPID := map[string]*corev1.Node{}
	for i := range nodes.Items {
		nodeByPID[nodes.Items[i].Spec.ProviderID] = &nodes.Items[i]
	}
	instByUID := map[types.UID]*world.Instance{}
	for _, inst := range e.Provider.Live() {
		instByUID[inst.ClaimUID] = inst
	}
	sum = map[string]corev1.ResourceList{}
	members = map[string][]claimUse{}
	for i := range ncs.Items {
		nc := &ncs.Items[i]
		pool := nc.Labels[v1.NodePoolLabelKey]
		if _, limited := d.limits[pool]; !limited {
			continue
		}
		if nc.DeletionTimestamp != nil {
			continue // being deleted
		}
		inst := instByUID[nc.UID]
		if inst == nil {
			unlaunched++
			continue // no capacity exists yet
		}
		node := nodeByPID[inst.ProviderID]
		if node != nil && node.DeletionTimestamp != nil {
			continue // node being deleted
		}
		// the capacity that exists is the instance's (provider truth) until the node is initialized and reports for itself:
		// a joining node whose status is incomplete (kubelet / device plugin not up yet) is no smaller for that
		capacity, src := inst.Capacity, "instance"
		if node != nil && registered(nc) && node.Labels[v1.NodeInitializedLabelKey] == "true" {
			capacity, src = node.Status.Capacity, "node"
		}
		if sum[pool] == nil {
			sum[pool] = corev1.ResourceList{}
		}
		cu := claimUse{Name: nc.Name, Pass: d.passOf[nc.Name], Type: inst.Type.Name, Source: src, Capacity: map[string]string{}, capacity: capacity}
		for k, q := range capacity {
			cur := sum[pool][k]
			cur.Add(q)
			sum[pool][k] = cur
			if _, lim := d.limits[pool][k]; lim {
				cu.Capacity[string(k)] = q.String()
			}
		}
		n := sum[pool][ResNodes]
		n.Add(resource.MustParse("1"))
		sum[pool][ResNodes] = n
		members[pool] = append(members[pool], cu)
	}
	return
}

// check is the C03 dynamic oracle. It runs after every provider Create and every driver step.
func (d *dyn) check(where string) {
	d.r.Inc("dyn_oracle_checks")
	sum, members, _ := d.usage()
	for pool, lim := range d.limits {
		used := sum[pool]
		if len(members[pool]) > 0 {
			d.nontrivial = true
			d.r.Inc("dyn_oracle_checks_nonempty_pool")
		}
		for res, limit := range lim {
			u := used[res]
			c := u.Cmp(limit)
			if c == 0 && !limit.IsZero() {
				d.r.Inc("dyn_limit_met_exactly")
				d.sig["exact"] = true
			}
			if c <= 0 {
				continue
			}
			// ---- violation ----
			shape := "cross-pass"
			latest, nLatest := -1, 0
			for _, m := range members[pool] {
				if m.Pass > latest {
					latest, nLatest = m.Pass, 1
				} else if m.Pass == latest {
					nLatest++
				}
			}
			if nLatest >= 2 {
				shape = "same-pass"
			}
			key := fmt.Sprintf("dynamic-limit-exceeded:%s:%s", res, shape)
			if d.reported[key+pool] {
				continue
			}
			d.reported[key+pool] = true
			limStr := map[string]string{}
			for k, q := range lim {
				limStr[string(k)] = q.String()
			}
			d.r.Violate(key,
				fmt.Sprintf("NodePool %s: launched non-deleting capacity %s=%s exceeds spec.limits.%s=%s (observed %s)", pool, res, u.String(), res, limit.String(), where),
				d.caseDesc,
				map[string]any{"pool": pool, "limits": limStr, "resource": string(res), "used": u.String(), "limit": limit.String(), "where": where,
					"members": members[pool], "trace": d.trace})
		}
	}
}

// reached records (evidence only) that a limit actually constrained the pool: headroom smaller than the smallest type.
func (d *dyn) noteReached() {
	sum, members, _ := d.usage()
	for pool, lim := range d.limits {
		if len(members[pool]) == 0 {
			continue
		}
		its := d.s.Types[pool]
		for res, limit := range lim {
			head := limit.DeepCopy()
			head.Sub(sum[pool][res])
			smallest := int64(-1)
			if res == ResNodes {
				smallest = 1000
			} else {
				for _, m := range typeSizes(its, res) {
					if smallest < 0 || m < smallest {
						smallest = m
					}
				}
			}
			if smallest > 0 && head.MilliValue() < smallest {
				d.r.Inc("dyn_limit_reached")
				d.sig["reached:"+string(res)] = true
			}
		}
	}
}

func (d *dyn) deliver(full bool) {
	if full {
		for r := range d.backlog {
			delete(d.backlog, r)
		}
		if err := d.w.syncAll(); err != nil {
			d.r.Inc("dyn_sync_errors")
		}
		d.step("informers: full sync")
		return
	}
	for _, r := range d.w.pending() {
		d.backlog[r] = true
	}
	var reqs []world.Request
	for r := range d.backlog {
		reqs = append(reqs, r)
	}
	sort.Slice(reqs, func(i, j int) bool { return reqs[i].String() < reqs[j].String() })
	d.rng.Shuffle(len(reqs), func(i, j int) { reqs[i], reqs[j] = reqs[j], reqs[i] })
	n := 0
	for _, r := range reqs {
		if d.rng.Intn(4) == 0 {
			continue // this watch event is still in flight
		}
		_ = d.w.deliver(r)
		delete(d.backlog, r)
		n++
	}
	d.r.Inc("dyn_partial_deliveries")
	d.step("informers: partial delivery %d/%d", n, len(reqs))
}

func (d *dyn) claim(name string) *v1.NodeClaim {
	nc := &v1.NodeClaim{}
	if d.e.API.Raw.Get(bg, types.NamespacedName{Name: name}, nc) != nil {
		return nil
	}
	return nc
}

// choosePolicy sets the provider's launch policy for the next Create of this claim.
func (d *dyn) choosePolicy(nc *v1.NodeClaim) string {
	e := d.e
	switch x := d.rng.Intn(10); {
	case x < 3:
		e.Provider.Policy = "largest"
	case x < 6:
		e.Provider.Policy = "random"
	default:
		// the launch that is largest in one of the limited resources of the claim's pool
		lim := d.limits[nc.Labels[v1.NodePoolLabelKey]]
		var rs []corev1.ResourceName
		for r := range lim {
			if r != ResNodes {
				rs = append(rs, r)
			}
		}
		if len(rs) == 0 {
			e.Provider.Policy = "largest"
			break
		}
		sort.Slice(rs, func(i, j int) bool { return rs[i] < rs[j] })
		res := rs[d.rng.Intn(len(rs))]
		cs := e.Provider.Choices(nc)
		best := 0
		for i := range cs {
			a, b := cs[i].Cap[res], cs[best].Cap[res]
			if a.Cmp(b) > 0 {
				best = i
			}
		}
		e.Provider.Policy = fmt.Sprintf("index:%d", best)
		d.sig["policy:largest-by-limited"] = true
		return "largest-by-" + string(res)
	}
	d.sig["policy:"+e.Provider.Policy] = true
	return e.Provider.Policy
}

// advance moves a NodeClaim one lifecycle step forward (launch -> node appears -> registered -> initialised).
func (d *dyn) advance(name string) string {
	e := d.e
	nc := d.claim(name)
	if nc == nil || nc.DeletionTimestamp != nil {
		return ""
	}
	if nc.Status.ProviderID == "" {
		pol := d.choosePolicy(nc)
		_, _ = e.ReconcileClaim(name)
		if nc = d.claim(name); nc != nil && nc.Status.ProviderID == "" && nc.DeletionTimestamp == nil {
			_, _ = e.ReconcileClaim(name)
		}
		if nc = d.claim(name); nc != nil && nc.Status.ProviderID != "" {
			d.r.Inc("dyn_claims_launched")
			return "launched(" + pol + ")"
		}
		d.r.Inc("dyn_launch_failed")
		return "launch-failed"
	}
	inst := e.Provider.Instance(nc.Status.ProviderID)
	if inst == nil {
		return ""
	}
	nodeName := world.NodeNameFor(inst.ProviderID)
	node := &corev1.Node{}
	if e.API.Raw.Get(bg, types.NamespacedName{Name: nodeName}, node) != nil {
		omit := []string{"", "", "extended", "all"}[d.rng.Intn(4)]
		e.KubeletRegister(inst, world.KubeletOpts{Ready: false, NotReadyTaints: true, ZeroExtended: d.rng.Intn(2) == 0, OmitCapacity: omit})
		if omit != "" {
			d.r.Inc("dyn_nodes_joined_without_reporting_capacity:" + omit)
		}
		return "node-appeared"
	}
	if !registered(nc) {
		_, _ = e.ReconcileClaim(name)
		d.r.Inc("dyn_claims_registered")
		return "registered"
	}
	if node.Labels[v1.NodeInitializedLabelKey] != "true" {
		e.KubeletReady(nodeName, true)
		_, _ = e.ReconcileClaim(name)
		d.r.Inc("dyn_claims_initialized")
		return "initialized"
	}
	return ""
}

func (d *dyn) pendingPods() []*corev1.Pod {
	pods := &corev1.PodList{}
	_ = d.e.API.Raw.List(bg, pods)
	var out []*corev1.Pod
	for i := range pods.Items {
		if pods.Items[i].Spec.NodeName == "" && pods.Items[i].DeletionTimestamp == nil {
			out = append(out, &pods.Items[i])
		}
	}
	return out
}

// provisionPass triggers the batcher through the real pod trigger controller and runs the real singleton reconcile.
func (d *dyn) provisionPass() {
	e := d.e
	before := map[string]bool{}
	unlaunchedKnown := false
	for _, n := range e.ClaimNames() {
		before[n] = true
		if e.Cluster.UnlaunchedNodeClaimExists(n) {
			unlaunchedKnown = true
		}
	}
	for _, p := range d.pendingPods() {
		_, _ = d.podCtl.Reconcile(e.Ctx, p)
	}
	d.pass++
	d.r.Inc("dyn_passes")
	var err error
	panicked, pv, stack := mon.Guard(func() { _, err = e.Prov.Reconcile(e.Ctx) })
	if panicked {
		d.r.Violate("panic:Provisioner.Reconcile", fmt.Sprintf("Provisioner.Reconcile panicked: %v", pv), d.caseDesc, map[string]any{"stack": stack, "trace": d.trace})
		return
	}
	if err != nil {
		d.r.Inc("dyn_pass_errors")
	}
	created := 0
	for _, n := range e.ClaimNames() {
		if !before[n] {
			d.passOf[n] = d.pass
			created++
		}
	}
	d.r.Count("dyn_claims_created", created)
	if created > 0 {
		d.r.Inc("dyn_passes_creating_claims")
	}
	if unlaunchedKnown {
		// the Synced() gate was the deciding branch of this pass
		d.r.Inc("dyn_passes_gated_unsynced")
		d.sig["gated"] = true
		if created > 0 {
			d.r.Inc("dyn_gate_passed_with_unlaunched_claim") // C04 judges this; recorded as evidence only
		}
	}
	d.step("pass %d: created %d claims (err=%v, unlaunched-in-state=%v)", d.pass, created, err != nil, unlaunchedKnown)
	d.check(fmt.Sprintf("after provisioning pass %d", d.pass))
}

func (d *dyn) addPods(n int) {
	cfg := gen.DefaultPodCfg()
	cfg.PSelector, cfg.PAffinity, cfg.PPreferred, cfg.PHostPort, cfg.PGPU, cfg.PToleration = 0.1, 0.1, 0.1, 0, 0.2, 0.3
	cfg.MaxCPUMilli = 3500
	spread := d.rng.Intn(3) == 0 // this batch forces one node per pod (shared host port)
	for i := 0; i < n; i++ {
		name := d.s.NextPodName("p")
		var p *corev1.Pod
		switch {
		case spread:
			p = gen.Pod(name, []int64{100, 500, 900}[d.rng.Intn(3)], 128, gen.WithHostPort(9000, corev1.ProtocolTCP, ""))
		case d.rng.Intn(4) == 0:
			p = gen.Pod(name, []int64{1500, 3500, 6000}[d.rng.Intn(3)], []int64{512, 2048, 6000}[d.rng.Intn(3)])
		default:
			p = gen.RandomPod(d.rng, name, cfg)
		}
		// most pods tolerate the generated pool taints so that limits, not taints, decide
		if d.rng.Intn(5) != 0 {
			gen.WithToleration(corev1.Toleration{Operator: corev1.TolerationOpExists})(p)
		}
		d.e.Apply(p)
	}
	d.step("added %d pending pods (spread=%v)", n, spread)
}

// bind emulates kube-scheduler for pods Karpenter nominated onto nodes that are now initialised.
func (d *dyn) bind() {
	e := d.e
	for _, p := range d.pendingPods() {
		ncName := e.Cluster.PodNodeClaimMapping(client.ObjectKeyFromObject(p))
		if ncName == "" || d.rng.Intn(4) == 0 {
			continue
		}
		nc := d.claim(ncName)
		if nc == nil || nc.DeletionTimestamp != nil || nc.Status.NodeName == "" {
			continue
		}
		node := &corev1.Node{}
		if e.API.Raw.Get(bg, types.NamespacedName{Name: nc.Status.NodeName}, node) != nil || node.Labels[v1.NodeInitializedLabelKey] != "true" {
			continue
		}
		e.Bind(p, node.Name)
		d.r.Inc("dyn_pods_bound")
	}
}

// finalize drives the real lifecycle finalizer of a deleting NodeClaim; a harness actor plays the node
// termination controller (removes the Node once it is marked for deletion).
func finalizeClaim(e *world.Env, name string) bool {
	for i := 0; i < 5; i++ {
		nc := &v1.NodeClaim{}
		if e.API.Raw.Get(bg, types.NamespacedName{Name: name}, nc) != nil {
			return true
		}
		_, _ = e.ReconcileClaim(name)
		nodes := &corev1.NodeList{}
		_ = e.API.Raw.List(bg, nodes)
		for j := range nodes.Items {
			n := &nodes.Items[j]
			if n.DeletionTimestamp != nil && n.Spec.ProviderID == nc.Status.ProviderID {
				n.Finalizers = nil
				_ = e.API.Raw.Update(bg, n)
				_ = client.IgnoreNotFound(e.API.Raw.Delete(bg, n))
			}
		}
	}
	nc := &v1.NodeClaim{}
	return e.API.Raw.Get(bg, types.NamespacedName{Name: name}, nc) != nil
}

func (d *dyn) round(i int) {
	e := d.e
	d.step("---- round %d ----", i)
	// controller restart between rounds
	if i > 0 && d.rng.Intn(10) == 0 {
		e.Restart()
		d.podCtl = provisioning.NewPodController(e.API.Client, e.Prov, e.Cluster)
		e.Provider.OnCreate = func(inst *world.Instance) { d.check("provider Create for " + inst.ClaimName) }
		d.r.Inc("dyn_restarts")
		d.sig["restart"] = true
		d.step("controller restart")
	}
	d.addPods(2 + d.rng.Intn(9))
	d.deliver(d.rng.Intn(4) != 0)
	d.provisionPass()
	if d.rng.Intn(5) == 0 {
		// a second pass straight away: the claims just created are unlaunched, Synced() must gate it
		d.provisionPass()
	}
	// launch / progress claims in PRNG order
	names := e.ClaimNames()
	d.rng.Shuffle(len(names), func(a, b int) { names[a], names[b] = names[b], names[a] })
	for _, n := range names {
		nc := d.claim(n)
		if nc == nil || nc.DeletionTimestamp != nil {
			continue
		}
		steps := 0
		switch {
		case nc.Status.ProviderID == "":
			// fresh claim: how far does it get this round? (0 = stays unlaunched)
			steps = []int{0, 1, 1, 2, 3, 4, 4, 4}[d.rng.Intn(8)]
		default:
			steps = d.rng.Intn(3)
		}
		for k := 0; k < steps; k++ {
			what := d.advance(n)
			if what == "" {
				break
			}
			d.step("claim %s: %s", n, what)
			d.check("after " + what + " of " + n)
			if what == "launch-failed" {
				break
			}
		}
	}
	d.deliver(d.rng.Intn(3) != 0)
	d.bind()
	d.check("after binds")
	d.noteReached()
	// external deletions and finalisation
	if d.rng.Intn(3) == 0 {
		names = e.ClaimNames()
		if len(names) > 0 {
			n := names[d.rng.Intn(len(names))]
			if nc := d.claim(n); nc != nil && nc.DeletionTimestamp == nil {
				_ = e.API.Raw.Delete(bg, nc)
				d.r.Inc("dyn_deletions")
				d.sig["delete"] = true
				d.step("external delete of %s", n)
				d.check("after delete of " + n)
			}
		}
	}
	for _, n := range e.ClaimNames() {
		if nc := d.claim(n); nc != nil && nc.DeletionTimestamp != nil && d.rng.Intn(2) == 0 {
			gone := finalizeClaim(e, n)
			d.step("finalize %s: gone=%v", n, gone)
			d.check("after finalize of " + n)
		}
	}
	e.Clock.Step(time.Duration([]int64{1, 5, 20, 90}[d.rng.Intn(4)]) * time.Second)
}

func runDynamic(r *mon.Report, tier string, idx, ord int, rng *rand.Rand) {
	cfg := common.DefaultScenarioCfg()
	opts, optDesc := common.RandomOptions(rng)
	cfg.Options = opts
	cfg.MaxPools = 2
	cfg.MaxDaemons = 1
	cfg.PerPoolCatalog = rng.Intn(3) == 0
	cfg.Pool.PTaint, cfg.Pool.PCustomLabel, cfg.Pool.PRequirement = 0.2, 0.1, 0.4
	cfg.Weights = true
	s := common.Build(rng, cfg)
	e := s.Env
	d := &dyn{r: r, rng: rng, s: s, e: e, limits: map[string]v1.Limits{}, passOf: map[string]int{}, backlog: map[world.Request]bool{},
		reported: map[string]bool{}, sig: map[string]bool{}}
	limDesc := map[string]any{}
	for _, np := range s.Pools {
		if rng.Intn(8) == 0 && len(s.Pools) > 1 {
			continue // an unlimited pool next to a limited one
		}
		lim, desc := RandomLimits(rng, s.Types[np.Name])
		cur := &v1.NodePool{}
		if e.API.Raw.Get(bg, types.NamespacedName{Name: np.Name}, cur) != nil {
			continue
		}
		cur.Spec.Limits = lim
		e.Apply(cur)
		d.limits[np.Name] = lim
		limDesc[np.Name] = desc
		for res := range lim {
			r.Inc("dyn_pools_limited_" + strings.ReplaceAll(string(res), "/", "_"))
			d.sig["lim:"+string(res)] = true
		}
	}
	d.caseDesc = map[string]any{"case": idx, "kind": "dynamic", "ordinal": ord, "options": optDesc, "limits": limDesc, "pools": s.Desc["pools"], "catalogs": s.Desc["catalogs"]}
	d.podCtl = provisioning.NewPodController(e.API.Client, e.Prov, e.Cluster)
	d.w = newWatches(e)
	e.Provider.OnCreate = func(inst *world.Instance) { d.check("provider Create for " + inst.ClaimName) }
	r.Eval()
	r.Inc("dyn_cases")
	rounds := 3 + rng.Intn(6)
	for i := 0; i < rounds; i++ {
		d.round(i)
	}
	if d.nontrivial {
		r.Sig("dyn|%s|pools=%d", strings.Join(common.SortedKeys(d.sig), ","), len(s.Pools))
	}
	if wantSample(r, "dynamic") && d.nontrivial {
		sampled["dynamic"] = true
		sum, members, _ := d.usage()
		final := map[string]any{}
		for p, rl := range sum {
			m := map[string]string{}
			for k, q := range rl {
				if _, ok := d.limits[p][k]; ok {
					m[string(k)] = q.String()
				}
			}
			final[p] = map[string]any{"used": m, "members": members[p]}
		}
		r.Sample(map[string]any{"case": idx, "kind": "dynamic", "limits": limDesc, "rounds": rounds, "final": final, "trace": d.trace})
	}
}
