package c03

import (
	"math/rand"

	"verif/mon"
)

func runStatic(r *mon.Report, tier string, idx, ord int, rng *rand.Rand) { r.Eval() }
func runMicro(r *mon.Report, tier string, idx, ord int, rng *rand.Rand)  { r.Eval() }
