package c03

import (
	"fmt"
	"sync"

	"k8s.io/apimachinery/pkg/types"

	v1 "sigs.k8s.io/karpenter/pkg/apis/v1"

	"verif/world"
)

// watches complements world.Env.PendingRequests: that function derives deletion notifications from the set of
// objects it saw on an earlier call, so a NodeClaim that is created AND removed between two calls would never be
// announced to the state informer — although Karpenter's cluster state learned about it synchronously in
// Provisioner.Create. A real watch always delivers the delete event (the reconcile for the key runs at least once
// after the last event), so the harness remembers every NodeClaim create it saw at the API boundary and announces
// the disappearance of each exactly once.
type watches struct {
	e        *world.Env
	mu       sync.Mutex
	created  map[string]bool
	notified map[string]bool
}

func newWatches(e *world.Env) *watches {
	w := &watches{e: e, created: map[string]bool{}, notified: map[string]bool{}}
	e.API.PostWrite = append(e.API.PostWrite, func(ev *world.Event) {
		if ev.Kind == "NodeClaim" && ev.Verb == "create" && ev.After != nil {
			w.mu.Lock()
			w.created[ev.After.GetName()] = true
			w.mu.Unlock()
		}
	})
	return w
}

func (w *watches) exists(name string) bool {
	return w.e.API.Raw.Get(bg, types.NamespacedName{Name: name}, &v1.NodeClaim{}) == nil
}

// createdNames lists every NodeClaim name ever created through the intercepted client.
func (w *watches) createdNames() []string {
	w.mu.Lock()
	defer w.mu.Unlock()
	out := make([]string, 0, len(w.created))
	for n := range w.created {
		out = append(out, n)
	}
	return out
}

// pending = the world's pending requests + one delete notification for every vanished NodeClaim not yet announced.
func (w *watches) pending() []world.Request {
	out := w.e.PendingRequests()
	have := map[world.Request]bool{}
	for _, r := range out {
		have[r] = true
	}
	for _, n := range w.createdNames() {
		w.mu.Lock()
		done := w.notified[n]
		w.mu.Unlock()
		r := world.Request{Kind: "NodeClaim", Name: n}
		if !done && !have[r] && !w.exists(n) {
			out = append(out, r)
		}
	}
	return out
}

func (w *watches) deliver(r world.Request) error {
	err := w.e.Deliver(r)
	if r.Kind == "NodeClaim" && err == nil && !w.exists(r.Name) {
		w.mu.Lock()
		w.notified[r.Name] = true
		w.mu.Unlock()
	}
	return err
}

// syncAll delivers everything until a full pass produces no error (bounded).
func (w *watches) syncAll() error {
	var last error
	for pass := 0; pass < 4; pass++ {
		last = nil
		for _, r := range w.pending() {
			if err := w.deliver(r); err != nil {
				last = fmt.Errorf("%s: %w", r, err)
			}
		}
		if last == nil {
			return nil
		}
	}
	return last
}
