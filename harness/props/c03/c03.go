// Package c03: NodePool limits and static node caps are never exceeded.
//
// Three workloads, interleaved over the case list (so that every child batch and the -race pass see all kinds):
//
//	A dynamic  (dynamic.go): generated worlds whose NodePools carry boundary limits on cpu / memory / nodes / gpu;
//	   multi-round histories drive the REAL Provisioner.Reconcile (batcher + Synced() gate + Schedule +
//	   CreateNodeClaims), the real nodeclaim lifecycle controller (launch / registration / initialisation) against
//	   a hostile provider (largest, largest-by-limited-resource, random), partial informer deliveries, deletions and
//	   controller restarts. Oracle after every provider Create and every driver step: per pool the capacity of
//	   launched, non-deleting NodeClaims/Nodes (Node.Status.Capacity once registered, provider ground truth before)
//	   is <= every limit; `nodes` is the count.
//	B static   (static.go): StaticCapacity feature gate, NodePools with spec.replicas and limits.nodes; the REAL
//	   static provisioning + deprovisioning controllers, disruption controller (StaticDrift) + queue, nodepool hash,
//	   nodeclaim disruption, nodeclaim lifecycle and the state informers are stepped in PRNG order, with other
//	   controllers interleaved at the API-call boundaries of a running reconcile (deterministic schedule
//	   exploration) and, in concurrent rounds, in real goroutines. Monitors: NodeClaim count <= limits.nodes
//	   synchronously at every NodeClaim create and after every step; bounded settling at min(replicas, limit);
//	   any panic.
//	C micro    (micro.go): goroutines hammer one state.NodePoolState; deciding invariants are no panic, counts never
//	   negative and Reserve never granting more than limit-(active+deleting+pending+reserved); the call/return
//	   history is additionally checked with porcupine against a small sequential model (diagnostic).
package c03

import (
	"context"
	"fmt"
	"math/rand"
	"runtime/debug"
	"sync"
	"sync/atomic"
	"time"

	utilruntime "k8s.io/apimachinery/pkg/util/runtime"

	"verif/mon"
	"verif/props/reg"
)

// tier sizes: dynamic / static / micro histories
func sizes(tier string) (dyn, static, micro int) {
	if tier == "thorough" {
		return 2000, 800, 3000
	}
	return 360, 180, 600
}

// The three kinds are interleaved with a fixed period so that idx%nbatch batches and the -limit prefix used by
// the race pass contain every kind: quick period 19 = 6 dynamic + 3 static + 10 micro (x60 = 360/180/600);
// thorough period 29 = 10 + 4 + 15 (x200 = 2000/800/3000).
func kindOf(tier string, idx int) (kind string, ordinal int) {
	pd, ps, pm := 6, 3, 10
	if tier == "thorough" {
		pd, ps, pm = 10, 4, 15
	}
	period := pd + ps + pm
	block, off := idx/period, idx%period
	// spread the kinds inside the period: pattern built deterministically (micro, dynamic, micro, static, ...)
	pat := pattern(pd, ps, pm)
	k := pat[off]
	n := 0
	for i := 0; i < off; i++ {
		if pat[i] == k {
			n++
		}
	}
	switch k {
	case 'd':
		return "dynamic", block*pd + n
	case 's':
		return "static", block*ps + n
	}
	return "micro", block*pm + n
}

func pattern(pd, ps, pm int) []byte {
	total := pd + ps + pm
	out := make([]byte, 0, total)
	quota := map[byte]int{'d': pd, 's': ps, 'm': pm}
	cnt := map[byte]int{}
	for i := 0; i < total; i++ {
		// pick the kind that is furthest behind its quota
		best, bestF := byte('m'), 2.0
		for _, k := range []byte{'s', 'd', 'm'} {
			if cnt[k] >= quota[k] {
				continue
			}
			if f := float64(cnt[k]+1) / float64(quota[k]); f < bestF {
				best, bestF = k, f
			}
		}
		out = append(out, best)
		cnt[best]++
	}
	return out
}

// one sample per case kind and process (the parent keeps the first three)
var sampled = map[string]bool{}

func wantSample(r *mon.Report, kind string) bool { return !sampled[kind] && r.WantSample() }

func cases(tier string) int {
	d, s, m := sizes(tier)
	return d + s + m
}

// In production a panic inside a workqueue.ParallelizeUntil worker is re-raised by HandleCrash and kills the
// controller process. In the harness it is handed to the running case (which records a violation) so that the rest
// of the batch still runs. Never restored: a worker's HandleCrash runs after its wg.Done(), i.e. possibly after the
// reconcile that spawned it has returned.
var (
	crashOnce sync.Once
	panicSink atomic.Pointer[func(v any, stack string)]
)

func setPanicSink(f func(v any, stack string)) { panicSink.Store(&f) }

func installCrashHandler() {
	crashOnce.Do(func() {
		utilruntime.ReallyCrash = false
		utilruntime.PanicHandlers = append([]func(context.Context, any){func(_ context.Context, v any) {
			if f := panicSink.Load(); f != nil {
				(*f)(v, string(debug.Stack()))
			}
		}}, utilruntime.PanicHandlers...)
	})
}

func run(r *mon.Report, tier string, idx int, rng *rand.Rand) {
	installCrashHandler()
	setPanicSink(func(v any, stack string) {
		r.Violate("panic:"+panicSite(stack), fmt.Sprintf("panic in a worker goroutine: %v", v), map[string]any{"case": idx}, trimStack(stack))
	})
	kind, ord := kindOf(tier, idx)
	t0 := time.Now() // evidence only (cost per case kind); no oracle reads the wall clock
	defer func() { r.Count(kind+"_wall_ms", int(time.Since(t0).Milliseconds())) }()
	switch kind {
	case "dynamic":
		runDynamic(r, tier, idx, ord, rng)
	case "static":
		runStatic(r, tier, idx, ord, rng)
	default:
		runMicro(r, tier, idx, ord, rng)
	}
}

func init() {
	reg.Register(&reg.Prop{
		ID: "C03", Level: "exploration", Race: true, RaceIsViolation: true,
		Rule: "three case kinds interleaved over the index space (quick 360 dynamic + 180 static + 600 micro; thorough 2000 + 800 + 3000). " +
			"dynamic: generated world (catalog, 1-2 NodePools with boundary limits on cpu/memory/nodes/gpu, daemonsets) x 3-8 rounds of {pending pods, informer deliveries (full or partial), real Provisioner.Reconcile, lifecycle launch under hostile provider policy, partial registration/initialisation, binds, external deletes, finalisation, restart}; non-trivial when a limited pool held launched capacity while the oracle ran; distinct by (limited resources, provider policy, limit reached?, pools, restart?). " +
			"static: StaticCapacity world with 1-2 replica NodePools with limits.nodes x 12-30 PRNG-ordered steps of the real static provisioning/deprovisioning, disruption(StaticDrift)+queue, hash, nodeclaim-disruption, lifecycle and informer controllers with replica/template edits, external deletes, API faults, mid-reconcile interleavings and concurrent rounds, then <=40 fault-free settling rounds; non-trivial when a NodeClaim create was checked against limits.nodes; distinct by (replicas vs limit relation, events used, drift?, concurrent?). " +
			"micro: 8-16 goroutines x <=60 operations on one real state.NodePoolState; non-trivial when a ReserveNodeCount grant was checked; distinct by (goroutines, pools, limit, op mix bucket).",
		Cases: cases, Run: run,
		RaceFrac: map[string]float64{"quick": 0.34, "thorough": 0.1},
		MinObserved: map[string]int{
			"dyn_oracle_checks":            1000,
			"dyn_claims_launched":          100,
			"dyn_limit_reached":            10,
			"dyn_passes_gated_unsynced":    3,
			"static_create_checks":         50,
			"static_settle_checks":         20,
			"static_drift_replacements":    3,
			"static_interleaved_actions":   20,
			"static_concurrent_rounds":     5,
			"micro_reserve_grants_checked": 200,
			"micro_histories":              50,
		},
	})
}
