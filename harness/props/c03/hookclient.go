package c03

import (
	"context"

	"sigs.k8s.io/controller-runtime/pkg/client"
)

// hookClient wraps the world's intercepted client and calls pre() before every API call of the controllers
// built over it. An API call is a blocking point of the calling goroutine, so whatever the hook runs there (an
// informer delivery, another controller's whole reconcile) is an interleaving a real deployment can produce;
// the hook is how the schedule quantifier is explored deterministically.
type hookClient struct {
	client.Client
	pre func(verb string, obj any)
}

func (h *hookClient) Get(ctx context.Context, key client.ObjectKey, obj client.Object, opts ...client.GetOption) error {
	h.pre("get", obj)
	return h.Client.Get(ctx, key, obj, opts...)
}

func (h *hookClient) List(ctx context.Context, list client.ObjectList, opts ...client.ListOption) error {
	h.pre("list", list)
	return h.Client.List(ctx, list, opts...)
}

func (h *hookClient) Create(ctx context.Context, obj client.Object, opts ...client.CreateOption) error {
	h.pre("create", obj)
	return h.Client.Create(ctx, obj, opts...)
}

func (h *hookClient) Delete(ctx context.Context, obj client.Object, opts ...client.DeleteOption) error {
	h.pre("delete", obj)
	return h.Client.Delete(ctx, obj, opts...)
}

func (h *hookClient) Update(ctx context.Context, obj client.Object, opts ...client.UpdateOption) error {
	h.pre("update", obj)
	return h.Client.Update(ctx, obj, opts...)
}

func (h *hookClient) Patch(ctx context.Context, obj client.Object, patch client.Patch, opts ...client.PatchOption) error {
	h.pre("patch", obj)
	return h.Client.Patch(ctx, obj, patch, opts...)
}

func (h *hookClient) Status() client.SubResourceWriter {
	return &hookStatus{SubResourceWriter: h.Client.Status(), h: h}
}

type hookStatus struct {
	client.SubResourceWriter
	h *hookClient
}

func (s *hookStatus) Update(ctx context.Context, obj client.Object, opts ...client.SubResourceUpdateOption) error {
	s.h.pre("status-update", obj)
	return s.SubResourceWriter.Update(ctx, obj, opts...)
}

func (s *hookStatus) Patch(ctx context.Context, obj client.Object, patch client.Patch, opts ...client.SubResourcePatchOption) error {
	s.h.pre("status-patch", obj)
	return s.SubResourceWriter.Patch(ctx, obj, patch, opts...)
}
