package c03

import (
	"context"
	"fmt"
	"hash/fnv"
	"math/rand"
	"os"
	"regexp"
	"sort"
	"strings"
	"sync"
	"sync/atomic"
	"time"

	corev1 "k8s.io/api/core/v1"
	"k8s.io/apimachinery/pkg/api/resource"
	"k8s.io/apimachinery/pkg/types"
	"sigs.k8s.io/controller-runtime/pkg/reconcile"

	v1 "sigs.k8s.io/karpenter/pkg/apis/v1"
	"sigs.k8s.io/karpenter/pkg/cloudprovider"
	"sigs.k8s.io/karpenter/pkg/controllers/disruption"
	nodeclaimdisruption "sigs.k8s.io/karpenter/pkg/controllers/nodeclaim/disruption"
	nodepoolhash "sigs.k8s.io/karpenter/pkg/controllers/nodepool/hash"
	"sigs.k8s.io/karpenter/pkg/controllers/provisioning"
	statenodeclaimgc "sigs.k8s.io/karpenter/pkg/controllers/state/nodeclaimgc"
	staticdeprov "sigs.k8s.io/karpenter/pkg/controllers/static/deprovisioning"
	staticprov "sigs.k8s.io/karpenter/pkg/controllers/static/provisioning"
	"sigs.k8s.io/karpenter/pkg/test"

	"verif/gen"
	"verif/mon"
	"verif/props/common"
	"verif/world"
)

// stat is one static-pool history.
type stat struct {
	r   *mon.Report
	rng *rand.Rand
	e   *world.Env
	cl  *hookClient
	w   *watches
	gc  *statenodeclaimgc.Controller

	p      *provisioning.Provisioner
	prov   *staticprov.Controller
	deprov *staticdeprov.Controller
	queue  *disruption.Queue
	disr   *disruption.Controller
	hash   *nodepoolhash.Controller
	ncdis  *nodeclaimdisruption.Controller

	pools      []string
	allMethods bool

	mu       sync.Mutex // guards trace / reported / sig / monitor counters touched from several goroutines
	trace    []string
	reported map[string]bool
	sig      map[string]bool
	backlog  map[world.Request]bool
	caseDesc map[string]any

	// schedule exploration at API-call boundaries
	hookOn   atomic.Bool
	hookMu   sync.Mutex
	hookPct  int
	script   []*scripted // forced interleavings of the directed shapes
	scriptAt int         // hooked calls seen since the script was armed
	busy     map[string]bool

	createChecks     int
	midflightRemoval bool           // a NodeClaim finished terminating (and cluster state was told) while another reconcile was in flight
	failedDriftStart bool           // a disruption reconcile failed in Queue.markDisrupted
	mdFaults         []*world.Fault // fault plans aimed at markDisrupted's patches
	panics           []string
	pending          []pendingPanic
}

func (d *stat) step(format string, a ...any) {
	d.mu.Lock()
	if len(d.trace) < 600 {
		d.trace = append(d.trace, fmt.Sprintf(format, a...))
	}
	d.mu.Unlock()
}

func (d *stat) traceCopy() []string {
	d.mu.Lock()
	defer d.mu.Unlock()
	return append([]string(nil), d.trace...)
}

func (d *stat) setSig(s string) { d.mu.Lock(); d.sig[s] = true; d.mu.Unlock() }

// ---- construction (also after a restart) ----

func (d *stat) build() {
	e := d.e
	d.cl = &hookClient{Client: e.API.Client, pre: d.pre}
	d.p = provisioning.NewProvisioner(d.cl, e.Recorder, e.Provider, e.Cluster, e.Clock, e.DeviceAlloc, e.VPods)
	d.prov = staticprov.NewController(d.cl, e.Cluster, e.Recorder, e.Provider, d.p, e.Clock, e.DeviceAlloc, e.VPods)
	d.deprov = staticdeprov.NewController(d.cl, e.Cluster, e.Provider, e.Clock, e.Recorder)
	d.queue = disruption.NewQueue(d.cl, e.Recorder, e.Cluster, e.Clock, d.p)
	if d.allMethods {
		d.disr = disruption.NewController(e.Clock, d.cl, d.p, e.Provider, e.Recorder, e.Cluster, d.queue, e.ClusterCost)
	} else {
		d.disr = disruption.NewController(e.Clock, d.cl, d.p, e.Provider, e.Recorder, e.Cluster, d.queue, e.ClusterCost,
			disruption.WithMethods(disruption.NewStaticDrift(e.Cluster, d.p, e.Provider)))
	}
	d.hash = nodepoolhash.NewController(e.API.Client, e.Provider)
	d.ncdis = nodeclaimdisruption.NewController(e.Clock, e.API.Client, e.Provider)
	d.gc = statenodeclaimgc.NewController(e.API.Client, e.Cluster)
}

// ---- panics ----

var nameRe = regexp.MustCompile(`static-\d-[a-z0-9]{5}`)

var karpFrame = regexp.MustCompile(`sigs\.k8s\.io/karpenter/pkg/([^\s(]+(?:\(\*?[A-Za-z0-9_\[\]\.]+\))?[^\s(]*)\(`)

// panicSite returns the innermost Karpenter function on a panic stack.
func panicSite(stack string) string {
	i := strings.Index(stack, "panic(")
	if i < 0 {
		i = 0
	}
	m := karpFrame.FindStringSubmatch(stack[i:])
	if m == nil {
		return "unknown"
	}
	s := m[1]
	s = strings.TrimPrefix(s, "controllers/")
	s = strings.NewReplacer("(*", "", ")", "").Replace(s)
	return s
}

type pendingPanic struct {
	during, val, stack string
}

// workerPanic is called by the crash handler on a worker goroutine of a controller. Such a handler can run after
// the reconcile that spawned the worker has returned (HandleCrash runs after wg.Done()), so it only records; the
// driver goroutine turns the record into a violation at its next step boundary (flushPanics).
func (d *stat) workerPanic(val any, stack string) {
	d.mu.Lock()
	d.pending = append(d.pending, pendingPanic{"a worker goroutine of the running controller", fmt.Sprint(val), stack})
	d.mu.Unlock()
}

func (d *stat) flushPanics() {
	d.mu.Lock()
	todo := d.pending
	d.pending = nil
	d.mu.Unlock()
	for _, p := range todo {
		d.reportPanic(p.during, p.val, p.stack)
	}
}

func (d *stat) reportPanic(during string, val any, stack string) {
	site := panicSite(stack)
	d.r.Inc("static_panics")
	key := "panic:" + site
	d.mu.Lock()
	d.panics = append(d.panics, key)
	dup := d.reported[key]
	d.reported[key] = true
	d.mu.Unlock()
	if dup {
		return
	}
	d.r.Violate(key, fmt.Sprintf("panic in %s during %s: %v (in production this crashes the controller process)", site, during, val), d.caseDesc,
		map[string]any{"during": during, "panic": fmt.Sprint(val), "stack": trimStack(stack), "trace": d.traceCopy(), "state": d.snapshot()})
}

func trimStack(s string) string {
	if len(s) > 3500 {
		return s[:3500]
	}
	return s
}

// guard runs one driver step, converting a panic on this goroutine into a violation.
func (d *stat) guard(name string, f func()) {
	panicked, val, stack := mon.Guard(f)
	if panicked {
		if _, crash := val.(world.CrashSentinel); crash {
			return
		}
		d.reportPanic(name, val, stack)
	}
	d.flushPanics()
}

// ---- objects ----

func (d *stat) pool(name string) *v1.NodePool {
	np := &v1.NodePool{}
	if d.e.API.Raw.Get(bg, types.NamespacedName{Name: name}, np) != nil {
		return nil
	}
	return np
}

func (d *stat) claim(name string) *v1.NodeClaim {
	nc := &v1.NodeClaim{}
	if d.e.API.Raw.Get(bg, types.NamespacedName{Name: name}, nc) != nil {
		return nil
	}
	return nc
}

func (d *stat) claimsOf(pool string) (all []*v1.NodeClaim, live int) {
	ncs := &v1.NodeClaimList{}
	_ = d.e.API.Raw.List(bg, ncs)
	for i := range ncs.Items {
		if ncs.Items[i].Labels[v1.NodePoolLabelKey] == pool {
			all = append(all, &ncs.Items[i])
			if ncs.Items[i].DeletionTimestamp == nil {
				live++
			}
		}
	}
	return
}

func nodeLimit(np *v1.NodePool) (int64, bool) {
	q, ok := np.Spec.Limits[ResNodes]
	if !ok {
		return 0, false
	}
	return q.Value(), true
}

func (d *stat) snapshot() map[string]any {
	out := map[string]any{}
	for _, p := range d.pools {
		np := d.pool(p)
		if np == nil {
			continue
		}
		all, live := d.claimsOf(p)
		var names []string
		for _, nc := range all {
			s := nc.Name
			if nc.Status.ProviderID == "" {
				s += "(unlaunched)"
			}
			if nc.DeletionTimestamp != nil {
				s += "(deleting)"
			}
			for _, c := range nc.Status.Conditions {
				if c.Type == v1.ConditionTypeDrifted && c.Status == "True" {
					s += "(drifted)"
				}
			}
			names = append(names, s)
		}
		a, del, pend := d.e.Cluster.NodePoolState.GetNodeCount(p)
		lim, has := nodeLimit(np)
		m := map[string]any{"replicas": *np.Spec.Replicas, "claims": names, "non_deleting": live,
			"state_active": a, "state_deleting": del, "state_pending_disruption": pend}
		if has {
			m["limit_nodes"] = lim
		}
		out[p] = m
	}
	out["queue_commands"] = len(d.queue.GetCommands())
	return out
}

// ---- monitor (i): NodeClaim count <= limits.nodes ----

func (d *stat) countCheck(where string, creator string) {
	for _, p := range d.pools {
		np := d.pool(p)
		if np == nil {
			continue
		}
		lim, has := nodeLimit(np)
		if !has {
			continue
		}
		all, _ := d.claimsOf(p)
		n := int64(len(all))
		if creator != "" {
			if n == lim {
				d.r.Inc("static_create_at_limit")
				d.setSig("at-limit")
			}
		}
		if n <= lim {
			continue
		}
		during := "observed-after-step"
		if creator != "" {
			during = "create-during-" + d.busyKinds()
		}
		// history class: did a NodeClaim of some pool finish terminating while a reconcile was in flight?
		d.mu.Lock()
		cause := "no-midflight-claim-removal"
		if d.midflightRemoval {
			cause = "after-midflight-claim-removal"
		}
		d.mu.Unlock()
		key := "static-node-limit-exceeded:" + cause
		d.mu.Lock()
		dup := d.reported["limit"+p]
		d.reported["limit"+p] = true
		d.mu.Unlock()
		if dup {
			continue
		}
		d.r.Violate(key, fmt.Sprintf("static NodePool %s has %d NodeClaim objects but limits.nodes=%d (%s)", p, n, lim, where), d.caseDesc,
			map[string]any{"pool": p, "count": n, "limit": lim, "where": where, "during": during, "creator": creator, "state": d.snapshot(), "trace": d.traceCopy()})
	}
}

// busyKinds names the controllers in flight (outer reconcile + interleaved ones), e.g. "disrupt+prov".
func (d *stat) busyKinds() string {
	d.mu.Lock()
	defer d.mu.Unlock()
	kinds := map[string]bool{}
	for k := range d.busy {
		if i := strings.Index(k, ":"); i >= 0 {
			k = k[:i]
		}
		kinds[k] = true
	}
	if len(kinds) == 0 {
		return "none"
	}
	return strings.Join(common.SortedKeys(kinds), "+")
}

// onWrite runs synchronously inside every successful API write (atomically with it).
func (d *stat) onWrite(ev *world.Event) {
	if ev.Kind != "NodeClaim" || ev.Verb != "create" || ev.After == nil {
		return
	}
	pool := ev.After.GetLabels()[v1.NodePoolLabelKey]
	np := d.pool(pool)
	if np == nil || np.Spec.Replicas == nil {
		return
	}
	creator := strings.Join(ev.Stack, " <- ")
	if _, has := nodeLimit(np); has {
		d.r.Inc("static_create_checks")
		d.mu.Lock()
		d.createChecks++
		d.mu.Unlock()
	} else {
		d.r.Inc("static_creates_unlimited_pool")
	}
	if bk := d.busyKinds(); strings.Contains(bk, "disrupt") && !strings.Contains(bk, "prov") {
		d.r.Inc("static_drift_replacements")
		d.setSig("drift-replacement")
	}
	d.countCheck("synchronously at create of "+ev.Key, creator)
}

// ---- lifecycle / informer actors ----

func (d *stat) advance(name string) string {
	e := d.e
	nc := d.claim(name)
	if nc == nil {
		return ""
	}
	if nc.DeletionTimestamp != nil {
		gone := finalizeClaim(e, name)
		return fmt.Sprintf("finalize(gone=%v)", gone)
	}
	if nc.Status.ProviderID == "" {
		_, _ = e.ReconcileClaim(name)
		if nc = d.claim(name); nc != nil && nc.Status.ProviderID == "" && nc.DeletionTimestamp == nil {
			_, _ = e.ReconcileClaim(name)
		}
		if nc = d.claim(name); nc != nil && nc.Status.ProviderID != "" {
			return "launched"
		}
		return "launch-failed"
	}
	inst := e.Provider.Instance(nc.Status.ProviderID)
	if inst == nil {
		return ""
	}
	nodeName := world.NodeNameFor(inst.ProviderID)
	node := &corev1.Node{}
	if e.API.Raw.Get(bg, types.NamespacedName{Name: nodeName}, node) != nil {
		e.KubeletRegister(inst, world.KubeletOpts{Ready: false, NotReadyTaints: true})
		return "node-appeared"
	}
	if !registered(nc) {
		_, _ = e.ReconcileClaim(name)
		return "registered"
	}
	if node.Labels[v1.NodeInitializedLabelKey] != "true" {
		e.KubeletReady(nodeName, true)
		_, _ = e.ReconcileClaim(name)
		return "initialized"
	}
	return ""
}

func (d *stat) advanceFully(name string) {
	for i := 0; i < 5; i++ {
		if d.advance(name) == "" {
			return
		}
	}
}

func (d *stat) deliverSome(max int) int {
	for _, r := range d.w.pending() {
		d.backlog[r] = true
	}
	var reqs []world.Request
	for r := range d.backlog {
		reqs = append(reqs, r)
	}
	sort.Slice(reqs, func(i, j int) bool { return reqs[i].String() < reqs[j].String() })
	d.rng.Shuffle(len(reqs), func(i, j int) { reqs[i], reqs[j] = reqs[j], reqs[i] })
	n := 0
	for _, r := range reqs {
		if max > 0 && n >= max {
			break
		}
		_ = d.w.deliver(r)
		delete(d.backlog, r)
		n++
	}
	return n
}

func (d *stat) deliverFor(names ...string) {
	for _, r := range d.w.pending() {
		d.backlog[r] = true
	}
	for r := range d.backlog {
		for _, n := range names {
			if r.Name == n {
				_ = d.w.deliver(r)
				delete(d.backlog, r)
			}
		}
	}
}

func (d *stat) fullSync() {
	for r := range d.backlog {
		delete(d.backlog, r)
	}
	_ = d.w.syncAll()
}

// ---- controller steps ----

func (d *stat) withBusy(key string, f func()) {
	d.mu.Lock()
	if d.busy[key] {
		d.mu.Unlock()
		return // controller-runtime never runs the same (controller, key) twice concurrently
	}
	d.busy[key] = true
	d.mu.Unlock()
	defer func() { d.mu.Lock(); delete(d.busy, key); d.mu.Unlock() }()
	f()
}

func (d *stat) stepProv(pool string) {
	d.withBusy("prov:"+pool, func() {
		np := d.pool(pool)
		if np == nil {
			return
		}
		d.r.Inc("static_prov_reconciles")
		d.guard("static.provisioning.Reconcile("+pool+")", func() { _, _ = d.prov.Reconcile(d.e.Ctx, np) })
	})
}

func (d *stat) stepDeprov(pool string) {
	d.withBusy("deprov:"+pool, func() {
		np := d.pool(pool)
		if np == nil {
			return
		}
		d.r.Inc("static_deprov_reconciles")
		d.guard("static.deprovisioning.Reconcile("+pool+")", func() { _, _ = d.deprov.Reconcile(d.e.Ctx, np) })
	})
}

func (d *stat) stepDisrupt() {
	d.withBusy("disrupt", func() {
		d.r.Inc("static_disruption_reconciles")
		d.guard("disruption.Reconcile", func() {
			if _, err := d.disr.Reconcile(d.e.Ctx); err != nil && strings.Contains(err.Error(), "marking disrupted") {
				d.mu.Lock()
				d.failedDriftStart = true
				d.mu.Unlock()
				d.r.Inc("static_drift_start_failures")
			}
		})
	})
}

func (d *stat) stepQueue() {
	d.withBusy("queue", func() {
		for _, cmd := range d.queue.GetCommands() {
			if len(cmd.Candidates) == 0 {
				continue
			}
			nc := d.claim(cmd.Candidates[0].NodeClaim.Name)
			if nc == nil {
				continue // AsReconciler drops requests for objects that are gone
			}
			d.r.Inc("static_queue_reconciles")
			d.guard("disruption.Queue.Reconcile", func() { _, _ = d.queue.Reconcile(d.e.Ctx, nc) })
		}
	})
}

func (d *stat) stepHash(pool string) {
	if np := d.pool(pool); np != nil {
		d.guard("nodepool.hash", func() { _, _ = d.hash.Reconcile(d.e.Ctx, np) })
	}
}

func (d *stat) stepNCDisruption(name string) {
	if nc := d.claim(name); nc != nil {
		d.guard("nodeclaim.disruption", func() { _, _ = d.ncdis.Reconcile(d.e.Ctx, nc) })
	}
}

func (d *stat) randomClaim(filter func(*v1.NodeClaim) bool) string {
	var names []string
	for _, n := range d.e.ClaimNames() {
		if nc := d.claim(n); nc != nil && (filter == nil || filter(nc)) {
			names = append(names, n)
		}
	}
	if len(names) == 0 {
		return ""
	}
	return names[d.rng.Intn(len(names))]
}

// ---- schedule exploration: interleavings at API-call boundaries ----

func (d *stat) pre(verb string, obj any) {
	if !d.hookOn.Load() {
		return
	}
	if !d.hookMu.TryLock() {
		return // a hook action is already running (possibly further up this very stack)
	}
	defer d.hookMu.Unlock()
	if d.script != nil {
		k := d.scriptAt
		d.scriptAt++
		for _, sc := range d.script {
			if sc.done || !(sc.at == k || (sc.pred != nil && sc.pred(verb, obj))) {
				continue
			}
			sc.done = true
			d.r.Inc("static_interleaved_actions")
			d.step("  [interleaved at hooked call %d: %s %T, scripted]", k, verb, obj)
			sc.f()
		}
		return
	}
	if d.hookPct == 0 || d.rng.Intn(100) >= d.hookPct {
		return
	}
	n := 1 + d.rng.Intn(2)
	for i := 0; i < n; i++ {
		d.r.Inc("static_interleaved_actions")
		d.interleaved(verb, obj)
	}
}

// scripted is one forced interleaving: f runs inside the first hooked API call that is the at-th one (at >= 0)
// or satisfies pred.
type scripted struct {
	at   int
	pred func(verb string, obj any) bool
	f    func()
	done bool
}

func isNodePoolGet(verb string, obj any) bool {
	_, ok := obj.(*v1.NodePool)
	return ok && verb == "get"
}

func isNodeClaimCreate(verb string, obj any) bool {
	_, ok := obj.(*v1.NodeClaim)
	return ok && verb == "create"
}

// finalizeAndNotify: a deleting NodeClaim finishes terminating and the watch event reaches cluster state.
func (d *stat) finalizeAndNotify(name string) {
	nc := d.claim(name)
	if nc == nil {
		return
	}
	nodeName := nc.Status.NodeName
	d.mu.Lock()
	if len(d.busy) > 0 {
		d.midflightRemoval = true
	}
	d.mu.Unlock()
	d.guard("lifecycle.finalize("+name+")", func() { finalizeClaim(d.e, name) })
	d.guard("informer(delete "+name+")", func() { d.deliverFor(name, nodeName) })
}

func (d *stat) interleaved(verb string, obj any) {
	x := d.rng.Intn(100)
	switch {
	case x < 35:
		if n := d.randomClaim(func(nc *v1.NodeClaim) bool { return nc.DeletionTimestamp != nil }); n != "" {
			d.step("  [interleaved at %s %T] finalize + informer for %s", verb, obj, n)
			d.finalizeAndNotify(n)
			return
		}
		fallthrough
	case x < 60:
		k := d.deliverSome(1 + d.rng.Intn(3))
		d.step("  [interleaved at %s %T] %d informer deliveries", verb, obj, k)
	case x < 75:
		p := d.pools[d.rng.Intn(len(d.pools))]
		d.step("  [interleaved at %s %T] static provisioning %s", verb, obj, p)
		d.stepProv(p)
	case x < 85:
		p := d.pools[d.rng.Intn(len(d.pools))]
		d.step("  [interleaved at %s %T] static deprovisioning %s", verb, obj, p)
		d.stepDeprov(p)
	case x < 93:
		d.step("  [interleaved at %s %T] disruption", verb, obj)
		d.stepDisrupt()
	default:
		if n := d.randomClaim(nil); n != "" {
			var what string
			d.guard("lifecycle("+n+")", func() { what = d.advance(n) })
			d.step("  [interleaved at %s %T] lifecycle %s: %s", verb, obj, n, what)
		}
	}
}

// ---- disturbances ----

func (d *stat) editReplicas(pool string, r int64) {
	np := d.pool(pool)
	if np == nil {
		return
	}
	np.Spec.Replicas = &r
	d.e.Apply(np)
	d.r.Inc("static_replica_edits")
	d.step("edit %s replicas=%d", pool, r)
}

func (d *stat) editTemplate(pool string) {
	np := d.pool(pool)
	if np == nil {
		return
	}
	if np.Spec.Template.Labels == nil {
		np.Spec.Template.Labels = map[string]string{}
	}
	np.Spec.Template.Labels["example.com/rev"] = fmt.Sprintf("r%d", d.rng.Intn(1000))
	d.e.Apply(np)
	d.r.Inc("static_template_edits")
	d.setSig("template-edit")
	d.step("edit %s template (drifts every claim)", pool)
}

func (d *stat) externalDelete(name string) {
	if nc := d.claim(name); nc != nil && nc.DeletionTimestamp == nil {
		_ = d.e.API.Raw.Delete(bg, nc)
		d.r.Inc("static_external_deletes")
		d.setSig("external-delete")
		d.step("external delete of %s", name)
	}
}

var faultKinds = []string{"500", "409", "timeout", "429"}

func (d *stat) setFault() {
	kind := faultKinds[d.rng.Intn(len(faultKinds))]
	var f *world.Fault
	switch d.rng.Intn(4) {
	case 0, 1:
		f = &world.Fault{AtCall: 1 + d.rng.Intn(3), Kind: kind, Match: func(verb, k, caller string) bool { return verb == "create" && k == "NodeClaim" }}
		d.step("fault: %s on a NodeClaim create", kind)
		d.setSig("fault-create")
	case 2:
		f = &world.Fault{AtCall: 1, Kind: kind, Sticky: true, Match: func(verb, k, caller string) bool {
			return (verb == "status-patch" && k == "NodeClaim" && strings.Contains(caller, "markDisrupted")) || (verb == "patch" && k == "Node" && strings.Contains(caller, "RequireNoScheduleTaint"))
		}}
		d.mdFaults = append(d.mdFaults, f)
		d.step("fault: sticky %s on markDisrupted taint / condition patches", kind)
		d.setSig("fault-markdisrupted")
	default:
		f = &world.Fault{AtCall: 1 + d.rng.Intn(2), Kind: kind, Match: func(verb, k, caller string) bool {
			return k == "NodePool" && verb == "get" && strings.Contains(caller, "provisioning.(*Provisioner).Create")
		}}
		d.step("fault: %s on the NodePool read in Provisioner.Create", kind)
		d.setSig("fault-nodepool-get")
	}
	d.e.API.SetFaults(f)
	d.r.Inc("static_faults_armed")
}

// ---- one PRNG-ordered step ----

func (d *stat) randomStep(i int) { d.randomStepAt(i, d.rng.Intn(100)) }

func (d *stat) randomStepAt(i int, x int) {
	e := d.e
	pool := d.pools[d.rng.Intn(len(d.pools))]
	switch {
	case x < 14:
		d.step("%d: static provisioning %s", i, pool)
		d.stepProv(pool)
	case x < 24:
		d.step("%d: static deprovisioning %s", i, pool)
		d.stepDeprov(pool)
	case x < 34:
		d.step("%d: disruption", i)
		d.stepDisrupt()
	case x < 40:
		d.step("%d: disruption queue", i)
		d.stepQueue()
	case x < 48:
		k := d.deliverSome(0)
		d.step("%d: informers deliver all (%d)", i, k)
	case x < 53:
		k := d.deliverSome(1 + d.rng.Intn(3))
		d.step("%d: informers deliver %d", i, k)
	case x < 63:
		// lifecycle for every claim, one step each
		for _, n := range e.ClaimNames() {
			var what string
			d.guard("lifecycle("+n+")", func() { what = d.advance(n) })
			if what != "" {
				d.step("%d: lifecycle %s: %s", i, n, what)
			}
		}
	case x < 68:
		if n := d.randomClaim(nil); n != "" {
			var what string
			d.guard("lifecycle("+n+")", func() { what = d.advance(n) })
			d.step("%d: lifecycle %s: %s", i, n, what)
		}
	case x < 73:
		d.stepHash(pool)
		for _, n := range e.ClaimNames() {
			d.stepNCDisruption(n)
		}
		d.step("%d: hash + nodeclaim.disruption", i)
	case x < 80:
		np := d.pool(pool)
		if np == nil {
			return
		}
		cur := *np.Spec.Replicas
		nr := cur + int64(d.rng.Intn(7)-3)
		if nr < 0 {
			nr = 0
		}
		if nr > 6 {
			nr = 6
		}
		if nr > cur {
			d.setSig("scale-up")
		} else if nr < cur {
			d.setSig("scale-down")
		}
		d.editReplicas(pool, nr)
	case x < 84:
		d.editTemplate(pool)
	case x < 89:
		if n := d.randomClaim(func(nc *v1.NodeClaim) bool { return nc.DeletionTimestamp == nil }); n != "" {
			d.externalDelete(n)
		}
	case x < 91:
		if n := d.randomClaim(func(nc *v1.NodeClaim) bool { return nc.DeletionTimestamp == nil && nc.Status.ProviderID != "" }); n != "" {
			e.Provider.Drift[n] = cloudprovider.DriftReason("CloudDrift")
			d.setSig("cloud-drift")
			d.step("%d: provider reports %s drifted", i, n)
		}
	case x < 96:
		if d.rng.Intn(3) == 0 {
			e.API.ClearFaults()
			d.step("%d: faults cleared", i)
		} else {
			d.setFault()
		}
	case x < 98:
		e.Provider.CreateErrs = append(e.Provider.CreateErrs, cloudprovider.NewInsufficientCapacityError(fmt.Errorf("injected ICE")))
		d.setSig("provider-ice")
		d.step("%d: next provider Create fails with InsufficientCapacity", i)
	default:
		d.hookOn.Store(false)
		e.Restart()
		d.hookOn.Store(true)
		d.r.Inc("static_restarts")
		d.setSig("restart")
		d.step("%d: controller restart", i)
	}
}

// concurrentRound runs several controllers in real goroutines (the -race build observes them).
func (d *stat) concurrentRound(i int) {
	e := d.e
	d.hookOn.Store(false)
	e.API.Yield = true
	defer func() { e.API.Yield = false; d.hookOn.Store(true) }()
	var fs []func()
	var names []string
	add := func(n string, f func()) { names = append(names, n); fs = append(fs, f) }
	for _, p := range d.pools {
		p := p
		if d.rng.Intn(2) == 0 {
			add("prov:"+p, func() { d.stepProv(p) })
		}
		if d.rng.Intn(2) == 0 {
			add("deprov:"+p, func() { d.stepDeprov(p) })
		}
	}
	if d.rng.Intn(2) == 0 {
		add("disrupt", d.stepDisrupt)
	}
	if d.rng.Intn(3) == 0 {
		add("queue", d.stepQueue)
	}
	// informer deliveries and finalisations run beside them
	for _, r := range d.w.pending() {
		d.backlog[r] = true
	}
	var reqs []world.Request
	for r := range d.backlog {
		if r.Kind == "NodeClaim" || r.Kind == "Node" {
			reqs = append(reqs, r)
		}
	}
	sort.Slice(reqs, func(a, b int) bool { return reqs[a].String() < reqs[b].String() })
	if len(reqs) > 4 {
		reqs = reqs[:4]
	}
	// controller-runtime never reconciles one key in two workers at a time: a NodeClaim whose informer delivery runs in
	// this round is not also finalised (= deleted and delivered again) in this round
	delivering := map[string]bool{}
	for _, rq := range reqs {
		rq := rq
		delete(d.backlog, rq)
		if rq.Kind == "NodeClaim" {
			delivering[rq.Name] = true
		}
		add("informer:"+rq.Name, func() { d.guard("informer", func() { _ = d.w.deliver(rq) }) })
	}
	for _, n := range e.ClaimNames() {
		n := n
		if delivering[n] {
			continue
		}
		if nc := d.claim(n); nc != nil && nc.DeletionTimestamp != nil && d.rng.Intn(2) == 0 {
			add("finalize:"+n, func() {
				d.mu.Lock()
				d.midflightRemoval = true
				d.mu.Unlock()
				d.guard("lifecycle.finalize", func() { finalizeClaim(e, n) })
				d.guard("informer", func() { _ = d.w.deliver(world.Request{Kind: "NodeClaim", Name: n}) })
			})
		}
	}
	if len(fs) < 2 {
		return
	}
	d.r.Inc("static_concurrent_rounds")
	d.setSig("concurrent")
	d.step("%d: CONCURRENT %s", i, strings.Join(names, " || "))
	d.r.DistinctAdd("schedules", strings.Join(names, "|"))
	var wg sync.WaitGroup
	start := make(chan struct{})
	for _, f := range fs {
		f := f
		wg.Add(1)
		go func() {
			defer wg.Done()
			<-start
			f()
		}()
	}
	close(start)
	wg.Wait()
}

// ---- monitor (ii): bounded settling ----

func (d *stat) settle() {
	e := d.e
	d.hookOn.Store(false)
	e.API.ClearFaults()
	e.Provider.CreateErrs = nil
	want := map[string]int64{}
	stable := 0
	rounds := 0
	for rounds = 1; rounds <= 40; rounds++ {
		// every controller runs once per round, in PRNG order (a fixed order can resonate with the controllers'
		// own hand-offs and starve one of them for ever, which no real deployment does); informers in between
		d.fullSync()
		var todo []func()
		for _, p := range d.pools {
			p := p
			todo = append(todo, func() { d.stepHash(p) }, func() { d.stepProv(p) }, func() { d.stepDeprov(p) })
		}
		todo = append(todo, func() {
			for _, n := range e.ClaimNames() {
				d.guard("lifecycle("+n+")", func() { d.advanceFully(n) })
				d.stepNCDisruption(n)
			}
		}, d.stepDisrupt, d.stepQueue)
		d.rng.Shuffle(len(todo), func(i, j int) { todo[i], todo[j] = todo[j], todo[i] })
		for _, f := range todo {
			f()
			d.fullSync()
		}
		e.Clock.Step(15 * time.Second)
		// state.nodeclaimgc runs 15s after every NodeClaim create
		for _, n := range d.w.createdNames() {
			d.guard("state.nodeclaimgc", func() {
				_, _ = d.gc.Reconcile(e.Ctx, reconcile.Request{NamespacedName: types.NamespacedName{Name: n}})
			})
		}
		if os.Getenv("VERIF_C03_TRACE") != "" {
			fmt.Printf("SETTLE %d: %v\n", rounds, d.snapshot())
		}
		d.countCheck(fmt.Sprintf("after settling round %d", rounds), "")
		ok := true
		for _, p := range d.pools {
			np := d.pool(p)
			if np == nil {
				continue
			}
			w := *np.Spec.Replicas
			if lim, has := nodeLimit(np); has && lim < w {
				w = lim
			}
			want[p] = w
			if _, live := d.claimsOf(p); int64(live) != w {
				ok = false
			}
		}
		if ok {
			stable++
			if stable >= 3 {
				break
			}
		} else {
			stable = 0
		}
	}
	d.r.Inc("static_settle_checks")
	d.r.Count("static_settle_rounds", rounds)
	if stable >= 3 {
		d.r.Inc("static_settled")
		return
	}
	for _, p := range d.pools {
		_, live := d.claimsOf(p)
		if int64(live) == want[p] {
			continue
		}
		dir := "below"
		if int64(live) > want[p] {
			dir = "above"
		}
		cause := "no-reservation-held"
		// pending-disruption entries in Karpenter's accounting vs. candidates of queued commands that still exist
		_, _, pend := d.e.Cluster.NodePoolState.GetNodeCount(p)
		existingCandidates := 0
		for _, cmd := range d.queue.GetCommands() {
			for _, c := range cmd.Candidates {
				if c.NodePool.Name == p && d.claim(c.NodeClaim.Name) != nil {
					existingCandidates++
				}
			}
		}
		if pend > existingCandidates {
			cause = "stale-pending-disruption-entry"
		}
		if res := reservedOf(d.e.Cluster.NodePoolState); res[p] > 0 {
			cause = "leaked-reservation" // nothing is in flight, yet the pool's reservation counter is positive
		}
		d.mu.Lock()
		if cause == "leaked-reservation" {
			for _, f := range d.mdFaults {
				if f.Fired {
					d.failedDriftStart = true // also covers 409s, which the disruption controller swallows as a requeue
				}
			}
			if d.failedDriftStart {
				cause += ":after-failed-drift-start"
			} else {
				cause += ":no-failed-drift-start"
			}
		}
		d.mu.Unlock()
		key := "static-not-settled:" + dir + ":" + cause
		d.r.Violate(key, fmt.Sprintf("static NodePool %s: %d non-deleting NodeClaims after 40 fault-free rounds, expected min(replicas, limits.nodes)=%d", p, live, want[p]), d.caseDesc,
			map[string]any{"pool": p, "non_deleting": live, "want": want[p], "state_reserved": reservedOf(d.e.Cluster.NodePoolState)[p], "state": d.snapshot(), "trace": d.traceCopy()})
	}
}

// ---- world ----

func newStaticPool(rng *rand.Rand, ctx context.Context, name string, replicas int64, limit int64, budget string) (*v1.NodePool, []string) {
	cfg := gen.DefaultPoolCfg()
	cfg.PTaint, cfg.PCustomLabel, cfg.PRequirement = 0.15, 0.1, 0.3
	var np *v1.NodePool
	var errs []string
	for try := 0; try < 6; try++ {
		np = gen.NodePool(rng, name, cfg)
		np.Spec.Replicas = &replicas
		if limit >= 0 {
			np.Spec.Limits = v1.Limits{ResNodes: *resource.NewQuantity(limit, resource.DecimalSI)}
		}
		np.Spec.Disruption.Budgets = []v1.Budget{{Nodes: budget}}
		var out *v1.NodePool
		out, errs = world.AdmitNodePool(ctx, np)
		if len(errs) == 0 {
			out.Spec.Replicas = &replicas
			gen.MarkPoolReady(out)
			return out, nil
		}
	}
	return nil, errs
}

func poolLaunchable(e *world.Env, np *v1.NodePool) bool {
	// a NodeClaim built from the template must have at least one permitted launch
	nc := &v1.NodeClaim{}
	nc.Labels = map[string]string{v1.NodePoolLabelKey: np.Name}
	nc.Spec.Requirements = np.Spec.Template.Spec.Requirements
	return len(e.Provider.Choices(nc)) > 0
}

func runStatic(r *mon.Report, tier string, idx, ord int, rng *rand.Rand) {
	// In production a panic inside a workqueue.ParallelizeUntil worker is re-raised by HandleCrash and kills the
	// process. Here it is recorded as a violation instead, so that the rest of the batch still runs. (Never
	// restored: a worker's HandleCrash runs after its wg.Done(), i.e. possibly after the reconcile returned.)

	yes := true
	e := world.NewEnv(rng, test.OptionsFields{FeatureGates: test.FeatureGates{StaticCapacity: &yes}})
	d := &stat{r: r, rng: rng, e: e, reported: map[string]bool{}, sig: map[string]bool{}, backlog: map[world.Request]bool{}, busy: map[string]bool{}}
	setPanicSink(d.workerPanic)
	e.Apply(gen.NodeClass())
	ccfg := gen.DefaultCatalogCfg()
	ccfg.PUnavailable = 0.05
	its, specs := gen.Catalog(rng, ccfg, "")
	e.Provider.Default = its
	e.Provider.Policy = "random"
	d.allMethods = rng.Intn(4) == 0
	shape := "random"
	switch ord % 8 {
	case 2:
		shape = "drift-replacement-create-fails-during-scale-up"
	case 1:
		shape = "last-claim-finalises-during-create"
	case 3:
		shape = "drift-while-peer-finalises"
	case 5:
		shape = "drift-start-fails-then-scale-up"
	case 7:
		shape = "drift-candidate-finalises-during-start"
	}
	npools := 1 + rng.Intn(2)
	if shape != "random" {
		npools = 1
	}
	poolDesc := []map[string]any{}
	for i := 0; i < npools; i++ {
		name := fmt.Sprintf("static-%d", i)
		replicas := int64(rng.Intn(5))
		var limit int64 = -1
		switch rng.Intn(6) {
		case 0:
			limit = -1
		case 1:
			limit = replicas
		case 2:
			limit = replicas + 1
		case 3:
			limit = replicas + 2
		case 4:
			if replicas > 0 {
				limit = replicas - 1
			} else {
				limit = 0
			}
		default:
			limit = int64(1 + rng.Intn(6))
		}
		budget := []string{"100%", "100%", "1", "50%", "2"}[rng.Intn(5)]
		switch shape {
		case "last-claim-finalises-during-create":
			replicas = int64(1 + rng.Intn(2))
			limit = []int64{-1, replicas + 1, replicas + 2}[rng.Intn(3)]
		case "drift-while-peer-finalises":
			replicas = int64(2 + rng.Intn(3))
			limit = replicas + []int64{1, 1, 2}[rng.Intn(3)]
			budget = "100%"
		case "drift-replacement-create-fails-during-scale-up":
			replicas = int64(2 + rng.Intn(2))
			limit = replicas + 2
			budget = "100%"
		case "drift-start-fails-then-scale-up", "drift-candidate-finalises-during-start":
			replicas = int64(1 + rng.Intn(3))
			limit = replicas + int64(1+rng.Intn(2))
			budget = "100%"
		}
		np, errs := newStaticPool(rng, e.Ctx, name, replicas, limit, budget)
		if np == nil || !poolLaunchable(e, np) {
			r.Inc("static_pool_rejected")
			if np == nil {
				r.Inconcl("case %d: generated static NodePool rejected by validation: %v", idx, errs)
				r.Eval()
				return
			}
			np.Spec.Template.Spec.Requirements = nil
		}
		e.Apply(np)
		d.pools = append(d.pools, name)
		poolDesc = append(poolDesc, map[string]any{"name": name, "replicas": replicas, "limit_nodes": limit, "budget": budget,
			"requirements": np.Spec.Template.Spec.Requirements, "taints": np.Spec.Template.Spec.Taints})
		rel := "none"
		switch {
		case limit < 0:
		case limit < replicas:
			rel = "limit<replicas"
		case limit == replicas:
			rel = "limit=replicas"
		default:
			rel = "limit>replicas"
		}
		d.sig["rel:"+rel] = true
	}
	d.caseDesc = map[string]any{"case": idx, "kind": "static", "ordinal": ord, "shape": shape, "pools": poolDesc, "catalog": specs, "allDisruptionMethods": d.allMethods}
	d.w = newWatches(e)
	d.build()
	e.OnRestart = append(e.OnRestart, d.build)
	e.API.PostWrite = append(e.API.PostWrite, d.onWrite)
	r.Eval()
	r.Inc("static_cases")

	// warm-up: reach the replica count through the real controllers
	d.fullSync()
	for _, p := range d.pools {
		d.stepHash(p)
		d.stepProv(p)
	}
	d.countCheck("after warm-up provisioning", "")
	for _, n := range e.ClaimNames() {
		if shape != "random" || rng.Intn(10) < 8 {
			d.guard("lifecycle("+n+")", func() { d.advanceFully(n) })
		}
	}
	d.fullSync()
	d.step("warm-up done: %v", d.snapshot())

	d.hookOn.Store(true)
	switch shape {
	case "random":
		d.hookPct = []int{0, 10, 25, 40}[rng.Intn(4)]
		steps := 12 + rng.Intn(19)
		for i := 0; i < steps; i++ {
			if rng.Intn(100) < 12 {
				d.concurrentRound(i)
			} else {
				d.randomStep(i)
			}
			d.countCheck(fmt.Sprintf("after step %d", i), "")
		}
	case "last-claim-finalises-during-create":
		d.shapeLastClaim()
	case "drift-replacement-create-fails-during-scale-up":
		d.shapeReplacementCreateFails()
	case "drift-while-peer-finalises":
		d.shapeDriftPeer()
	case "drift-start-fails-then-scale-up":
		d.shapeDriftStartFails()
	case "drift-candidate-finalises-during-start":
		d.shapeCandidateFinalises()
	}
	d.hookOn.Store(false)
	d.settle()
	time.Sleep(time.Millisecond) // let a straggling HandleCrash of the last step hand over its record
	d.flushPanics()

	if os.Getenv("VERIF_C03_TRACE") != "" {
		fmt.Printf("TRACE case %d shape %s pools %v\n%s\nFINAL %v\n", idx, shape, poolDesc, strings.Join(d.traceCopy(), "\n"), d.snapshot())
	}
	{
		h := fnv.New64a()
		for _, l := range d.traceCopy() {
			// controller / event order only (strip generated names)
			h.Write([]byte(nameRe.ReplaceAllString(l, "*")))
		}
		r.DistinctAdd("static_histories", fmt.Sprintf("%x", h.Sum64()))
	}
	d.mu.Lock()
	sigs := common.SortedKeys(d.sig)
	nontrivial := d.createChecks > 0
	d.mu.Unlock()
	if nontrivial {
		r.Sig("static|%s|%s|hook=%d|pools=%d", shape, strings.Join(sigs, ","), d.hookPct, len(d.pools))
	}
	if wantSample(r, "static") && nontrivial && shape == "random" {
		sampled["static"] = true
		r.Sample(map[string]any{"case": idx, "kind": "static", "shape": shape, "pools": poolDesc, "final": d.snapshot(), "trace": d.traceCopy()})
	}
}

// ---- directed shapes: scripted event order around the suspected windows, real code everywhere ----

// shapeLastClaim: every claim of the pool is deleted externally; while the static provisioning controller is
// creating the replacements, the last old claim finishes terminating (its delete event reaches cluster state)
// and one of the creates is refused by the API server.
func (d *stat) shapeLastClaim() {
	e := d.e
	pool := d.pools[0]
	d.hookPct = 0
	for _, n := range e.ClaimNames() {
		d.externalDelete(n)
	}
	d.fullSync()
	var deleting []string
	for _, n := range e.ClaimNames() {
		if nc := d.claim(n); nc != nil && nc.DeletionTimestamp != nil {
			deleting = append(deleting, n)
		}
	}
	if len(deleting) == 0 {
		return
	}
	// all but one finish right away
	for _, n := range deleting[1:] {
		d.finalizeAndNotify(n)
	}
	last := deleting[0]
	// the refused call: the NodeClaim create, or the NodePool read just before it
	if d.rng.Intn(5) != 0 {
		kind := faultKinds[d.rng.Intn(len(faultKinds))]
		if d.rng.Intn(2) == 0 {
			e.API.SetFaults(&world.Fault{AtCall: 1, Kind: kind, Match: func(verb, k, caller string) bool { return verb == "create" && k == "NodeClaim" }})
			d.step("fault: %s on the first NodeClaim create", kind)
			d.setSig("fault-create")
		} else {
			e.API.SetFaults(&world.Fault{AtCall: 1, Kind: kind, Match: func(verb, k, caller string) bool { return verb == "get" && k == "NodePool" }})
			d.step("fault: %s on the first NodePool read", kind)
			d.setSig("fault-nodepool-get")
		}
	}
	sc := &scripted{at: []int{0, 0, 1, 1, 2, 3}[d.rng.Intn(6)], f: func() {
		d.step("  %s finishes terminating while the provisioning reconcile is in flight", last)
		d.finalizeAndNotify(last)
	}}
	d.script = []*scripted{sc}
	d.scriptAt = 0
	d.r.Inc("static_shape_last_claim")
	d.step("static provisioning %s with scripted interleaving at hooked call %d", pool, sc.at)
	d.stepProv(pool)
	d.script = nil
	e.API.ClearFaults()
	d.countCheck("after shape last-claim", "")
	// a few random steps afterwards
	d.hookPct = 20
	for i := 0; i < 6; i++ {
		d.randomStep(100 + i)
		d.countCheck(fmt.Sprintf("after step %d", 100+i), "")
	}
}

// shapeDriftPeer: one claim is drifted, a peer claim is terminating; while the disruption controller starts the
// drift replacement, the peer finishes terminating and the static provisioning controller reconciles.
func (d *stat) shapeDriftPeer() {
	e := d.e
	pool := d.pools[0]
	d.hookPct = 0
	names := e.ClaimNames()
	if len(names) == 0 {
		return
	}
	np := d.pool(pool)
	replicas := *np.Spec.Replicas
	// make exactly one claim the drift candidate, delete the others externally (launched => tracked as deleting)
	d.rng.Shuffle(len(names), func(i, j int) { names[i], names[j] = names[j], names[i] })
	cand := names[0]
	var peers []string
	for _, n := range names[1:] {
		d.externalDelete(n)
		peers = append(peers, n)
	}
	if len(peers) == 0 {
		// single replica: scale up by one, bring it up, then delete it externally so that a peer is terminating
		d.editReplicas(pool, replicas+1)
		d.stepProv(pool)
		for _, n := range e.ClaimNames() {
			if n != cand {
				d.guard("lifecycle("+n+")", func() { d.advanceFully(n) })
				d.externalDelete(n)
				peers = append(peers, n)
			}
		}
	}
	e.Provider.Drift[cand] = cloudprovider.DriftReason("CloudDrift")
	d.stepNCDisruption(cand)
	d.fullSync()
	d.step("candidate %s drifted, peers terminating %v: %v", cand, peers, d.snapshot())
	// script: while the disruption reconcile is in flight the peers finish terminating (A) and static
	// provisioning reconciles (B, same hooked call or the next); the calls are PRNG-chosen by index or by kind
	// (the NodePool read / NodeClaim create of the replacement)
	finish := func() {
		for _, n := range peers {
			d.step("  peer %s finishes terminating while the drift command starts", n)
			d.finalizeAndNotify(n)
		}
	}
	reprov := func() {
		d.step("  static provisioning %s runs", pool)
		d.stepProv(pool)
	}
	a, b := &scripted{at: -1, f: finish}, &scripted{at: -1, f: reprov}
	how := ""
	switch d.rng.Intn(4) {
	case 0:
		a.pred, b.pred, how = isNodePoolGet, isNodePoolGet, "both at the replacement's NodePool read"
	case 1:
		a.pred, b.pred, how = isNodePoolGet, isNodeClaimCreate, "NodePool read, then NodeClaim create"
	case 2:
		a.pred, b.pred, how = isNodeClaimCreate, isNodeClaimCreate, "both at the replacement's NodeClaim create"
	default:
		a.at = d.rng.Intn(18)
		b.at = a.at + d.rng.Intn(2)
		how = fmt.Sprintf("hooked calls %d,%d", a.at, b.at)
	}
	if d.rng.Intn(4) == 0 {
		// variant: the peers keep terminating, only static provisioning reconciles inside the window
		a.f = func() {}
		how += " (peers do not finish)"
	}
	d.script = []*scripted{a, b}
	d.scriptAt = 0
	d.r.Inc("static_shape_drift_peer")
	d.step("disruption reconcile with scripted interleavings: %s", how)
	d.stepDisrupt()
	d.script = nil
	d.countCheck("after shape drift-peer", "")
	d.hookPct = 20
	for i := 0; i < 6; i++ {
		d.randomStep(100 + i)
		d.countCheck(fmt.Sprintf("after step %d", 100+i), "")
	}
}

// shapeDriftStartFails: the disruption controller starts drift replacements while the API server refuses the
// taint / condition patches of markDisrupted; afterwards the faults stop and the pool is scaled up to its limit.
func (d *stat) shapeDriftStartFails() {
	e := d.e
	pool := d.pools[0]
	d.hookPct = 0
	names := e.ClaimNames()
	if len(names) == 0 {
		return
	}
	np := d.pool(pool)
	lim, _ := nodeLimit(np)
	d.rng.Shuffle(len(names), func(i, j int) { names[i], names[j] = names[j], names[i] })
	nDrift := 1 + d.rng.Intn(len(names))
	for _, n := range names[:nDrift] {
		e.Provider.Drift[n] = cloudprovider.DriftReason("CloudDrift")
		d.stepNCDisruption(n)
	}
	d.fullSync()
	kind := faultKinds[d.rng.Intn(len(faultKinds))]
	mdf := &world.Fault{AtCall: 1, Kind: kind, Sticky: true, Match: func(verb, k, caller string) bool {
		return (verb == "status-patch" && k == "NodeClaim" && strings.Contains(caller, "markDisrupted")) || (verb == "patch" && k == "Node" && strings.Contains(caller, "RequireNoScheduleTaint"))
	}}
	d.mdFaults = append(d.mdFaults, mdf)
	e.API.SetFaults(mdf)
	d.setSig("fault-markdisrupted")
	d.r.Inc("static_shape_drift_start_fails")
	rounds := 1 + d.rng.Intn(2)
	for i := 0; i < rounds; i++ {
		d.step("disruption reconcile while markDisrupted patches fail (%s, sticky): %d claims drifted", kind, nDrift)
		d.stepDisrupt()
		d.countCheck("after failed drift start", "")
	}
	e.API.ClearFaults()
	d.step("faults cleared: %v reserved=%v", d.snapshot(), reservedOf(e.Cluster.NodePoolState))
	if d.rng.Intn(2) == 0 {
		for _, n := range names[:nDrift] {
			delete(e.Provider.Drift, n)
			d.stepNCDisruption(n)
		}
		d.step("provider no longer reports drift")
	}
	d.editReplicas(pool, lim)
	d.setSig("scale-up")
	d.hookPct = 10
	for i := 0; i < 4; i++ {
		d.randomStepNoRestart(100 + i)
		d.countCheck(fmt.Sprintf("after step %d", 100+i), "")
	}
}

// shapeReplacementCreateFails: every claim drifts and there is headroom for two replacements under the node limit, so
// StaticDrift starts (at least) two replace commands, each holding one reserved node. The API server refuses the first
// replacement NodeClaim create; inside the create call of the next replacement (its reservation is still outstanding) the
// pool is scaled up to its limit and static provisioning reconciles.
func (d *stat) shapeReplacementCreateFails() {
	e := d.e
	pool := d.pools[0]
	d.hookPct = 0
	names := e.ClaimNames()
	if len(names) < 2 {
		return
	}
	np := d.pool(pool)
	lim, _ := nodeLimit(np)
	for _, n := range names {
		e.Provider.Drift[n] = cloudprovider.DriftReason("CloudDrift")
		d.stepNCDisruption(n)
	}
	d.fullSync()
	kind := faultKinds[d.rng.Intn(len(faultKinds))]
	e.API.SetFaults(&world.Fault{AtCall: 1, Kind: kind, Match: func(verb, k, caller string) bool { return verb == "create" && k == "NodeClaim" }})
	d.setSig("fault-create")
	creates := 0
	second := func(verb string, obj any) bool {
		if !isNodeClaimCreate(verb, obj) {
			return false
		}
		creates++
		return creates == 2
	}
	scale := func() {
		d.step("  inside the second replacement's create: scale %s up to %d and run static provisioning (reserved=%v)", pool, lim, reservedOf(e.Cluster.NodePoolState))
		d.editReplicas(pool, lim)
		d.stepProv(pool)
	}
	d.script = []*scripted{{at: -1, pred: second, f: scale}}
	d.scriptAt = 0
	d.setSig("scale-up")
	d.r.Inc("static_shape_replacement_create_fails")
	d.step("disruption reconcile: %d claims drifted, first replacement create fails (%s)", len(names), kind)
	d.stepDisrupt()
	d.script = nil
	e.API.ClearFaults()
	d.countCheck("after shape replacement-create-fails", "")
	d.hookPct = 10
	for i := 0; i < 4; i++ {
		d.randomStepNoRestart(100 + i)
		d.countCheck(fmt.Sprintf("after step %d", 100+i), "")
	}
}

// randomStepNoRestart is randomStep without controller restarts and replica edits (they would hide a leaked reservation).
func (d *stat) randomStepNoRestart(i int) {
	for {
		x := d.rng.Intn(100)
		if x >= 98 || (x >= 73 && x < 80) {
			continue
		}
		d.randomStepAt(i, x)
		return
	}
}

// shapeCandidateFinalises: a drifted claim is deleted by the user; the disruption controller (whose view still
// lags) picks it as a drift candidate, and the claim finishes terminating while markDisrupted is in flight.
// Afterwards the pool is scaled up to its limit.
func (d *stat) shapeCandidateFinalises() {
	e := d.e
	pool := d.pools[0]
	d.hookPct = 0
	names := e.ClaimNames()
	if len(names) == 0 {
		return
	}
	np := d.pool(pool)
	lim, _ := nodeLimit(np)
	cand := names[d.rng.Intn(len(names))]
	e.Provider.Drift[cand] = cloudprovider.DriftReason("CloudDrift")
	d.stepNCDisruption(cand)
	d.fullSync()
	d.externalDelete(cand) // the watch event for the deletionTimestamp is still in flight
	sc := &scripted{at: -1, f: func() {
		d.step("  candidate %s finishes terminating while markDisrupted is in flight", cand)
		d.finalizeAndNotify(cand)
	}}
	how := ""
	isTaintPatch := func(verb string, obj any) bool { _, ok := obj.(*corev1.Node); return ok && verb == "patch" }
	switch d.rng.Intn(4) {
	case 0, 1:
		sc.pred, how = isTaintPatch, "at the taint patch"
	case 2:
		seenPatch := false
		sc.pred, how = func(verb string, obj any) bool {
			if isTaintPatch(verb, obj) {
				seenPatch = true
				return false
			}
			_, ok := obj.(*v1.NodeClaim)
			return ok && verb == "get" && seenPatch
		}, "at markDisrupted's NodeClaim read"
	default:
		sc.at = d.rng.Intn(16)
		how = fmt.Sprintf("at hooked call %d", sc.at)
	}
	d.script = []*scripted{sc}
	d.scriptAt = 0
	d.r.Inc("static_shape_candidate_finalises")
	d.step("disruption reconcile, candidate %s terminates %s", cand, how)
	d.stepDisrupt()
	d.script = nil
	d.countCheck("after shape candidate-finalises", "")
	d.fullSync()
	d.editReplicas(pool, lim)
	d.setSig("scale-up")
	d.hookPct = 10
	for i := 0; i < 4; i++ {
		d.randomStepNoRestart(100 + i)
		d.countCheck(fmt.Sprintf("after step %d", 100+i), "")
	}
}
