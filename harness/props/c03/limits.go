package c03

import (
	"fmt"
	"math/rand"

	corev1 "k8s.io/api/core/v1"
	"k8s.io/apimachinery/pkg/api/resource"

	v1 "sigs.k8s.io/karpenter/pkg/apis/v1"
	"sigs.k8s.io/karpenter/pkg/cloudprovider"

	"verif/gen"
)

// ResNodes is the pseudo resource `nodes` of NodePool.spec.limits (spelled out here so that the oracle does
// not depend on Karpenter's constant).
const ResNodes = corev1.ResourceName("nodes")

// limitResources are the resources the generator puts limits on.
var limitResources = []corev1.ResourceName{corev1.ResourceCPU, corev1.ResourceMemory, ResNodes, gen.ResGPU}

// typeSizes returns the distinct positive capacities (milli-units) the catalog has for a resource.
func typeSizes(its []*cloudprovider.InstanceType, res corev1.ResourceName) []int64 {
	seen := map[int64]bool{}
	var out []int64
	for _, it := range its {
		q, ok := it.Capacity[res]
		if !ok || q.IsZero() {
			continue
		}
		m := q.MilliValue()
		if !seen[m] {
			seen[m] = true
			out = append(out, m)
		}
	}
	return out
}

func milli(m int64) resource.Quantity {
	if m%1000 == 0 {
		return *resource.NewQuantity(m/1000, resource.DecimalSI)
	}
	return *resource.NewMilliQuantity(m, resource.DecimalSI)
}

// RandomLimits draws NodePool limits that sit on the boundaries the property is sensitive to: zero, below the
// smallest instance type, exactly k instance sizes, one unit above / below k sizes, sums of different sizes.
// The returned description is serialisable.
func RandomLimits(rng *rand.Rand, its []*cloudprovider.InstanceType) (v1.Limits, map[string]string) {
	lim := v1.Limits{}
	desc := map[string]string{}
	// which resources get a limit: at least one, often several
	var chosen []corev1.ResourceName
	for _, r := range limitResources {
		p := 0.45
		if r == gen.ResGPU {
			p = 0.25
		}
		if rng.Float64() < p {
			chosen = append(chosen, r)
		}
	}
	if len(chosen) == 0 {
		chosen = append(chosen, limitResources[rng.Intn(3)])
	}
	for _, r := range chosen {
		if r == ResNodes {
			n := []int64{0, 1, 1, 2, 2, 3, 4, 6}[rng.Intn(8)]
			lim[r] = *resource.NewQuantity(n, resource.DecimalSI)
			desc[string(r)] = fmt.Sprintf("%d", n)
			continue
		}
		sizes := typeSizes(its, r)
		if len(sizes) == 0 {
			// the catalog has no such resource (gpu): any limit incl. zero is trivially kept
			n := int64(rng.Intn(3))
			lim[r] = *resource.NewQuantity(n, resource.DecimalSI)
			desc[string(r)] = fmt.Sprintf("%d (resource absent from catalog)", n)
			continue
		}
		smallest, largest := sizes[0], sizes[0]
		for _, s := range sizes {
			if s < smallest {
				smallest = s
			}
			if s > largest {
				largest = s
			}
		}
		unit := int64(1000) // one cpu / one gpu
		if r == corev1.ResourceMemory {
			unit = 1 << 20 * 1000 // 1Mi in milli-bytes
		}
		var m int64
		var how string
		switch rng.Intn(8) {
		case 0:
			m, how = 0, "zero"
		case 1:
			m, how = smallest-unit/2, "below-smallest"
			if m < 0 {
				m = 0
			}
		case 2:
			k := int64(1 + rng.Intn(4))
			m, how = k*sizes[rng.Intn(len(sizes))], fmt.Sprintf("exactly-%dx-size", k)
		case 3:
			k := int64(1 + rng.Intn(4))
			m, how = k*sizes[rng.Intn(len(sizes))]+unit/2, fmt.Sprintf("%dx-size-plus-half-unit", k)
		case 4:
			k := int64(1 + rng.Intn(4))
			m, how = k*sizes[rng.Intn(len(sizes))]-unit/2, fmt.Sprintf("%dx-size-minus-half-unit", k)
		case 5:
			m, how = sizes[rng.Intn(len(sizes))]+sizes[rng.Intn(len(sizes))]+sizes[rng.Intn(len(sizes))], "sum-of-three-sizes"
		case 6:
			k := int64(1 + rng.Intn(3))
			m, how = k*largest+smallest, fmt.Sprintf("%dx-largest-plus-smallest", k)
		default:
			k := int64(2 + rng.Intn(5))
			m, how = k*smallest, fmt.Sprintf("%dx-smallest", k)
		}
		if m < 0 {
			m = 0
		}
		if r == corev1.ResourceMemory {
			lim[r] = *resource.NewQuantity(m/1000, resource.BinarySI)
		} else {
			lim[r] = milli(m)
		}
		q := lim[r]
		desc[string(r)] = q.String() + " (" + how + ")"
	}
	return lim, desc
}
