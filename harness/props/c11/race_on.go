//go:build race

package c11

// raceBuild: in the -race binary every delivery schedule is executed with concurrent deliveries.
const raceBuild = true
