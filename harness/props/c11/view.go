package c11

import (
	"context"
	"fmt"
	"math"
	"net"
	"reflect"
	"sort"
	"strings"
	"unsafe"

	appsv1 "k8s.io/api/apps/v1"
	corev1 "k8s.io/api/core/v1"
	metav1 "k8s.io/apimachinery/pkg/apis/meta/v1"
	"k8s.io/apimachinery/pkg/types"
	"k8s.io/apimachinery/pkg/util/sets"
	"k8s.io/utils/clock"

	"sigs.k8s.io/karpenter/pkg/controllers/state"
	"sigs.k8s.io/karpenter/pkg/scheduling"
)

// ---- read-only access to unexported fields (valid under checkptr: the pointer is derived from an
// addressable reflect.Value of a live object and never outlives it) ----

func unexported(v reflect.Value, name string) reflect.Value {
	f := v.FieldByName(name)
	if !f.IsValid() {
		panic("c11: no field " + name + " in " + v.Type().String())
	}
	return reflect.NewAt(f.Type(), unsafe.Pointer(f.UnsafeAddr())).Elem()
}

func fieldOf[T any](ptr any, name string) T {
	v := reflect.ValueOf(ptr).Elem()
	return unexported(v, name).Interface().(T)
}

// ---- quantity helpers: Cmp-based, zero == missing, nil == empty ----

func rlEqual(a, b corev1.ResourceList) bool {
	for k, qa := range a {
		qb, ok := b[k]
		if !ok {
			if !qa.IsZero() {
				return false
			}
			continue
		}
		if qa.Cmp(qb) != 0 {
			return false
		}
	}
	for k, qb := range b {
		if _, ok := a[k]; !ok && !qb.IsZero() {
			return false
		}
	}
	return true
}

func rlString(a corev1.ResourceList) string {
	var ks []string
	for k, q := range a {
		if q.IsZero() {
			continue
		}
		ks = append(ks, string(k))
	}
	sort.Strings(ks)
	var sb strings.Builder
	sb.WriteByte('{')
	for i, k := range ks {
		q := a[corev1.ResourceName(k)]
		qq := q.DeepCopy()
		if i > 0 {
			sb.WriteByte(' ')
		}
		fmt.Fprintf(&sb, "%s=%s", k, qq.String())
	}
	sb.WriteByte('}')
	return sb.String()
}

func rlMapEqual(a, b map[string]corev1.ResourceList) bool {
	if len(a) != len(b) {
		return false
	}
	for k, va := range a {
		vb, ok := b[k]
		if !ok || !rlEqual(va, vb) {
			return false
		}
	}
	return true
}

func rlMapString(a map[string]corev1.ResourceList) string {
	ks := make([]string, 0, len(a))
	for k := range a {
		ks = append(ks, k)
	}
	sort.Strings(ks)
	var sb strings.Builder
	for _, k := range ks {
		fmt.Fprintf(&sb, "%s:%s ", k, rlString(a[k]))
	}
	return strings.TrimSpace(sb.String())
}

func nnMap(m map[types.NamespacedName]corev1.ResourceList) map[string]corev1.ResourceList {
	out := map[string]corev1.ResourceList{}
	for k, v := range m {
		out[k.String()] = v
	}
	return out
}

// ---- per-node view ----

type nodeView struct {
	Key        string
	HasNode    bool
	HasClaim   bool
	NodeName   string
	NodeRV     string
	ClaimName  string
	ClaimRV    string
	Name       string
	ProviderID string
	HostName   string

	PodRequests, PodLimits, DSRequests, DSLimits, Capacity, Allocatable     corev1.ResourceList
	DisruptionCost                                                          float64
	Taints                                                                  []string
	Labels, Annotations                                                     map[string]string
	Marked, MarkField, Deleted, Nominated, Registered, Initialized, Managed bool

	// behavioural probes
	HostPortProbe string
	VolumeProbe   string

	// reflection digests of the unexported per-pod maps
	IPodRequests, IPodLimits, IDSRequests, IDSLimits map[string]corev1.ResourceList
	ICosts                                           map[string]float64
	IHostPorts                                       map[string]string
	IPodVolumes                                      map[string]string
	IVolumes                                         string
	ILimits                                          string
}

func taintStrings(ts []corev1.Taint) []string {
	var out []string
	for _, t := range ts {
		out = append(out, fmt.Sprintf("%s=%s:%s", t.Key, t.Value, t.Effect))
	}
	sort.Strings(out)
	return out
}

func volumesString(v scheduling.Volumes) string {
	var ks []string
	for k, s := range v {
		if s.Len() == 0 {
			continue
		}
		ks = append(ks, k+"="+strings.Join(sets.List(s), ","))
	}
	sort.Strings(ks)
	return strings.Join(ks, ";")
}

func hostPortsString(hp []scheduling.HostPort) string {
	var out []string
	for _, p := range hp {
		out = append(out, fmt.Sprintf("%s/%d/%s", p.IP, p.Port, p.Protocol))
	}
	sort.Strings(out)
	return strings.Join(out, ",")
}

// probe families
var (
	probePorts   = []int32{8000, 8001, 8002}
	probeProtos  = []corev1.Protocol{corev1.ProtocolTCP, corev1.ProtocolUDP}
	probeIPs     = []string{"0.0.0.0", "10.0.0.1", "10.0.0.2", "::"}
	probeDrivers = []string{"csi.a", "ebs.csi.aws.com", "csi.unlimited"}
)

func probePodNames() []string {
	out := []string{"probe"}
	for i := 0; i < maxPods; i++ {
		out = append(out, podName(i))
	}
	return out
}

func hostPortProbe(u *scheduling.HostPortUsage) string {
	var sb strings.Builder
	for _, pn := range probePodNames() {
		pod := &corev1.Pod{ObjectMeta: metav1.ObjectMeta{Namespace: "default", Name: pn}}
		for _, port := range probePorts {
			for _, proto := range probeProtos {
				for _, ip := range probeIPs {
					if u.Conflicts(pod, []scheduling.HostPort{{IP: net.ParseIP(ip), Port: port, Protocol: proto}}) != nil {
						sb.WriteByte('1')
					} else {
						sb.WriteByte('0')
					}
				}
			}
		}
		sb.WriteByte('|')
	}
	return sb.String()
}

func volumeProbe(u *scheduling.VolumeUsage) string {
	var sb strings.Builder
	for _, d := range probeDrivers {
		// n brand-new volumes
		for n := 0; n <= 4; n++ {
			s := sets.New[string]()
			for i := 0; i < n; i++ {
				s.Insert(fmt.Sprintf("default/probe-%d", i))
			}
			if u.ExceedsLimits(scheduling.Volumes{d: s}) != nil {
				sb.WriteByte('1')
			} else {
				sb.WriteByte('0')
			}
		}
		// each known claim id together with one new volume (distinguishes "already mounted" from "new")
		for _, pvc := range pvcNames {
			if u.ExceedsLimits(scheduling.Volumes{d: sets.New("default/"+pvc, "default/probe-x")}) != nil {
				sb.WriteByte('1')
			} else {
				sb.WriteByte('0')
			}
		}
		sb.WriteByte('|')
	}
	return sb.String()
}

func viewOf(n *state.StateNode, key string, clk clock.Clock) *nodeView {
	v := &nodeView{Key: key}
	if n.Node != nil {
		v.HasNode, v.NodeName, v.NodeRV = true, n.Node.Name, n.Node.ResourceVersion
	}
	if n.NodeClaim != nil {
		v.HasClaim, v.ClaimName, v.ClaimRV = true, n.NodeClaim.Name, n.NodeClaim.ResourceVersion
	}
	v.Name, v.ProviderID, v.HostName = n.Name(), n.ProviderID(), n.HostName()
	v.PodRequests, v.PodLimits = n.PodRequests(), n.PodLimits()
	v.DSRequests, v.DSLimits = n.DaemonSetRequests(), n.DaemonSetLimits()
	v.Capacity, v.Allocatable = n.Capacity(), n.Allocatable()
	v.DisruptionCost = n.DisruptionCost()
	v.Taints = taintStrings(n.Taints())
	v.Labels, v.Annotations = n.Labels(), n.Annotations()
	v.Marked, v.Deleted, v.Nominated = n.MarkedForDeletion(), n.Deleted(), n.Nominated(clk)
	v.Registered, v.Initialized, v.Managed = n.Registered(), n.Initialized(), n.Managed()
	v.MarkField = fieldOf[bool](n, "markedForDeletion")
	v.HostPortProbe = hostPortProbe(n.HostPortUsage())
	v.VolumeProbe = volumeProbe(n.VolumeUsage())

	v.IPodRequests = nnMap(fieldOf[map[types.NamespacedName]corev1.ResourceList](n, "podRequests"))
	v.IPodLimits = nnMap(fieldOf[map[types.NamespacedName]corev1.ResourceList](n, "podLimits"))
	v.IDSRequests = nnMap(fieldOf[map[types.NamespacedName]corev1.ResourceList](n, "daemonSetRequests"))
	v.IDSLimits = nnMap(fieldOf[map[types.NamespacedName]corev1.ResourceList](n, "daemonSetLimits"))
	v.ICosts = map[string]float64{}
	for k, c := range fieldOf[map[types.NamespacedName]float64](n, "podDisruptionCosts") {
		v.ICosts[k.String()] = c
	}
	v.IHostPorts = map[string]string{}
	for k, hp := range fieldOf[map[types.NamespacedName][]scheduling.HostPort](n.HostPortUsage(), "reserved") {
		v.IHostPorts[k.String()] = hostPortsString(hp)
	}
	v.IPodVolumes = map[string]string{}
	for k, vols := range fieldOf[map[types.NamespacedName]scheduling.Volumes](n.VolumeUsage(), "podVolumes") {
		v.IPodVolumes[k.String()] = volumesString(vols)
	}
	v.IVolumes = volumesString(fieldOf[scheduling.Volumes](n.VolumeUsage(), "volumes"))
	lim := fieldOf[map[string]int](n.VolumeUsage(), "limits")
	var ls []string
	for k, n := range lim {
		ls = append(ls, fmt.Sprintf("%s=%d", k, n))
	}
	sort.Strings(ls)
	v.ILimits = strings.Join(ls, ";")
	return v
}

// ---- whole-cluster view ----

type clusterView struct {
	Nodes        map[string]*nodeView
	PoolRes      map[string]corev1.ResourceList
	PoolCounts   map[string][3]int
	AntiAffinity []string // "ns/pod@node"
	Synced       bool
	NodeNames    map[string]string // nodeNameToProviderID
	ClaimNames   map[string]string // nodeClaimNameToProviderID
	Bindings     map[string]string // all bindings
	LiveBindings map[string]string // bindings whose node name resolves to a StateNode
	DSPods       map[string]string // daemonset -> cached pod "name/uid"
	IPoolRes     map[string]corev1.ResourceList
	ClaimPool    map[string]string
}

func strMapCopy[K comparable](m map[K]string, f func(K) string) map[string]string {
	out := map[string]string{}
	for k, v := range m {
		out[f(k)] = v
	}
	return out
}

func snapshot(ctx context.Context, c *state.Cluster, clk clock.Clock, pools []string, dss []*appsv1.DaemonSet) *clusterView {
	cv := &clusterView{Nodes: map[string]*nodeView{}, PoolRes: map[string]corev1.ResourceList{}, PoolCounts: map[string][3]int{}, DSPods: map[string]string{}}
	keys := fieldOf[map[string]*state.StateNode](c, "nodes")
	for k, n := range keys {
		cv.Nodes[k] = viewOf(n, k, clk)
	}
	cv.NodeNames = strMapCopy(fieldOf[map[string]string](c, "nodeNameToProviderID"), func(s string) string { return s })
	cv.ClaimNames = strMapCopy(fieldOf[map[string]string](c, "nodeClaimNameToProviderID"), func(s string) string { return s })
	cv.Bindings = strMapCopy(fieldOf[map[types.NamespacedName]string](c, "bindings"), func(k types.NamespacedName) string { return k.String() })
	cv.LiveBindings = map[string]string{}
	for p, nodeName := range cv.Bindings {
		if id, ok := cv.NodeNames[nodeName]; ok {
			if _, ok := cv.Nodes[id]; ok {
				cv.LiveBindings[p] = nodeName
			}
		}
	}
	cv.IPoolRes = map[string]corev1.ResourceList{}
	for k, v := range fieldOf[map[string]corev1.ResourceList](c, "nodePoolResources") {
		cv.IPoolRes[k] = v
	}
	for _, p := range pools {
		cv.PoolRes[p] = c.NodePoolResourcesFor(p)
		a, d, pd := c.NodePoolState.GetNodeCount(p)
		cv.PoolCounts[p] = [3]int{a, d, pd}
	}
	cv.ClaimPool = strMapCopy(fieldOf[map[string]string](c.NodePoolState, "nodeClaimNameToNodePoolName"), func(s string) string { return s })
	c.ForPodsWithAntiAffinity(func(p *corev1.Pod, n *corev1.Node) bool {
		cv.AntiAffinity = append(cv.AntiAffinity, p.Namespace+"/"+p.Name+"@"+n.Name)
		return true
	})
	sort.Strings(cv.AntiAffinity)
	for _, ds := range dss {
		if p := c.GetDaemonSetPod(ds); p != nil {
			cv.DSPods[ds.Name] = p.Name + "/" + string(p.UID)
		}
	}
	cv.Synced = c.Synced(ctx)
	return cv
}

// ---- comparison ----

type diff struct {
	Node  string `json:"node,omitempty"` // provider id / state key ("" for cluster-level)
	Field string `json:"field"`
	Got   string `json:"tested"`
	Want  string `json:"fresh"`
}

func strMapEq(a, b map[string]string) bool {
	if len(a) != len(b) {
		return false
	}
	for k, v := range a {
		if w, ok := b[k]; !ok || w != v {
			return false
		}
	}
	return true
}

func strMapString(a map[string]string) string {
	ks := make([]string, 0, len(a))
	for k := range a {
		ks = append(ks, k)
	}
	sort.Strings(ks)
	var sb strings.Builder
	for _, k := range ks {
		fmt.Fprintf(&sb, "%s=%s ", k, a[k])
	}
	return strings.TrimSpace(sb.String())
}

func costsEq(a, b map[string]float64) bool {
	if len(a) != len(b) {
		return false
	}
	for k, v := range a {
		if w, ok := b[k]; !ok || math.Abs(v-w) > 1e-9 {
			return false
		}
	}
	return true
}

func costsString(a map[string]float64) string {
	ks := make([]string, 0, len(a))
	for k := range a {
		ks = append(ks, k)
	}
	sort.Strings(ks)
	var sb strings.Builder
	for _, k := range ks {
		fmt.Fprintf(&sb, "%s=%.6f ", k, a[k])
	}
	return strings.TrimSpace(sb.String())
}

// compareNode returns the differing fields; count receives the number of field comparisons made.
func compareNode(got, want *nodeView, skipNominated bool, count *int) []diff {
	var ds []diff
	add := func(field, g, w string) { ds = append(ds, diff{Node: want.Key, Field: field, Got: g, Want: w}) }
	cmpS := func(field, g, w string) {
		*count++
		if g != w {
			add(field, g, w)
		}
	}
	cmpB := func(field string, g, w bool) {
		*count++
		if g != w {
			add(field, fmt.Sprint(g), fmt.Sprint(w))
		}
	}
	cmpRL := func(field string, g, w corev1.ResourceList) {
		*count++
		if !rlEqual(g, w) {
			add(field, rlString(g), rlString(w))
		}
	}
	cmpRLM := func(field string, g, w map[string]corev1.ResourceList) {
		*count++
		if !rlMapEqual(g, w) {
			add(field, rlMapString(g), rlMapString(w))
		}
	}
	cmpSM := func(field string, g, w map[string]string) {
		*count++
		if !strMapEq(g, w) {
			add(field, strMapString(g), strMapString(w))
		}
	}
	cmpB("Node!=nil", got.HasNode, want.HasNode)
	cmpB("NodeClaim!=nil", got.HasClaim, want.HasClaim)
	cmpS("Node.name", got.NodeName, want.NodeName)
	cmpS("Node.resourceVersion", got.NodeRV, want.NodeRV)
	cmpS("NodeClaim.name", got.ClaimName, want.ClaimName)
	cmpS("NodeClaim.resourceVersion", got.ClaimRV, want.ClaimRV)
	cmpS("Name()", got.Name, want.Name)
	cmpS("ProviderID()", got.ProviderID, want.ProviderID)
	cmpS("HostName()", got.HostName, want.HostName)
	cmpRL("PodRequests()", got.PodRequests, want.PodRequests)
	cmpRL("PodLimits()", got.PodLimits, want.PodLimits)
	cmpRL("DaemonSetRequests()", got.DSRequests, want.DSRequests)
	cmpRL("DaemonSetLimits()", got.DSLimits, want.DSLimits)
	cmpRL("Capacity()", got.Capacity, want.Capacity)
	cmpRL("Allocatable()", got.Allocatable, want.Allocatable)
	*count++
	if math.Abs(got.DisruptionCost-want.DisruptionCost) > 1e-9 {
		add("DisruptionCost()", fmt.Sprintf("%.6f", got.DisruptionCost), fmt.Sprintf("%.6f", want.DisruptionCost))
	}
	cmpS("Taints()", strings.Join(got.Taints, " "), strings.Join(want.Taints, " "))
	cmpSM("Labels()", got.Labels, want.Labels)
	cmpSM("Annotations()", got.Annotations, want.Annotations)
	cmpB("MarkedForDeletion()", got.Marked, want.Marked)
	cmpB("markedForDeletion(field)", got.MarkField, want.MarkField)
	cmpB("Deleted()", got.Deleted, want.Deleted)
	if !skipNominated {
		cmpB("Nominated()", got.Nominated, want.Nominated)
	}
	cmpB("Registered()", got.Registered, want.Registered)
	cmpB("Initialized()", got.Initialized, want.Initialized)
	cmpB("Managed()", got.Managed, want.Managed)
	cmpS("HostPortUsage().Conflicts(probes)", got.HostPortProbe, want.HostPortProbe)
	cmpS("VolumeUsage().ExceedsLimits(probes)", got.VolumeProbe, want.VolumeProbe)
	cmpRLM("podRequests(map)", got.IPodRequests, want.IPodRequests)
	cmpRLM("podLimits(map)", got.IPodLimits, want.IPodLimits)
	cmpRLM("daemonSetRequests(map)", got.IDSRequests, want.IDSRequests)
	cmpRLM("daemonSetLimits(map)", got.IDSLimits, want.IDSLimits)
	*count++
	if !costsEq(got.ICosts, want.ICosts) {
		add("podDisruptionCosts(map)", costsString(got.ICosts), costsString(want.ICosts))
	}
	cmpSM("hostPortUsage.reserved(map)", got.IHostPorts, want.IHostPorts)
	cmpSM("volumeUsage.podVolumes(map)", got.IPodVolumes, want.IPodVolumes)
	cmpS("volumeUsage.volumes", got.IVolumes, want.IVolumes)
	cmpS("volumeUsage.limits", got.ILimits, want.ILimits)
	return ds
}

func compareCluster(got, want *clusterView, skipNominated map[string]bool, count *int) []diff {
	var ds []diff
	keys := map[string]bool{}
	for k := range got.Nodes {
		keys[k] = true
	}
	for k := range want.Nodes {
		keys[k] = true
	}
	var ks []string
	for k := range keys {
		ks = append(ks, k)
	}
	sort.Strings(ks)
	for _, k := range ks {
		g, w := got.Nodes[k], want.Nodes[k]
		*count++
		switch {
		case g == nil:
			ds = append(ds, diff{Node: k, Field: "StateNode exists", Got: "false", Want: "true"})
		case w == nil:
			ds = append(ds, diff{Node: k, Field: "StateNode exists", Got: "true", Want: "false"})
		default:
			ds = append(ds, compareNode(g, w, skipNominated[k], count)...)
		}
	}
	cl := func(field, g, w string) {
		*count++
		if g != w {
			ds = append(ds, diff{Field: field, Got: g, Want: w})
		}
	}
	var pools []string
	for p := range want.PoolRes {
		pools = append(pools, p)
	}
	sort.Strings(pools)
	for _, p := range pools {
		*count++
		if !rlEqual(got.PoolRes[p], want.PoolRes[p]) {
			ds = append(ds, diff{Field: "NodePoolResourcesFor(" + p + ")", Got: rlString(got.PoolRes[p]), Want: rlString(want.PoolRes[p])})
		}
		cl("NodePoolState.GetNodeCount("+p+")", fmt.Sprint(got.PoolCounts[p]), fmt.Sprint(want.PoolCounts[p]))
	}
	// the unexported totals for every pool name either side knows about (all-zero == absent)
	ipools := map[string]bool{}
	for p := range got.IPoolRes {
		ipools[p] = true
	}
	for p := range want.IPoolRes {
		ipools[p] = true
	}
	for p := range ipools {
		*count++
		if !rlEqual(got.IPoolRes[p], want.IPoolRes[p]) {
			ds = append(ds, diff{Field: "nodePoolResources[" + p + "]", Got: rlString(got.IPoolRes[p]), Want: rlString(want.IPoolRes[p])})
		}
	}
	cl("ForPodsWithAntiAffinity", strings.Join(got.AntiAffinity, " "), strings.Join(want.AntiAffinity, " "))
	cl("Synced()", fmt.Sprint(got.Synced), fmt.Sprint(want.Synced))
	cl("nodeNameToProviderID", strMapString(got.NodeNames), strMapString(want.NodeNames))
	cl("nodeClaimNameToProviderID", strMapString(got.ClaimNames), strMapString(want.ClaimNames))
	cl("bindings(resolvable)", strMapString(got.LiveBindings), strMapString(want.LiveBindings))
	cl("NodePoolState.nodeClaimNameToNodePoolName", strMapString(got.ClaimPool), strMapString(want.ClaimPool))
	return ds
}
