//go:build !race

package c11

const raceBuild = false
