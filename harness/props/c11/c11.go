// Package c11: cluster state equals a fresh recomputation from the API.
//
// A case is one generated history of 10..60 operations (API changes to Nodes, NodeClaims, Pods and
// DaemonSets made the way the rest of the cluster makes them, clock steps, and the MarkForDeletion /
// UnmarkForDeletion / NominateNodeForPod calls other Karpenter components make). The history is executed
// several times, each time against a new world and with a different PRNG-chosen delivery schedule of
// reconcile requests to the REAL state informer controllers (duplicates, postponed keys, deletions seen
// before older updates, kinds permuted, error/requeue returns honoured; the last execution - every
// execution in the -race binary - delivers different keys from concurrent goroutines, concurrently with
// the API change itself). After the last operation
//
//	phase 1  every key whose latest version has not been observed yet is delivered (nothing else), and
//	phase 2  every key ever known (incl. deletion notifications) is re-delivered until a pass is clean;
//
// after each phase every exported view of the tested state.Cluster (plus a read-only reflection digest of
// its unexported per-pod maps) is compared with a brand-new state.Cluster fed the same API content once
// in canonical order plus the mark / nomination calls still in force. The reference itself is checked
// against first principles (pods accounted on a node == non-terminal pods bound to it in the API).
//
// Marks and nominations are state that is NOT derived from the API. A mark is "in force" when the call
// found the StateNode (read back right after the call) and no API object of that provider id disappeared
// or changed key during the history; ids that did lose an object are explicitly unmarked by the history's
// last operations (whether the mark survives there depends on whether the deletion was observed before
// the re-creation, i.e. on the schedule) and their nomination is not compared.
//
// Domain restrictions (documented, deliberate): live objects keep unique provider ids; NodeClaim names
// are never reused (generateName in production - re-using one while the new incarnation is unlaunched
// leaks the old StateNode for good); a pod name keeps its owner kind (daemon / non-daemon); PVCs, PVs,
// StorageClasses, CSINodes and NodePools are static (the informers do not watch them); a Node that is
// re-created under a used name starts with provider id and instance-type label (the other shape is
// covered by scripted history 4 of case 0); the daemonset template-pod cache and unresolvable entries of
// the bindings map are compared as diagnostics only.
//
// Case 0 executes five scripted minimal histories, one per class of divergence found on the pinned tree.
package c11

import (
	"context"
	"fmt"
	"hash/fnv"
	"math/rand"
	"regexp"
	"runtime"
	"sort"
	"strings"
	"sync"
	"time"

	appsv1 "k8s.io/api/apps/v1"
	corev1 "k8s.io/api/core/v1"
	"k8s.io/apimachinery/pkg/types"
	"sigs.k8s.io/controller-runtime/pkg/client"
	"sigs.k8s.io/controller-runtime/pkg/reconcile"

	v1 "sigs.k8s.io/karpenter/pkg/apis/v1"
	"sigs.k8s.io/karpenter/pkg/controllers/state"
	"sigs.k8s.io/karpenter/pkg/controllers/state/informer"
	"sigs.k8s.io/karpenter/pkg/state/cost"

	"verif/gen"
	"verif/mon"
	"verif/props/reg"
	"verif/world"
)

func sortStrings(s []string) { sort.Strings(s) }

func cases(tier string) int {
	if tier == "thorough" {
		return nDirected + 6000
	}
	return nDirected + 400
}

func orders(tier string) int {
	if tier == "thorough" {
		return 5
	}
	return 3
}

type dkey struct{ Kind, NS, Name string }

func (k dkey) String() string {
	if k.NS == "" {
		return k.Kind + ":" + k.Name
	}
	return k.Kind + ":" + k.NS + "/" + k.Name
}

// infs is one set of real informer controllers over one state.Cluster.
type infs struct {
	cluster *state.Cluster
	node    *informer.NodeController
	claim   *informer.NodeClaimController
	pod     *informer.PodController
	ds      *informer.DaemonSetController
	pool    *informer.NodePoolController
}

func (f *infs) reconcile(ctx context.Context, k dkey) (reconcile.Result, error) {
	rq := reconcile.Request{NamespacedName: types.NamespacedName{Namespace: k.NS, Name: k.Name}}
	switch k.Kind {
	case "Node":
		return f.node.Reconcile(ctx, rq)
	case "NodeClaim":
		return f.claim.Reconcile(ctx, rq)
	case "Pod":
		return f.pod.Reconcile(ctx, rq)
	case "DaemonSet":
		return f.ds.Reconcile(ctx, rq)
	case "NodePool":
		return f.pool.Reconcile(ctx, rq)
	}
	panic("c11: unknown kind " + k.Kind)
}

type outcome struct {
	StateKey string // provider id (or node name) the delivered object maps to, "" if none
	Key      dkey
	Requeue  bool
	Err      error
	Panicked bool
	PanicVal any
	Stack    string
	Existed  bool
}

func (o outcome) clean() bool { return !o.Requeue && o.Err == nil && !o.Panicked }

func (o outcome) String() string {
	s := o.Key.String()
	if !o.Existed {
		s += "(gone)"
	}
	switch {
	case o.Panicked:
		return s + "!PANIC"
	case o.Err != nil:
		return s + "!err"
	case o.Requeue:
		return s + "!requeue"
	}
	return s
}

// runner executes one history under one schedule.
type runner struct {
	lateSeq  int
	settling bool // the history is over: the drain phases only deliver, the world does not change any more
	r        *mon.Report
	h        *history
	e        *world.Env
	t        *infs
	rng      *rand.Rand
	conc     bool
	ord      int

	known      []dkey
	knownSet   map[dkey]bool
	dirty      map[dkey]int // key -> op index at which it became dirty
	parked     map[dkey]bool
	starved    map[dkey]int // key -> op index at which the starvation ends
	lastOK     map[dkey]int
	seq        int
	opIdx      int
	sched      []string
	marks      map[string]bool
	markCalls  map[string]bool
	nomAt      map[string]time.Time
	nomCalls   map[string]bool
	panics     []outcome
	deliveries int
	errs       map[dkey]error
	// last successful delivery (tick) of a live Node / NodeClaim per state key
	lastNodeUpd, lastClaimUpd map[string]int
}

func newObjFor(kind string) client.Object {
	switch kind {
	case "Node":
		return &corev1.Node{}
	case "NodeClaim":
		return &v1.NodeClaim{}
	case "Pod":
		return &corev1.Pod{}
	case "DaemonSet":
		return &appsv1.DaemonSet{}
	case "NodePool":
		return &v1.NodePool{}
	}
	panic("c11: kind " + kind)
}

func (x *runner) get(k dkey) client.Object {
	o := newObjFor(k.Kind)
	if err := x.e.API.Raw.Get(context.Background(), types.NamespacedName{Namespace: k.NS, Name: k.Name}, o); err != nil {
		return nil
	}
	return o
}

func (x *runner) touch(k dkey) {
	if !x.knownSet[k] {
		x.knownSet[k] = true
		x.known = append(x.known, k)
	}
	if _, ok := x.dirty[k]; !ok {
		x.dirty[k] = x.opIdx
		if x.rng.Intn(6) == 0 {
			x.starved[k] = x.opIdx + 3 + x.rng.Intn(14)
		}
	}
}

// apply executes one history operation against the API / clock / cluster.
func (x *runner) apply(o *op) {
	e := x.e
	ctx := context.Background()
	k := dkey{o.ObjKind, o.NS, o.Name}
	switch o.Kind {
	case opCreate:
		e.Apply(o.Obj.DeepCopyObject().(client.Object))
	case opMutate:
		cur := x.get(k)
		if cur == nil {
			panic("c11: mutate of missing object " + k.String() + ": " + o.Desc)
		}
		o.Mut(cur)
		e.Apply(cur)
	case opDelete:
		cur := x.get(k)
		if cur == nil {
			panic("c11: delete of missing object " + k.String())
		}
		if err := e.API.Raw.Delete(ctx, cur); err != nil {
			panic(fmt.Sprintf("c11: delete %s: %v", k, err))
		}
	case opFinalize:
		cur := x.get(k)
		if cur == nil {
			panic("c11: finalize of missing object " + k.String())
		}
		cur.SetFinalizers(nil)
		if err := e.API.Raw.Update(ctx, cur); err != nil {
			panic(fmt.Sprintf("c11: finalize %s: %v", k, err))
		}
		if x.get(k) != nil {
			panic("c11: object still present after finalize " + k.String())
		}
	case opStep:
		e.Clock.Step(o.D)
	case opMark:
		e.Cluster.MarkForDeletion(o.K)
		x.markCalls[o.K] = true
		x.marks[o.K] = x.markField(o.K)
	case opUnmark:
		e.Cluster.UnmarkForDeletion(o.K)
		x.marks[o.K] = false
	case opNominate:
		e.Cluster.NominateNodeForPod(e.Ctx, o.K)
		x.nomCalls[o.K] = true
		if e.Cluster.IsNodeNominated(o.K) {
			x.nomAt[o.K] = e.Clock.Now()
		}
	}
}

// markField reads StateNode.markedForDeletion of key k under the cluster's read lock (held by the iterator).
func (x *runner) markField(k string) bool {
	res := false
	for n := range x.e.Cluster.Nodes() {
		if n.ProviderID() == k {
			res = fieldOf[bool](n, "markedForDeletion")
		}
	}
	return res
}

func (x *runner) deliverOne(f *infs, k dkey) outcome {
	out := outcome{Key: k}
	if o := x.get(k); o != nil {
		out.Existed = true
		switch t := o.(type) {
		case *corev1.Node:
			out.StateKey = t.Spec.ProviderID
			if out.StateKey == "" && t.Labels[v1.NodePoolLabelKey] == "" {
				out.StateKey = t.Name
			}
		case *v1.NodeClaim:
			out.StateKey = t.Status.ProviderID
		}
	}
	var res reconcile.Result
	var err error
	// interleaving (sequential runs only): while the Node reconcile is between serving its pod list and finishing, the
	// kubelet starts one more pod on that node and the pod informer delivers it (in a goroutine of its own, as the real
	// pod worker would). The pod's latest version HAS been observed afterwards - it is not re-delivered in phase 1.
	var join func()
	if node, ok := x.get(k).(*corev1.Node); ok && k.Kind == "Node" && !x.conc && !x.settling && node.DeletionTimestamp == nil && x.rng.Intn(5) == 0 {
		armed := true
		done := make(chan struct{})
		started := false
		x.e.API.PostRead = []func(verb, kind, caller string){func(verb, kind, caller string) {
			if !armed || verb != "list" || kind != "Pod" || !strings.Contains(caller, "controllers/state.") {
				return
			}
			armed, started = false, true
			x.lateSeq++
			p := gen.Pod(fmt.Sprintf("late-%d", x.lateSeq), 100, 64, gen.Bound(node.Name, x.e.Clock.Now()))
			x.e.Apply(p)
			pk := dkey{"Pod", p.Namespace, p.Name}
			if !x.knownSet[pk] {
				x.knownSet[pk] = true
				x.known = append(x.known, pk)
			}
			go func() {
				defer close(done)
				_, _, _ = mon.Guard(func() { _, _ = f.reconcile(x.e.Ctx, pk) })
			}()
			select { // give the pod worker a moment; it blocks on the cluster lock if the Node reconcile holds it
			case <-done:
			case <-time.After(20 * time.Millisecond):
			}
			x.r.Inc("pods_started_and_delivered_inside_a_node_reconcile")
		}}
		join = func() {
			x.e.API.PostRead = nil
			if started {
				<-done
			}
		}
	}
	out.Panicked, out.PanicVal, out.Stack = mon.Guard(func() { res, err = f.reconcile(x.e.Ctx, k) })
	if join != nil {
		join()
	}
	out.Err = err
	//nolint:staticcheck
	out.Requeue = res.Requeue
	return out
}

// chooseBatch picks the keys delivered in this round.
func (x *runner) chooseBatch() []dkey {
	var n int
	if x.conc {
		n = []int{0, 2, 2, 3, 4, 6}[x.rng.Intn(6)]
	} else {
		n = []int{0, 0, 0, 1, 1, 2, 3, 5}[x.rng.Intn(8)]
	}
	var batch []dkey
	used := map[dkey]bool{}
	for i := 0; i < n && len(x.known) > 0; i++ {
		var k dkey
		picked := false
		if x.rng.Intn(10) < 7 {
			var cand []dkey
			for _, kk := range x.known {
				if _, d := x.dirty[kk]; d && !x.parked[kk] && x.starved[kk] <= x.opIdx {
					cand = append(cand, kk)
				}
			}
			if len(cand) > 0 {
				k, picked = cand[x.rng.Intn(len(cand))], true
			}
		}
		if !picked {
			k = x.known[x.rng.Intn(len(x.known))] // duplicate / stale notification / parked retry
		}
		if x.conc && used[k] {
			continue // a controller never reconciles one key twice at the same time
		}
		used[k] = true
		batch = append(batch, k)
	}
	return batch
}

// round = one API operation plus a batch of deliveries; concurrent rounds run all of them in parallel.
func (x *runner) round(o *op, batch []dkey) {
	outs := make([]outcome, len(batch))
	if x.conc {
		var wg sync.WaitGroup
		if o != nil {
			wg.Add(1)
			go func() { defer wg.Done(); x.apply(o) }()
		}
		for i, k := range batch {
			wg.Add(1)
			go func(i int, k dkey) {
				defer wg.Done()
				runtime.Gosched()
				outs[i] = x.deliverOne(x.t, k)
			}(i, k)
		}
		wg.Wait()
		ks := make([]string, len(batch))
		for i, k := range batch {
			ks[i] = k.String()
		}
		sort.Strings(ks)
		x.sched = append(x.sched, "{"+strings.Join(ks, ",")+"}")
		x.seq++
	} else {
		if o != nil {
			x.apply(o)
			if o.ObjKind != "" {
				x.touch(dkey{o.ObjKind, o.NS, o.Name})
			}
		}
		for i, k := range batch {
			outs[i] = x.deliverOne(x.t, k)
			x.sched = append(x.sched, outs[i].String())
			x.account(outs[i])
		}
		outs = nil
	}
	for _, out := range outs {
		x.account(out)
	}
	if o != nil {
		x.opIdx++
		if o.ObjKind != "" && x.conc {
			// the change is (re-)marked after the round: a concurrent delivery may have read the old version
			since, was := x.dirty[dkey{o.ObjKind, o.NS, o.Name}]
			delete(x.dirty, dkey{o.ObjKind, o.NS, o.Name})
			x.touch(dkey{o.ObjKind, o.NS, o.Name})
			if was {
				x.dirty[dkey{o.ObjKind, o.NS, o.Name}] = since
			}
		}
		// an API change wakes up keys waiting in backoff
		for k := range x.parked {
			delete(x.parked, k)
		}
	}
}

func (x *runner) account(out outcome) {
	r := x.r
	x.deliveries++
	if !x.conc {
		x.seq++
	}
	r.Inc("deliveries")
	k := out.Key
	_, wasDirty := x.dirty[k]
	if !wasDirty {
		r.Inc("deliveries_duplicate")
	}
	if !out.Existed {
		r.Inc("deliveries_deletion_notification")
		// a deletion observed while an older change of another key is still undelivered
		if since, ok := x.dirty[k]; ok {
			for kk, s := range x.dirty {
				if kk != k && s < since {
					r.Inc("deletion_seen_before_older_update")
					break
				}
			}
		}
	}
	switch {
	case out.Panicked:
		r.Inc("deliveries_panicked")
		x.panics = append(x.panics, out)
	case out.Err != nil:
		r.Inc("deliveries_error")
		x.parked[k] = true
		x.errs[k] = out.Err
	case out.Requeue:
		r.Inc("deliveries_requeue")
		x.parked[k] = true
	default:
		if _, ok := x.starved[k]; ok && wasDirty && x.opIdx > x.dirty[k]+2 {
			r.Inc("postponed_key_delivered_late")
		}
		if out.StateKey != "" {
			if k.Kind == "Node" {
				x.lastNodeUpd[out.StateKey] = x.seq
			} else if k.Kind == "NodeClaim" {
				x.lastClaimUpd[out.StateKey] = x.seq
			}
		}
		delete(x.errs, k)
		delete(x.dirty, k)
		delete(x.starved, k)
		x.lastOK[k] = x.seq
	}
}

func shuffled(rng *rand.Rand, ks []dkey) []dkey {
	out := append([]dkey(nil), ks...)
	rng.Shuffle(len(out), func(i, j int) { out[i], out[j] = out[j], out[i] })
	return out
}

func keysString(m map[dkey]bool) string {
	var s []string
	for k := range m {
		s = append(s, k.String())
	}
	sort.Strings(s)
	return strings.Join(s, ",")
}

// drain delivers keys until nothing is left to do: first `initial`, then whatever returned an error or a
// requeue, until that set is empty or stops changing (a pod bound to a node Karpenter does not track is
// requeued forever, by design). Returns the last error seen in the final pass.
func (x *runner) drain(initial []dkey) error {
	batch := initial
	prev := ""
	for pass := 0; pass < 8; pass++ {
		x.parked = map[dkey]bool{}
		x.sched = append(x.sched, "|")
		var lastErr error
		if x.conc {
			// all keys of the pass concurrently (they are distinct)
			x.roundKeys(batch)
		} else {
			for _, k := range batch {
				out := x.deliverOne(x.t, k)
				x.sched = append(x.sched, out.String())
				x.account(out)
			}
		}
		if len(x.parked) == 0 {
			return nil
		}
		cur := keysString(x.parked)
		var again []dkey
		for _, k := range x.known {
			if x.parked[k] {
				again = append(again, k)
			}
		}
		if cur == prev {
			// stable set of permanent requeues; errors (as opposed to requeues) are reported
			for _, k := range again {
				if err := x.errs[k]; err != nil {
					lastErr = fmt.Errorf("%s: %w", k, err)
				}
			}
			return lastErr
		}
		prev = cur
		batch = shuffled(x.rng, again)
	}
	return fmt.Errorf("no quiescence after 8 passes; still pending: %s", keysString(x.parked))
}

func (x *runner) roundKeys(batch []dkey) {
	outs := make([]outcome, len(batch))
	var wg sync.WaitGroup
	for i, k := range batch {
		wg.Add(1)
		go func(i int, k dkey) {
			defer wg.Done()
			runtime.Gosched()
			outs[i] = x.deliverOne(x.t, k)
		}(i, k)
	}
	wg.Wait()
	ks := make([]string, len(batch))
	for i, k := range batch {
		ks[i] = k.String()
	}
	sort.Strings(ks)
	x.sched = append(x.sched, "{"+strings.Join(ks, ",")+"}")
	x.seq++
	for _, out := range outs {
		x.account(out)
	}
}

func (x *runner) pendingKeys() []dkey {
	var out []dkey
	for _, k := range x.known {
		if _, d := x.dirty[k]; d || x.parked[k] {
			out = append(out, k)
		}
	}
	return shuffled(x.rng, out)
}

// ---- reference ----

func nominationWindow(e *world.Env) time.Duration {
	w := 2 * e.Opts.BatchMaxDuration
	if w < 10*time.Second {
		w = 10 * time.Second
	}
	return w
}

type reference struct {
	view          *clusterView
	marks         []string
	noms          []string
	skipNominated map[string]bool
	requeues      int
	err           error
}

func (x *runner) liveKeysCanonical() ([]dkey, []*appsv1.DaemonSet) {
	ctx := context.Background()
	raw := x.e.API.Raw
	var out []dkey
	pools := &v1.NodePoolList{}
	_ = raw.List(ctx, pools)
	for _, o := range pools.Items {
		out = append(out, dkey{"NodePool", "", o.Name})
	}
	dss := &appsv1.DaemonSetList{}
	_ = raw.List(ctx, dss)
	var dsObjs []*appsv1.DaemonSet
	for i := range dss.Items {
		out = append(out, dkey{"DaemonSet", dss.Items[i].Namespace, dss.Items[i].Name})
		dsObjs = append(dsObjs, &dss.Items[i])
	}
	ncs := &v1.NodeClaimList{}
	_ = raw.List(ctx, ncs)
	for _, o := range ncs.Items {
		out = append(out, dkey{"NodeClaim", "", o.Name})
	}
	nodes := &corev1.NodeList{}
	_ = raw.List(ctx, nodes)
	for _, o := range nodes.Items {
		out = append(out, dkey{"Node", "", o.Name})
	}
	pods := &corev1.PodList{}
	_ = raw.List(ctx, pods)
	for _, o := range pods.Items {
		out = append(out, dkey{"Pod", o.Namespace, o.Name})
	}
	return out, dsObjs
}

func allDS() []*appsv1.DaemonSet {
	var out []*appsv1.DaemonSet
	for d := 0; d < maxDS; d++ {
		ds := &appsv1.DaemonSet{}
		ds.Namespace, ds.Name = "default", dsName(d)
		out = append(out, ds)
	}
	return out
}

// buildReference computes the state from scratch: new Cluster, new informers, every live object once in
// canonical order, then the marks / nominations that are still in force.
func (x *runner) buildReference() *reference {
	e := x.e
	ref := &reference{skipNominated: map[string]bool{}}
	c := state.NewCluster(e.Clock, e.API.Client, e.Provider)
	cc := cost.NewClusterCost(e.Ctx, e.Provider, e.API.Client)
	f := &infs{cluster: c,
		node:  informer.NewNodeController(e.API.Client, c),
		claim: informer.NewNodeClaimController(e.API.Client, e.Provider, c, cc),
		pod:   informer.NewPodController(e.API.Client, c),
		ds:    informer.NewDaemonSetController(e.API.Client, c),
		pool:  informer.NewNodePoolController(e.API.Client, e.Provider, c, cc),
	}
	keys, _ := x.liveKeysCanonical()
	for _, k := range keys {
		out := x.deliverOne(f, k)
		if out.Panicked {
			ref.err = fmt.Errorf("panic while building the reference at %s: %v", k, out.PanicVal)
			return ref
		}
		if out.Err != nil {
			ref.err = fmt.Errorf("error while building the reference at %s: %w", k, out.Err)
			return ref
		}
		if out.Requeue {
			ref.requeues++
		}
	}
	for k, applied := range x.marks {
		if applied && !x.h.Unstable[k] {
			c.MarkForDeletion(k)
			ref.marks = append(ref.marks, k)
		}
	}
	now := e.Clock.Now()
	for k := range x.nomCalls {
		if x.h.Unstable[k] {
			ref.skipNominated[k] = true
			continue
		}
		if at, ok := x.nomAt[k]; ok && at.Add(nominationWindow(e)).After(now) {
			c.NominateNodeForPod(e.Ctx, k)
			ref.noms = append(ref.noms, k)
		}
	}
	sort.Strings(ref.marks)
	sort.Strings(ref.noms)
	ref.view = snapshot(e.Ctx, c, e.Clock, poolNames, allDS())
	return ref
}

// apiTruth checks the reference itself against first principles: the pods accounted on a StateNode are
// exactly the non-terminal pods bound to its Node in the API, with the summed container cpu requests.
func (x *runner) apiTruth(ref *reference) []diff {
	pods := &corev1.PodList{}
	_ = x.e.API.Raw.List(context.Background(), pods)
	var ds []diff
	for key, nv := range ref.view.Nodes {
		want := map[string]bool{}
		cpu := q("0")
		if nv.HasNode {
			for i := range pods.Items {
				p := &pods.Items[i]
				if p.Spec.NodeName != nv.NodeName || p.Status.Phase == corev1.PodSucceeded || p.Status.Phase == corev1.PodFailed {
					continue
				}
				want[p.Namespace+"/"+p.Name] = true
				for _, c := range p.Spec.Containers {
					cpu.Add(c.Resources.Requests[corev1.ResourceCPU])
				}
			}
		}
		got := map[string]bool{}
		for k := range nv.IPodRequests {
			got[k] = true
		}
		gs, ws := setString(got), setString(want)
		if gs != ws {
			ds = append(ds, diff{Node: key, Field: "pods accounted on the node (fresh vs API)", Got: gs, Want: ws})
		}
		gc := nv.PodRequests[corev1.ResourceCPU]
		if gc.Cmp(cpu) != 0 {
			ds = append(ds, diff{Node: key, Field: "PodRequests().cpu (fresh vs API)", Got: gc.String(), Want: cpu.String()})
		}
	}
	return ds
}

func setString(m map[string]bool) string {
	var s []string
	for k := range m {
		s = append(s, k)
	}
	sort.Strings(s)
	return strings.Join(s, ",")
}

// ---- classification of divergences ----

var podKeyedFields = map[string]bool{
	"PodRequests()": true, "PodLimits()": true, "DaemonSetRequests()": true, "DaemonSetLimits()": true, "DisruptionCost()": true,
	"HostPortUsage().Conflicts(probes)": true, "VolumeUsage().ExceedsLimits(probes)": true, "podRequests(map)": true, "podLimits(map)": true,
	"daemonSetRequests(map)": true, "daemonSetLimits(map)": true, "podDisruptionCosts(map)": true, "hostPortUsage.reserved(map)": true,
	"volumeUsage.podVolumes(map)": true, "volumeUsage.volumes": true,
}

var nonWord = regexp.MustCompile(`[^A-Za-z0-9]+`)

// movedToUntracked lists the live, non-terminal pods that are unbound or bound to a node name the
// from-scratch state does not track (UpdatePod returns early for them).
func (x *runner) movedToUntracked(ref *reference) map[string]bool {
	pods := &corev1.PodList{}
	_ = x.e.API.Raw.List(context.Background(), pods)
	out := map[string]bool{}
	for i := range pods.Items {
		p := &pods.Items[i]
		if p.Status.Phase == corev1.PodSucceeded || p.Status.Phase == corev1.PodFailed {
			continue
		}
		if _, ok := ref.view.NodeNames[p.Spec.NodeName]; !ok || p.Spec.NodeName == "" {
			out[p.Namespace+"/"+p.Name] = true
		}
	}
	return out
}

// extraPods returns the pod keys the tested node accounts for that the fresh one does not, and vice versa.
func extraPods(g, w *nodeView) (extra, missing map[string]bool) {
	extra, missing = map[string]bool{}, map[string]bool{}
	have := map[string]bool{}
	for _, m := range []map[string]corev1.ResourceList{g.IPodRequests, g.IPodLimits, g.IDSRequests, g.IDSLimits} {
		for k := range m {
			have[k] = true
		}
	}
	for k := range g.ICosts {
		have[k] = true
	}
	for k := range g.IHostPorts {
		have[k] = true
	}
	for k := range g.IPodVolumes {
		have[k] = true
	}
	for k := range have {
		if _, ok := w.IPodRequests[k]; !ok {
			extra[k] = true
		}
	}
	for k := range w.IPodRequests {
		if _, ok := g.IPodRequests[k]; !ok {
			missing[k] = true
		}
	}
	return
}

// costsSubMap: every entry of a is in b with the same value.
func costsSubMap(a, b map[string]float64) bool {
	for k, v := range a {
		if w, ok := b[k]; !ok || v-w > 1e-9 || w-v > 1e-9 {
			return false
		}
	}
	return true
}

// explainedByExtra: once the extra pods' entries are removed, the tested per-pod maps equal the fresh ones.
func explainedByExtra(g, w *nodeView, extra map[string]bool) bool {
	dropRL := func(m map[string]corev1.ResourceList) map[string]corev1.ResourceList {
		out := map[string]corev1.ResourceList{}
		for k, v := range m {
			if !extra[k] {
				out[k] = v
			}
		}
		return out
	}
	dropS := func(m map[string]string) map[string]string {
		out := map[string]string{}
		for k, v := range m {
			if !extra[k] {
				out[k] = v
			}
		}
		return out
	}
	costs := map[string]float64{}
	for k, v := range g.ICosts {
		if !extra[k] {
			costs[k] = v
		}
	}
	return rlMapEqual(dropRL(g.IPodRequests), w.IPodRequests) && rlMapEqual(dropRL(g.IPodLimits), w.IPodLimits) &&
		rlMapEqual(dropRL(g.IDSRequests), w.IDSRequests) && rlMapEqual(dropRL(g.IDSLimits), w.IDSLimits) &&
		(costsEq(costs, w.ICosts) || costsSubMap(costs, w.ICosts)) &&
		strMapEq(dropS(g.IHostPorts), w.IHostPorts) && strMapEq(dropS(g.IPodVolumes), w.IPodVolumes) && g.ILimits == w.ILimits
}

func subset(a, b map[string]bool) bool {
	for k := range a {
		if !b[k] {
			return false
		}
	}
	return true
}

// withoutPods drops "ns/pod=..." (or "ns/pod@...") entries of the given pods from a space-separated listing.
func withoutPods(listing string, pods map[string]bool) string {
	var keep []string
	for _, f := range strings.Fields(listing) {
		name := f
		if i := strings.IndexAny(f, "=@"); i > 0 {
			name = f[:i]
		}
		if !pods[name] {
			keep = append(keep, f)
		}
	}
	return strings.Join(keep, " ")
}

func (x *runner) classify(d diff, got, want *clusterView, untracked map[string]bool) string {
	g, w := got.Nodes[d.Node], want.Nodes[d.Node]
	if d.Node != "" && g != nil && w != nil {
		extra, missing := extraPods(g, w)
		costField := d.Field == "DisruptionCost()" || d.Field == "podDisruptionCosts(map)"
		if costField && g.HasNode && len(g.ICosts) < len(w.ICosts) && costsSubMap(g.ICosts, w.ICosts) && len(extra)+len(missing) == 0 &&
			x.lastClaimUpd[d.Node] > 0 && x.lastClaimUpd[d.Node] >= x.lastNodeUpd[d.Node] {
			return "disruption-cost-lost-on-nodeclaim-update"
		}
		if (podKeyedFields[d.Field] || d.Field == "volumeUsage.limits") && !g.HasNode && g.HasClaim && !w.HasNode && len(w.IPodRequests) == 0 &&
			(len(extra) > 0 || g.ILimits != "") {
			return "stale-pod-usage-kept-on-nodeclaim-only-statenode-after-node-removal"
		}
		if podKeyedFields[d.Field] && len(missing) == 0 && len(extra) > 0 && subset(extra, untracked) && explainedByExtra(g, w, extra) {
			return "stale-usage-after-same-name-pod-recreate-not-bound-to-tracked-node"
		}
		if (d.Field == "volumeUsage.volumes" || d.Field == "VolumeUsage().ExceedsLimits(probes)") && len(extra)+len(missing) == 0 && strMapEq(g.IPodVolumes, w.IPodVolumes) && g.ILimits == w.ILimits {
			return "volume-usage-union-stale-after-same-name-pod-recreate"
		}
	}
	if d.Node == "" && (d.Field == "bindings(resolvable)" || d.Field == "ForPodsWithAntiAffinity") && len(untracked) > 0 &&
		withoutPods(d.Got, untracked) == withoutPods(d.Want, untracked) {
		return "stale-usage-after-same-name-pod-recreate-not-bound-to-tracked-node"
	}
	f := d.Field
	if i := strings.IndexAny(f, "(["); i > 0 && d.Node == "" {
		f = f[:i]
	}
	return "diverge:" + strings.Trim(nonWord.ReplaceAllString(f, "-"), "-")
}

// ---- one execution ----

func (x *runner) caseDesc(idx int) map[string]any {
	var hist []string
	for i, o := range x.h.Ops {
		hist = append(hist, fmt.Sprintf("%02d %s", i, o.Desc))
	}
	var st []string
	for _, o := range x.h.Static {
		if c, ok := o.(interface{ GetName() string }); ok {
			st = append(st, fmt.Sprintf("%T/%s", o, c.GetName()))
		}
	}
	mode := "sequential"
	if x.conc {
		mode = "concurrent"
	}
	return map[string]any{"case": idx, "order": x.ord, "mode": mode, "nodes": x.h.NNodes, "claims": x.h.NClaims, "pods": x.h.NPods, "daemonsets": x.h.NDS,
		"history": hist, "static": st}
}

func schedHash(s []string) string {
	h := fnv.New64a()
	for _, e := range s {
		_, _ = h.Write([]byte(e))
		_, _ = h.Write([]byte{0})
	}
	return fmt.Sprintf("%016x", h.Sum64())
}

func (x *runner) compare(idx int, phase string, ref *reference) (nDiffs int) {
	r := x.r
	e := x.e
	got := snapshot(e.Ctx, e.Cluster, e.Clock, poolNames, allDS())
	cnt := 0
	ds := compareCluster(got, ref.view, ref.skipNominated, &cnt)
	r.Count("fields_compared", cnt)
	r.Count("statenodes_compared", len(ref.view.Nodes))
	r.Inc("comparisons")
	for _, nv := range ref.view.Nodes {
		if nv.HasNode && nv.HasClaim {
			r.Inc("statenodes_with_node_and_claim")
		}
		if len(nv.ICosts) > 0 {
			r.Inc("statenodes_with_positive_pod_costs")
			if nv.HasNode && nv.HasClaim && x.lastClaimUpd[nv.Key] > 0 && x.lastClaimUpd[nv.Key] >= x.lastNodeUpd[nv.Key] {
				r.Inc("antecedent_claim_delivered_after_node_with_cost_pods")
			}
		}
		if len(nv.IHostPorts) > 0 && strings.Contains(nv.HostPortProbe, "1") {
			r.Inc("statenodes_with_hostports")
		}
		if nv.IVolumes != "" {
			r.Inc("statenodes_with_volumes")
		}
		if nv.ILimits != "" {
			r.Inc("statenodes_with_volume_limits")
		}
		if len(nv.IDSRequests) > 0 {
			r.Inc("statenodes_with_daemon_pods")
		}
		if nv.MarkField {
			r.Inc("statenodes_marked_in_reference")
		}
		if nv.Nominated {
			r.Inc("statenodes_nominated_in_reference")
		}
		if nv.Deleted {
			r.Inc("statenodes_deleting")
		}
	}
	if len(ref.view.AntiAffinity) > 0 {
		r.Inc("runs_with_bound_antiaffinity_pods")
	}
	for p, rl := range ref.view.PoolRes {
		_ = p
		if len(rl) > 0 {
			r.Inc("pools_with_resources")
		}
	}
	// daemonset template-pod cache: diagnostic only (the cache deliberately keeps the last pod it saw)
	if phase == "full-redelivery" {
		for ds, want := range ref.view.DSPods {
			r.Inc("dspod_cache_compared")
			if got.DSPods[ds] != want {
				r.Inc("diag_dspod_cache_differs")
			}
		}
		for ds := range got.DSPods {
			if _, ok := ref.view.DSPods[ds]; !ok {
				r.Inc("diag_dspod_cache_keeps_pod_fresh_has_none")
			}
		}
	}
	// unresolvable bindings are not observable through any accessor: diagnostic only
	if strMapString(got.Bindings) != strMapString(ref.view.Bindings) {
		r.Inc("diag_raw_bindings_differ")
	}
	if len(ds) == 0 {
		return 0
	}
	// group by class
	untracked := x.movedToUntracked(ref)
	byKey := map[string][]diff{}
	var order []string
	for _, d := range ds {
		k := x.classify(d, got, ref.view, untracked)
		if x.h.ForceKey != "" {
			k = x.h.ForceKey
		}
		if _, ok := byKey[k]; !ok {
			order = append(order, k)
		}
		byKey[k] = append(byKey[k], d)
	}
	for _, k := range order {
		dl := byKey[k]
		first := dl[0]
		wit := map[string]any{"phase": phase, "diffs": dl, "schedule": x.sched, "marks_in_force": ref.marks, "nominations_in_force": ref.noms,
			"unstable_ids": setString(x.h.Unstable)}
		if k == "disruption-cost-lost-on-nodeclaim-update" {
			// confirm the mechanism: one more delivery of the Node rebuilds the costs
			g := got.Nodes[first.Node]
			before := g.DisruptionCost
			out := x.deliverOne(x.t, dkey{"Node", "", g.NodeName})
			after := -1.0
			for n := range e.Cluster.Nodes() {
				if n.ProviderID() == first.Node {
					after = n.DisruptionCost()
				}
			}
			wit["healed_by_next_node_delivery"] = map[string]any{"cost_before": before, "cost_after": after, "fresh": ref.view.Nodes[first.Node].DisruptionCost, "delivery": out.String()}
			// put the state back the way the schedule left it (deliver the claim again)
			x.deliverOne(x.t, dkey{"NodeClaim", "", g.ClaimName})
		}
		what := fmt.Sprintf("after %s the tested cluster state differs from a fresh recomputation: node %q %s = %s, fresh = %s", phase, first.Node, first.Field, first.Got, first.Want)
		r.Violate(k, what, x.caseDesc(idx), wit)
	}
	return len(ds)
}

func runOne(r *mon.Report, h *history, idx, ord int, conc bool, seed int64) (statenodes int) {
	rng := rand.New(rand.NewSource(seed))
	e := world.NewEnv(rand.New(rand.NewSource(seed ^ 0x5eed)))
	e.API.Yield = conc
	x := &runner{r: r, h: h, e: e, rng: rng, conc: conc, ord: ord,
		knownSet: map[dkey]bool{}, dirty: map[dkey]int{}, parked: map[dkey]bool{}, starved: map[dkey]int{}, lastOK: map[dkey]int{},
		errs: map[dkey]error{}, lastNodeUpd: map[string]int{}, lastClaimUpd: map[string]int{}, marks: map[string]bool{}, markCalls: map[string]bool{}, nomAt: map[string]time.Time{}, nomCalls: map[string]bool{}}
	x.t = &infs{cluster: e.Cluster, node: e.NodeInf, claim: e.ClaimInf, pod: e.PodInf, ds: e.DSInf, pool: e.PoolInf}
	for _, o := range h.Static {
		e.Apply(o.DeepCopyObject().(client.Object))
		if np, ok := o.(*v1.NodePool); ok {
			x.touch(dkey{"NodePool", "", np.Name})
		}
	}
	r.Inc("runs")
	if conc {
		r.Inc("runs_concurrent")
	}
	for i := range h.Ops {
		o := &h.Ops[i]
		var batch []dkey
		if h.Scripted {
			batch = o.Deliver
		} else if !o.Glue {
			batch = x.chooseBatch()
		}
		x.round(o, batch)
		r.Inc("ops_applied")
	}
	// phase 1: everything whose latest version has not been observed, and nothing else
	x.settling = true
	err1 := x.drain(x.pendingKeys())
	x.reportPanics(idx)
	ref := x.buildReference()
	if ref.err != nil {
		r.Violate("panic-or-error-in-fresh-recompute", ref.err.Error(), x.caseDesc(idx), nil)
		return 0
	}
	statenodes = len(ref.view.Nodes)
	if ds := x.apiTruth(ref); len(ds) > 0 {
		r.Violate("fresh-recompute-disagrees-with-api", fmt.Sprintf("the from-scratch state does not match the API content: %s = %s, API says %s", ds[0].Field, ds[0].Got, ds[0].Want), x.caseDesc(idx), ds)
	}
	r.Inc("api_truth_checks")
	r.Count("marks_in_force", len(ref.marks))
	r.Count("nominations_in_force", len(ref.noms))
	r.Count("nominations_skipped_unstable", len(ref.skipNominated))
	if err1 != nil {
		r.Inc("phase1_persistent_error")
		r.Inconcl("case %d order %d: informers keep failing after the last operation: %v", idx, ord, err1)
	} else {
		x.compare(idx, "latest-version-of-every-object-observed", ref)
	}
	// phase 2: every key ever known once more (periodic resync / duplicate notifications), until clean
	live, _ := x.liveKeysCanonical()
	for _, k := range live {
		if !x.knownSet[k] {
			x.knownSet[k] = true
			x.known = append(x.known, k)
		}
	}
	err2 := x.drain(shuffled(x.rng, x.known))
	x.reportPanics(idx)
	if err2 != nil {
		r.Inconcl("case %d order %d: informers keep failing during full re-delivery: %v", idx, ord, err2)
	} else {
		x.compare(idx, "full-redelivery", ref)
	}
	r.DistinctAdd("schedules", schedHash(x.sched))
	if r.WantSample() && ord == 0 && len(ref.view.Nodes) >= 2 {
		cd := x.caseDesc(idx)
		cd["schedule"] = x.sched
		cd["statenodes_compared"] = len(ref.view.Nodes)
		cd["marks_in_force"] = ref.marks
		r.Sample(cd)
	}
	return statenodes
}

func (x *runner) reportPanics(idx int) {
	for _, p := range x.panics {
		key := "panic-in-delivery:" + p.Key.Kind
		x.r.Violate(key, fmt.Sprintf("informer %s reconcile of %s panicked: %v", p.Key.Kind, p.Key, p.PanicVal), x.caseDesc(idx),
			map[string]any{"stack": p.Stack, "schedule": x.sched})
	}
	x.panics = nil
}

func run(r *mon.Report, tier string, idx int, rng *rand.Rand) {
	if idx < nDirected {
		// case 0: the four scripted minimal histories (so that their witnesses come first in every report)
		r.Eval()
		for which := 0; which < nDirectedHistories; which++ {
			h := directedHistory(which)
			r.Inc("histories_directed")
			_ = runOne(r, h, idx, which, false, rng.Int63())
			for f := range h.Features {
				r.Inc("feature:" + f)
			}
		}
		r.Sig("directed")
		return
	}
	h := genHistory(rng)
	r.Eval()
	r.Inc("histories")
	r.Count("history_ops", len(h.Ops))
	var fs []string
	for f := range h.Features {
		fs = append(fs, f)
		r.Inc("feature:" + f)
	}
	sort.Strings(fs)
	n := orders(tier)
	compared := 0
	for ord := 0; ord < n; ord++ {
		conc := raceBuild || ord == n-1
		compared += runOne(r, h, idx, ord, conc, rng.Int63())
	}
	if compared == 0 {
		r.Inc("histories_trivial_no_statenode_at_the_end")
		return
	}
	r.Sig("n%d-c%d-p%d-d%d|%s", h.NNodes, h.NClaims, h.NPods, h.NDS, strings.Join(fs, "+"))
}

func init() {
	reg.Register(&reg.Prop{
		ID: "C11", Level: "exploration", Race: true, RaceIsViolation: true,
		RaceFrac: map[string]float64{"quick": 0.5, "thorough": 0.2},
		Rule:     "a case = one PRNG history of 10..60 operations over <=4 Nodes, <=4 NodeClaims, <=10 Pods, <=2 DaemonSets (create/update/delete, providerID filled after creation on Node and NodeClaim, Node before/after its NodeClaim, registered/initialized labels flipping, finalizers + deletionTimestamp, pods bound / terminal / daemon-owned / re-created under the same name on another node, host ports, PVC volumes with CSINode limits, deletion-cost annotations and priorities, MarkForDeletion/UnmarkForDeletion/NominateNodeForPod, clock steps) executed under 3 (quick) or 5 (thorough) delivery schedules against the real state informer controllers (the last one, and all of them in the -race binary, with concurrent deliveries); after the last operation the exported views and a reflection digest of the tested state.Cluster are compared with a brand-new Cluster fed the same API content once in canonical order, first when exactly the not-yet-observed keys were delivered, then after a full re-delivery. Case 0 = five scripted minimal histories. A history is non-trivial when at least one StateNode of the reference was compared in at least one execution; signatures are distinct by (object counts, set of history features).",
		Cases:    cases, Run: run,
		MinObserved: map[string]int{
			"runs": 100, "comparisons": 100, "statenodes_compared": 200, "deliveries_duplicate": 50, "deliveries_deletion_notification": 50,
			"deletion_seen_before_older_update": 5, "postponed_key_delivered_late": 5, "deliveries_requeue": 5,
			"antecedent_claim_delivered_after_node_with_cost_pods": 3, "statenodes_with_hostports": 5, "statenodes_with_volumes": 5,
			"statenodes_with_volume_limits": 5, "statenodes_with_daemon_pods": 5, "marks_in_force": 3, "nominations_in_force": 1,
			"feature:pod-rebound-same-name-other-node": 5, "feature:node-pid-set-after-create": 5, "feature:claim-pid-set-after-create": 5,
			"feature:node-before-claim": 5, "runs_concurrent": 20,
		},
	})
}
