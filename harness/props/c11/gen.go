package c11

import (
	"fmt"
	"math/rand"
	"time"

	appsv1 "k8s.io/api/apps/v1"
	corev1 "k8s.io/api/core/v1"
	storagev1 "k8s.io/api/storage/v1"
	"k8s.io/apimachinery/pkg/api/resource"
	metav1 "k8s.io/apimachinery/pkg/apis/meta/v1"
	"sigs.k8s.io/controller-runtime/pkg/client"

	v1 "sigs.k8s.io/karpenter/pkg/apis/v1"

	"verif/gen"
	"verif/world"
)

const (
	maxNodes  = 4
	maxClaims = 4
	maxPods   = 10
	maxDS     = 2
)

var (
	poolNames = []string{"pool-a", "pool-b"}
	pvcNames  = []string{"pvc-a1", "pvc-a2", "pvc-a3", "pvc-b1", "pvc-pv", "pvc-nosc"}
)

func nodeName(i int) string { return fmt.Sprintf("n%d", i) }
func podName(i int) string  { return fmt.Sprintf("p%d", i) }
func dsName(i int) string   { return fmt.Sprintf("ds%d", i) }

type opKind int

const (
	opCreate opKind = iota
	opMutate
	opDelete
	opFinalize
	opStep
	opMark
	opUnmark
	opNominate
)

// op is one step of a history: a change made by "the rest of the cluster" to the API, a clock step, or a
// call another Karpenter component would make on the cluster state (mark / unmark / nominate).
type op struct {
	Kind    opKind
	ObjKind string // Node NodeClaim Pod DaemonSet
	NS      string
	Name    string
	Obj     client.Object       // opCreate
	Mut     func(client.Object) // opMutate (deterministic, depends only on the stored object)
	D       time.Duration       // opStep
	K       string              // provider id for mark/unmark/nominate
	Glue    bool                // no informer delivery between this op and the next one
	Deliver []dkey              // scripted histories: exactly these deliveries follow the operation
	Desc    string
}

type mNode struct {
	exists, deleting, finalizer bool
	pid                         string
	managed, hasIT              bool
	registered, initialized     bool
}

func (n *mNode) key(name string) string {
	if n.pid != "" {
		return n.pid
	}
	if !n.managed {
		return name
	}
	return ""
}

type mClaim struct {
	exists, deleting, finalizer bool
	pid                         string
}

type mPod struct {
	exists, deleting bool
	node             string
	terminal         bool
}

// history is a generated case: static objects, the operation list and which provider ids lost an API
// object at some point (their marks / nominations are not determined by the API content alone).
type history struct {
	Static                      []client.Object
	Ops                         []op
	Unstable                    map[string]bool
	Features                    map[string]bool
	Scripted                    bool   // deliveries are given by op.Deliver instead of the PRNG
	ForceKey                    string // scripted histories outside the random generator's domain: violation key by construction
	NNodes, NClaims, NPods, NDS int
}

type hgen struct {
	rng      *rand.Rand
	h        *history
	nodes    [maxNodes]mNode
	claims   [maxClaims]mClaim
	pods     [maxPods]mPod
	dss      [maxDS]bool
	pairK    [maxClaims]string
	pairUsed [maxClaims]bool
	kseq     int
	marked   map[string]bool
	podVols  [maxPods][]string // default volumes per pod name
	nodeUsed [maxNodes]bool    // the node name has been used by an earlier incarnation
	claimGen [maxClaims]int    // NodeClaim names are never reused (generateName in production)
}

func (g *hgen) cname(i int) string { return fmt.Sprintf("nc%d-%d", i, g.claimGen[i]) }

func q(s string) resource.Quantity { return resource.MustParse(s) }

func (g *hgen) add(o op)      { g.h.Ops = append(g.h.Ops, o) }
func (g *hgen) feat(f string) { g.h.Features[f] = true }

func (g *hgen) newK() string {
	g.kseq++
	return fmt.Sprintf("fake://i-%03d", g.kseq)
}

func (g *hgen) pick(ss ...string) string { return ss[g.rng.Intn(len(ss))] }

func (g *hgen) chance(p float64) bool { return g.rng.Float64() < p }

// ---- static world ----

func (g *hgen) static() {
	h := g.h
	for _, p := range poolNames {
		np := gen.NodePool(g.rng, p, gen.PoolCfg{})
		h.Static = append(h.Static, np)
	}
	h.Static = append(h.Static,
		&storagev1.StorageClass{ObjectMeta: metav1.ObjectMeta{Name: "sc-a"}, Provisioner: "csi.a"},
		&storagev1.StorageClass{ObjectMeta: metav1.ObjectMeta{Name: "sc-b"}, Provisioner: "kubernetes.io/aws-ebs"},
		&corev1.PersistentVolume{ObjectMeta: metav1.ObjectMeta{Name: "pv-1"}, Spec: corev1.PersistentVolumeSpec{
			PersistentVolumeSource: corev1.PersistentVolumeSource{CSI: &corev1.CSIPersistentVolumeSource{Driver: "csi.a", VolumeHandle: "vol-1"}}}},
	)
	pvc := func(name, sc, vol string) *corev1.PersistentVolumeClaim {
		p := &corev1.PersistentVolumeClaim{ObjectMeta: metav1.ObjectMeta{Name: name, Namespace: "default"}}
		if sc != "-" {
			s := sc
			p.Spec.StorageClassName = &s
		}
		p.Spec.VolumeName = vol
		return p
	}
	h.Static = append(h.Static, pvc("pvc-a1", "sc-a", ""), pvc("pvc-a2", "sc-a", ""), pvc("pvc-a3", "sc-a", ""),
		pvc("pvc-b1", "sc-b", ""), pvc("pvc-pv", "sc-gone", "pv-1"), pvc("pvc-nosc", "-", ""))
	for i := 0; i < h.NNodes; i++ {
		if g.chance(0.75) {
			c := &storagev1.CSINode{ObjectMeta: metav1.ObjectMeta{Name: nodeName(i)}}
			cnt := int32(1 + g.rng.Intn(3))
			c.Spec.Drivers = append(c.Spec.Drivers, storagev1.CSINodeDriver{Name: "csi.a", NodeID: nodeName(i), Allocatable: &storagev1.VolumeNodeResources{Count: &cnt}})
			if g.chance(0.5) {
				one := int32(1)
				c.Spec.Drivers = append(c.Spec.Drivers, storagev1.CSINodeDriver{Name: "ebs.csi.aws.com", NodeID: nodeName(i), Allocatable: &storagev1.VolumeNodeResources{Count: &one}})
			}
			if g.chance(0.3) {
				c.Spec.Drivers = append(c.Spec.Drivers, storagev1.CSINodeDriver{Name: "csi.unlimited", NodeID: nodeName(i)})
			}
			h.Static = append(h.Static, c)
		}
	}
}

// ---- object builders ----

func (g *hgen) capacity() (corev1.ResourceList, corev1.ResourceList) {
	cpu := g.pick("2", "4", "8")
	mem := g.pick("4Gi", "8Gi", "16Gi")
	pods := g.pick("10", "110")
	c := corev1.ResourceList{corev1.ResourceCPU: q(cpu), corev1.ResourceMemory: q(mem), corev1.ResourcePods: q(pods)}
	a := corev1.ResourceList{corev1.ResourceCPU: q(cpu), corev1.ResourceMemory: q(mem), corev1.ResourcePods: q(pods)}
	cpuA := c[corev1.ResourceCPU].DeepCopy()
	cpuA.Sub(q("100m"))
	a[corev1.ResourceCPU] = cpuA
	if g.chance(0.4) {
		n := g.pick("1", "2")
		c["example.com/gpu"] = q(n)
		a["example.com/gpu"] = q(n)
	}
	return c, a
}

func (g *hgen) taints() []corev1.Taint {
	var ts []corev1.Taint
	if g.chance(0.3) {
		ts = append(ts, corev1.Taint{Key: "dedicated", Value: g.pick("x", "y"), Effect: corev1.TaintEffectNoSchedule})
	}
	return ts
}

func (g *hgen) poolFor(i int) string { return poolNames[i%len(poolNames)] }

func (g *hgen) buildClaim(i int, launched bool) *v1.NodeClaim {
	nc := &v1.NodeClaim{ObjectMeta: metav1.ObjectMeta{Name: g.cname(i), Labels: map[string]string{
		v1.NodePoolLabelKey: g.poolFor(i),
	}}}
	if g.chance(0.85) {
		nc.Labels[corev1.LabelInstanceTypeStable] = g.pick("it-small", "it-large")
		nc.Labels[corev1.LabelTopologyZone] = g.pick("zone-a", "zone-b")
		nc.Labels[v1.CapacityTypeLabelKey] = g.pick("on-demand", "spot")
	}
	nc.Spec.NodeClassRef = gen.NodeClassRef()
	nc.Spec.Taints = g.taints()
	if g.chance(0.4) {
		nc.Spec.StartupTaints = []corev1.Taint{{Key: "startup", Value: "x", Effect: corev1.TaintEffectNoSchedule}}
	}
	nc.Spec.Resources.Requests = corev1.ResourceList{corev1.ResourceCPU: q("1")}
	if g.chance(0.85) {
		nc.Finalizers = []string{v1.TerminationFinalizer}
	}
	if launched {
		g.launch(i)(nc)
	}
	return nc
}

// launch returns the mutation that fills status.providerID / capacity (the lifecycle controller's launch step).
func (g *hgen) launch(i int) func(client.Object) {
	k := g.pairK[i]
	c, a := g.capacity()
	return func(o client.Object) {
		nc := o.(*v1.NodeClaim)
		nc.Status.ProviderID = k
		nc.Status.Capacity = c.DeepCopy()
		nc.Status.Allocatable = a.DeepCopy()
		nc.StatusConditions().SetTrue(v1.ConditionTypeLaunched)
	}
}

type nodeShape struct {
	managed, withPID, withIT, registered, initialized, finalizer bool
	extPID                                                       bool
}

func (g *hgen) buildNode(i int, s nodeShape, pid string) *corev1.Node {
	name := nodeName(i)
	n := &corev1.Node{ObjectMeta: metav1.ObjectMeta{Name: name, Labels: map[string]string{}}}
	if g.chance(0.8) {
		n.Labels[corev1.LabelHostname] = name
	}
	if s.managed {
		n.Labels[v1.NodePoolLabelKey] = g.poolFor(i)
		if s.withIT {
			n.Labels[corev1.LabelInstanceTypeStable] = g.pick("it-small", "it-large")
		}
		if s.registered {
			n.Labels[v1.NodeRegisteredLabelKey] = "true"
		}
		if s.initialized {
			n.Labels[v1.NodeInitializedLabelKey] = "true"
		}
	}
	if s.finalizer {
		n.Finalizers = []string{v1.TerminationFinalizer}
	}
	n.Spec.ProviderID = pid
	n.Spec.Taints = g.taints()
	if s.managed && !s.registered && g.chance(0.7) {
		n.Spec.Taints = append(n.Spec.Taints, v1.UnregisteredNoExecuteTaint)
	}
	if !s.initialized && g.chance(0.5) {
		n.Spec.Taints = append(n.Spec.Taints, corev1.Taint{Key: corev1.TaintNodeNotReady, Effect: corev1.TaintEffectNoSchedule})
	}
	if !s.initialized && g.chance(0.4) {
		n.Spec.Taints = append(n.Spec.Taints, corev1.Taint{Key: "startup", Value: "x", Effect: corev1.TaintEffectNoSchedule})
	}
	c, a := g.capacity()
	if _, ok := c["example.com/gpu"]; ok && !s.initialized && g.chance(0.6) {
		c["example.com/gpu"] = q("0")
		a["example.com/gpu"] = q("0")
	}
	n.Status.Capacity, n.Status.Allocatable = c, a
	n.Status.Phase = corev1.NodeRunning
	return n
}

var deletionCosts = []string{"100000000", "-50000000", "2147483647", "notanumber", "0", "-2147483647", "40000000"}

func (g *hgen) buildPod(j int, node string) *corev1.Pod {
	cpu := []int64{0, 100, 250, 500, 1000, 1500}[g.rng.Intn(6)]
	mem := []int64{0, 64, 256, 1024}[g.rng.Intn(4)]
	p := gen.Pod(podName(j), cpu, mem)
	p.UID = ""
	c := &p.Spec.Containers[0]
	if g.chance(0.3) {
		c.Resources.Limits = corev1.ResourceList{}
		for k, v := range c.Resources.Requests {
			vv := v.DeepCopy()
			vv.Add(v)
			c.Resources.Limits[k] = vv
		}
		if g.chance(0.3) {
			c.Resources.Limits["example.com/gpu"] = q("1")
			c.Resources.Requests["example.com/gpu"] = q("1")
		}
	}
	if g.chance(0.3) {
		port := int32(8000 + g.rng.Intn(2))
		proto := corev1.ProtocolTCP
		if g.chance(0.25) {
			proto = corev1.ProtocolUDP
		}
		c.Ports = append(c.Ports, corev1.ContainerPort{ContainerPort: port, HostPort: port, Protocol: proto, HostIP: g.pick("", "0.0.0.0", "10.0.0.1", "10.0.0.2")})
		if g.chance(0.2) {
			c.Ports = append(c.Ports, corev1.ContainerPort{ContainerPort: 8002, HostPort: 8002, Protocol: corev1.ProtocolTCP})
		}
		g.feat("hostports")
	}
	vols := g.podVols[j]
	if g.chance(0.25) {
		vols = g.randVols()
	}
	for vi, vname := range vols {
		switch vname {
		case "emptydir":
			p.Spec.Volumes = append(p.Spec.Volumes, corev1.Volume{Name: fmt.Sprintf("v%d", vi), VolumeSource: corev1.VolumeSource{EmptyDir: &corev1.EmptyDirVolumeSource{}}})
		default:
			p.Spec.Volumes = append(p.Spec.Volumes, corev1.Volume{Name: fmt.Sprintf("v%d", vi), VolumeSource: corev1.VolumeSource{
				PersistentVolumeClaim: &corev1.PersistentVolumeClaimVolumeSource{ClaimName: vname}}})
		}
	}
	if len(vols) > 0 {
		g.feat("volumes")
	}
	// ownership is fixed per pod name: p0,p1 belong to ds0; p2 to ds1
	switch {
	case j <= 1:
		gen.WithOwner("DaemonSet", dsName(0))(p)
		p.Labels["ds"] = dsName(0)
		g.feat("daemonpods")
	case j == 2:
		gen.WithOwner("DaemonSet", dsName(1))(p)
		p.Labels["ds"] = dsName(1)
		g.feat("daemonpods")
	}
	if g.chance(0.45) {
		gen.WithAnnotation(corev1.PodDeletionCost, deletionCosts[g.rng.Intn(len(deletionCosts))])(p)
		g.feat("deletioncost")
	}
	if g.chance(0.3) {
		pr := []int32{1000000, -100000000, 1000000000, 100000000}[g.rng.Intn(4)]
		p.Spec.Priority = &pr
		g.feat("priority")
	}
	if g.chance(0.25) {
		p.Spec.Affinity = &corev1.Affinity{PodAntiAffinity: &corev1.PodAntiAffinity{RequiredDuringSchedulingIgnoredDuringExecution: []corev1.PodAffinityTerm{{
			LabelSelector: &metav1.LabelSelector{MatchLabels: map[string]string{"app": "x"}}, TopologyKey: corev1.LabelHostname}}}}
		p.Labels["app"] = "x"
		g.feat("antiaffinity")
	}
	if node != "" {
		gen.Bound(node, world.Epoch)(p)
	}
	if g.chance(0.07) {
		p.Status.Phase = []corev1.PodPhase{corev1.PodSucceeded, corev1.PodFailed}[g.rng.Intn(2)]
	}
	return p
}

func (g *hgen) randVols() []string {
	if !g.chance(0.45) {
		return nil
	}
	all := []string{"pvc-a1", "pvc-a2", "pvc-a3", "pvc-b1", "pvc-pv", "pvc-nosc", "pvc-missing", "emptydir"}
	n := 1 + g.rng.Intn(2)
	var out []string
	for i := 0; i < n; i++ {
		out = append(out, all[g.rng.Intn(len(all))])
	}
	return out
}

func (g *hgen) randNodeTarget() string {
	r := g.rng.Float64()
	switch {
	case r < 0.2:
		return ""
	case r < 0.25:
		return "ghost"
	}
	// prefer existing nodes
	var ex []int
	for i := 0; i < g.h.NNodes; i++ {
		if g.nodes[i].exists {
			ex = append(ex, i)
		}
	}
	if len(ex) > 0 && g.chance(0.85) {
		return nodeName(ex[g.rng.Intn(len(ex))])
	}
	return nodeName(g.rng.Intn(g.h.NNodes))
}

// ---- operations ----

func (g *hgen) opNodeCreate(i int) {
	n := &g.nodes[i]
	s := nodeShape{}
	pid := ""
	r := g.rng.Float64()
	if g.nodeUsed[i] && r >= 0.55 && r < 0.76 {
		// a re-created Node never starts in a shape UpdateNode ignores (see package doc: known limitation)
		r = 0
	}
	g.nodeUsed[i] = true
	switch {
	case r < 0.55: // managed, complete
		s = nodeShape{managed: true, withPID: true, withIT: true}
	case r < 0.68: // managed, provider id arrives later
		s = nodeShape{managed: true, withIT: true}
		g.feat("node-pid-later")
	case r < 0.76: // managed, instance type label arrives later
		s = nodeShape{managed: true, withPID: true}
		g.feat("node-it-later")
	case r < 0.88: // unmanaged with external id
		s = nodeShape{extPID: true, withPID: true}
		g.feat("unmanaged")
	default: // unmanaged, tracked under its name until an id shows up
		s = nodeShape{}
		g.feat("unmanaged-nameless")
	}
	if s.managed {
		s.registered = g.chance(0.5)
		s.initialized = s.registered && g.chance(0.5)
		s.finalizer = g.chance(0.7)
		if s.withPID {
			if g.pairK[i] == "" {
				g.pairK[i] = g.newK()
				g.pairUsed[i] = false
				g.feat("node-before-claim")
			}
			pid = g.pairK[i]
		}
	} else if s.extPID {
		pid = g.newK()
	}
	obj := g.buildNode(i, s, pid)
	*n = mNode{exists: true, finalizer: s.finalizer, pid: pid, managed: s.managed, hasIT: s.withIT, registered: s.registered, initialized: s.initialized}
	g.add(op{Kind: opCreate, ObjKind: "Node", Name: nodeName(i), Obj: obj,
		Desc: fmt.Sprintf("create Node %s providerID=%q managed=%v instanceTypeLabel=%v registered=%v initialized=%v finalizer=%v taints=%v", nodeName(i), pid, s.managed, s.withIT, s.registered, s.initialized, s.finalizer, taintStrings(obj.Spec.Taints))})
}

func (g *hgen) opNodeMutate(i int) {
	n := &g.nodes[i]
	name := nodeName(i)
	var cands []string
	if n.managed {
		cands = append(cands, "registered", "annot", "taints", "capacity")
		if n.hasIT || !n.initialized {
			cands = append(cands, "initialized")
		}
		if n.pid == "" {
			cands = append(cands, "pid", "pid", "pid")
		}
		if !n.hasIT {
			cands = append(cands, "it", "it", "it")
		}
	} else {
		cands = append(cands, "annot", "taints", "capacity")
		if n.pid == "" {
			cands = append(cands, "pid", "pid", "adopt")
		}
	}
	switch g.pick(cands...) {
	case "registered":
		nv := !n.registered
		n.registered = nv
		g.add(op{Kind: opMutate, ObjKind: "Node", Name: name, Desc: fmt.Sprintf("update Node %s label registered=%v", name, nv), Mut: func(o client.Object) {
			nd := o.(*corev1.Node)
			if nv {
				setLabel(nd, v1.NodeRegisteredLabelKey, "true")
				nd.Spec.Taints = rejectTaint(nd.Spec.Taints, v1.UnregisteredTaintKey)
			} else {
				delete(nd.Labels, v1.NodeRegisteredLabelKey)
			}
		}})
		g.feat("registered-flip")
	case "initialized":
		nv := !n.initialized
		n.initialized = nv
		g.add(op{Kind: opMutate, ObjKind: "Node", Name: name, Desc: fmt.Sprintf("update Node %s label initialized=%v", name, nv), Mut: func(o client.Object) {
			nd := o.(*corev1.Node)
			if nv {
				setLabel(nd, v1.NodeInitializedLabelKey, "true")
				nd.Spec.Taints = rejectTaint(rejectTaint(nd.Spec.Taints, corev1.TaintNodeNotReady), "startup")
				for k, v := range nd.Status.Capacity {
					if v.IsZero() {
						nd.Status.Capacity[k] = q("1")
						if nd.Status.Allocatable == nil {
							nd.Status.Allocatable = corev1.ResourceList{}
						}
						nd.Status.Allocatable[k] = q("1")
					}
				}
			} else {
				delete(nd.Labels, v1.NodeInitializedLabelKey)
			}
		}})
		g.feat("initialized-flip")
	case "annot":
		val := g.pick("true", "false", "")
		g.add(op{Kind: opMutate, ObjKind: "Node", Name: name, Desc: fmt.Sprintf("update Node %s annotation do-not-disrupt=%q", name, val), Mut: func(o client.Object) {
			nd := o.(*corev1.Node)
			if nd.Annotations == nil {
				nd.Annotations = map[string]string{}
			}
			if val == "" {
				delete(nd.Annotations, v1.DoNotDisruptAnnotationKey)
			} else {
				nd.Annotations[v1.DoNotDisruptAnnotationKey] = val
			}
		}})
	case "taints":
		add := g.chance(0.5)
		g.add(op{Kind: opMutate, ObjKind: "Node", Name: name, Desc: fmt.Sprintf("update Node %s taint cordon add=%v", name, add), Mut: func(o client.Object) {
			nd := o.(*corev1.Node)
			nd.Spec.Taints = rejectTaint(nd.Spec.Taints, corev1.TaintNodeUnschedulable)
			if add {
				nd.Spec.Taints = append(nd.Spec.Taints, corev1.Taint{Key: corev1.TaintNodeUnschedulable, Effect: corev1.TaintEffectNoSchedule})
			}
		}})
	case "capacity":
		c, a := g.capacity()
		g.add(op{Kind: opMutate, ObjKind: "Node", Name: name, Desc: fmt.Sprintf("update Node %s status capacity=%s", name, rlString(c)), Mut: func(o client.Object) {
			nd := o.(*corev1.Node)
			nd.Status.Capacity, nd.Status.Allocatable = c.DeepCopy(), a.DeepCopy()
		}})
	case "pid":
		var pid string
		if n.managed {
			if g.pairK[i] == "" {
				g.pairK[i] = g.newK()
				g.pairUsed[i] = false
			}
			pid = g.pairK[i]
		} else {
			pid = g.newK()
			g.h.Unstable[name] = true // the name-keyed StateNode is replaced by an id-keyed one
		}
		n.pid = pid
		g.add(op{Kind: opMutate, ObjKind: "Node", Name: name, Desc: fmt.Sprintf("update Node %s spec.providerID \"\" -> %q", name, pid), Mut: func(o client.Object) {
			o.(*corev1.Node).Spec.ProviderID = pid
		}})
		g.feat("node-pid-set-after-create")
	case "adopt":
		// a bare node receives provider id and karpenter labels in one update (kubelet / CCM catching up)
		if g.pairK[i] == "" {
			g.pairK[i] = g.newK()
			g.pairUsed[i] = false
		}
		pid := g.pairK[i]
		pool := g.poolFor(i)
		g.h.Unstable[name] = true
		n.pid, n.managed, n.hasIT = pid, true, true
		g.add(op{Kind: opMutate, ObjKind: "Node", Name: name, Desc: fmt.Sprintf("update Node %s spec.providerID \"\" -> %q + nodepool/instance-type labels", name, pid), Mut: func(o client.Object) {
			nd := o.(*corev1.Node)
			nd.Spec.ProviderID = pid
			setLabel(nd, v1.NodePoolLabelKey, pool)
			setLabel(nd, corev1.LabelInstanceTypeStable, "it-small")
		}})
		g.feat("node-pid-set-after-create")
	case "it":
		n.hasIT = true
		g.add(op{Kind: opMutate, ObjKind: "Node", Name: name, Desc: fmt.Sprintf("update Node %s add instance-type label", name), Mut: func(o client.Object) {
			setLabel(o, corev1.LabelInstanceTypeStable, "it-small")
		}})
	}
}

func setLabel(o client.Object, k, v string) {
	l := o.GetLabels()
	if l == nil {
		l = map[string]string{}
	}
	l[k] = v
	o.SetLabels(l)
}

func rejectTaint(ts []corev1.Taint, key string) []corev1.Taint {
	var out []corev1.Taint
	for _, t := range ts {
		if t.Key != key {
			out = append(out, t)
		}
	}
	return out
}

func (g *hgen) nodeGone(i int) {
	n := &g.nodes[i]
	if k := n.key(nodeName(i)); k != "" {
		g.h.Unstable[k] = true
	}
	*n = mNode{}
}

func (g *hgen) opNodeDelete(i int) {
	n := &g.nodes[i]
	name := nodeName(i)
	if n.finalizer && !n.deleting {
		n.deleting = true
		g.add(op{Kind: opDelete, ObjKind: "Node", Name: name, Desc: fmt.Sprintf("delete Node %s (finalizer present: deletionTimestamp set)", name)})
		g.feat("node-deleting")
		return
	}
	if n.deleting {
		g.add(op{Kind: opFinalize, ObjKind: "Node", Name: name, Desc: fmt.Sprintf("remove finalizer of Node %s (object disappears)", name)})
	} else {
		g.add(op{Kind: opDelete, ObjKind: "Node", Name: name, Desc: fmt.Sprintf("delete Node %s (no finalizer: object disappears)", name)})
	}
	g.nodeGone(i)
	g.feat("node-gone")
}

func (g *hgen) opClaimCreate(i int) {
	c := &g.claims[i]
	g.claimGen[i]++
	if g.pairK[i] == "" || g.pairUsed[i] {
		g.pairK[i] = g.newK()
	}
	g.pairUsed[i] = true
	launched := g.chance(0.4)
	obj := g.buildClaim(i, launched)
	*c = mClaim{exists: true, finalizer: len(obj.Finalizers) > 0}
	if launched {
		c.pid = g.pairK[i]
	} else {
		g.feat("claim-pid-later")
	}
	g.add(op{Kind: opCreate, ObjKind: "NodeClaim", Name: g.cname(i), Obj: obj,
		Desc: fmt.Sprintf("create NodeClaim %s pool=%s status.providerID=%q finalizer=%v startupTaints=%d capacity=%s", g.cname(i), obj.Labels[v1.NodePoolLabelKey], obj.Status.ProviderID, c.finalizer, len(obj.Spec.StartupTaints), rlString(obj.Status.Capacity))})
}

func (g *hgen) opClaimMutate(i int) {
	c := &g.claims[i]
	name := g.cname(i)
	cands := []string{"cond", "annot", "label", "cond"}
	if c.pid == "" {
		cands = append(cands, "launch", "launch", "launch", "launch")
	}
	switch g.pick(cands...) {
	case "launch":
		c.pid = g.pairK[i]
		g.add(op{Kind: opMutate, ObjKind: "NodeClaim", Name: name, Desc: fmt.Sprintf("update NodeClaim %s status.providerID \"\" -> %q (+capacity)", name, c.pid), Mut: g.launch(i)})
		g.feat("claim-pid-set-after-create")
	case "cond":
		ct := g.pick(v1.ConditionTypeRegistered, v1.ConditionTypeInitialized, v1.ConditionTypeDrifted, v1.ConditionTypeConsolidatable)
		val := g.chance(0.7)
		g.add(op{Kind: opMutate, ObjKind: "NodeClaim", Name: name, Desc: fmt.Sprintf("update NodeClaim %s status condition %s=%v", name, ct, val), Mut: func(o client.Object) {
			nc := o.(*v1.NodeClaim)
			if val {
				nc.StatusConditions().SetTrue(ct)
			} else {
				_ = nc.StatusConditions().Clear(ct)
			}
		}})
		g.feat("claim-update")
	case "annot":
		val := g.pick("a", "b", "c")
		g.add(op{Kind: opMutate, ObjKind: "NodeClaim", Name: name, Desc: fmt.Sprintf("update NodeClaim %s annotation note=%s", name, val), Mut: func(o client.Object) {
			nc := o.(*v1.NodeClaim)
			if nc.Annotations == nil {
				nc.Annotations = map[string]string{}
			}
			nc.Annotations["verif/note"] = val
		}})
		g.feat("claim-update")
	case "label":
		val := g.pick("red", "blue")
		g.add(op{Kind: opMutate, ObjKind: "NodeClaim", Name: name, Desc: fmt.Sprintf("update NodeClaim %s label team=%s", name, val), Mut: func(o client.Object) {
			setLabel(o, "team", val)
		}})
		g.feat("claim-update")
	}
}

func (g *hgen) claimGone(i int) {
	c := &g.claims[i]
	if c.pid != "" {
		g.h.Unstable[c.pid] = true
	}
	*c = mClaim{}
}

func (g *hgen) opClaimDelete(i int) {
	c := &g.claims[i]
	name := g.cname(i)
	if c.finalizer && !c.deleting {
		c.deleting = true
		g.add(op{Kind: opDelete, ObjKind: "NodeClaim", Name: name, Desc: fmt.Sprintf("delete NodeClaim %s (finalizer present: deletionTimestamp set)", name)})
		g.feat("claim-deleting")
		return
	}
	if c.deleting {
		g.add(op{Kind: opFinalize, ObjKind: "NodeClaim", Name: name, Desc: fmt.Sprintf("remove finalizer of NodeClaim %s (object disappears)", name)})
	} else {
		g.add(op{Kind: opDelete, ObjKind: "NodeClaim", Name: name, Desc: fmt.Sprintf("delete NodeClaim %s (no finalizer: object disappears)", name)})
	}
	g.claimGone(i)
	g.feat("claim-gone")
}

func (g *hgen) opPodCreate(j int, node string, glue bool) {
	obj := g.buildPod(j, node)
	term := obj.Status.Phase == corev1.PodSucceeded || obj.Status.Phase == corev1.PodFailed
	g.pods[j] = mPod{exists: true, node: node, terminal: term}
	cost := obj.Annotations[corev1.PodDeletionCost]
	prio := "nil"
	if obj.Spec.Priority != nil {
		prio = fmt.Sprint(*obj.Spec.Priority)
	}
	var vols []string
	for _, v := range obj.Spec.Volumes {
		if v.PersistentVolumeClaim != nil {
			vols = append(vols, v.PersistentVolumeClaim.ClaimName)
		}
	}
	g.add(op{Kind: opCreate, ObjKind: "Pod", NS: "default", Name: podName(j), Obj: obj, Glue: glue,
		Desc: fmt.Sprintf("create Pod %s nodeName=%q phase=%s requests=%s limits=%s hostPorts=%d pvcs=%v daemon=%v deletionCost=%q priority=%s antiAffinity=%v", podName(j), node, obj.Status.Phase,
			rlString(obj.Spec.Containers[0].Resources.Requests), rlString(obj.Spec.Containers[0].Resources.Limits), len(obj.Spec.Containers[0].Ports), vols, j <= 2, cost, prio, obj.Spec.Affinity != nil)})
}

func (g *hgen) opPodMutate(j int) {
	p := &g.pods[j]
	name := podName(j)
	cands := []string{"cost", "cost", "resize", "label"}
	if p.node == "" && !p.terminal {
		cands = append(cands, "bind", "bind", "bind", "bind")
	}
	if !p.terminal {
		cands = append(cands, "terminal")
	}
	switch g.pick(cands...) {
	case "bind":
		node := g.randNodeTarget()
		if node == "" {
			node = nodeName(g.rng.Intn(g.h.NNodes))
		}
		p.node = node
		g.add(op{Kind: opMutate, ObjKind: "Pod", NS: "default", Name: name, Desc: fmt.Sprintf("bind Pod %s to %s", name, node), Mut: func(o client.Object) {
			gen.Bound(node, world.Epoch)(o.(*corev1.Pod))
		}})
		g.feat("pod-bind")
	case "cost":
		val := deletionCosts[g.rng.Intn(len(deletionCosts))]
		if g.chance(0.2) {
			val = ""
		}
		g.add(op{Kind: opMutate, ObjKind: "Pod", NS: "default", Name: name, Desc: fmt.Sprintf("update Pod %s annotation pod-deletion-cost=%q", name, val), Mut: func(o client.Object) {
			pd := o.(*corev1.Pod)
			if pd.Annotations == nil {
				pd.Annotations = map[string]string{}
			}
			if val == "" {
				delete(pd.Annotations, corev1.PodDeletionCost)
			} else {
				pd.Annotations[corev1.PodDeletionCost] = val
			}
		}})
		g.feat("deletioncost")
	case "resize":
		cpu := g.pick("150m", "300m", "2")
		g.add(op{Kind: opMutate, ObjKind: "Pod", NS: "default", Name: name, Desc: fmt.Sprintf("resize Pod %s cpu request -> %s", name, cpu), Mut: func(o client.Object) {
			pd := o.(*corev1.Pod)
			if pd.Spec.Containers[0].Resources.Requests == nil {
				pd.Spec.Containers[0].Resources.Requests = corev1.ResourceList{}
			}
			pd.Spec.Containers[0].Resources.Requests[corev1.ResourceCPU] = q(cpu)
			if l := pd.Spec.Containers[0].Resources.Limits; l != nil {
				l[corev1.ResourceCPU] = q("4")
			}
		}})
	case "label":
		val := g.pick("1", "2")
		g.add(op{Kind: opMutate, ObjKind: "Pod", NS: "default", Name: name, Desc: fmt.Sprintf("update Pod %s label rev=%s", name, val), Mut: func(o client.Object) {
			setLabel(o, "rev", val)
		}})
	case "terminal":
		ph := []corev1.PodPhase{corev1.PodSucceeded, corev1.PodFailed}[g.rng.Intn(2)]
		p.terminal = true
		g.add(op{Kind: opMutate, ObjKind: "Pod", NS: "default", Name: name, Desc: fmt.Sprintf("update Pod %s status.phase=%s", name, ph), Mut: func(o client.Object) {
			o.(*corev1.Pod).Status.Phase = ph
		}})
		g.feat("pod-terminal")
	}
}

func (g *hgen) opPodDelete(j int, forceImmediate, glue bool) {
	p := &g.pods[j]
	name := podName(j)
	if !p.deleting && !forceImmediate && p.node != "" && g.chance(0.5) {
		// graceful: the kubelet keeps the object (finalizer) until the containers are gone
		p.deleting = true
		g.add(op{Kind: opMutate, ObjKind: "Pod", NS: "default", Name: name, Glue: true, Desc: fmt.Sprintf("(kubelet finalizer on Pod %s)", name), Mut: func(o client.Object) {
			o.SetFinalizers([]string{world.KubeletFinalizer})
		}})
		g.add(op{Kind: opDelete, ObjKind: "Pod", NS: "default", Name: name, Desc: fmt.Sprintf("delete Pod %s gracefully (terminating, deletionTimestamp set)", name)})
		g.feat("pod-terminating")
		return
	}
	if p.deleting {
		g.add(op{Kind: opFinalize, ObjKind: "Pod", NS: "default", Name: name, Glue: glue, Desc: fmt.Sprintf("kubelet removes terminated Pod %s (object disappears)", name)})
	} else {
		g.add(op{Kind: opDelete, ObjKind: "Pod", NS: "default", Name: name, Glue: glue, Desc: fmt.Sprintf("delete Pod %s (object disappears)", name)})
	}
	*p = mPod{}
	g.feat("pod-gone")
}

func (g *hgen) opPodRecreate(j int) {
	old := g.pods[j].node
	glue := g.chance(0.7)
	g.opPodDelete(j, true, glue)
	// prefer another node; sometimes the very same one (StatefulSet pod restarted in place)
	node := g.randNodeTarget()
	for t := 0; t < 4 && (node == old || node == ""); t++ {
		node = g.randNodeTarget()
	}
	if old != "" && g.chance(0.2) {
		node = old
	}
	g.opPodCreate(j, node, false)
	if old != "" && node != "" && node != old {
		g.feat("pod-rebound-same-name-other-node")
	} else if old != "" && node == old {
		g.feat("pod-recreated-same-name-same-node")
	}
}

func (g *hgen) opDS(d int) {
	name := dsName(d)
	if !g.dss[d] {
		ds := gen.DaemonSet(name, []int64{100, 200}[g.rng.Intn(2)], 64)
		g.dss[d] = true
		g.add(op{Kind: opCreate, ObjKind: "DaemonSet", NS: "default", Name: name, Obj: ds, Desc: "create DaemonSet " + name})
		g.feat("daemonset")
		return
	}
	if g.chance(0.35) {
		g.dss[d] = false
		g.add(op{Kind: opDelete, ObjKind: "DaemonSet", NS: "default", Name: name, Desc: "delete DaemonSet " + name})
		return
	}
	cpu := g.pick("150m", "250m")
	g.add(op{Kind: opMutate, ObjKind: "DaemonSet", NS: "default", Name: name, Desc: fmt.Sprintf("update DaemonSet %s template cpu=%s", name, cpu), Mut: func(o client.Object) {
		o.(*appsv1.DaemonSet).Spec.Template.Spec.Containers[0].Resources.Requests[corev1.ResourceCPU] = q(cpu)
	}})
}

// liveKeys lists the state keys (provider ids or node names) of the objects currently in the model.
func (g *hgen) liveKeys() []string {
	seen := map[string]bool{}
	var out []string
	for i := 0; i < g.h.NNodes; i++ {
		if g.nodes[i].exists {
			if k := g.nodes[i].key(nodeName(i)); k != "" && !seen[k] {
				seen[k] = true
				out = append(out, k)
			}
		}
	}
	for i := 0; i < g.h.NClaims; i++ {
		if g.claims[i].exists && g.claims[i].pid != "" && !seen[g.claims[i].pid] {
			seen[g.claims[i].pid] = true
			out = append(out, g.claims[i].pid)
		}
	}
	return out
}

func (g *hgen) opMarkish() bool {
	ks := g.liveKeys()
	if len(ks) == 0 {
		return false
	}
	k := ks[g.rng.Intn(len(ks))]
	if g.chance(0.05) {
		k = "fake://i-unknown"
	}
	r := g.rng.Float64()
	switch {
	case r < 0.45:
		g.marked[k] = true
		g.add(op{Kind: opMark, K: k, Desc: "cluster.MarkForDeletion(" + k + ")"})
		g.feat("mark")
	case r < 0.65:
		g.add(op{Kind: opUnmark, K: k, Desc: "cluster.UnmarkForDeletion(" + k + ")"})
		g.feat("unmark")
	default:
		g.add(op{Kind: opNominate, K: k, Desc: "cluster.NominateNodeForPod(" + k + ")"})
		g.feat("nominate")
	}
	return true
}

// step picks one applicable operation.
func (g *hgen) step() {
	h := g.h
	for tries := 0; tries < 20; tries++ {
		r := g.rng.Float64()
		switch {
		case r < 0.14: // node create / delete
			i := g.rng.Intn(h.NNodes)
			if !g.nodes[i].exists {
				g.opNodeCreate(i)
				return
			}
			if g.chance(0.45) {
				g.opNodeDelete(i)
				return
			}
			g.opNodeMutate(i)
			return
		case r < 0.24:
			i := g.rng.Intn(h.NNodes)
			if g.nodes[i].exists {
				g.opNodeMutate(i)
				return
			}
		case r < 0.36: // claim create / delete
			i := g.rng.Intn(h.NClaims)
			if !g.claims[i].exists {
				g.opClaimCreate(i)
				return
			}
			if g.chance(0.35) {
				g.opClaimDelete(i)
				return
			}
			g.opClaimMutate(i)
			return
		case r < 0.50:
			i := g.rng.Intn(h.NClaims)
			if g.claims[i].exists {
				g.opClaimMutate(i)
				return
			}
		case r < 0.68: // pod create / recreate / delete
			j := g.rng.Intn(h.NPods)
			if !g.pods[j].exists {
				g.opPodCreate(j, g.randNodeTarget(), false)
				return
			}
			x := g.rng.Float64()
			switch {
			case g.pods[j].deleting:
				g.opPodDelete(j, false, false)
			case x < 0.4:
				g.opPodRecreate(j)
			case x < 0.7:
				g.opPodDelete(j, false, false)
			default:
				g.opPodMutate(j)
			}
			return
		case r < 0.80:
			j := g.rng.Intn(h.NPods)
			if g.pods[j].exists {
				g.opPodMutate(j)
				return
			}
		case r < 0.84:
			if h.NDS > 0 {
				g.opDS(g.rng.Intn(h.NDS))
				return
			}
		case r < 0.93:
			if g.opMarkish() {
				return
			}
		default:
			d := time.Duration(1+g.rng.Intn(12)) * time.Second
			g.add(op{Kind: opStep, D: d, Desc: fmt.Sprintf("clock += %s", d)})
			return
		}
	}
	g.add(op{Kind: opStep, D: time.Second, Desc: "clock += 1s"})
}

// genHistory generates one history of nOps operations.
func genHistory(rng *rand.Rand) *history {
	h := &history{Unstable: map[string]bool{}, Features: map[string]bool{}}
	h.NNodes = 1 + rng.Intn(maxNodes)
	h.NClaims = 1 + rng.Intn(maxClaims)
	if h.NClaims > h.NNodes {
		h.NClaims = h.NNodes
	}
	h.NPods = 2 + rng.Intn(maxPods-1)
	h.NDS = rng.Intn(maxDS + 1)
	g := &hgen{rng: rng, h: h, marked: map[string]bool{}}
	for j := range g.podVols {
		g.podVols[j] = g.randVols()
	}
	g.static()
	n := 10 + rng.Intn(51)
	for len(h.Ops) < n {
		g.step()
	}
	// marks on provider ids that lost an API object are not determined by the API content (whether the
	// deletion was observed before a re-creation depends on the schedule): the history ends by explicitly
	// unmarking them, as the disruption queue does for a command that did not complete.
	var ks []string
	for k := range g.marked {
		if h.Unstable[k] {
			ks = append(ks, k)
		}
	}
	sortStrings(ks)
	for _, k := range ks {
		g.add(op{Kind: opUnmark, K: k, Desc: "cluster.UnmarkForDeletion(" + k + ") [resolve mark on an id that lost an object]"})
	}
	return h
}
