package c11

import (
	"math/rand"

	corev1 "k8s.io/api/core/v1"
	storagev1 "k8s.io/api/storage/v1"
	metav1 "k8s.io/apimachinery/pkg/apis/meta/v1"
	"sigs.k8s.io/controller-runtime/pkg/client"

	v1 "sigs.k8s.io/karpenter/pkg/apis/v1"

	"verif/gen"
	"verif/world"
)

// Directed minimal histories (scripted schedules). They are ordinary members of the quantifier's domain;
// they exist so that the classes of divergence the random histories find have a short, deterministic
// witness at a fixed case index.
const (
	nDirected          = 1 // case indices reserved for scripted histories
	nDirectedHistories = 5
)

func dNode(pid string) *corev1.Node {
	return &corev1.Node{
		ObjectMeta: metav1.ObjectMeta{Name: "n0", Labels: map[string]string{corev1.LabelHostname: "n0", v1.NodePoolLabelKey: "pool-a",
			corev1.LabelInstanceTypeStable: "it-small", v1.NodeRegisteredLabelKey: "true", v1.NodeInitializedLabelKey: "true"}},
		Spec: corev1.NodeSpec{ProviderID: pid},
		Status: corev1.NodeStatus{Phase: corev1.NodeRunning,
			Capacity:    corev1.ResourceList{corev1.ResourceCPU: q("4"), corev1.ResourceMemory: q("8Gi"), corev1.ResourcePods: q("110")},
			Allocatable: corev1.ResourceList{corev1.ResourceCPU: q("3900m"), corev1.ResourceMemory: q("8Gi"), corev1.ResourcePods: q("110")}},
	}
}

func dClaim(name, pid string) *v1.NodeClaim {
	nc := &v1.NodeClaim{ObjectMeta: metav1.ObjectMeta{Name: name, Finalizers: []string{v1.TerminationFinalizer}, Labels: map[string]string{v1.NodePoolLabelKey: "pool-a",
		corev1.LabelInstanceTypeStable: "it-small", corev1.LabelTopologyZone: "zone-a", v1.CapacityTypeLabelKey: "on-demand"}}}
	nc.Spec.NodeClassRef = gen.NodeClassRef()
	nc.Status.ProviderID = pid
	nc.Status.Capacity = corev1.ResourceList{corev1.ResourceCPU: q("4"), corev1.ResourceMemory: q("8Gi"), corev1.ResourcePods: q("110")}
	nc.Status.Allocatable = corev1.ResourceList{corev1.ResourceCPU: q("3900m"), corev1.ResourceMemory: q("8Gi"), corev1.ResourcePods: q("110")}
	nc.StatusConditions().SetTrue(v1.ConditionTypeLaunched)
	return nc
}

func dPod(node string, opts ...gen.PodOpt) *corev1.Pod {
	p := gen.Pod("p3", 500, 256, opts...)
	p.UID = ""
	if node != "" {
		gen.Bound(node, world.Epoch)(p)
	}
	return p
}

func withPVC(name string) gen.PodOpt {
	return func(p *corev1.Pod) {
		p.Spec.Volumes = append(p.Spec.Volumes, corev1.Volume{Name: "v0", VolumeSource: corev1.VolumeSource{
			PersistentVolumeClaim: &corev1.PersistentVolumeClaimVolumeSource{ClaimName: name}}})
	}
}

func directedHistory(which int) *history {
	h := &history{Unstable: map[string]bool{}, Features: map[string]bool{"directed": true}, Scripted: true, NNodes: 1, NClaims: 1, NPods: 4, NDS: 0}
	g := &hgen{rng: rand.New(rand.NewSource(1)), h: h, marked: map[string]bool{}}
	g.static()
	one := int32(1)
	h.Static = append(h.Static, &storagev1.CSINode{ObjectMeta: metav1.ObjectMeta{Name: "n0"}, Spec: storagev1.CSINodeSpec{Drivers: []storagev1.CSINodeDriver{
		{Name: "csi.a", NodeID: "n0", Allocatable: &storagev1.VolumeNodeResources{Count: &one}}}}})
	// drop a generated CSINode for n0, if any (the explicit one above wins)
	var st []client.Object
	seen := false
	for i := len(h.Static) - 1; i >= 0; i-- {
		if c, ok := h.Static[i].(*storagev1.CSINode); ok && c.Name == "n0" {
			if seen {
				continue
			}
			seen = true
		}
		st = append([]client.Object{h.Static[i]}, st...)
	}
	h.Static = st
	const K = "fake://i-001"
	nodeK, podK, claimK := dkey{"Node", "", "n0"}, dkey{"Pod", "default", "p3"}, dkey{"NodeClaim", "", "nc0-1"}
	add := func(o op, deliver ...dkey) {
		o.Deliver = deliver
		h.Ops = append(h.Ops, o)
	}
	switch which {
	case 0: // NodeClaim update delivered after the Node and its pods
		add(op{Kind: opCreate, ObjKind: "Node", Name: "n0", Obj: dNode(K), Desc: "create Node n0 providerID=" + K + " (registered, initialized)"}, nodeK)
		add(op{Kind: opCreate, ObjKind: "Pod", NS: "default", Name: "p3", Obj: dPod("n0", gen.WithAnnotation(corev1.PodDeletionCost, "100000000")),
			Desc: "create Pod p3 bound to n0, pod-deletion-cost=100000000 (eviction cost 1.745)"}, podK)
		add(op{Kind: opCreate, ObjKind: "NodeClaim", Name: "nc0-1", Obj: dClaim("nc0-1", K), Desc: "create NodeClaim nc0-1 status.providerID=" + K}, claimK)
		h.Features["directed:claim-after-node-and-pods"] = true
	case 1: // Node removed while its NodeClaim remains
		add(op{Kind: opCreate, ObjKind: "NodeClaim", Name: "nc0-1", Obj: dClaim("nc0-1", K), Desc: "create NodeClaim nc0-1 status.providerID=" + K}, claimK)
		add(op{Kind: opCreate, ObjKind: "Node", Name: "n0", Obj: dNode(K), Desc: "create Node n0 providerID=" + K}, nodeK)
		add(op{Kind: opCreate, ObjKind: "Pod", NS: "default", Name: "p3", Obj: dPod("n0"), Desc: "create Pod p3 bound to n0 requests cpu=500m"}, podK)
		add(op{Kind: opDelete, ObjKind: "Node", Name: "n0", Desc: "delete Node n0 (object disappears)"}, nodeK)
		add(op{Kind: opDelete, ObjKind: "Pod", NS: "default", Name: "p3", Desc: "delete Pod p3 (object disappears)"}, podK)
		h.Unstable[K] = true
		h.Features["directed:node-removed-claim-remains"] = true
	case 2: // pod re-created under the same name, still pending; the deletion was not observed in between
		add(op{Kind: opCreate, ObjKind: "Node", Name: "n0", Obj: dNode(K), Desc: "create Node n0 providerID=" + K}, nodeK)
		add(op{Kind: opCreate, ObjKind: "Pod", NS: "default", Name: "p3", Obj: dPod("n0"), Desc: "create Pod p3 bound to n0 requests cpu=500m"}, podK)
		add(op{Kind: opDelete, ObjKind: "Pod", NS: "default", Name: "p3", Desc: "delete Pod p3 (object disappears)"})
		add(op{Kind: opCreate, ObjKind: "Pod", NS: "default", Name: "p3", Obj: dPod(""), Desc: "create Pod p3 again, Pending, not bound"}, podK)
		h.Features["directed:pod-recreated-pending"] = true
	case 3: // pod re-created under the same name on the same node with another volume
		add(op{Kind: opCreate, ObjKind: "Node", Name: "n0", Obj: dNode(K), Desc: "create Node n0 providerID=" + K + " (CSINode limit csi.a=1)"}, nodeK)
		add(op{Kind: opCreate, ObjKind: "Pod", NS: "default", Name: "p3", Obj: dPod("n0", withPVC("pvc-a1")), Desc: "create Pod p3 bound to n0 with PVC pvc-a1"}, podK)
		add(op{Kind: opDelete, ObjKind: "Pod", NS: "default", Name: "p3", Desc: "delete Pod p3 (object disappears)"})
		add(op{Kind: opCreate, ObjKind: "Pod", NS: "default", Name: "p3", Obj: dPod("n0", withPVC("pvc-a2")), Desc: "create Pod p3 again on n0 with PVC pvc-a2"}, podK)
		h.Features["directed:pod-recreated-other-volume"] = true
	case 4: // Node re-created under the same name in a shape UpdateNode ignores; the deletion was not observed.
		// The random generator never produces this shape (a re-created Node always carries provider id and
		// instance-type label there), so the class is keyed by construction instead of by the classifier.
		bare := dNode("")
		bare.Labels = map[string]string{corev1.LabelHostname: "n0"}
		add(op{Kind: opCreate, ObjKind: "Node", Name: "n0", Obj: bare, Desc: "create Node n0 without provider id and without karpenter labels (tracked under its name)"}, nodeK)
		add(op{Kind: opDelete, ObjKind: "Node", Name: "n0", Desc: "delete Node n0 (object disappears)"})
		add(op{Kind: opCreate, ObjKind: "Node", Name: "n0", Obj: dNode(""), Desc: "create Node n0 again: karpenter.sh/nodepool label, spec.providerID still empty"}, nodeK)
		h.Unstable["n0"] = true
		h.ForceKey = "stale-statenode-when-same-name-node-recreated-while-providerid-empty"
		h.Features["directed:node-recreated-ignored-shape"] = true
	}
	return h
}
