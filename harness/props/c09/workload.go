package c09

import (
	"fmt"
	"math/rand"
	"time"

	corev1 "k8s.io/api/core/v1"
	policyv1 "k8s.io/api/policy/v1"
	storagev1 "k8s.io/api/storage/v1"
	metav1 "k8s.io/apimachinery/pkg/apis/meta/v1"
	"k8s.io/apimachinery/pkg/types"
	"k8s.io/apimachinery/pkg/util/intstr"

	"verif/gen"
	"verif/world"
)

// podSpec is the serialisable description of one workload pod (witness / replay).
type podSpec struct {
	Name   string `json:"name"`
	Kind   string `json:"kind"` // drainable tolerating static daemon dnd pdb stuck sticky term-long succeeded
	Grace  *int64 `json:"grace"`
	Volume string `json:"volume,omitempty"` // "" | pvc | ephemeral
	Detach int    `json:"detach"`           // attach-detach ticks after the pod is gone until the attachment is removed; -1 never
	Prio   string `json:"prio,omitempty"`
}

var (
	podKinds = []string{"drainable", "drainable", "drainable", "tolerating", "static", "daemon", "dnd", "pdb", "stuck", "sticky", "term-long", "succeeded"}
	graces   = []int64{1, 5, 30, 30, 120}
	prios    = []string{"", "", "", "system-cluster-critical", "system-node-critical"}
)

// claimPlan: everything PRNG-chosen about one NodeClaim's life in a scenario.
type claimPlan struct {
	Stage    string            `json:"stage"` // created launched node-appeared registered initialized
	Flow     string            `json:"flow"`  // claim | node  (what the user deletes)
	PErr     string            `json:"providerErr"`
	Reg      world.KubeletOpts `json:"register"`
	Pods     []podSpec         `json:"pods"`
	Inline   bool              `json:"inlineAttachment"` // an attachment without a PersistentVolume name
	PDB      bool              `json:"pdb"`
	Vanish   bool              `json:"instanceVanishes"`
	NotReady bool              `json:"kubeletStopsPostingReady"`
	LatePod  bool              `json:"latePod"` // a drainable pod is bound to the node at some point after the deletion started
	// LateAfterDrained: the late pod is bound right after the step in which Drained=True was persisted on the NodeClaim
	// (while the node still waits on volume detachment / instance termination) instead of at a PRNG script position
	LateAfterDrained bool `json:"lateAfterDrained"`
}

func genPlan(rng *rand.Rand, ci int) claimPlan {
	p := claimPlan{PErr: "none"}
	p.Stage = []string{"created", "launched", "launched", "node-appeared", "registered", "registered", "initialized", "initialized", "initialized", "initialized", "initialized", "initialized"}[rng.Intn(12)]
	p.Flow = "claim"
	if (p.Stage == "registered" || p.Stage == "initialized") && rng.Intn(10) < 3 {
		p.Flow = "node"
	}
	if p.Stage == "created" || rng.Intn(12) == 0 {
		p.PErr = []string{"generic1", "generic1", "none"}[rng.Intn(3)]
	}
	p.Reg = world.KubeletOpts{Ready: rng.Intn(4) == 0, NotReadyTaints: rng.Intn(10) < 6, ZeroExtended: false}
	if p.Stage == "registered" || p.Stage == "initialized" {
		n := 2 + rng.Intn(5)
		for i := 0; i < n; i++ {
			ps := podSpec{Name: fmt.Sprintf("c%d-w%d", ci, i), Kind: podKinds[rng.Intn(len(podKinds))]}
			if rng.Intn(8) != 0 {
				g := graces[rng.Intn(len(graces))]
				ps.Grace = &g
			}
			ps.Prio = prios[rng.Intn(len(prios))]
			if rng.Intn(100) < 40 {
				ps.Volume = []string{"pvc", "pvc", "ephemeral"}[rng.Intn(3)]
				ps.Detach = []int{0, 1, 3, 8, -1, -1}[rng.Intn(6)]
			}
			if ps.Kind == "succeeded" && (ps.Volume == "" || ps.Detach >= 0) {
				// a completed pod whose object lingers keeps its claim: the attachment of its volume blocks like any
				// other drainable pod's (no PRNG draw, so the rest of the plan is unchanged; seeded change C09-e)
				ps.Volume = "pvc"
				ps.Detach = -1
			}
			if ps.Kind == "pdb" {
				p.PDB = true
			}
			p.Pods = append(p.Pods, ps)
		}
		// a plan with a completed pod gets a drain that finishes early (no PRNG draw): the pods that would hold the node
		// for minutes become plain drainable ones, so that the node reaches the volume wait while the completed pod's
		// attachment is still there (seeded change C09-e)
		hasSucceeded := false
		for _, ps := range p.Pods {
			hasSucceeded = hasSucceeded || ps.Kind == "succeeded"
		}
		if hasSucceeded {
			p.PDB = false
			for i := range p.Pods {
				switch p.Pods[i].Kind {
				case "term-long", "stuck", "sticky", "dnd", "pdb":
					p.Pods[i].Kind = "drainable"
				}
			}
		}
		p.Inline = rng.Intn(5) == 0
	}
	p.Vanish = rng.Intn(100) < 22
	p.NotReady = rng.Intn(100) < 25
	p.LatePod = (p.Stage == "registered" || p.Stage == "initialized") && rng.Intn(100) < 35
	p.LateAfterDrained = p.LatePod && rng.Intn(2) == 0
	return p
}

func (ps podSpec) pvName() string { return "pv-" + ps.Name }
func (ps podSpec) vaName() string { return "va-" + ps.Name }
func (ps podSpec) pvcName() string {
	if ps.Volume == "ephemeral" {
		return ps.Name + "-data" // generic ephemeral volume naming: <pod>-<volume>
	}
	return "pvc-" + ps.Name
}

// buildPod materialises the running pod (terminating / terminal states are produced afterwards by actors).
func buildPod(ps podSpec, nodeName string, now time.Time) *corev1.Pod {
	p := gen.Pod(ps.Name, 10, 16)
	p.UID = types.UID("pod-" + ps.Name)
	p.Spec.NodeName = nodeName
	p.Spec.TerminationGracePeriodSeconds = ps.Grace
	p.Spec.PriorityClassName = ps.Prio
	switch ps.Kind {
	case "static":
		gen.WithOwner("Node", nodeName)(p)
	case "daemon":
		gen.WithOwner("DaemonSet", "ds-"+ps.Name)(p)
	case "tolerating":
		tol := []corev1.Toleration{
			{Key: disruptedTaintKey, Operator: corev1.TolerationOpExists},
			{Operator: corev1.TolerationOpExists},
			{Key: disruptedTaintKey, Operator: corev1.TolerationOpExists, Effect: corev1.TaintEffectNoSchedule},
			{Key: disruptedTaintKey, Operator: corev1.TolerationOpEqual},
		}[len(ps.Name)%4]
		p.Spec.Tolerations = append(p.Spec.Tolerations, tol)
		gen.WithOwner("DaemonSet", "ds-"+ps.Name)(p)
	case "dnd":
		gen.WithAnnotation(doNotDisruptKey, "true")(p)
		gen.WithOwner("ReplicaSet", "rs-"+ps.Name)(p)
	case "pdb":
		p.Labels["app"] = "guarded"
		gen.WithOwner("ReplicaSet", "rs-"+ps.Name)(p)
	default:
		gen.WithOwner("ReplicaSet", "rs-"+ps.Name)(p)
		// a toleration that does NOT match the disrupted taint (other key / NoExecute only)
		if len(ps.Name)%3 == 0 {
			p.Spec.Tolerations = append(p.Spec.Tolerations, corev1.Toleration{Key: disruptedTaintKey, Operator: corev1.TolerationOpExists, Effect: corev1.TaintEffectNoExecute})
		}
	}
	switch ps.Volume {
	case "pvc":
		p.Spec.Volumes = append(p.Spec.Volumes, corev1.Volume{Name: "data", VolumeSource: corev1.VolumeSource{PersistentVolumeClaim: &corev1.PersistentVolumeClaimVolumeSource{ClaimName: ps.pvcName()}}})
	case "ephemeral":
		p.Spec.Volumes = append(p.Spec.Volumes, corev1.Volume{Name: "data", VolumeSource: corev1.VolumeSource{Ephemeral: &corev1.EphemeralVolumeSource{VolumeClaimTemplate: &corev1.PersistentVolumeClaimTemplate{}}}})
	}
	p.Status.Phase = corev1.PodRunning
	st := metav1.NewTime(now.Add(-30 * time.Second))
	p.Status.StartTime = &st
	p.Status.Conditions = []corev1.PodCondition{
		{Type: corev1.PodScheduled, Status: corev1.ConditionTrue},
		{Type: corev1.PodReady, Status: corev1.ConditionTrue},
	}
	return p
}

func buildVolumeObjects(ps podSpec, nodeName string) (*corev1.PersistentVolume, *corev1.PersistentVolumeClaim, *storagev1.VolumeAttachment) {
	pvName := ps.pvName()
	pv := &corev1.PersistentVolume{ObjectMeta: metav1.ObjectMeta{Name: pvName},
		Spec: corev1.PersistentVolumeSpec{Capacity: corev1.ResourceList{corev1.ResourceStorage: gen.Q("1Gi")}, AccessModes: []corev1.PersistentVolumeAccessMode{corev1.ReadWriteOnce},
			PersistentVolumeSource: corev1.PersistentVolumeSource{CSI: &corev1.CSIPersistentVolumeSource{Driver: "csi.verif.io", VolumeHandle: "vol-" + ps.Name}}},
		Status: corev1.PersistentVolumeStatus{Phase: corev1.VolumeBound}}
	pvc := &corev1.PersistentVolumeClaim{ObjectMeta: metav1.ObjectMeta{Name: ps.pvcName(), Namespace: "default"},
		Spec:   corev1.PersistentVolumeClaimSpec{VolumeName: pvName, AccessModes: []corev1.PersistentVolumeAccessMode{corev1.ReadWriteOnce}},
		Status: corev1.PersistentVolumeClaimStatus{Phase: corev1.ClaimBound}}
	va := &storagev1.VolumeAttachment{ObjectMeta: metav1.ObjectMeta{Name: ps.vaName()},
		Spec:   storagev1.VolumeAttachmentSpec{Attacher: "csi.verif.io", NodeName: nodeName, Source: storagev1.VolumeAttachmentSource{PersistentVolumeName: &pvName}},
		Status: storagev1.VolumeAttachmentStatus{Attached: true}}
	return pv, pvc, va
}

func inlineAttachment(ci int, nodeName string) *storagev1.VolumeAttachment {
	return &storagev1.VolumeAttachment{ObjectMeta: metav1.ObjectMeta{Name: fmt.Sprintf("va-inline-c%d", ci)},
		Spec: storagev1.VolumeAttachmentSpec{Attacher: "csi.verif.io", NodeName: nodeName, Source: storagev1.VolumeAttachmentSource{
			InlineVolumeSpec: &corev1.PersistentVolumeSpec{PersistentVolumeSource: corev1.PersistentVolumeSource{CSI: &corev1.CSIPersistentVolumeSource{Driver: "csi.verif.io", VolumeHandle: "inline"}}}}},
		Status: storagev1.VolumeAttachmentStatus{Attached: true}}
}

func guardPDB() *policyv1.PodDisruptionBudget {
	zero := intstr.FromInt32(0)
	return &policyv1.PodDisruptionBudget{ObjectMeta: metav1.ObjectMeta{Name: "pdb-guarded", Namespace: "default"},
		Spec: policyv1.PodDisruptionBudgetSpec{Selector: &metav1.LabelSelector{MatchLabels: map[string]string{"app": "guarded"}}, MaxUnavailable: &zero}}
}

// ---- script ----

type step struct {
	Op    string // L N Q K A T D W V U
	C     int
	Stale int
	Act   string
	Dur   time.Duration
	Pick  int
}

func (s step) String() string {
	switch s.Op {
	case "L", "N":
		return fmt.Sprintf("%s%d~%d", s.Op, s.C, s.Stale)
	case "K", "D", "U":
		return fmt.Sprintf("%s%d:%s", s.Op, s.C, s.Act)
	case "T":
		if s.Act != "" {
			return fmt.Sprintf("T%d:%s", s.C, s.Act)
		}
		return "T+" + s.Dur.String()
	case "Q":
		return fmt.Sprintf("Q#%d", s.Pick)
	}
	return fmt.Sprintf("%s%d", s.Op, s.C)
}

func staleness(rng *rand.Rand) int {
	if rng.Intn(100) < 30 {
		return 1 + rng.Intn(3)
	}
	return 0
}

var clockSteps = []time.Duration{time.Second, 2 * time.Second, 5 * time.Second, 5 * time.Second, 6 * time.Second, 10 * time.Second, 31 * time.Second, 61 * time.Second}

// genScript: one lane per claim (bring-up to its stage, workload, deletion, PRNG-ordered termination steps),
// lanes interleaved by PRNG.
func genScript(rng *rand.Rand, plans []claimPlan) []step {
	lanes := make([][]step, len(plans))
	for c, p := range plans {
		var l []step
		L := func() { l = append(l, step{Op: "L", C: c, Stale: staleness(rng)}) }
		noise := func() {
			switch rng.Intn(8) {
			case 0:
				l = append(l, step{Op: "T", Dur: clockSteps[rng.Intn(len(clockSteps))]})
			case 1:
				L()
			}
		}
		K := func(act string) { l = append(l, step{Op: "K", C: c, Act: act}) }
		switch p.Stage {
		case "created":
			if p.PErr != "none" || rng.Intn(2) == 0 {
				l = append(l, step{Op: "L", C: c})
			}
		case "launched":
			l = append(l, step{Op: "L", C: c})
			noise()
		case "node-appeared":
			l = append(l, step{Op: "L", C: c})
			noise()
			K("register")
		case "registered":
			l = append(l, step{Op: "L", C: c})
			noise()
			K("register")
			noise()
			l = append(l, step{Op: "L", C: c})
		default:
			l = append(l, step{Op: "L", C: c})
			noise()
			K("register")
			noise()
			l = append(l, step{Op: "L", C: c})
			noise()
			K("ready")
			l = append(l, step{Op: "L", C: c})
			noise()
		}
		l = append(l, step{Op: "W", C: c})
		if rng.Intn(3) == 0 {
			l = append(l, step{Op: "T", Dur: clockSteps[rng.Intn(len(clockSteps))]})
		}
		l = append(l, step{Op: "D", C: c, Act: p.Flow})
		n := 22 + rng.Intn(30)
		for i := 0; i < n; i++ {
			switch x := rng.Intn(1000); {
			case x < 300:
				l = append(l, step{Op: "N", C: c, Stale: staleness(rng), Pick: rng.Intn(1 << 16)})
			case x < 440:
				L()
			case x < 690:
				l = append(l, step{Op: "Q", Pick: rng.Intn(1 << 16)})
			case x < 760:
				K("reap")
			case x < 830:
				l = append(l, step{Op: "A"})
			case x < 900:
				l = append(l, step{Op: "T", Dur: clockSteps[rng.Intn(len(clockSteps))]})
			case x < 925:
				l = append(l, step{Op: "T", C: c, Act: []string{"deadline", "deadline+1s", "deadline-1s"}[rng.Intn(3)]})
			case x < 950:
				K("heartbeat")
			case x < 975:
				l = append(l, step{Op: "U", C: c, Act: []string{"dnd", "pdb"}[rng.Intn(2)]})
			case x < 988:
				K("register")
			default:
				K("ready")
			}
		}
		// plan-level rare events at a PRNG position after the deletion: the instance vanishes by itself (spot
		// interruption), the kubelet stops posting Ready
		insert := func(st step) {
			at := len(l) - rng.Intn(n+1)
			l = append(l[:at], append([]step{st}, l[at:]...)...)
		}
		if p.Vanish {
			insert(step{Op: "V", C: c})
		}
		if p.NotReady {
			insert(step{Op: "K", C: c, Act: "notready"})
		}
		if p.LatePod && !p.LateAfterDrained {
			// a pod bound straight to the node (spec.nodeName set by its creator / a stale scheduler binding) while the node is
			// already terminating - possibly after the drain had completed once and the node waits on volumes or the instance
			insert(step{Op: "P", C: c})
		}
		lanes[c] = l
	}
	var out []step
	for {
		var live []int
		for i, l := range lanes {
			if len(l) > 0 {
				live = append(live, i)
			}
		}
		if len(live) == 0 {
			return out
		}
		i := live[rng.Intn(len(live))]
		out = append(out, lanes[i][0])
		lanes[i] = lanes[i][1:]
	}
}
