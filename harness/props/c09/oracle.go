package c09

// Independent statement of the C09 preconditions. Nothing here calls into the termination / lifecycle controllers
// or sigs.k8s.io/karpenter/pkg/utils/{pod,node,nodeclaim}: pod classes, blocking volume attachments and "instance
// gone" are derived from the property statement, Kubernetes API conventions (toleration matching, ownerReferences,
// deletionTimestamp = the instant the grace period ends) and the provider's ground-truth instance table.

import (
	"context"
	"fmt"
	"sort"
	"time"

	corev1 "k8s.io/api/core/v1"
	storagev1 "k8s.io/api/storage/v1"
	"k8s.io/apimachinery/pkg/types"
	"sigs.k8s.io/controller-runtime/pkg/client"

	v1 "sigs.k8s.io/karpenter/pkg/apis/v1"

	"verif/world"
)

const (
	terminationFinalizer = "karpenter.sh/termination"
	disruptedTaintKey    = "karpenter.sh/disrupted"
	terminationTSKey     = "karpenter.sh/nodeclaim-termination-timestamp"
	doNotDisruptKey      = "karpenter.sh/do-not-disrupt"
	stuckTerminatingSlop = time.Minute
)

var bg = context.Background()

func hasFinalizer(o client.Object) bool {
	if o == nil {
		return false
	}
	for _, f := range o.GetFinalizers() {
		if f == terminationFinalizer {
			return true
		}
	}
	return false
}

// toleratesDisrupted: does the pod tolerate the taint {karpenter.sh/disrupted, value "", NoSchedule}?
func toleratesDisrupted(p *corev1.Pod) bool {
	for _, t := range p.Spec.Tolerations {
		if t.Effect != "" && t.Effect != corev1.TaintEffectNoSchedule {
			continue
		}
		if t.Key != "" && t.Key != disruptedTaintKey {
			continue
		}
		switch t.Operator {
		case corev1.TolerationOpExists:
			return true
		case "", corev1.TolerationOpEqual:
			if t.Value == "" {
				return true
			}
		}
	}
	return false
}

func isStatic(p *corev1.Pod) bool {
	for _, o := range p.OwnerReferences {
		if o.APIVersion == "v1" && o.Kind == "Node" {
			return true
		}
	}
	return false
}

func isTerminal(p *corev1.Pod) bool {
	return p.Status.Phase == corev1.PodSucceeded || p.Status.Phase == corev1.PodFailed
}

// stuckTerminating: more than one minute past the instant its grace period ended.
func stuckTerminating(p *corev1.Pod, now time.Time) bool {
	return p.DeletionTimestamp != nil && now.Sub(p.DeletionTimestamp.Time) > stuckTerminatingSlop
}

// drainable: a pod Karpenter can drain (statement: does not tolerate the disrupted taint, is not a static pod,
// is not stuck terminating).
func drainable(p *corev1.Pod, now time.Time) bool {
	return !toleratesDisrupted(p) && !isStatic(p) && !stuckTerminating(p, now)
}

// drainBlocker: a pod whose presence forbids removing the node's finalizer on the full path.
func drainBlocker(p *corev1.Pod, now time.Time) bool {
	return !isTerminal(p) && drainable(p, now)
}

func nodeReady(n *corev1.Node) bool {
	for _, c := range n.Status.Conditions {
		if c.Type == corev1.NodeReady {
			return c.Status == corev1.ConditionTrue
		}
	}
	return false
}

func hasDisruptedTaint(n *corev1.Node) bool {
	for _, t := range n.Spec.Taints {
		if t.Key == disruptedTaintKey && t.Effect == corev1.TaintEffectNoSchedule {
			return true
		}
	}
	return false
}

func podsOn(raw client.Client, node string) []*corev1.Pod {
	l := &corev1.PodList{}
	_ = raw.List(bg, l, client.MatchingFields{"spec.nodeName": node})
	var out []*corev1.Pod
	for i := range l.Items {
		if l.Items[i].Spec.NodeName == node {
			out = append(out, &l.Items[i])
		}
	}
	sort.Slice(out, func(i, j int) bool { return out[i].Name < out[j].Name })
	return out
}

// pvsOf: names of the PersistentVolumes the pod's volumes are bound to (through PVCs incl. generic ephemeral ones).
func pvsOf(raw client.Client, p *corev1.Pod) []string {
	var out []string
	for _, vol := range p.Spec.Volumes {
		name := ""
		switch {
		case vol.PersistentVolumeClaim != nil:
			name = vol.PersistentVolumeClaim.ClaimName
		case vol.Ephemeral != nil:
			name = p.Name + "-" + vol.Name
		default:
			continue
		}
		pvc := &corev1.PersistentVolumeClaim{}
		if raw.Get(bg, types.NamespacedName{Namespace: p.Namespace, Name: name}, pvc) != nil {
			continue
		}
		if pvc.Spec.VolumeName != "" {
			out = append(out, pvc.Spec.VolumeName)
		}
	}
	return out
}

// vaView classifies the VolumeAttachments of a node. Blocking (statement + doc comment of awaitVolumeDetachment):
// every attachment of a PersistentVolume to this node, except those whose volume belongs to a pod on the node that
// Karpenter cannot drain (its attachment will legitimately never go away while the node lives). Attachments
// without a PersistentVolume name (inline volumes) have nothing to migrate and never block.
type vaView struct {
	Blocking   []string
	NonDrainPV []string // attachments exempt because a non-drainable pod uses the volume
	Inline     []string
}

func volumeAttachments(raw client.Client, node string, pods []*corev1.Pod, now time.Time) vaView {
	l := &storagev1.VolumeAttachmentList{}
	_ = raw.List(bg, l, client.MatchingFields{"spec.nodeName": node})
	exempt := map[string]bool{}
	for _, p := range pods {
		if drainable(p, now) {
			continue
		}
		for _, pv := range pvsOf(raw, p) {
			exempt[pv] = true
		}
	}
	var v vaView
	for i := range l.Items {
		va := &l.Items[i]
		if va.Spec.NodeName != node {
			continue
		}
		switch pv := va.Spec.Source.PersistentVolumeName; {
		case pv == nil:
			v.Inline = append(v.Inline, va.Name)
		case exempt[*pv]:
			v.NonDrainPV = append(v.NonDrainPV, va.Name)
		default:
			v.Blocking = append(v.Blocking, va.Name)
		}
	}
	sort.Strings(v.Blocking)
	return v
}

// tgpExpired: the NodeClaim's termination grace period has expired at `now` (deadline = the termination-timestamp
// annotation; lenient union with deletionTimestamp + spec.terminationGracePeriod so that the oracle never depends
// on who wrote the annotation).
func tgpExpired(nc *v1.NodeClaim, now time.Time) bool {
	if nc == nil {
		return false
	}
	if s, ok := nc.Annotations[terminationTSKey]; ok {
		if t, err := time.Parse(time.RFC3339, s); err == nil && now.After(t) {
			return true
		}
	}
	if nc.Spec.TerminationGracePeriod != nil && nc.DeletionTimestamp != nil {
		if now.After(nc.DeletionTimestamp.Time.Add(nc.Spec.TerminationGracePeriod.Duration)) {
			return true
		}
	}
	return false
}

func claimsWithProviderID(raw client.Client, id string) []*v1.NodeClaim {
	if id == "" {
		return nil
	}
	l := &v1.NodeClaimList{}
	_ = raw.List(bg, l)
	var out []*v1.NodeClaim
	for i := range l.Items {
		if l.Items[i].Status.ProviderID == id {
			out = append(out, &l.Items[i])
		}
	}
	return out
}

func nodesWithProviderID(raw client.Client, id string) []*corev1.Node {
	if id == "" {
		return nil
	}
	l := &corev1.NodeList{}
	_ = raw.List(bg, l)
	var out []*corev1.Node
	for i := range l.Items {
		if l.Items[i].Spec.ProviderID == id {
			out = append(out, &l.Items[i])
		}
	}
	return out
}

func instanceLive(p *world.Provider, id string) bool {
	in := p.Instance(id)
	return in != nil && in.State != "gone"
}

// nodeVerdict is the oracle's view of a Node at one instant.
type nodeVerdict struct {
	Ready        bool
	Tainted      bool
	InstanceLive bool
	InstanceSt   string
	Blockers     []string // drain blockers bound to the node
	VA           vaView
	TGPExpired   bool
	// what else was bound (evidence of the non-trivial classes the full path had to see through)
	Tolerating, Static, Stuck, Terminal int
}

func judgeNodeAt(e *world.Env, n *corev1.Node, nc *v1.NodeClaim, now time.Time) nodeVerdict {
	v := nodeVerdict{Ready: nodeReady(n), Tainted: hasDisruptedTaint(n), InstanceLive: instanceLive(e.Provider, n.Spec.ProviderID), TGPExpired: tgpExpired(nc, now)}
	if in := e.Provider.Instance(n.Spec.ProviderID); in != nil {
		v.InstanceSt = in.State
	} else {
		v.InstanceSt = "unknown-to-provider"
	}
	pods := podsOn(e.API.Raw, n.Name)
	for _, p := range pods {
		switch {
		case drainBlocker(p, now):
			v.Blockers = append(v.Blockers, podBrief(p, now))
		case isTerminal(p):
			v.Terminal++
		case toleratesDisrupted(p):
			v.Tolerating++
		case isStatic(p):
			v.Static++
		case stuckTerminating(p, now):
			v.Stuck++
		}
	}
	v.VA = volumeAttachments(e.API.Raw, n.Name, pods, now)
	return v
}

// shortcutOK: "at once when the node is not ready and the provider already reports the instance gone".
func (v nodeVerdict) shortcutOK() bool { return !v.Ready && !v.InstanceLive }

// failed lists the full-path preconditions that are false.
func (v nodeVerdict) failed() []string {
	var out []string
	if v.InstanceLive {
		out = append(out, "instance-live")
	}
	if !v.Tainted {
		out = append(out, "not-cordoned")
	}
	if len(v.Blockers) > 0 {
		out = append(out, "drainable-pods-present")
	}
	if len(v.VA.Blocking) > 0 && !v.TGPExpired {
		out = append(out, "blocking-volume-attachments")
	}
	return out
}

func podBrief(p *corev1.Pod, now time.Time) string {
	s := fmt.Sprintf("%s phase=%s", p.Name, p.Status.Phase)
	if p.DeletionTimestamp != nil {
		s += fmt.Sprintf(" terminating(deletionTimestamp=%s, now-dt=%s)", p.DeletionTimestamp.Time.Sub(world.Epoch), now.Sub(p.DeletionTimestamp.Time))
	}
	if v, ok := p.Annotations[doNotDisruptKey]; ok {
		s += " dnd=" + v
	}
	for _, o := range p.OwnerReferences {
		s += " owner=" + o.Kind
	}
	return s
}
