// Package c09: Nodes and instances are finalized in order and never leaked.
//
// One case = one generated scenario: a world (catalog, NodePool with / without terminationGracePeriod, hostile
// provider with synchronous or asynchronous instance termination) in which 1-2 NodeClaims are created through the
// real Provisioner.Schedule/Create, plus a PRNG-generated script. Per claim the script brings the claim to a stage
// {created, launched, node appeared, registered, initialized} with the real nodeclaim lifecycle controller and the
// emulated kubelet, binds a workload (drainable / tolerating / static / daemon / do-not-disrupt / PDB-guarded /
// stuck-terminating / long-terminating / terminal pods, PVC and generic-ephemeral volumes with VolumeAttachments,
// an inline attachment), deletes the NodeClaim or the Node and then interleaves {lifecycle reconcile, node
// termination reconcile, eviction queue reconcile, kubelet reap / register / ready / not-ready, attach-detach
// controller tick, clock step (incl. onto the termination deadline), instance vanishes, user unblocks a
// do-not-disrupt pod / PDB} in PRNG order; reconciles are handed the stored object or a monotonically stale older
// version. The scenario is executed
//
//	once fault-free (the K calls Karpenter makes to the API and the provider are enumerated),
//	once per (error kind, call k): the k-th call fails (500 / 409 / 404 / timeout),
//	once per crash point k: CrashSentinel at call k, recovered at the reconcile boundary, Env.Restart() (every
//	  in-memory component incl. the launch cache and the eviction queue is thrown away and rebuilt),
//	once per call class with a permanent (sticky) error for the whole scripted window,
//
// each followed by bounded fault-free closing rounds (blockers removed, volumes detached, all controllers
// reconciled round-robin) until both objects are gone. Bounded progress is a diagnostic, not the property.
//
// The monitor is synchronous (API.PostWrite): every write by Karpenter that removes karpenter.sh/termination from a
// Node or NodeClaim is judged at that instant on the authoritative store, the provider's ground-truth instance
// table and the virtual clock (see oracle.go).
package c09

import (
	"errors"
	"fmt"
	"math/rand"
	"reflect"
	"sort"
	"strings"
	"time"
	"unsafe"

	corev1 "k8s.io/api/core/v1"
	policyv1 "k8s.io/api/policy/v1"
	storagev1 "k8s.io/api/storage/v1"
	metav1 "k8s.io/apimachinery/pkg/apis/meta/v1"
	"k8s.io/apimachinery/pkg/types"
	"sigs.k8s.io/controller-runtime/pkg/client"
	"sigs.k8s.io/controller-runtime/pkg/event"

	v1 "sigs.k8s.io/karpenter/pkg/apis/v1"
	"sigs.k8s.io/karpenter/pkg/controllers/node/termination"
	"sigs.k8s.io/karpenter/pkg/controllers/node/termination/terminator"

	"verif/gen"
	"verif/mon"
	"verif/props/common"
	"verif/props/reg"
	"verif/world"
)

const closingRounds = 45

func cases(tier string) int {
	if tier == "thorough" {
		return 320
	}
	return 48
}

// ---- scenario ----

type scen struct {
	Idx        int
	WorldSeed  int64
	ScriptSeed int64
	Expect     []string
}

type faultSpec struct {
	Kind    string // 500 409 404 timeout crash
	K       int
	Targets bool   // index over target calls only (everything except API get/list)
	Target  string // descriptor of call k in the fault-free run
	Sticky  bool   // permanent: every call of class Target fails during the scripted window
}

func (f *faultSpec) String() string {
	switch {
	case f == nil:
		return "none"
	case f.Sticky:
		return fmt.Sprintf("sticky-%s(%s)", f.Kind, f.Target)
	}
	return fmt.Sprintf("%s@%d(%s)", f.Kind, f.K, f.Target)
}

type claimSt struct {
	idx      int
	name     string
	uid      types.UID
	plan     claimPlan
	nodes    map[string]bool // names of Node objects the kubelet created for instances of this claim
	workload bool
	lateDone bool
}

type hist struct {
	versions []client.Object // nil interface = gone
	floor    int
}

type exec struct {
	r      *mon.Report
	sc     scen
	fault  *faultSpec
	wf     *world.Fault
	e      *world.Env
	s      *common.Scenario
	tgp    time.Duration
	async  int
	claims []*claimSt
	byUID  map[types.UID]*claimSt

	q    *terminator.Queue
	term *terminator.Terminator
	ctrl *termination.Controller
	src  reflect.Value
	work []types.NamespacedName

	hist           map[string]*hist
	everRegistered map[types.UID]bool
	createEpoch    map[string]int
	registeredInst map[string]bool
	epoch          int
	stuck          map[string]bool
	vaDetach       map[string]int
	vaPV           map[string]string
	forceDetach    bool
	createCalls    map[string]int
	goneAt         map[string]time.Time

	calls         []string
	callsClosing  []bool // per fault-free call: made in the closing phase
	trace         []string
	sig           map[string]bool
	desc          map[string]any
	curStep       string
	nodeSnap      *corev1.Node // the object handed to the node termination reconcile in flight
	nodeSnapStale bool
	flagged       map[types.UID]bool
	violated      bool
	closing       bool
	restarts      int
}

func (x *exec) tr(format string, a ...any) {
	if len(x.trace) < 600 {
		x.trace = append(x.trace, fmt.Sprintf("%s %s: ", x.e.Clock.Now().Sub(world.Epoch), x.curStep)+fmt.Sprintf(format, a...))
	}
}

func (x *exec) eventTail(n int) []string {
	log := x.e.API.Log()
	if len(log) > n {
		log = log[len(log)-n:]
	}
	var out []string
	for _, ev := range log {
		inj := ""
		if ev.Injected {
			inj = " INJECTED"
		}
		by := ev.Caller
		if by == "" {
			by = "(harness actor)"
		}
		out = append(out, fmt.Sprintf("#%d t=%s %s %s %s by %s err=%q%s", ev.Seq, ev.VTime.Sub(world.Epoch), ev.Verb, ev.Kind, ev.Key, by, short(ev.Err, 80), inj))
	}
	return out
}

func (x *exec) providerTail(n int) []string {
	calls := x.e.Provider.CallsCopy()
	if len(calls) > n {
		calls = calls[len(calls)-n:]
	}
	var out []string
	for _, c := range calls {
		out = append(out, fmt.Sprintf("#%d t=%s %s claim=%s id=%s by %s err=%q", c.Seq, c.VTime.Sub(world.Epoch), c.Verb, c.ClaimName, c.ProviderID, c.Caller, short(c.Err, 80)))
	}
	return out
}

func short(s string, n int) string {
	if len(s) > n {
		return s[:n]
	}
	return s
}

func (x *exec) violate(key, what string, detail any) {
	x.violated = true
	x.r.Violate(key, what, x.desc, map[string]any{"fault": x.fault.String(), "step": x.curStep, "now": x.e.Clock.Now().Sub(world.Epoch).String(), "detail": detail,
		"trace": append([]string(nil), x.trace...), "api_events": x.eventTail(45), "provider_calls": x.providerTail(15), "restarts": x.restarts})
}

// ---- world ----

func tolerateAll() gen.PodOpt {
	return gen.WithToleration(corev1.Toleration{Operator: corev1.TolerationOpExists})
}

// build creates the world and the NodeClaims through the real pipeline; deterministic in sc.WorldSeed (up to Go map
// iteration inside the scheduler).
func build(sc scen) (*common.Scenario, []string, time.Duration, int) {
	rng := rand.New(rand.NewSource(sc.WorldSeed))
	cfg := common.DefaultScenarioCfg()
	cfg.MinPools, cfg.MaxPools, cfg.MaxDaemons, cfg.Unmanaged = 1, 1, 0, false
	cfg.Pool.PTaint, cfg.Pool.PRequirement, cfg.Pool.PCustomLabel = 0.2, 0.3, 0
	cfg.Catalog.PUnavailable = 0
	cfg.Catalog.GPU = false
	s := common.Build(rng, cfg)
	e := s.Env
	e.Provider.Policy = []string{"cheapest", "random", "dearest"}[rng.Intn(3)]
	tgp := []time.Duration{0, 0, 0, 0, 20 * time.Second, 45 * time.Second, 2 * time.Minute, 10 * time.Minute}[rng.Intn(8)]
	if tgp > 0 {
		s.Pools[0].Spec.Template.Spec.TerminationGracePeriod = &metav1.Duration{Duration: tgp}
		e.Apply(s.Pools[0])
	}
	async := []int{0, 0, 1, 2, 3}[rng.Intn(5)]
	e.Provider.AsyncDeletes = async
	n := 1
	if rng.Intn(3) == 0 {
		n = 2
	}
	var seeds []*corev1.Pod
	for i := 0; i < n; i++ {
		p := gen.Pod(fmt.Sprintf("seed-%d", i), 100, 64, gen.WithHostPort(8000, corev1.ProtocolTCP, ""), tolerateAll())
		e.Apply(p)
		seeds = append(seeds, p)
	}
	if err := e.SyncState(); err != nil {
		return s, nil, tgp, async
	}
	res, err := e.Prov.Schedule(e.Ctx)
	if err != nil {
		return s, nil, tgp, async
	}
	var names []string
	for _, nc := range res.NewNodeClaims {
		name, err := e.Prov.Create(e.Ctx, nc)
		if err == nil {
			names = append(names, name)
		}
	}
	for _, p := range seeds { // the seed pods only exist to make the provisioner create the claims
		_ = e.API.Raw.Delete(bg, p)
	}
	sort.Strings(names)
	return s, names, tgp, async
}

// ---- store helpers ----

func (x *exec) claim(name string) *v1.NodeClaim {
	nc := &v1.NodeClaim{}
	if x.e.API.Raw.Get(bg, types.NamespacedName{Name: name}, nc) != nil {
		return nil
	}
	return nc
}

func (x *exec) node(name string) *corev1.Node {
	n := &corev1.Node{}
	if x.e.API.Raw.Get(bg, types.NamespacedName{Name: name}, n) != nil {
		return nil
	}
	return n
}

func (x *exec) nodeNames(cs *claimSt) []string {
	out := make([]string, 0, len(cs.nodes))
	for n := range cs.nodes {
		out = append(out, n)
	}
	sort.Strings(out)
	return out
}

// ---- versions (what a lagging informer cache may still serve) ----

func (x *exec) addVersion(kind, name string, obj client.Object) {
	k := kind + "/" + name
	h := x.hist[k]
	if h == nil {
		h = &hist{}
		x.hist[k] = h
	}
	isNil := obj == nil || reflect.ValueOf(obj).IsNil()
	if n := len(h.versions); n > 0 {
		last := h.versions[n-1]
		if last == nil && isNil {
			return
		}
		if last != nil && !isNil && last.GetResourceVersion() == obj.GetResourceVersion() && last.GetUID() == obj.GetUID() {
			return
		}
	} else if isNil {
		return
	}
	if isNil {
		h.versions = append(h.versions, nil)
		return
	}
	h.versions = append(h.versions, obj.DeepCopyObject().(client.Object))
}

func (x *exec) snapshotAll() {
	for _, cs := range x.claims {
		if nc := x.claim(cs.name); nc != nil {
			x.addVersion("NodeClaim", cs.name, nc)
		} else {
			x.addVersion("NodeClaim", cs.name, nil)
		}
		for n := range cs.nodes {
			if nd := x.node(n); nd != nil {
				x.addVersion("Node", n, nd)
			} else {
				x.addVersion("Node", n, nil)
			}
		}
	}
}

func (x *exec) view(kind, name string, stale int) (client.Object, bool) {
	h := x.hist[kind+"/"+name]
	if h == nil || len(h.versions) == 0 {
		return nil, false
	}
	latest := len(h.versions) - 1
	idx := latest - stale
	if idx < h.floor {
		idx = h.floor
	}
	h.floor = idx
	return h.versions[idx], idx != latest
}

// ---- controllers ----

func sourceChan(q *terminator.Queue) reflect.Value {
	f := reflect.ValueOf(q).Elem().FieldByName("source")
	return reflect.NewAt(f.Type(), unsafe.Pointer(f.UnsafeAddr())).Elem()
}

func (x *exec) buildControllers() {
	e := x.e
	x.q = terminator.NewQueue(e.Clock, e.API.Client, e.Recorder)
	x.term = terminator.NewTerminator(e.Clock, e.API.Client, x.q, e.Recorder)
	x.ctrl = termination.NewController(e.Clock, e.API.Client, e.Provider, x.term, e.Recorder)
	x.src = sourceChan(x.q)
	x.work = nil
}

func (x *exec) restart() {
	x.e.Restart() // runs OnRestart -> buildControllers
	x.epoch++
	x.restarts++
	for _, h := range x.hist { // a restarted controller lists before it reconciles
		h.floor = len(h.versions) - 1
	}
	x.r.Inc("restarts")
	x.sig["restart"] = true
	x.tr("CRASH -> controller restart (all in-memory state lost)")
}

// guard runs one reconcile; a crash point ends it and restarts the controllers.
func (x *exec) guard(what string, f func()) (crashed bool) {
	panicked, val, stack := mon.Guard(f)
	if !panicked {
		return false
	}
	if _, ok := val.(world.CrashSentinel); ok {
		x.restart()
		return true
	}
	x.violate("panic-in-"+what, fmt.Sprintf("%s panicked: %v", what, val), stack)
	return false
}

func (x *exec) pump() {
	for {
		v, ok := x.src.TryRecv()
		if !ok {
			return
		}
		ev := v.Interface().(event.TypedGenericEvent[*corev1.Pod])
		x.addWork(client.ObjectKeyFromObject(ev.Object))
	}
}

func (x *exec) addWork(key types.NamespacedName) {
	for _, k := range x.work {
		if k == key {
			return
		}
	}
	x.work = append(x.work, key)
}

// ---- the synchronous monitor ----

func condTrue(nc *v1.NodeClaim, t string) bool {
	for _, c := range nc.Status.Conditions {
		if c.Type == t {
			return c.Status == metav1.ConditionTrue
		}
	}
	return false
}

func (x *exec) onWrite(ev *world.Event) {
	switch ev.Kind {
	case "NodeClaim":
		before, _ := ev.Before.(*v1.NodeClaim)
		after, _ := ev.After.(*v1.NodeClaim)
		if after != nil {
			if condTrue(after, v1.ConditionTypeRegistered) {
				x.everRegistered[after.UID] = true
			}
			x.addVersion("NodeClaim", after.Name, after)
		} else if before != nil {
			x.addVersion("NodeClaim", before.Name, nil)
		}
		if ev.Caller != "" && before != nil && hasFinalizer(before) && (after == nil || !hasFinalizer(after)) {
			x.judgeClaim(ev, before)
		}
	case "Node":
		before, _ := ev.Before.(*corev1.Node)
		after, _ := ev.After.(*corev1.Node)
		if after != nil {
			x.addVersion("Node", after.Name, after)
		} else if before != nil {
			x.addVersion("Node", before.Name, nil)
		}
		if ev.Caller != "" && before != nil && hasFinalizer(before) && (after == nil || !hasFinalizer(after)) {
			x.judgeNode(ev, before)
		}
	}
}

func (x *exec) judgeNode(ev *world.Event, n *corev1.Node) {
	r := x.r
	now := x.e.Clock.Now()
	ncs := claimsWithProviderID(x.e.API.Raw, n.Spec.ProviderID)
	if len(ncs) == 0 {
		r.Inc("node_finalizer_removals_without_nodeclaim_(outside_statement)")
		x.tr("node %s finalizer removed (no NodeClaim: outside the statement)", n.Name)
		return
	}
	nc := ncs[0]
	v := judgeNodeAt(x.e, n, nc, now)
	r.Inc("m1_node_finalizer_removals_judged")
	x.sig["node-removal"] = true
	x.tr("MONITOR node %s finalizer removed by %s: ready=%v tainted=%v instance=%s blockers=%d blockingVA=%d tgpExpired=%v", n.Name, ev.Caller, v.Ready, v.Tainted, v.InstanceSt, len(v.Blockers), len(v.VA.Blocking), v.TGPExpired)
	failed := v.failed()
	wit := map[string]any{"node": n.Name, "providerID": n.Spec.ProviderID, "nodeclaim": nc.Name, "caller": ev.Caller, "stack": ev.Stack, "verdict": v, "failed_preconditions": failed,
		"reconciled_object_was_stale": x.nodeSnapStale}
	switch {
	case len(failed) == 0:
		r.Inc("m1_node_removals_on_full_path_all_preconditions_true")
		x.sig["node-full-path"] = true
		if v.shortcutOK() {
			r.Inc("m1_node_removals_where_shortcut_also_applies")
		}
		// evidence: what the full path had to see through
		if v.Tolerating > 0 {
			r.Inc("m1_full_path_removals_with_tolerating_pod_still_bound")
		}
		if v.Static > 0 {
			r.Inc("m1_full_path_removals_with_static_pod_still_bound")
		}
		if v.Stuck > 0 {
			r.Inc("m1_full_path_removals_with_stuck_terminating_pod_still_bound")
			x.sig["stuck-pod"] = true
		}
		if v.Terminal > 0 {
			r.Inc("m1_full_path_removals_with_terminal_pod_still_bound")
		}
		if len(v.VA.NonDrainPV) > 0 {
			r.Inc("m1_full_path_removals_with_attachment_of_undrainable_pod_present")
			x.sig["va-undrainable"] = true
		}
		if len(v.VA.Inline) > 0 {
			r.Inc("m1_full_path_removals_with_inline_attachment_present")
		}
		if len(v.VA.Blocking) > 0 {
			r.Inc("m1_full_path_removals_with_blocking_attachment_after_tgp_expired")
			x.sig["va-tgp-expired"] = true
		}
		if v.Ready {
			r.Inc("m1_full_path_removals_of_ready_node")
		}
		if x.nodeSnapStale {
			r.Inc("m1_node_removals_by_reconcile_of_stale_object")
		}
	case v.shortcutOK():
		r.Inc("m1_node_removals_on_shortcut_not_ready_and_instance_gone")
		x.sig["node-shortcut"] = true
		if len(v.Blockers) > 0 {
			r.Inc("m1_shortcut_removals_with_drainable_pods_bound")
		}
		if !v.Tainted {
			r.Inc("m1_shortcut_removals_of_uncordoned_node")
		}
		if len(v.VA.Blocking) > 0 {
			r.Inc("m1_shortcut_removals_with_blocking_attachments")
		}
	case !v.InstanceLive && v.Ready && x.nodeSnap != nil && x.nodeSnapStale && !nodeReady(x.nodeSnap):
		// the controller took the shortcut on a lagging cache entry that still says NotReady while the store says
		// Ready; the instance is gone (nothing leaks). Outside what the controller can observe: diagnostic.
		r.Inc("diag_shortcut_on_stale_not_ready_object_while_store_says_ready")
	default:
		key := "node-finalizer-removed-while:" + strings.Join(failed, "+")
		x.violate(key, fmt.Sprintf("termination finalizer of Node %s (NodeClaim %s) removed by %s while %s (node Ready=%v, instance %s)", n.Name, nc.Name, ev.Caller, strings.Join(failed, ", "), v.Ready, v.InstanceSt), wit)
	}
}

func (x *exec) judgeClaim(ev *world.Event, nc *v1.NodeClaim) {
	r := x.r
	r.Inc("m2_nodeclaim_finalizer_removals_judged")
	x.sig["claim-removal"] = true
	insts := x.e.Provider.InstancesForUID(nc.UID)
	sort.Slice(insts, func(i, j int) bool { return insts[i].ProviderID < insts[j].ProviderID })
	var live []*world.Instance
	var desc []string
	for _, in := range insts {
		desc = append(desc, fmt.Sprintf("%s(%s, created in controller lifetime %d)", in.ProviderID, in.State, x.createEpoch[in.ProviderID]))
		if in.State != "gone" {
			live = append(live, in)
		}
	}
	everReg := x.everRegistered[nc.UID] || condTrue(nc, v1.ConditionTypeRegistered)
	x.tr("MONITOR nodeclaim %s finalizer removed by %s: status.providerID=%q everRegistered=%v instances=%v", nc.Name, ev.Caller, nc.Status.ProviderID, everReg, desc)
	wit := map[string]any{"nodeclaim": nc.Name, "uid": nc.UID, "status.providerID": nc.Status.ProviderID, "everRegistered": everReg, "provider_instances_for_uid": desc,
		"caller": ev.Caller, "stack": ev.Stack, "conditions": nc.Status.Conditions, "controller_lifetime_now": x.epoch}
	// (a) nodes gone if it ever registered
	if everReg {
		r.Inc("m2_removals_of_registered_nodeclaim")
		x.sig["claim-registered"] = true
		if nodes := nodesWithProviderID(x.e.API.Raw, nc.Status.ProviderID); len(nodes) > 0 {
			var names []string
			for _, n := range nodes {
				names = append(names, n.Name)
			}
			wit["nodes"] = names
			x.violate("nodeclaim-finalizer-removed-while-its-node-exists", fmt.Sprintf("finalizer of registered NodeClaim %s removed by %s while Node(s) %v with its provider id still exist", nc.Name, ev.Caller, names), wit)
		}
	} else {
		r.Inc("m2_removals_of_never_registered_nodeclaim")
		if nodes := nodesWithProviderID(x.e.API.Raw, nc.Status.ProviderID); len(nodes) > 0 {
			r.Inc("m2_removals_of_unregistered_nodeclaim_with_node_object_present_(allowed)")
			for _, n := range nodes {
				if _, ok := n.Labels[v1.NodeRegisteredLabelKey]; ok {
					// registration patched the Node (label, finalizer) but the Registered condition never reached the
					// NodeClaim (failure / crash in between): finalize does not wait for the Node. The statement keys on
					// "if it registered" = the persisted condition, so this is a diagnostic only.
					r.Inc("diag_unregistered_nodeclaim_finalized_while_node_already_carries_registered_label")
					x.sig["half-registered"] = true
				}
			}
		}
	}
	// (b) no live instance for this UID if the provider ever created one
	if len(insts) == 0 {
		r.Inc("m2_removals_of_nodeclaim_never_launched")
		x.sig["claim-never-launched"] = true
		return
	}
	r.Inc("m2_removals_of_nodeclaim_with_instance_ever_created")
	x.sig["claim-launched"] = true
	if len(live) == 0 {
		r.Inc("m2_removals_with_every_instance_gone")
		if nc.Status.ProviderID == "" {
			r.Inc("m2_removals_unrecorded_provider_id_but_instance_already_gone")
		}
		return
	}
	x.flagged[nc.UID] = true
	lifetime := "same-controller-lifetime"
	for _, in := range live {
		if x.createEpoch[in.ProviderID] < x.epoch {
			lifetime = "after-controller-restart"
		}
	}
	recordedLive := false
	for _, in := range live {
		if in.ProviderID == nc.Status.ProviderID {
			recordedLive = true
		}
	}
	var key, what string
	switch {
	case nc.Status.ProviderID == "":
		key = "nodeclaim-finalized-with-live-instance-unrecorded-provider-id:" + lifetime
		what = fmt.Sprintf("finalizer of NodeClaim %s removed by %s while instance %s created for it is %s: status.providerID was never persisted, so finalize skipped cloudProvider.Delete (%s)", nc.Name, ev.Caller, live[0].ProviderID, live[0].State, lifetime)
	case recordedLive:
		key = "nodeclaim-finalizer-removed-before-recorded-instance-gone"
		what = fmt.Sprintf("finalizer of NodeClaim %s removed by %s while its recorded instance %s is %s", nc.Name, ev.Caller, nc.Status.ProviderID, live[0].State)
	default:
		key = "nodeclaim-finalized-with-live-instance-other-than-recorded:" + lifetime
		what = fmt.Sprintf("finalizer of NodeClaim %s removed by %s while instance %s, created for the same NodeClaim UID but not the recorded one (%s), is %s (%s)", nc.Name, ev.Caller, live[0].ProviderID, nc.Status.ProviderID, live[0].State, lifetime)
	}
	x.violate(key, what, wit)
}

// ---- steps ----

func (x *exec) lifecycleStep(cs *claimSt, stale int) {
	obj, isStale := x.view("NodeClaim", cs.name, stale)
	if obj == nil {
		x.tr("nodeclaim %s gone (or never seen): nothing to reconcile", cs.name)
		return
	}
	nc := obj.(*v1.NodeClaim).DeepCopy()
	x.r.Inc("lifecycle_reconciles")
	if isStale {
		x.r.Inc("lifecycle_reconciles_on_stale_object")
		x.sig["stale"] = true
	}
	if nc.DeletionTimestamp != nil {
		x.r.Inc("lifecycle_finalize_passes")
	}
	var err error
	crashed := x.guard("lifecycle-reconcile", func() { _, err = x.e.Lifecycle().Reconcile(x.e.Ctx, nc) })
	cur := x.claim(cs.name)
	st := "gone"
	if cur != nil {
		st = fmt.Sprintf("providerID=%q launched=%v registered=%v deleting=%v finalizer=%v", cur.Status.ProviderID, condTrue(cur, v1.ConditionTypeLaunched), condTrue(cur, v1.ConditionTypeRegistered), cur.DeletionTimestamp != nil, hasFinalizer(cur))
		// antecedent of the leak suspicion: an instance exists for the UID while the stored object does not record it
		if cur.Status.ProviderID == "" && len(x.e.Provider.InstancesForUID(cs.uid)) > 0 {
			x.r.Inc("m2_reconciles_ending_with_instance_created_but_provider_id_unrecorded")
			x.sig["unrecorded-id"] = true
		}
	}
	x.tr("lifecycle %s stale=%v crashed=%v err=%q -> %s", cs.name, isStale, crashed, short(errStr(err), 100), st)
}

func errStr(err error) string {
	if err == nil {
		return ""
	}
	return err.Error()
}

func (x *exec) nodeStep(cs *claimSt, stale, pick int) {
	names := x.nodeNames(cs)
	if len(names) == 0 {
		return
	}
	name := names[pick%len(names)]
	obj, isStale := x.view("Node", name, stale)
	if obj == nil {
		return
	}
	n := obj.(*corev1.Node).DeepCopy()
	if n.DeletionTimestamp == nil {
		x.r.Inc("node_reconciles_of_not_deleting_node")
	} else {
		x.r.Inc("node_termination_passes")
	}
	if isStale {
		x.r.Inc("node_reconciles_on_stale_object")
		x.sig["stale"] = true
	}
	x.nodeSnap, x.nodeSnapStale = n.DeepCopy(), isStale
	var err error
	crashed := x.guard("node-termination-reconcile", func() { _, err = x.ctrl.Reconcile(x.e.Ctx, n) })
	x.nodeSnap, x.nodeSnapStale = nil, false
	if !crashed {
		x.pump()
	}
	// antecedent pressure: the pass ended with the finalizer kept while a precondition was false
	if cur := x.node(name); cur != nil && cur.DeletionTimestamp != nil && hasFinalizer(cur) {
		var nc *v1.NodeClaim
		if ncs := claimsWithProviderID(x.e.API.Raw, cur.Spec.ProviderID); len(ncs) > 0 {
			nc = ncs[0]
		}
		v := judgeNodeAt(x.e, cur, nc, x.e.Clock.Now())
		f := v.failed()
		for _, why := range f {
			x.r.Inc("m1_passes_that_kept_the_finalizer_while:" + why)
		}
		x.tr("node-termination %s stale=%v crashed=%v err=%q -> kept (%s)", name, isStale, crashed, short(errStr(err), 100), strings.Join(f, ","))
	} else {
		x.tr("node-termination %s stale=%v crashed=%v err=%q", name, isStale, crashed, short(errStr(err), 100))
	}
}

func (x *exec) queueStep(pick int) {
	x.pump()
	if len(x.work) == 0 {
		return
	}
	i := pick % len(x.work)
	key := x.work[i]
	x.work = append(x.work[:i], x.work[i+1:]...)
	pod := &corev1.Pod{}
	if x.e.API.Raw.Get(bg, key, pod) != nil {
		x.r.Inc("queue_keys_dropped_pod_gone")
		return
	}
	x.r.Inc("queue_reconciles")
	var err error
	requeue := false
	crashed := x.guard("eviction-queue-reconcile", func() {
		res, e2 := x.q.Reconcile(x.e.Ctx, pod)
		err = e2
		requeue = e2 != nil || res.Requeue || res.RequeueAfter > 0 //nolint:staticcheck
	})
	if crashed {
		return
	}
	if requeue {
		x.addWork(key)
	}
	x.tr("queue %s err=%q requeue=%v", key.Name, short(errStr(err), 80), requeue)
}

func (x *exec) drainQueue(limit int) {
	for i := 0; i < limit; i++ {
		x.pump()
		if len(x.work) == 0 {
			return
		}
		n := len(x.work)
		for j := 0; j < n; j++ {
			x.queueStep(0)
		}
		// everything that is left requeued itself (PDB / do-not-disrupt): one pass per round is enough
		return
	}
}

func (x *exec) kubeletStep(cs *claimSt, act string) {
	e := x.e
	switch act {
	case "register":
		insts := e.Provider.InstancesForUID(cs.uid)
		sort.Slice(insts, func(i, j int) bool { return insts[i].ProviderID < insts[j].ProviderID })
		for _, in := range insts {
			if in.State != "running" || x.registeredInst[in.ProviderID] {
				continue
			}
			x.registeredInst[in.ProviderID] = true
			n := e.KubeletRegister(in, cs.plan.Reg)
			cs.nodes[n.Name] = true
			x.r.Inc("kubelet_registers")
			x.tr("kubelet registers node %s for %s", n.Name, in.ProviderID)
		}
	case "ready":
		for _, name := range x.nodeNames(cs) {
			if n := x.node(name); n != nil && instanceRunning(e.Provider, n.Spec.ProviderID) {
				e.KubeletReady(name, true)
				x.tr("kubelet: node %s Ready", name)
			}
		}
	case "notready":
		for _, name := range x.nodeNames(cs) {
			if n := x.node(name); n != nil {
				e.KubeletNotReady(name)
				x.r.Inc("kubelet_not_ready_flips")
				x.tr("kubelet: node %s NotReady", name)
			}
		}
	case "heartbeat":
		for _, name := range x.nodeNames(cs) {
			if n := x.node(name); n != nil && instanceLive(e.Provider, n.Spec.ProviderID) {
				for i := range n.Status.Conditions {
					n.Status.Conditions[i].LastHeartbeatTime = metav1.NewTime(e.Clock.Now())
				}
				e.Apply(n)
				x.r.Inc("kubelet_heartbeats")
			}
		}
	case "reap":
		if n := e.KubeletReapPods(x.stuck); n > 0 {
			x.r.Count("pods_reaped_by_kubelet", n)
			x.tr("kubelet reaps %d pod(s)", n)
		}
	}
}

func instanceRunning(p *world.Provider, id string) bool {
	in := p.Instance(id)
	return in != nil && in.State == "running"
}

// attachDetachStep: the emulated attach-detach controller removes an attachment `detach` ticks after no pod on the
// node uses its volume any more; attachments planned as "never" stay until forceDetach.
func (x *exec) attachDetachStep() {
	l := &storagev1.VolumeAttachmentList{}
	_ = x.e.API.Raw.List(bg, l)
	for i := range l.Items {
		va := &l.Items[i]
		pv, planned := x.vaPV[va.Name]
		if !planned {
			if x.forceDetach && x.node(va.Spec.NodeName) == nil {
				_ = x.e.API.Raw.Delete(bg, va)
			}
			continue
		}
		inUse := false
		for _, p := range podsOn(x.e.API.Raw, va.Spec.NodeName) {
			if isTerminal(p) { // volumes of Succeeded / Failed pods are unmounted and detached
				continue
			}
			for _, v := range pvsOf(x.e.API.Raw, p) {
				if v == pv {
					inUse = true
				}
			}
		}
		if inUse {
			continue
		}
		left := x.vaDetach[va.Name]
		if left < 0 && !x.forceDetach {
			continue
		}
		if left > 0 && !x.forceDetach {
			x.vaDetach[va.Name] = left - 1
			continue
		}
		_ = x.e.API.Raw.Delete(bg, va)
		x.r.Inc("volume_attachments_detached")
		x.tr("attach-detach controller removes %s", va.Name)
	}
}

func (x *exec) deadlineOf(cs *claimSt) *time.Time {
	nc := x.claim(cs.name)
	if nc == nil {
		return nil
	}
	s, ok := nc.Annotations[terminationTSKey]
	if !ok {
		return nil
	}
	t, err := time.Parse(time.RFC3339, s)
	if err != nil {
		return nil
	}
	return &t
}

func (x *exec) clockStep(st step) {
	if st.Act == "" {
		x.e.Clock.Step(st.Dur)
		return
	}
	d := x.deadlineOf(x.claims[st.C%len(x.claims)])
	if d == nil {
		x.e.Clock.Step(2 * time.Second)
		return
	}
	to := *d
	switch st.Act {
	case "deadline+1s":
		to = to.Add(time.Second)
	case "deadline-1s":
		to = to.Add(-time.Second)
	}
	x.e.Clock.SetTime(to)
	x.r.Inc("clock_moved_onto_termination_deadline")
	x.tr("clock -> %s (%s)", x.e.Clock.Now().Sub(world.Epoch), st.Act)
}

func (x *exec) deleteStep(cs *claimSt, what string) {
	nc := x.claim(cs.name)
	if what == "node" && nc != nil {
		if nodes := nodesWithProviderID(x.e.API.Raw, nc.Status.ProviderID); len(nodes) > 0 && hasFinalizer(nodes[0]) {
			_ = x.e.API.Raw.Delete(bg, nodes[0])
			x.r.Inc("user_deletes_node")
			x.tr("user deletes Node %s", nodes[0].Name)
			return
		}
	}
	if nc != nil && nc.DeletionTimestamp == nil {
		_ = x.e.API.Raw.Delete(bg, nc)
		x.r.Inc("user_deletes_nodeclaim")
		x.tr("user deletes NodeClaim %s (providerID=%q, finalizer=%v)", cs.name, nc.Status.ProviderID, hasFinalizer(nc))
	}
}

func (x *exec) workloadStep(cs *claimSt) {
	if cs.workload || len(cs.plan.Pods) == 0 {
		return
	}
	nc := x.claim(cs.name)
	if nc == nil {
		return
	}
	nodes := nodesWithProviderID(x.e.API.Raw, nc.Status.ProviderID)
	if len(nodes) == 0 {
		x.r.Inc("workloads_skipped_no_node")
		return
	}
	cs.workload = true
	e := x.e
	node := nodes[0].Name
	now := e.Clock.Now()
	if cs.plan.PDB {
		e.Apply(guardPDB())
	}
	for _, ps := range cs.plan.Pods {
		p := buildPod(ps, node, now)
		e.Apply(p)
		x.r.Inc("workload_pods:" + ps.Kind)
		if ps.Volume != "" {
			pv, pvc, va := buildVolumeObjects(ps, node)
			e.Apply(pv, pvc, va)
			x.vaPV[va.Name] = pv.Name
			x.vaDetach[va.Name] = ps.Detach
			x.r.Inc("workload_volume_attachments")
		}
		switch ps.Kind {
		case "stuck":
			g := int64(1)
			_ = e.API.Client.Delete(bg, p.DeepCopy(), client.GracePeriodSeconds(g))
			x.stuck[p.Name] = true
		case "sticky":
			x.stuck[p.Name] = true
		case "term-long":
			g := int64(600)
			_ = e.API.Client.Delete(bg, p.DeepCopy(), client.GracePeriodSeconds(g))
		case "succeeded":
			cur := &corev1.Pod{}
			if e.API.Raw.Get(bg, client.ObjectKeyFromObject(p), cur) == nil {
				cur.Status.Phase = corev1.PodSucceeded
				if e.API.Raw.Status().Update(bg, cur) != nil {
					_ = e.API.Raw.Update(bg, cur)
				}
			}
		}
	}
	if cs.plan.Inline {
		e.Apply(inlineAttachment(cs.idx, node))
	}
	x.tr("workload of %d pod(s) bound to %s", len(cs.plan.Pods), node)
}

// latePodStep binds one more drainable pod to the (terminating) node of the claim.
func (x *exec) latePodStep(cs *claimSt) {
	nc := x.claim(cs.name)
	if nc == nil || nc.Status.ProviderID == "" {
		return
	}
	nodes := nodesWithProviderID(x.e.API.Raw, nc.Status.ProviderID)
	if len(nodes) == 0 {
		return
	}
	g := int64(30)
	ps := podSpec{Name: fmt.Sprintf("c%d-late", cs.idx), Kind: "drainable", Grace: &g}
	if cs.lateDone {
		return
	}
	cs.lateDone = true
	x.e.Apply(buildPod(ps, nodes[0].Name, x.e.Clock.Now()))
	x.r.Inc("late_pods_bound_to_terminating_node")
	st := "absent"
	for _, c := range nc.Status.Conditions {
		if c.Type == v1.ConditionTypeDrained {
			st = string(c.Status)
		}
	}
	x.r.Inc("late_pods_bound_while_drained_condition_is:" + st)
	if st == "True" {
		x.sig["late-pod-after-drained"] = true
	}
	x.tr("late pod %s bound to %s", ps.Name, nodes[0].Name)
}

func (x *exec) vanishStep(cs *claimSt) {
	for _, in := range x.e.Provider.InstancesForUID(cs.uid) {
		if in.State != "gone" {
			x.e.Provider.Vanish(in.ProviderID)
			x.r.Inc("instances_vanished_by_themselves")
			x.sig["vanish"] = true
			x.tr("instance %s vanishes", in.ProviderID)
		}
	}
}

func (x *exec) unblockStep(act string) {
	switch act {
	case "dnd":
		l := &corev1.PodList{}
		_ = x.e.API.Raw.List(bg, l)
		for i := range l.Items {
			p := &l.Items[i]
			if _, ok := p.Annotations[doNotDisruptKey]; ok {
				delete(p.Annotations, doNotDisruptKey)
				_ = x.e.API.Raw.Update(bg, p)
			}
		}
	case "pdb":
		l := &policyv1.PodDisruptionBudgetList{}
		_ = x.e.API.Raw.List(bg, l)
		for i := range l.Items {
			_ = x.e.API.Raw.Delete(bg, &l.Items[i])
		}
	}
}

// allGone: nothing is left to finalize. A Node that still carries the finalizer but is not being deleted while its
// instance is alive and its NodeClaim is gone is an orphan nobody will ever delete (consequence of a leaked
// instance): waiting longer changes nothing.
func (x *exec) allGone() bool {
	for _, cs := range x.claims {
		if x.claim(cs.name) != nil {
			return false
		}
		for n := range cs.nodes {
			nd := x.node(n)
			if nd == nil || !hasFinalizer(nd) {
				continue
			}
			if nd.DeletionTimestamp == nil && instanceLive(x.e.Provider, nd.Spec.ProviderID) {
				continue
			}
			return false
		}
	}
	return true
}

func (x *exec) do(i int, st step) {
	x.curStep = fmt.Sprintf("%d:%s", i, st)
	var cs *claimSt
	if len(x.claims) > 0 {
		cs = x.claims[st.C%len(x.claims)]
	}
	switch st.Op {
	case "L":
		x.lifecycleStep(cs, st.Stale)
	case "N":
		x.nodeStep(cs, st.Stale, st.Pick)
	case "Q":
		x.queueStep(st.Pick)
	case "K":
		x.kubeletStep(cs, st.Act)
	case "A":
		x.attachDetachStep()
	case "T":
		x.clockStep(st)
	case "D":
		x.deleteStep(cs, st.Act)
	case "W":
		x.workloadStep(cs)
	case "V":
		x.vanishStep(cs)
	case "U":
		x.unblockStep(st.Act)
	case "P":
		x.latePodStep(cs)
	}
	for _, c := range x.claims {
		if c.plan.LateAfterDrained && !c.lateDone {
			if nc := x.claim(c.name); nc != nil && condTrue(nc, v1.ConditionTypeDrained) {
				x.latePodStep(c)
			}
		}
	}
	if x.nodeLifecycleActor() {
		x.snapshotAll()
		return
	}
	switch st.Op {
	case "K", "D", "W": // harness actors that write Nodes / NodeClaims outside the monitored client
		x.snapshotAll()
	}
}

// nodeLifecycleActor emulates kube-controller-manager's node lifecycle controller: a node whose instance has been
// gone for 40s of virtual time (no heartbeat any more) stops being Ready. Until then a node that was Ready stays
// Ready in the API although its instance is gone - the window the Ready guard of the shortcut exists for.
func (x *exec) nodeLifecycleActor() bool {
	changed := false
	now := x.e.Clock.Now()
	for _, cs := range x.claims {
		for name := range cs.nodes {
			n := x.node(name)
			if n == nil || instanceLive(x.e.Provider, n.Spec.ProviderID) {
				continue
			}
			t, ok := x.goneAt[n.Spec.ProviderID]
			if !ok {
				x.goneAt[n.Spec.ProviderID] = now
				continue
			}
			if nodeReady(n) && now.Sub(t) >= 40*time.Second {
				x.e.KubeletNotReady(name)
				x.r.Inc("node_lifecycle_controller_marks_not_ready")
				changed = true
			}
			// cloud-controller-manager's node lifecycle controller deletes Node objects whose instance no longer exists
			// (closing phase only: it is what eventually starts the termination of a Node nobody else deletes)
			if x.closing && n.DeletionTimestamp == nil && now.Sub(t) >= 90*time.Second {
				_ = x.e.API.Raw.Delete(bg, n)
				x.r.Inc("cloud_controller_manager_deletes_node_of_gone_instance")
				x.tr("cloud-controller-manager deletes Node %s (instance gone)", name)
				changed = true
			}
		}
	}
	return changed
}

// ---- one run ----

func isTarget(verb, _, _ string) bool { return verb != "get" && verb != "list" }

func execute(r *mon.Report, sc scen, f *faultSpec) *exec {
	s, names, tgp, async := build(sc)
	if len(names) == 0 {
		return nil
	}
	if sc.Expect != nil && strings.Join(names, ",") != strings.Join(sc.Expect, ",") {
		r.Inc("world_rebuild_mismatch_skipped")
		return nil
	}
	e := s.Env
	x := &exec{r: r, sc: sc, fault: f, e: e, s: s, tgp: tgp, async: async, byUID: map[types.UID]*claimSt{}, hist: map[string]*hist{}, everRegistered: map[types.UID]bool{},
		createEpoch: map[string]int{}, registeredInst: map[string]bool{}, stuck: map[string]bool{}, vaDetach: map[string]int{}, vaPV: map[string]string{}, createCalls: map[string]int{}, goneAt: map[string]time.Time{},
		sig: map[string]bool{}, flagged: map[types.UID]bool{}}
	rs := rand.New(rand.NewSource(sc.ScriptSeed))
	var plans []claimPlan
	for i, n := range names {
		nc := x.claim(n)
		if nc == nil {
			continue
		}
		cs := &claimSt{idx: i, name: n, uid: nc.UID, plan: genPlan(rs, i), nodes: map[string]bool{}}
		x.claims = append(x.claims, cs)
		x.byUID[cs.uid] = cs
		plans = append(plans, cs.plan)
	}
	if len(x.claims) == 0 {
		return nil
	}
	script := genScript(rs, plans)
	var ss []string
	for _, st := range script {
		ss = append(ss, st.String())
	}
	var pd []map[string]any
	for _, c := range x.claims {
		pd = append(pd, map[string]any{"claim": c.name, "plan": c.plan})
	}
	x.desc = map[string]any{"case": sc.Idx, "worldSeed": sc.WorldSeed, "scriptSeed": sc.ScriptSeed, "terminationGracePeriod": tgp.String(), "providerAsyncDeletes": async,
		"claims": pd, "script": strings.Join(ss, " "), "fault": f.String()}

	x.buildControllers()
	e.OnRestart = append(e.OnRestart, x.buildControllers)
	e.API.PostWrite = append(e.API.PostWrite, x.onWrite)
	e.Provider.OnCreate = func(in *world.Instance) { x.createEpoch[in.ProviderID] = x.epoch }
	e.Provider.CreateErrFn = func(nc *v1.NodeClaim) error {
		cs := x.byUID[nc.UID]
		if cs == nil {
			return nil
		}
		n := x.createCalls[cs.name]
		x.createCalls[cs.name]++
		if cs.plan.PErr == "generic1" && n < 1 {
			return errors.New("c09: transient provider failure")
		}
		return nil
	}
	x.snapshotAll()

	// faults
	switch {
	case f == nil:
		x.wf = &world.Fault{AtCall: 1 << 30, Kind: "500", Match: func(verb, kind, caller string) bool {
			x.calls = append(x.calls, verb+":"+kind)
			x.callsClosing = append(x.callsClosing, x.closing)
			return true
		}}
	case f.Sticky:
		x.wf = &world.Fault{AtCall: 1, Kind: f.Kind, Sticky: true, Match: func(verb, kind, caller string) bool { return verb+":"+kind == f.Target }}
	default:
		x.wf = &world.Fault{AtCall: f.K, Kind: f.Kind}
		if f.Targets {
			x.wf.Match = isTarget
		}
	}
	e.API.SetFaults(x.wf)
	e.API.StartCounting()
	for i, st := range script {
		x.do(i, st)
	}
	// closing phase: fault-free (a one-shot fault that has not fired yet may still fire), bounded
	x.closing = true
	if f != nil && f.Sticky {
		e.API.ClearFaults()
	}
	sn := len(script)
	for round := 0; round < closingRounds && !x.allGone(); round++ {
		do := func(st step) { x.do(sn, st); sn++ }
		do(step{Op: "K", Act: "reap"})
		if round >= 2 {
			do(step{Op: "U", Act: "dnd"})
			do(step{Op: "U", Act: "pdb"})
		}
		if round >= 24 {
			x.forceDetach = true
		}
		do(step{Op: "A"})
		for c, cs := range x.claims {
			if round%2 == 1 {
				do(step{Op: "K", C: c, Act: "heartbeat"})
			}
			do(step{Op: "L", C: c, Stale: []int{0, 0, 1, 0}[round%4]})
			for k := range x.nodeNames(cs) {
				do(step{Op: "N", C: c, Pick: k, Stale: []int{0, 1, 0, 2}[round%4]})
			}
		}
		x.curStep = fmt.Sprintf("%d:Q*", sn)
		x.drainQueue(1)
		do(step{Op: "T", Dur: []time.Duration{2 * time.Second, 6 * time.Second, 31 * time.Second, 61 * time.Second}[round%4]})
	}
	x.finish()
	return x
}

func (x *exec) finish() {
	r := x.r
	r.Eval()
	r.Inc("runs")
	fired := x.wf.Fired
	switch {
	case x.fault == nil:
		r.Inc("runs_fault_free")
	default:
		k := x.fault.Kind
		if x.fault.Sticky {
			k = "sticky-" + k
		}
		r.Inc("runs_fault:" + k)
		if fired {
			r.Inc("faults_fired:" + k)
		} else {
			r.Inc("faults_not_fired")
		}
	}
	// end state: bounded progress is a diagnostic; an orphan the monitor did not flag would be a hole in the monitor
	for _, cs := range x.claims {
		nc := x.claim(cs.name)
		nodesLeft := 0
		for n := range cs.nodes {
			if nd := x.node(n); nd != nil && hasFinalizer(nd) {
				if nc == nil && nd.DeletionTimestamp == nil && instanceLive(x.e.Provider, nd.Spec.ProviderID) {
					r.Inc("diag_end_orphan_node_with_finalizer_and_live_instance_never_deleted")
					continue
				}
				nodesLeft++
			}
		}
		switch {
		case nc == nil && nodesLeft == 0:
			r.Inc("end_claim_and_nodes_gone")
		default:
			r.Inc("diag_end_not_finished_within_step_bound")
			x.sig["end:unfinished"] = true
		}
		if nc == nil {
			for _, in := range x.e.Provider.InstancesForUID(cs.uid) {
				if in.State == "gone" {
					continue
				}
				r.Inc("end_live_instance_of_gone_nodeclaim")
				if !x.flagged[cs.uid] {
					x.violate("orphan-instance-at-end-not-preceded-by-a-finalizer-removal", fmt.Sprintf("NodeClaim %s is gone, instance %s created for it is %s, yet no finalizer-removing write was observed with the instance alive", cs.name, in.ProviderID, in.State), nil)
				}
			}
		}
		x.sig["stage:"+cs.plan.Stage] = true
		x.sig["flow:"+cs.plan.Flow] = true
	}
	tgt := "none"
	if x.fault != nil {
		tgt = x.fault.Kind + "@" + x.fault.Target
		if x.fault.Sticky {
			tgt = "sticky-" + tgt
		}
	}
	if x.tgp > 0 {
		x.sig["tgp"] = true
	}
	if x.async > 0 {
		x.sig["async-termination"] = true
	}
	if x.sig["node-removal"] || x.sig["claim-removal"] || x.sig["unrecorded-id"] {
		// non-trivial: a finalizer-removing write was judged (or the antecedent of the leak suspicion was reached)
		r.Sig("fault=%s|%s", tgt, strings.Join(common.SortedKeys(x.sig), ","))
	} else {
		r.Inc("runs_without_any_judged_finalizer_removal")
	}
	if debugHook != nil {
		debugHook(x)
	}
	r.DistinctAdd("fault_targets", tgt)
	r.DistinctAdd("scripts", fmt.Sprintf("%d/%d", x.sc.WorldSeed, x.sc.ScriptSeed))
	if x.fault != nil && fired && r.WantSample() && x.sig["node-full-path"] && x.sig["claim-launched"] && !sampled[x.fault.Kind] {
		sampled[x.fault.Kind] = true
		tr := x.trace
		if len(tr) > 150 {
			tr = tr[:150]
		}
		r.Sample(map[string]any{"scenario": x.desc, "trace": tr, "api_events_tail": x.eventTail(25)})
	}
}

var sampled = map[string]bool{}

// debugHook (tests only) sees every finished run.
var debugHook func(x *exec)

func run(r *mon.Report, tier string, idx int, rng *rand.Rand) {
	sc := scen{Idx: idx, WorldSeed: rng.Int63(), ScriptSeed: rng.Int63()}
	base := execute(r, sc, nil)
	if base == nil {
		r.Inc("scenarios_without_nodeclaim")
		return
	}
	r.Inc("scenarios")
	for _, c := range base.claims {
		sc.Expect = append(sc.Expect, c.name)
	}
	r.Count("claims_in_scenarios", len(base.claims))
	r.Count("fault_free_calls_K", len(base.calls))
	// targets = every call except API get/list (provider Get/List included); k indexes into them
	type tgt struct {
		k       int
		desc    string
		closing bool
	}
	var targets, scripted, closing []tgt
	var reads []int
	for i, c := range base.calls {
		if !isTarget(strings.SplitN(c, ":", 2)[0], "", "") {
			reads = append(reads, i+1)
			continue
		}
		t := tgt{k: len(targets) + 1, desc: c, closing: base.callsClosing[i]}
		targets = append(targets, t)
		if t.closing {
			closing = append(closing, t)
		} else {
			scripted = append(scripted, t)
		}
	}
	r.Count("fault_free_target_calls_Kt", len(targets))
	r.Count("fault_free_target_calls_in_scripted_window", len(scripted))
	sel := targets
	if tier != "thorough" {
		// quick: every target call of the scripted window (evenly thinned above 60), every third of the closing phase
		sel = thin(scripted, 60)
		var c3 []tgt
		for i, t := range closing {
			if i%3 == 0 {
				c3 = append(c3, t)
			}
		}
		sel = append(sel, thin(c3, 16)...)
	}
	r.Count("fault_points_enumerated", len(sel))
	for i, t := range sel {
		execute(r, sc, &faultSpec{Kind: "500", K: t.k, Targets: true, Target: t.desc})
		execute(r, sc, &faultSpec{Kind: "crash", K: t.k, Targets: true, Target: t.desc})
		if tier == "thorough" {
			for _, kind := range []string{"409", "404", "timeout"} {
				execute(r, sc, &faultSpec{Kind: kind, K: t.k, Targets: true, Target: t.desc})
			}
		} else {
			execute(r, sc, &faultSpec{Kind: []string{"409", "404"}[(i+idx)%2], K: t.k, Targets: true, Target: t.desc})
		}
	}
	if tier == "thorough" { // failing API reads
		for _, k := range reads {
			execute(r, sc, &faultSpec{Kind: []string{"500", "404"}[k%2], K: k, Target: base.calls[k-1]})
		}
	}
	// permanent errors: every call of one class fails during the whole scripted window
	seen := map[string]bool{}
	for _, t := range targets {
		if seen[t.desc] {
			continue
		}
		seen[t.desc] = true
		execute(r, sc, &faultSpec{Kind: "500", Sticky: true, Target: t.desc})
	}
}

// thin keeps at most n elements, evenly spaced (deterministic).
func thin[T any](l []T, n int) []T {
	if len(l) <= n {
		return l
	}
	out := make([]T, 0, n)
	for i := 0; i < n; i++ {
		out = append(out, l[i*len(l)/n])
	}
	return out
}

func init() {
	reg.Register(&reg.Prop{
		ID: "C09", Level: "fault_enumeration",
		Rule:  "each case = one generated scenario: world (catalog, one NodePool with terminationGracePeriod none/20s/45s/2m/10m, hostile provider whose Delete needs 0-3 extra calls before the instance is gone) + 1-2 NodeClaims created through the real Provisioner.Schedule/Create + per claim a plan {stage created/launched/node-appeared/registered/initialized, user deletes the NodeClaim or the Node, transient provider Create error, kubelet registers Ready/NotReady, 2-6 bound pods drawn from drainable/tolerating(4 toleration forms)/static/daemon/do-not-disrupt/PDB-guarded(maxUnavailable 0)/stuck-terminating/stuck-once-evicted/long-terminating(600s)/Succeeded x grace nil/1/5/30/120 x priority class, 40% with a PVC or generic-ephemeral volume + VolumeAttachment detached 0/1/3/8 attach-detach ticks after the pod is gone or never, optional inline attachment, instance vanishes by itself (22%), kubelet stops posting Ready (25%)} + a PRNG-interleaved script per claim: bring-up steps (lifecycle reconcile / kubelet register / ready), workload, deletion, then 22-51 steps drawn from {node termination reconcile 30%, lifecycle reconcile 14%, eviction-queue reconcile 25%, kubelet reap 7%, attach-detach tick 7%, clock step 1s..61s 7%, clock onto the termination deadline -1s/0/+1s 2.5%, kubelet heartbeat 2.5%, user removes do-not-disrupt / PDB 2.5%, late kubelet register / ready 2.5%}; 30% of reconciles get a monotonically stale stored version (1-3 versions old; versions = every After copy of the write log plus actor writes); emulated node-lifecycle controller marks a node NotReady 40s after its instance is gone. Executed once fault-free (K calls enumerated), then per fault point k (quick: every non-read call of the scripted window, thinned above 60, plus every third of the closing phase; thorough: every call) once with error 500, once with a crash point (CrashSentinel recovered at the reconcile boundary, Env.Restart, controllers and eviction queue rebuilt), once with 409 or 404 (thorough: 409, 404 and timeout each, plus 500/404 on every API read), and once per call class with a permanent 500 during the whole scripted window; every run ends with <=45 fault-free closing rounds (reap, unblock, attach-detach, heartbeat, lifecycle + node termination reconciles alternating fresh/stale, queue drain, clock 2/6/31/61s, cloud-controller-manager deletes Nodes of gone instances). One evaluation = one run. Non-trivial = a finalizer-removing write was judged or an antecedent fired; distinct by (fault kind x faulted call class x antecedents/features seen).",
		Cases: cases, Run: run,
		MinObserved: map[string]int{
			"m1_node_finalizer_removals_judged":                                     500,
			"m1_node_removals_on_full_path_all_preconditions_true":                  500,
			"m1_node_removals_on_shortcut_not_ready_and_instance_gone":              40,
			"m1_shortcut_removals_with_drainable_pods_bound":                        40,
			"m1_full_path_removals_of_ready_node":                                   200,
			"m1_full_path_removals_with_stuck_terminating_pod_still_bound":          100,
			"m1_full_path_removals_with_tolerating_pod_still_bound":                 80,
			"m1_full_path_removals_with_static_pod_still_bound":                     80,
			"m1_full_path_removals_with_attachment_of_undrainable_pod_present":      100,
			"m1_full_path_removals_with_blocking_attachment_after_tgp_expired":      60,
			"m1_passes_that_kept_the_finalizer_while:drainable-pods-present":        1000,
			"m1_passes_that_kept_the_finalizer_while:blocking-volume-attachments":   1000,
			"m1_passes_that_kept_the_finalizer_while:instance-live":                 1000,
			"m1_passes_that_kept_the_finalizer_while:not-cordoned":                  100,
			"m2_nodeclaim_finalizer_removals_judged":                                1000,
			"m2_removals_of_registered_nodeclaim":                                   500,
			"m2_removals_of_never_registered_nodeclaim":                             200,
			"m2_removals_of_nodeclaim_never_launched":                               20,
			"m2_removals_with_every_instance_gone":                                  500,
			"m2_reconciles_ending_with_instance_created_but_provider_id_unrecorded": 50,
			"lifecycle_reconciles_on_stale_object":                                  500,
			"node_reconciles_on_stale_object":                                       500,
			"restarts":                                                              300,
			"faults_fired:500":                                                      300,
			"faults_fired:sticky-500":                                               50,
			"instances_vanished_by_themselves":                                      50,
		},
	})
}
