package c09

import (
	"fmt"
	"math/rand"
	"os"
	"strconv"
	"testing"

	"verif/mon"
	"verif/props/reg"
)

// go test -run TestDbg with C09_CASE=<idx>: prints the fault-free trace tail
func TestDbg(t *testing.T) {
	idx, _ := strconv.Atoi(os.Getenv("C09_CASE"))
	rng := rand.New(rand.NewSource(reg.CaseSeed(1, idx)))
	r := mon.NewReport("C09", "quick", 1, 0)
	sc := scen{Idx: idx, WorldSeed: rng.Int63(), ScriptSeed: rng.Int63()}
	x := execute(r, sc, nil)
	if x == nil {
		return
	}
	fmt.Println(x.desc["script"])
	for _, l := range x.trace {
		fmt.Println(l)
	}
	fmt.Println(r.Counters)
}
