package c09

import (
	"fmt"
	"math/rand"
	"os"
	"strconv"
	"testing"

	"verif/mon"
	"verif/props/reg"
)

// C09_CASE=<idx> [C09_WHAT=unfinished|base] go test -run TestDbg
func TestDbg(t *testing.T) {
	idx, _ := strconv.Atoi(os.Getenv("C09_CASE"))
	rng := rand.New(rand.NewSource(reg.CaseSeed(1, idx)))
	r := mon.NewReport("C09", "quick", 1, 0)
	if os.Getenv("C09_WHAT") == "unfinished" {
		n := 0
		debugHook = func(x *exec) {
			if x.sig["end:unfinished"] && n < 2 {
				n++
				fmt.Println("=== UNFINISHED", x.fault.String())
				fmt.Println(x.desc["script"])
				tr := x.trace
				for _, l := range tr {
					if len(l) > 300 {
						l = l[:300]
					}
					fmt.Println(l)
				}
			}
		}
		run(r, "quick", idx, rng)
		return
	}
	sc := scen{Idx: idx, WorldSeed: rng.Int63(), ScriptSeed: rng.Int63()}
	x := execute(r, sc, nil)
	if x == nil {
		return
	}
	fmt.Println(x.desc["script"])
	for _, l := range x.trace {
		fmt.Println(l)
	}
	fmt.Println(r.Counters)
}
