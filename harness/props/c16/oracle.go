package c16

import (
	"fmt"
	"strings"
	"time"

	corev1 "k8s.io/api/core/v1"
	metav1 "k8s.io/apimachinery/pkg/apis/meta/v1"

	v1 "sigs.k8s.io/karpenter/pkg/apis/v1"

	"verif/world"
)

// verdict of the independent oracle: is the documented trigger of a reaper true for this NodeClaim on the
// authoritative world (un-intercepted store, provider instance table, virtual clock) right now?
type verdict struct {
	OK    bool
	Why   string // clause that justified (OK) or failed (!OK)
	Facts map[string]any
}

// condOf reads a NodeClaim status condition straight from the stored object. A dependent condition that was
// never written counts as Unknown since object creation (that is how it is initialised when first written).
func condOf(nc *v1.NodeClaim, typ string) (metav1.ConditionStatus, time.Time, bool) {
	for _, c := range nc.Status.Conditions {
		if c.Type == typ {
			return c.Status, c.LastTransitionTime.Time, true
		}
	}
	return metav1.ConditionUnknown, nc.CreationTimestamp.Time, false
}

func nodeCond(n *corev1.Node, typ string) *corev1.NodeCondition {
	for i := range n.Status.Conditions {
		if string(n.Status.Conditions[i].Type) == typ {
			return &n.Status.Conditions[i]
		}
	}
	return nil
}

func (w *W) trigger(reaper string, nc *v1.NodeClaim) verdict {
	switch reaper {
	case "expiration":
		return w.expirationTrigger(nc)
	case "gc":
		return w.gcTrigger(nc)
	case "liveness":
		return w.livenessTrigger(nc)
	case "health":
		return w.healthTrigger(nc)
	}
	return verdict{OK: true, Why: "not-a-reaper"}
}

// Expiration deletes a NodeClaim no earlier than its creation time plus expireAfter and never when expiry is disabled.
func (w *W) expirationTrigger(nc *v1.NodeClaim) verdict {
	now := w.E.Clock.Now()
	f := map[string]any{"now": now.Format(time.RFC3339Nano), "creation": nc.CreationTimestamp.Format(time.RFC3339), "expireAfter": string(nc.Spec.ExpireAfter.Raw)}
	d := nc.Spec.ExpireAfter.Duration
	if d == nil {
		f["expireAfter"] = "Never"
		return verdict{false, "expiry-disabled", f}
	}
	due := nc.CreationTimestamp.Add(*d)
	f["expireAfter"], f["due"] = d.String(), due.Format(time.RFC3339)
	if now.Before(due) {
		return verdict{false, "before-expiry", f}
	}
	return verdict{true, "expired", f}
}

// Garbage collection deletes a registered NodeClaim only when the provider no longer lists its instance and
// its Node is absent or not Ready (the "could be established" clause is judged by the monitor, which knows
// whether a guarding read of that decision failed).
func (w *W) gcTrigger(nc *v1.NodeClaim) verdict {
	reg, _, _ := condOf(nc, v1.ConditionTypeRegistered)
	pid := nc.Status.ProviderID
	inst := w.E.Provider.Instance(pid)
	listed := inst != nil && inst.State != "gone"
	nodes := w.nodesFor(pid)
	ready := false
	var names []string
	for i := range nodes {
		names = append(names, nodes[i].Name)
		if c := nodeCond(&nodes[i], string(corev1.NodeReady)); c != nil && c.Status == corev1.ConditionTrue {
			ready = true
		}
	}
	f := map[string]any{"registered": string(reg), "providerID": pid, "instanceListed": listed, "nodes": names, "nodeReady": ready}
	switch {
	case reg != metav1.ConditionTrue:
		return verdict{false, "unregistered", f}
	case listed:
		return verdict{false, "instance-still-listed", f}
	case ready:
		return verdict{false, "node-ready", f}
	case len(nodes) == 0:
		return verdict{true, "instance-gone+node-absent", f}
	}
	return verdict{true, "instance-gone+node-not-ready", f}
}

// The liveness check deletes only NodeClaims that failed to launch or register within their timeouts.
func (w *W) livenessTrigger(nc *v1.NodeClaim) verdict {
	now := w.E.Clock.Now()
	reg, regSince, _ := condOf(nc, v1.ConditionTypeRegistered)
	lau, lauSince, _ := condOf(nc, v1.ConditionTypeLaunched)
	f := map[string]any{"now": now.Format(time.RFC3339Nano), "registered": string(reg), "registeredSince": regSince.Format(time.RFC3339),
		"launched": string(lau), "launchedSince": lauSince.Format(time.RFC3339)}
	if reg == metav1.ConditionTrue {
		return verdict{false, "registered", f}
	}
	if lau != metav1.ConditionTrue && now.Sub(lauSince) >= launchTimeout {
		return verdict{true, "launch-timeout", f}
	}
	if now.Sub(regSince) >= registrationTimeout {
		return verdict{true, "registration-timeout", f}
	}
	return verdict{false, "before-timeout", f}
}

func (w *W) matchesPolicy(n *corev1.Node) (matched, tolerated bool, which []string) {
	now := w.E.Clock.Now()
	for _, p := range w.S.Policies {
		c := nodeCond(n, p.Type)
		if c == nil || string(c.Status) != p.Status {
			continue
		}
		matched = true
		due := c.LastTransitionTime.Add(time.Duration(p.TolerateS) * time.Second)
		which = append(which, fmt.Sprintf("%s=%s since %s tolerated until %s", p.Type, p.Status, c.LastTransitionTime.Format(time.RFC3339), due.Format(time.RFC3339)))
		if !now.Before(due) {
			tolerated = true
		}
	}
	return
}

// Node repair deletes a node only after its unhealthy condition has lasted the provider's toleration and only
// while at most 20% (rounded up) of the pool's nodes (cluster's nodes for a NodeClaim without pool) are unhealthy.
func (w *W) healthTrigger(nc *v1.NodeClaim) verdict {
	now := w.E.Clock.Now()
	f := map[string]any{"now": now.Format(time.RFC3339Nano)}
	nodes := w.nodesFor(nc.Status.ProviderID)
	if len(nodes) == 0 {
		return verdict{false, "no-node", f}
	}
	n := &nodes[0]
	matched, tolerated, which := w.matchesPolicy(n)
	f["node"], f["unhealthyConditions"] = n.Name, which
	if !matched {
		return verdict{false, "node-healthy", f}
	}
	if !tolerated {
		return verdict{false, "before-toleration", f}
	}
	pool, hasPool := nc.Labels[v1.NodePoolLabelKey]
	total, unhealthy := 0, 0
	for _, x := range w.allNodes() {
		if hasPool && x.Labels[v1.NodePoolLabelKey] != pool {
			continue
		}
		total++
		if m, _, _ := w.matchesPolicy(&x); m {
			unhealthy++
		}
	}
	allowed := (total + 4) / 5 // ceil(20% of total)
	f["pool"], f["population"], f["unhealthy"], f["allowedUnhealthy"] = pool, total, unhealthy, allowed
	if unhealthy > allowed {
		return verdict{false, "above-20pct", f}
	}
	return verdict{true, "tolerated+within-20pct", f}
}

var violationKeys = map[string]string{
	"expiration/expiry-disabled":  "expiration-deletes-with-expiry-disabled",
	"expiration/before-expiry":    "expiration-deletes-before-expiry",
	"gc/unregistered":             "gc-deletes-unregistered-nodeclaim",
	"gc/instance-still-listed":    "gc-deletes-while-instance-listed",
	"gc/node-ready":               "gc-deletes-while-node-ready",
	"gc/node-lookup-error":        "gc-deletes-after-node-lookup-error",
	"gc/list-error":               "gc-deletes-after-list-error",
	"liveness/registered":         "liveness-deletes-registered-nodeclaim",
	"liveness/before-timeout":     "liveness-deletes-before-timeout",
	"health/no-node":              "health-deletes-without-node",
	"health/node-healthy":         "health-deletes-healthy-node",
	"health/before-toleration":    "health-deletes-before-toleration",
	"health/above-20pct":          "health-deletes-above-unhealthy-threshold",
	"health/node-without-claim":   "health-deletes-node-without-nodeclaim",
	"gc/node-without-claim":       "gc-deletes-node-without-nodeclaim",
	"liveness/node-without-claim": "liveness-deletes-node-without-nodeclaim",
}

func keyFor(reaper, why string) string {
	if k, ok := violationKeys[reaper+"/"+why]; ok {
		return k
	}
	return reaper + "-deletes-" + why
}

// attribute names the reaper that issued a write from the Karpenter frames of its call stack.
func attribute(stack []string) string {
	for _, f := range stack {
		switch {
		case strings.HasPrefix(f, "controllers/nodeclaim/expiration."):
			return "expiration"
		case strings.HasPrefix(f, "controllers/nodeclaim/garbagecollection."):
			return "gc"
		case strings.HasPrefix(f, "controllers/nodeclaim/lifecycle.(*Liveness)"):
			return "liveness"
		case strings.HasPrefix(f, "controllers/node/health."):
			return "health"
		}
	}
	return "other"
}

// judgment is what the monitor concluded about one delete issued by a reaper, at the instant of the write.
type judgment struct {
	Reaper string         `json:"reaper"`
	Kind   string         `json:"kind"`
	Name   string         `json:"name"`
	Claim  string         `json:"claim"`
	OK     bool           `json:"triggerHeld"`
	Why    string         `json:"why"`
	Key    string         `json:"key,omitempty"`
	Facts  map[string]any `json:"facts,omitempty"`
	Seq    int            `json:"seq"`
	Caller string         `json:"caller"`
}

// onWrite is the synchronous monitor: it runs inside every successful write of the intercepted client,
// atomically with it, and judges deletes of NodeClaims / Nodes issued by one of the four reapers.
func (w *W) onWrite(ev *world.Event) {
	if ev.Verb != "delete" || ev.Caller == "" || (ev.Kind != "NodeClaim" && ev.Kind != "Node") {
		return
	}
	who := attribute(ev.Stack)
	j := judgment{Reaper: who, Kind: ev.Kind, Name: ev.Key, Seq: ev.Seq, Caller: ev.Caller, OK: true}
	defer func() {
		w.mu.Lock()
		w.judged = append(w.judged, j)
		w.mu.Unlock()
	}()
	if who == "other" {
		return
	}
	var nc *v1.NodeClaim
	switch b := ev.Before.(type) {
	case *v1.NodeClaim:
		nc = b
	case *corev1.Node:
		for _, name := range w.E.ClaimNames() {
			if c := w.claim(name); c != nil && c.Status.ProviderID == b.Spec.ProviderID && b.Spec.ProviderID != "" {
				nc = c
			}
		}
	}
	if nc == nil {
		j.OK, j.Why, j.Key = false, "node-without-claim", keyFor(who, "node-without-claim")
		return
	}
	j.Claim = nc.Name
	v := w.trigger(who, nc)
	j.OK, j.Why, j.Facts = v.OK, v.Why, v.Facts
	if who == "gc" {
		// "... and not when that cannot be established": a failed guarding read of this decision
		if msg := w.spy.lookupErr(nc.Status.ProviderID); msg != "" {
			j.OK, j.Why = false, "node-lookup-error"
			j.Facts["nodeLookupError"] = msg
			j.Facts["groundTruthTrigger"] = v.Why
		} else if msg := w.guardListErr(); msg != "" {
			j.OK, j.Why = false, "list-error"
			j.Facts["listError"] = msg
		}
	}
	if !j.OK {
		j.Key = keyFor(who, j.Why)
	}
}

// guardListErr: did the NodeClaim list or the provider List of the running GC reconcile fail?
func (w *W) guardListErr() string {
	w.spy.mu.Lock()
	msg := w.spy.claimListErr
	w.spy.mu.Unlock()
	if msg != "" {
		return "nodeclaim list: " + msg
	}
	calls := w.E.Provider.CallsCopy()
	for _, c := range calls[min(w.provMark, len(calls)):] {
		if c.Verb == "list" && c.Err != "" {
			return "provider list: " + c.Err
		}
	}
	return ""
}
