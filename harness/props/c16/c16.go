// Package c16: forceful reapers act only on their documented trigger.
//
// Four reapers delete NodeClaims without asking anybody: expiration, garbage collection, the liveness check
// of the lifecycle controller and node repair (node health). Each case prepares one state through the real
// pipeline (Provisioner.Schedule/Create -> lifecycle controller + kubelet actor), lets the rest of the world
// act on it (instance vanishes, Node goes NotReady / disappears, unhealthy conditions appear), puts the
// virtual clock at threshold-1s / threshold / threshold+1s of one NodeClaim and runs the real reconcilers.
// The state is first run fault-free to count the K reads (API get/list, provider get/list) of the decision,
// then rebuilt and rerun K times with read k failing (500 / 404 / timeout). A synchronous monitor inside the
// intercepted client judges every NodeClaim/Node delete issued by one of the reapers (attributed by call
// stack) against the documented trigger, evaluated on the authoritative world at that instant.
package c16

import (
	"context"
	"fmt"
	"math/rand"
	"sort"
	"strings"
	"time"

	corev1 "k8s.io/api/core/v1"
	"k8s.io/apimachinery/pkg/types"

	"verif/mon"
	"verif/props/reg"
	"verif/world"
)

var reapers = []string{"expiration", "gc", "liveness", "health"}

func init() {
	reg.Register(&reg.Prop{
		ID:    "C16",
		Level: "fault_enumeration",
		Rule: "case = (reaper, prepared NodeClaim/Node/provider state built through the real pipeline, clock offset around one threshold); " +
			"each case is executed once fault-free and once per (read call k of the decision x error kind); a run is non-trivial when a reaper " +
			"issued a delete that the monitor judged; signature = reaper | state class of the deleted claim | clock offset | injected fault (kind@verb:Kind)",
		Cases: cases,
		Run:   run,
		MinObserved: map[string]int{
			"expiration_deletes_judged": 10, "gc_deletes_judged": 10, "liveness_deletes_judged": 10, "health_deletes_judged": 10,
			"expiration_trigger_false_not_deleted": 10, "gc_trigger_false_not_deleted": 10, "liveness_trigger_false_not_deleted": 10, "health_trigger_false_not_deleted": 10,
			"faults_fired": 100, "gc_runs_with_failed_node_lookup": 5,
		},
	})
}

func cases(tier string) int {
	if tier == "thorough" {
		return 800
	}
	return 256
}

const maxEnum = 48 // reads enumerated per case (more are counted as truncated)

var faultKinds = []string{"500", "404", "timeout"}

type faultPlan struct {
	K      int
	Kind   string
	Sticky string `json:",omitempty"` // "" one-shot at read K | all-reads | node-lookups : every matching read fails from K on
}

// caseOf maps a case index to (reaper, variant): every block of four consecutive cases holds the four reapers,
// rotated so that a child process (which gets every n-th case) sees all of them.
func caseOf(idx int) (string, int) {
	block, pos := idx/len(reapers), idx%len(reapers)
	return reapers[(pos+block/len(reapers))%len(reapers)], block
}

func isGuardRead(verb, _, _ string) bool {
	return verb == "get" || verb == "list" || verb == "provider-get" || verb == "provider-list"
}

// outcome of one (subject NodeClaim, reconcile) pair = one decision.
type outcome struct {
	Claim      int    `json:"claim"`
	Name       string `json:"name"`
	Expected   bool   `json:"triggerBefore"`
	Why        string `json:"why"`
	Deleted    bool   `json:"deletedByReaper"`
	Faulted    bool   `json:"faultInReconcile"`
	ReconcileE string `json:"reconcileError,omitempty"`
}

type runResult struct {
	Reads        int
	Fired        string // "" or kind@verb:Kind
	Outcomes     []outcome
	Judged       []judgment
	Log          []string
	Trace        []string // every Karpenter API / provider call of the run in issue order
	Missed       bool
	Panic        string
	LookupFailed bool
}

func run(r *mon.Report, tier string, idx int, rng *rand.Rand) {
	reaper, n := caseOf(idx)
	S := draw(reaper, n, rng)
	seed := rng.Int63()
	r.Inc("cases_" + reaper)
	for _, off := range offsetsFor(S, n) {
		S.OffsetMs = off
		runAt(r, tier, idx, S, seed)
	}
}

// offsetsFor: clock positions around the threshold at which the prepared state is decided. The cheap reapers
// get all five positions per state, node repair (large pools) two per state, rotating.
func offsetsFor(S Spec, n int) []int {
	switch {
	case S.Threshold == "none":
		return []int{0}
	case S.Reaper == "health":
		return [][]int{{-1000, 1}, {0, -1}, {1000, -1}}[n%3]
	}
	return []int{-1000, -1, 0, 1, 1000}
}

// runAt executes one (state, clock position): fault-free, then one run per (read k, error kind), then persistent failures.
func runAt(r *mon.Report, tier string, idx int, S Spec, seed int64) {
	base := execute(r, S, seed, nil, idx)
	if base == nil {
		return
	}
	k := base.Reads
	r.Count("reads_in_fault_free_runs", k)
	if k > maxEnum {
		r.Count("reads_not_enumerated", k-maxEnum)
		k = maxEnum
	}
	for i := 1; i <= k; i++ {
		kinds := []string{faultKinds[(i+idx)%len(faultKinds)]}
		if tier == "thorough" {
			kinds = faultKinds
		}
		for _, kind := range kinds {
			execute(r, S, seed, &faultPlan{K: i, Kind: kind}, idx)
		}
	}
	// persistent failures: every read fails (API server / provider outage); for GC also: only the Node lookups fail
	stickies := []string{"all-reads"}
	if S.Reaper == "gc" {
		stickies = append(stickies, "node-lookups")
	}
	for si, st := range stickies {
		kinds := []string{faultKinds[(si+idx)%len(faultKinds)]}
		if tier == "thorough" {
			kinds = faultKinds
		}
		for _, kind := range kinds {
			execute(r, S, seed, &faultPlan{K: 1, Kind: kind, Sticky: st}, idx)
		}
	}
	if r.WantSample() && len(base.Judged) > 0 && idx >= 4 {
		r.Sample(map[string]any{"case": idx, "spec": S, "fault_free_run": map[string]any{"decisions": base.Outcomes, "deletes_judged": base.Judged, "log": base.Log}, "reads_enumerated": k})
	}
}

// execute builds the state, runs the reaper under the monitors (with at most one injected read failure) and accounts for it.
func execute(r *mon.Report, S Spec, seed int64, plan *faultPlan, idx int) *runResult {
	w, err := build(S, seed)
	if err != nil {
		r.Inc("build_failed")
		if plan == nil {
			r.Inconcl("case %d: state could not be prepared: %v", idx, err)
		}
		return nil
	}
	e := w.E
	e.API.KeepReads = true
	res := &runResult{Missed: w.missed}
	f := &world.Fault{AtCall: 1 << 30, Kind: "500", Match: func(verb, kind, caller string) bool {
		// runs under the API's log mutex, once per Karpenter call, in issue order
		if len(res.Trace) < 120 {
			res.Trace = append(res.Trace, fmt.Sprintf("%d %s %s by %s", len(res.Trace)+1, verb, kind, caller))
		}
		if isGuardRead(verb, kind, caller) {
			res.Reads++
			return true
		}
		return false
	}}
	if plan != nil {
		f.AtCall, f.Kind, f.Sticky = plan.K, plan.Kind, plan.Sticky != ""
		if plan.Sticky == "node-lookups" {
			count := f.Match
			f.Match = func(verb, kind, caller string) bool {
				return count(verb, kind, caller) && verb == "list" && kind == "Node" && strings.Contains(caller, "AllNodesForNodeClaim")
			}
		}
	}
	logStart := e.API.LogLen()
	provStart := len(e.Provider.CallsCopy())
	e.API.SetFaults(f)
	panicked, pv, stack := mon.Guard(func() { w.runReaper(res) })
	e.API.ClearFaults()
	r.Eval()
	r.Inc("runs")
	if panicked {
		res.Panic = fmt.Sprint(pv)
		r.Inconcl("case %d: panic while reconciling (%v)\n%s", idx, pv, firstLines(stack, 12))
		return res
	}
	res.Log = w.excerpt(logStart, provStart)
	if plan != nil {
		r.Inc("runs_with_fault_plan")
		if f.Fired {
			res.Fired = plan.Kind + "@" + w.firedAt(logStart, provStart)
			if plan.Sticky != "" {
				res.Fired = plan.Kind + "@sticky:" + plan.Sticky
			}
			r.Inc("faults_fired")
			r.Inc("fault_" + res.Fired)
		} else {
			r.Inc("fault_not_reached") // an earlier failure / different parallel order shortened the run
		}
	}
	w.mu.Lock()
	res.Judged = append([]judgment(nil), w.judged...)
	w.mu.Unlock()
	account(r, w, res, plan, idx)
	return res
}

func firstLines(s string, n int) string {
	l := strings.Split(s, "\n")
	if len(l) > n {
		l = l[:n]
	}
	return strings.Join(l, "\n")
}

func offLabel(S Spec) string {
	if S.Threshold == "none" {
		return "none"
	}
	return fmt.Sprintf("%s%+dms", S.Threshold, S.OffsetMs)
}

func account(r *mon.Report, w *W, res *runResult, plan *faultPlan, idx int) {
	S := w.S
	reaper := S.Reaper
	if res.Missed {
		r.Inc("boundary_missed")
	} else if S.Threshold != "none" {
		r.Inc("boundary_placed")
	}
	fault := "none"
	if res.Fired != "" {
		fault = res.Fired
	}
	if res.LookupFailed {
		r.Inc("gc_runs_with_failed_node_lookup")
	}
	if w.joins > 0 {
		r.Count("gc_claims_registered_inside_the_pass", w.joins)
	}
	caseDesc := map[string]any{"case": idx, "spec": S, "fault": plan, "names": w.Names, "nodes": w.Nodes}
	// most telling witnesses first: a delete whose trigger is false on the ground truth as well
	sort.SliceStable(res.Judged, func(a, b int) bool { return groundFalse(res.Judged[a]) && !groundFalse(res.Judged[b]) })
	for _, j := range res.Judged {
		if j.Reaper == "other" {
			r.Inc("deletes_by_other_karpenter_code")
			continue
		}
		r.Inc(j.Reaper + "_deletes_judged")
		r.Inc(j.Reaper + "_delete_reason_" + j.Why)
		if j.Reaper != reaper {
			r.Inconcl("case %d: delete attributed to %s while %s was reconciling (%s)", idx, j.Reaper, reaper, j.Caller)
		}
		cls := "?"
		for i, n := range w.Names {
			if n != "" && n == j.Claim {
				cls = class(S.Claims[i])
			}
		}
		if j.Reaper == "health" && j.Facts["population"] != nil {
			cls += fmt.Sprintf("+unhealthy%vof%v", j.Facts["unhealthy"], j.Facts["population"])
		}
		r.Sig("%s|%s|%s|fault=%s", j.Reaper, cls, offLabel(S), fault)
		r.DistinctAdd("deleted_state_classes", j.Reaper+"|"+cls+"|"+j.Why)
		if !j.OK {
			what := fmt.Sprintf("%s deleted %s %s although its documented trigger did not hold: %s (clock %s, fault %s)", j.Reaper, j.Kind, j.Name, j.Why, offLabel(S), fault)
			if j.Why == "node-lookup-error" {
				r.Inc("gc_deleted_after_failed_node_lookup_ground_truth_" + fmt.Sprint(j.Facts["groundTruthTrigger"]))
				what = fmt.Sprintf("garbage collection deleted NodeClaim %s in the reconcile in which the Node lookup guarding that deletion failed (%v); "+
					"ground truth at that instant: instance listed=%v, nodes=%v, node Ready=%v (%v); fault %s",
					j.Name, j.Facts["nodeLookupError"], j.Facts["instanceListed"], j.Facts["nodes"], j.Facts["nodeReady"], j.Facts["groundTruthTrigger"], fault)
			}
			r.Violate(j.Key, what, caseDesc, map[string]any{"judgment": j, "decisions": res.Outcomes, "call_order": res.Trace, "event_log": res.Log})
		}
	}
	for _, o := range res.Outcomes {
		r.Inc("decisions")
		r.Inc("decisions_" + reaper)
		switch {
		case o.Expected && o.Deleted:
			r.Inc(reaper + "_trigger_true_deleted")
		case o.Expected && !o.Deleted:
			if o.Faulted {
				r.Inc(reaper + "_trigger_true_not_deleted_under_fault")
			} else {
				r.Inc(reaper + "_trigger_true_not_deleted")
			}
		case !o.Expected && !o.Deleted:
			r.Inc(reaper + "_trigger_false_not_deleted")
			r.Inc(reaper + "_kept_because_" + o.Why)
			if o.Faulted {
				r.Inc(reaper + "_trigger_false_not_deleted_under_fault")
			}
		default:
			r.Inc(reaper + "_trigger_false_deleted") // every one of these is also a violation above
		}
		if plan == nil && o.Claim == S.Target && S.Threshold != "none" && !res.Missed {
			r.Inc(fmt.Sprintf("target_%s_%+dms_%s", S.Threshold, S.OffsetMs, map[bool]string{true: "deleted", false: "kept"}[o.Deleted]))
		}
	}
}

func groundFalse(j judgment) bool {
	if j.OK {
		return false
	}
	if g, ok := j.Facts["groundTruthTrigger"]; ok {
		return g == "node-ready" || g == "instance-still-listed" || g == "unregistered"
	}
	return true
}

// class is the state class of one claim (what the signature distinguishes).
func class(c ClaimSpec) string {
	p := []string{fmt.Sprintf("stage%d", c.Stage)}
	if c.Pool < 0 {
		p = append(p, "standalone")
	}
	if c.LaunchFail {
		p = append(p, "launchfail")
		if c.LaunchRecovers {
			p = append(p, "recovers")
		}
	}
	if c.Vanish {
		p = append(p, "vanished")
	}
	if c.Node != "" {
		p = append(p, "node-"+c.Node)
	}
	if c.Deleting {
		p = append(p, "deleting")
	}
	if len(c.Unhealthy) > 0 {
		p = append(p, fmt.Sprintf("unhealthy%v", c.Unhealthy))
	}
	return strings.Join(p, "+")
}

// ---- running the reapers ----

func (w *W) order() []int {
	var out []int
	if w.S.Order == "target-first" && w.S.Target >= 0 && w.S.Target < len(w.Names) {
		out = append(out, w.S.Target)
	}
	for i := range w.Names {
		if len(out) > 0 && i == out[0] {
			continue
		}
		out = append(out, i)
	}
	return out
}

func (w *W) runReaper(res *runResult) {
	e := w.E
	ctx := context.Background()
	switch w.S.Reaper {
	case "expiration":
		for _, i := range w.order() {
			nc := w.claim(w.Names[i])
			if w.Names[i] == "" || nc == nil {
				continue
			}
			w.decide(res, []int{i}, func() error { _, err := w.exp.Reconcile(e.Ctx, nc); return err })
		}
	case "liveness":
		for _, i := range w.order() {
			name := w.Names[i]
			if name == "" || w.claim(name) == nil {
				continue
			}
			if w.S.Claims[i].LaunchRecovers {
				w.failing[name] = false
			}
			w.decide(res, []int{i}, func() error { _, err := e.ReconcileClaim(name); return err })
		}
	case "health":
		for _, i := range w.order() {
			if w.Names[i] == "" || w.Nodes[i] == "" {
				continue
			}
			n := &corev1.Node{}
			if e.API.Raw.Get(ctx, types.NamespacedName{Name: w.Nodes[i]}, n) != nil {
				continue
			}
			w.decide(res, []int{i}, func() error { _, err := w.health.Reconcile(e.Ctx, n); return err })
		}
		for j := range w.S.Extra { // Nodes without NodeClaim: nothing may be deleted
			n := &corev1.Node{}
			if e.API.Raw.Get(ctx, types.NamespacedName{Name: fmt.Sprintf("extra-%d", j)}, n) == nil {
				w.decide(res, nil, func() error { _, err := w.health.Reconcile(e.Ctx, n); return err })
			}
		}
	case "gc":
		var all []int
		for i, n := range w.Names {
			if n != "" && w.claim(n) != nil {
				all = append(all, i)
			}
		}
		// claims whose scale-up completes inside the pass
		join := func(where string) {
			for i, c := range w.S.Claims {
				if c.JoinsDuringPass != where || w.toCreate[i] == nil || w.joined[i] {
					continue
				}
				w.joined[i] = true
				name, err := e.Prov.Create(e.Ctx, w.toCreate[i])
				if err != nil {
					continue
				}
				w.Names[i] = name
				if inst, node, err := e.DriveClaim(name, world.StageRegistered); err == nil && inst != nil {
					w.PIDs[i], w.Nodes[i] = inst.ProviderID, node
					w.joins++
				}
			}
		}
		e.Provider.OnList = func() { join("provider-list") }
		e.API.PostRead = []func(verb, kind, caller string){func(verb, kind, caller string) {
			if verb == "list" && kind == "NodeClaim" && strings.Contains(caller, "garbagecollection") {
				join("claim-list")
			}
		}}
		w.decide(res, all, func() error { _, err := w.gc.Reconcile(e.Ctx); return err })
		e.Provider.OnList, e.API.PostRead = nil, nil
		w.spy.mu.Lock()
		res.LookupFailed = len(w.spy.nodeLookupErr) > 0
		w.spy.mu.Unlock()
	}
}

// decide runs one reconcile; subjects are the NodeClaims it decides about.
func (w *W) decide(res *runResult, subjects []int, reconcile func() error) {
	e := w.E
	reaper := w.S.Reaper
	pre := map[int]verdict{}
	for _, i := range subjects {
		if nc := w.claim(w.Names[i]); nc != nil {
			pre[i] = w.trigger(reaper, nc)
		}
	}
	w.mu.Lock()
	mark := len(w.judged)
	w.cur = reaper
	w.mu.Unlock()
	logMark := e.API.LogLen()
	w.provMark = len(e.Provider.CallsCopy())
	w.spy.reset()
	err := reconcile()
	faulted := false
	for _, ev := range e.API.LogSince(logMark) {
		faulted = faulted || ev.Injected
	}
	calls := e.Provider.CallsCopy()
	for _, c := range calls[w.provMark:] {
		faulted = faulted || injectedText(c.Err)
	}
	w.mu.Lock()
	js := append([]judgment(nil), w.judged[mark:]...)
	w.cur = ""
	w.mu.Unlock()
	for _, i := range subjects {
		v, ok := pre[i]
		if !ok {
			continue
		}
		o := outcome{Claim: i, Name: w.Names[i], Expected: v.OK, Why: v.Why, Faulted: faulted}
		if err != nil {
			o.ReconcileE = firstLines(err.Error(), 1)
		}
		for _, j := range js {
			if j.Reaper == reaper && j.Claim == w.Names[i] {
				o.Deleted = true
			}
		}
		res.Outcomes = append(res.Outcomes, o)
	}
}

func injectedText(s string) bool {
	return strings.Contains(s, "injected") || strings.Contains(s, "deadline exceeded")
}

// firedAt names the read the injected failure hit.
func (w *W) firedAt(logStart, provStart int) string {
	for _, ev := range w.E.API.LogSince(logStart) {
		if ev.Injected {
			return ev.Verb + ":" + ev.Kind
		}
	}
	calls := w.E.Provider.CallsCopy()
	for _, c := range calls[provStart:] {
		if injectedText(c.Err) {
			return "provider-" + c.Verb + ":Instance"
		}
	}
	return "?"
}

// excerpt renders the event log (API calls by Karpenter code incl. reads, and provider calls) of the run.
func (w *W) excerpt(logStart, provStart int) []string {
	type line struct {
		t time.Time
		n int
		s string
	}
	var ls []line
	for _, ev := range w.E.API.LogSince(logStart) {
		if ev.Caller == "" {
			continue
		}
		s := fmt.Sprintf("api#%d %s %s %s %s by %s", ev.Seq, ev.VTime.Format("15:04:05.000"), ev.Verb, ev.Kind, ev.Key, ev.Caller)
		if ev.Err != "" {
			s += " -> ERR " + firstLines(ev.Err, 1)
			if ev.Injected {
				s += " [injected]"
			}
		}
		ls = append(ls, line{ev.VTime, len(ls), s})
	}
	calls := w.E.Provider.CallsCopy()
	for _, c := range calls[provStart:] {
		s := fmt.Sprintf("provider#%d %s %s %s%s by %s", c.Seq, c.VTime.Format("15:04:05.000"), c.Verb, c.ClaimName, c.ProviderID, c.Caller)
		if c.Err != "" {
			s += " -> ERR " + firstLines(c.Err, 1)
		}
		ls = append(ls, line{c.VTime, len(ls), s})
	}
	sort.SliceStable(ls, func(i, j int) bool { return ls[i].t.Before(ls[j].t) })
	var out []string
	for _, l := range ls {
		if len(out) >= 80 {
			out = append(out, "...")
			break
		}
		out = append(out, l.s)
	}
	return out
}
