package c16

import (
	"context"
	"errors"
	"fmt"
	"math/rand"
	"sort"
	"sync"
	"time"

	corev1 "k8s.io/api/core/v1"
	metav1 "k8s.io/apimachinery/pkg/apis/meta/v1"
	"k8s.io/apimachinery/pkg/types"
	"sigs.k8s.io/controller-runtime/pkg/client"

	v1 "sigs.k8s.io/karpenter/pkg/apis/v1"
	"sigs.k8s.io/karpenter/pkg/cloudprovider"
	"sigs.k8s.io/karpenter/pkg/controllers/node/health"
	"sigs.k8s.io/karpenter/pkg/controllers/nodeclaim/expiration"
	"sigs.k8s.io/karpenter/pkg/controllers/nodeclaim/garbagecollection"
	provscheduling "sigs.k8s.io/karpenter/pkg/controllers/provisioning/scheduling"
	"sigs.k8s.io/karpenter/pkg/test"

	"verif/gen"
	"verif/props/common"
	"verif/world"
)

// ---- serialisable description of one prepared state (complete generator parameters) ----

// PoolSpec is one NodePool of the state.
type PoolSpec struct {
	ExpireAfter string `json:"expireAfter"` // "Never" or a duration
}

// PolicySpec is one provider repair policy.
type PolicySpec struct {
	Type      string `json:"type"`
	Status    string `json:"status"`
	TolerateS int    `json:"tolerationSeconds"`
}

// ClaimSpec describes how one NodeClaim (and its instance / Node) is prepared.
type ClaimSpec struct {
	Pool           int    `json:"pool"`                     // index into Pools; -1 = standalone NodeClaim without a NodePool label
	Stage          int    `json:"stage"`                    // world.Stage the claim is driven to through the real lifecycle controller
	StepBeforeMs   int    `json:"stepBeforeMs"`             // clock step before the claim is created
	LaunchFail     bool   `json:"launchFail,omitempty"`     // provider Create keeps failing with a generic error
	LaunchRecovers bool   `json:"launchRecovers,omitempty"` // ... but succeeds in the reconcile under test
	Vanish         bool   `json:"vanish,omitempty"`         // the instance disappears from the provider (no longer listed)
	Node           string `json:"node,omitempty"`           // "" as driven | ready | notready | unknown | absent
	Deleting       bool   `json:"deleting,omitempty"`       // NodeClaim already carries a deletionTimestamp
	// DupNode: a second Node object with the claim's providerID exists before registration (Registered goes False with
	// MultipleNodesFound instead of True): "" | "fresh" (first seen by the reconcile under test) | "seen" (already reconciled once)
	DupNode        string `json:"dupNode,omitempty"`
	Unhealthy      []int  `json:"unhealthy,omitempty"`      // indexes of repair policies whose condition the Node shows
	UnhealthyStepS int    `json:"unhealthyStepS,omitempty"` // clock step before the unhealthy condition is set
	UnhealthyGapS  int    `json:"unhealthyGapS,omitempty"`  // clock step between two unhealthy conditions of the same node
	NoiseCond      bool   `json:"noiseCond,omitempty"`      // Node carries a policy condition type in the non-matching status
	// NodeTerminating: the (unhealthy) Node already carries a deletionTimestamp and lingers behind its termination finalizer
	NodeTerminating bool `json:"nodeTerminating,omitempty"`
	// JoinsDuringPass: the claim is only created when the reaper runs; inside the pass (right after the provider's List took
	// its snapshot / right after the NodeClaim list returned) its scale-up completes: instance launched, Node joined
	// NotReady, NodeClaim Registered
	JoinsDuringPass string `json:"joinsDuringPass,omitempty"` // "" | provider-list | claim-list
}

// ExtraNode is a hand-built Node without a NodeClaim (not managed by Karpenter).
type ExtraNode struct {
	Pool      int   `json:"pool"` // pool label it carries (-1 none)
	Unhealthy []int `json:"unhealthy,omitempty"`
}

// Spec is the complete description of a prepared state + clock position.
type Spec struct {
	Reaper    string       `json:"reaper"`
	Pools     []PoolSpec   `json:"pools"`
	Policies  []PolicySpec `json:"policies,omitempty"`
	Claims    []ClaimSpec  `json:"claims"`
	Extra     []ExtraNode  `json:"extraNodes,omitempty"`
	Target    int          `json:"target"`    // claim whose threshold the clock is placed around (-1 none)
	Threshold string       `json:"threshold"` // expire | launch | register | toleration | none
	OffsetMs  int          `json:"offsetMs"`  // clock = threshold + offset
	JumpS     int          `json:"jumpS"`     // threshold none: clock jump after the build
	Order     string       `json:"order"`     // target-first | name
}

const (
	launchTimeout       = 5 * time.Minute  // documented: lifecycle.LaunchTimeout
	registrationTimeout = 15 * time.Minute // documented: liveness registrationTimeout
)

// W is one built world with the reapers under test and the monitor state.
type W struct {
	S     Spec
	E     *world.Env
	Sc    *common.Scenario
	Names []string // NodeClaim name per ClaimSpec ("" when the pipeline did not create it)
	PIDs  []string
	Nodes []string

	exp    *expiration.Controller
	gc     *garbagecollection.Controller
	health *health.Controller
	spy    *spyClient

	failing   map[string]bool
	recovered bool
	joined    map[int]bool // claims whose in-pass scale-up has been played
	toCreate  map[int]*provscheduling.NodeClaim
	joins     int

	mu        sync.Mutex
	cur       string // reaper currently reconciling
	judged    []judgment
	threshold time.Time
	provMark  int  // provider call log position at the start of the running reconcile
	missed    bool // the clock could not be placed on the requested boundary
}

// spyClient decorates the intercepted client handed to the GC controller: it remembers, per provider id,
// whether the Node lookup that guards the deletion of that NodeClaim returned an error (the event log does
// not carry list selectors). Everything is delegated to the intercepted client, so logging, fault injection
// and caller attribution are unchanged.
type spyClient struct {
	client.Client
	mu            sync.Mutex
	nodeLookupErr map[string]string
	claimListErr  string
}

func (s *spyClient) reset() {
	s.mu.Lock()
	s.nodeLookupErr = map[string]string{}
	s.claimListErr = ""
	s.mu.Unlock()
}

func (s *spyClient) List(ctx context.Context, list client.ObjectList, opts ...client.ListOption) error {
	err := s.Client.List(ctx, list, opts...)
	if err == nil {
		return nil
	}
	s.mu.Lock()
	defer s.mu.Unlock()
	switch list.(type) {
	case *corev1.NodeList:
		for _, o := range opts {
			if mf, ok := o.(client.MatchingFields); ok {
				if pid, ok := mf["spec.providerID"]; ok {
					s.nodeLookupErr[pid] = err.Error()
				}
			}
		}
	case *v1.NodeClaimList:
		s.claimListErr = err.Error()
	}
	return err
}

func (s *spyClient) lookupErr(pid string) string {
	s.mu.Lock()
	defer s.mu.Unlock()
	return s.nodeLookupErr[pid]
}

func (s Spec) policies() []cloudprovider.RepairPolicy {
	var out []cloudprovider.RepairPolicy
	for _, p := range s.Policies {
		out = append(out, cloudprovider.RepairPolicy{ConditionType: corev1.NodeConditionType(p.Type), ConditionStatus: corev1.ConditionStatus(p.Status),
			TolerationDuration: time.Duration(p.TolerateS) * time.Second})
	}
	return out
}

// build prepares the state described by S. The same (S, seed) always yields the same world, so the
// fault enumeration reruns the identical prepared state.
func build(S Spec, seed int64) (*W, error) {
	rng := rand.New(rand.NewSource(seed))
	cfg := common.DefaultScenarioCfg()
	cfg.MinPools, cfg.MaxPools = len(S.Pools), len(S.Pools)
	cfg.MaxDaemons, cfg.Unmanaged, cfg.PerPoolCatalog = 0, false, false
	cfg.Catalog.PUnavailable, cfg.Catalog.GPU, cfg.Catalog.Overrides = 0, false, false
	cfg.Pool.PRequirement, cfg.Pool.NumericOps = 0.3, false
	nr := true
	cfg.Options = test.OptionsFields{FeatureGates: test.FeatureGates{NodeRepair: &nr}}
	sc := common.Build(rng, cfg)
	e := sc.Env
	w := &W{S: S, E: e, Sc: sc, Names: make([]string, len(S.Claims)), PIDs: make([]string, len(S.Claims)), Nodes: make([]string, len(S.Claims)), failing: map[string]bool{}, joined: map[int]bool{}, toCreate: map[int]*provscheduling.NodeClaim{}}
	e.Provider.Repair = S.policies()
	e.Provider.CreateErrFn = func(nc *v1.NodeClaim) error {
		if w.failing[nc.Name] && !w.recovered {
			return errors.New("simulated launch failure")
		}
		return nil
	}
	for i, np := range sc.Pools {
		np.Spec.Template.Spec.ExpireAfter = v1.MustParseNillableDuration(S.Pools[i].ExpireAfter)
		e.Apply(np)
	}
	ctx := context.Background()

	// one seed pod per pool claim: same host port (=> one NodeClaim each), tolerates every taint, pinned to its pool
	pods := make([]*corev1.Pod, len(S.Claims))
	for i, c := range S.Claims {
		if c.Pool < 0 {
			continue
		}
		pods[i] = gen.Pod(fmt.Sprintf("seed-%d", i), 100, 64, gen.WithHostPort(9000, corev1.ProtocolTCP, ""),
			gen.WithToleration(corev1.Toleration{Operator: corev1.TolerationOpExists}), gen.WithNodeSelector(v1.NodePoolLabelKey, sc.Pools[c.Pool].Name))
		e.Apply(pods[i])
	}
	if err := e.SyncState(); err != nil {
		return nil, fmt.Errorf("state sync: %w", err)
	}
	byPod := map[string]*provscheduling.NodeClaim{}
	if res, err := e.Prov.Schedule(e.Ctx); err == nil {
		for _, nc := range res.NewNodeClaims {
			if len(nc.Pods) == 1 {
				byPod[nc.Pods[0].Name] = nc
			}
		}
	} else if !errors.Is(err, context.Canceled) && len(S.Claims) > 0 {
		hasPool := false
		for _, c := range S.Claims {
			hasPool = hasPool || c.Pool >= 0
		}
		if hasPool {
			return nil, fmt.Errorf("schedule: %w", err)
		}
	}
	// create (real Provisioner.Create / a hand-written standalone NodeClaim) at staggered instants
	for i, c := range S.Claims {
		e.Clock.Step(time.Duration(c.StepBeforeMs) * time.Millisecond)
		if c.Pool < 0 {
			nc := &v1.NodeClaim{ObjectMeta: metav1.ObjectMeta{Name: fmt.Sprintf("standalone-%d", i)},
				Spec: v1.NodeClaimSpec{NodeClassRef: gen.NodeClassRef(), ExpireAfter: v1.MustParseNillableDuration("Never"),
					Requirements: []v1.NodeSelectorRequirementWithMinValues{{Key: corev1.LabelOSStable, Operator: corev1.NodeSelectorOpIn, Values: []string{"linux"}}},
					Resources:    v1.ResourceRequirements{Requests: corev1.ResourceList{corev1.ResourceCPU: gen.Q("100m")}}}}
			e.Apply(nc)
			w.Names[i] = nc.Name
			continue
		}
		nc := byPod[pods[i].Name]
		if nc == nil {
			continue
		}
		if c.JoinsDuringPass != "" {
			w.toCreate[i] = nc // created, launched and registered inside the pass under test
			continue
		}
		name, err := e.Prov.Create(e.Ctx, nc)
		if err != nil {
			continue
		}
		w.Names[i] = name
	}
	// drive through the real lifecycle controller + kubelet actor
	for i, c := range S.Claims {
		name := w.Names[i]
		if name == "" {
			continue
		}
		if c.LaunchFail {
			w.failing[name] = true
			_, _ = e.ReconcileClaim(name) // finalizer + failing launch: Launched stays Unknown
			continue
		}
		inst, node, err := e.DriveClaim(name, world.Stage(c.Stage))
		if err != nil {
			return nil, fmt.Errorf("drive %s to stage %d: %w", name, c.Stage, err)
		}
		if inst != nil {
			w.PIDs[i] = inst.ProviderID
		}
		w.Nodes[i] = node
		if c.DupNode != "" && node != "" {
			n := &corev1.Node{}
			if e.API.Raw.Get(ctx, types.NamespacedName{Name: node}, n) == nil {
				d := n.DeepCopy()
				d.ObjectMeta = metav1.ObjectMeta{Name: node + "-dup", Labels: n.Labels, UID: types.UID("node-" + node + "-dup")}
				if d.Labels != nil {
					d.Labels = map[string]string{}
					for k, v := range n.Labels {
						d.Labels[k] = v
					}
					d.Labels[corev1.LabelHostname] = d.Name
				}
				e.Apply(d)
				if c.DupNode == "seen" {
					e.Clock.Step(20 * time.Second)
					_, _ = e.ReconcileClaim(name) // Registered=False (MultipleNodesFound) is stored
				}
			}
		}
		if node != "" && c.Stage >= int(world.StageRegistered) && pods[i] != nil {
			e.Bind(pods[i], node)
		}
	}
	// what the rest of the world does to the claim afterwards
	for i, c := range S.Claims {
		if w.Names[i] == "" {
			continue
		}
		if c.Vanish && w.PIDs[i] != "" {
			e.Provider.Vanish(w.PIDs[i])
		}
		if n := w.Nodes[i]; n != "" {
			switch c.Node {
			case "ready":
				e.KubeletReady(n, true)
			case "notready":
				e.KubeletNotReady(n)
			case "unknown":
				w.setNodeCond(n, string(corev1.NodeReady), string(corev1.ConditionUnknown))
			case "absent":
				w.removeNode(n)
			}
			if c.NoiseCond {
				for _, p := range S.Policies {
					if p.Type != string(corev1.NodeReady) {
						w.setNodeCond(n, p.Type, opposite(p.Status))
					}
				}
			}
		}
		if c.Deleting {
			nc := &v1.NodeClaim{}
			if e.API.Raw.Get(ctx, types.NamespacedName{Name: w.Names[i]}, nc) == nil {
				_ = e.API.Raw.Delete(ctx, nc)
			}
		}
	}
	for j, x := range S.Extra {
		name := fmt.Sprintf("extra-%d", j)
		lbls := map[string]string{corev1.LabelHostname: name}
		if x.Pool >= 0 {
			lbls[v1.NodePoolLabelKey] = sc.Pools[x.Pool].Name
		}
		n := &corev1.Node{ObjectMeta: metav1.ObjectMeta{Name: name, Labels: lbls}, Spec: corev1.NodeSpec{ProviderID: "unmanaged://" + name},
			Status: corev1.NodeStatus{Phase: corev1.NodeRunning, Conditions: []corev1.NodeCondition{{Type: corev1.NodeReady, Status: corev1.ConditionTrue,
				LastTransitionTime: metav1.NewTime(e.Clock.Now().Truncate(time.Second))}}}}
		e.Apply(n)
		for _, pi := range x.Unhealthy {
			w.setNodeCond(name, S.Policies[pi].Type, S.Policies[pi].Status)
		}
	}
	// unhealthy conditions appear one after the other; the target's last, so that its toleration boundary is still ahead
	sick := func(i int) {
		c := S.Claims[i]
		if len(c.Unhealthy) == 0 || w.Nodes[i] == "" {
			return
		}
		e.Clock.Step(time.Duration(c.UnhealthyStepS) * time.Second)
		for k, pi := range c.Unhealthy {
			if k > 0 {
				e.Clock.Step(time.Duration(c.UnhealthyGapS) * time.Second)
			}
			w.setNodeCond(w.Nodes[i], S.Policies[pi].Type, S.Policies[pi].Status)
		}
		if c.NodeTerminating {
			n := &corev1.Node{}
			if e.API.Raw.Get(ctx, types.NamespacedName{Name: w.Nodes[i]}, n) == nil && len(n.Finalizers) > 0 {
				_ = e.API.Raw.Delete(ctx, n) // stays, terminating, behind the finalizer
			}
		}
	}
	for i := range S.Claims {
		if i != S.Target {
			sick(i)
		}
	}
	if S.Target >= 0 && S.Target < len(S.Claims) {
		sick(S.Target)
	}
	w.placeClock()

	w.exp = expiration.NewController(e.Clock, e.API.Client, e.Provider)
	w.spy = &spyClient{Client: e.API.Client}
	w.spy.reset()
	w.gc = garbagecollection.NewController(e.Clock, w.spy, e.Provider)
	w.health = health.NewController(e.API.Client, e.Provider, e.Clock, e.Recorder)
	e.API.PostWrite = append(e.API.PostWrite, w.onWrite)
	return w, nil
}

func opposite(st string) string {
	if st == string(corev1.ConditionTrue) {
		return string(corev1.ConditionFalse)
	}
	return string(corev1.ConditionTrue)
}

// setNodeCond is the kubelet / node-problem-detector / node-lifecycle-controller actor: it sets one Node
// condition; lastTransitionTime moves only when the status changes.
func (w *W) setNodeCond(node, typ, st string) {
	n := &corev1.Node{}
	if w.E.API.Raw.Get(context.Background(), types.NamespacedName{Name: node}, n) != nil {
		return
	}
	now := metav1.NewTime(w.E.Clock.Now().Truncate(time.Second))
	found := false
	for i := range n.Status.Conditions {
		c := &n.Status.Conditions[i]
		if string(c.Type) == typ {
			found = true
			if string(c.Status) != st {
				c.Status = corev1.ConditionStatus(st)
				c.LastTransitionTime = now
			}
			c.LastHeartbeatTime = now
		}
	}
	if !found {
		n.Status.Conditions = append(n.Status.Conditions, corev1.NodeCondition{Type: corev1.NodeConditionType(typ), Status: corev1.ConditionStatus(st),
			LastTransitionTime: now, LastHeartbeatTime: now, Reason: "harness"})
	}
	w.E.Apply(n)
}

// removeNode: the Node object disappears (deleted by an operator / the cloud controller manager).
func (w *W) removeNode(node string) {
	ctx := context.Background()
	n := &corev1.Node{}
	if w.E.API.Raw.Get(ctx, types.NamespacedName{Name: node}, n) != nil {
		return
	}
	if len(n.Finalizers) > 0 {
		n.Finalizers = nil
		_ = w.E.API.Raw.Update(ctx, n)
	}
	_ = client.IgnoreNotFound(w.E.API.Raw.Delete(ctx, n))
}

func (w *W) claim(name string) *v1.NodeClaim {
	nc := &v1.NodeClaim{}
	if w.E.API.Raw.Get(context.Background(), types.NamespacedName{Name: name}, nc) != nil {
		return nil
	}
	return nc
}

func (w *W) allNodes() []corev1.Node {
	l := &corev1.NodeList{}
	_ = w.E.API.Raw.List(context.Background(), l)
	sort.Slice(l.Items, func(i, j int) bool { return l.Items[i].Name < l.Items[j].Name })
	return l.Items
}

func (w *W) nodesFor(pid string) []corev1.Node {
	var out []corev1.Node
	if pid == "" {
		return nil
	}
	for _, n := range w.allNodes() {
		if n.Spec.ProviderID == pid {
			out = append(out, n)
		}
	}
	return out
}

// placeClock moves the virtual clock to threshold+offset of the target claim (or jumps ahead).
func (w *W) placeClock() {
	e, S := w.E, w.S
	if S.Threshold == "none" || S.Target < 0 || S.Target >= len(w.Names) || w.Names[S.Target] == "" {
		e.Clock.Step(time.Duration(S.JumpS) * time.Second)
		return
	}
	nc := w.claim(w.Names[S.Target])
	if nc == nil {
		w.missed = true
		return
	}
	var thr time.Time
	switch S.Threshold {
	case "expire":
		if nc.Spec.ExpireAfter.Duration == nil {
			e.Clock.Step(time.Duration(S.JumpS) * time.Second)
			return
		}
		thr = nc.CreationTimestamp.Add(*nc.Spec.ExpireAfter.Duration)
	case "launch":
		_, since, _ := condOf(nc, v1.ConditionTypeLaunched)
		thr = since.Add(launchTimeout)
	case "register":
		_, since, _ := condOf(nc, v1.ConditionTypeRegistered)
		thr = since.Add(registrationTimeout)
	case "toleration":
		c := S.Claims[S.Target]
		nodes := w.nodesFor(w.PIDs[S.Target])
		if len(c.Unhealthy) == 0 || len(nodes) == 0 {
			w.missed = true
			return
		}
		// the boundary is the earliest moment at which any of the node's matching conditions has lasted its toleration
		for _, pi := range c.Unhealthy {
			p := S.Policies[pi]
			for _, cond := range nodes[0].Status.Conditions {
				if string(cond.Type) == p.Type && string(cond.Status) == p.Status {
					if due := cond.LastTransitionTime.Add(time.Duration(p.TolerateS) * time.Second); thr.IsZero() || due.Before(thr) {
						thr = due
					}
				}
			}
		}
	}
	if thr.IsZero() {
		w.missed = true
		return
	}
	want := thr.Add(time.Duration(S.OffsetMs) * time.Millisecond)
	if want.Before(e.Clock.Now()) {
		w.missed = true // the build already ran past the boundary; the oracle still judges on the real clock
		return
	}
	e.Clock.SetTime(want)
	w.threshold = thr
}
