package c16

import (
	"math/rand"

	"verif/world"
)

const (
	stCreated     = int(world.StageCreated)
	stLaunched    = int(world.StageLaunched)
	stAppeared    = int(world.StageNodeAppeared)
	stRegistered  = int(world.StageRegistered)
	stInitialized = int(world.StageInitialized)
)

func draw(reaper string, n int, rng *rand.Rand) Spec {
	switch reaper {
	case "expiration":
		return drawExpiration(n, rng)
	case "gc":
		return drawGC(n, rng)
	case "liveness":
		return drawLiveness(n, rng)
	}
	return drawHealth(n, rng)
}

func drawExpiration(n int, rng *rand.Rand) Spec {
	S := Spec{Reaper: "expiration", Order: "target-first", Target: -1, Threshold: "none", JumpS: 3600 * (1 + rng.Intn(24*400))}
	np := 1 + rng.Intn(2)
	allNever := n%8 == 7
	for i := 0; i < np; i++ {
		ea := []string{"10m", "1h", "720h"}[rng.Intn(3)]
		if allNever || (i > 0 && rng.Intn(3) == 0) {
			ea = "Never"
		}
		S.Pools = append(S.Pools, PoolSpec{ExpireAfter: ea})
	}
	nc := 1 + rng.Intn(4)
	var cands []int
	for i := 0; i < nc; i++ {
		c := ClaimSpec{Pool: rng.Intn(np), Stage: []int{stCreated, stLaunched, stRegistered, stInitialized, stInitialized}[rng.Intn(5)],
			StepBeforeMs: rng.Intn(90000), Deleting: rng.Intn(10) == 0}
		if i == 0 {
			c.Pool, c.Deleting = 0, false
		}
		S.Claims = append(S.Claims, c)
		if S.Pools[c.Pool].ExpireAfter != "Never" && !c.Deleting {
			cands = append(cands, i)
		}
	}
	if len(cands) > 0 {
		S.Target, S.Threshold, S.OffsetMs = cands[rng.Intn(len(cands))], "expire", 0
	}
	return S
}

func drawGC(n int, rng *rand.Rand) Spec {
	S := Spec{Reaper: "gc", Order: "name", Target: -1, Threshold: "none", JumpS: rng.Intn(7200)}
	np := 1 + rng.Intn(2)
	for i := 0; i < np; i++ {
		S.Pools = append(S.Pools, PoolSpec{ExpireAfter: "Never"})
	}
	nodeStates := []string{"ready", "notready", "unknown", "absent"}
	nc := 1 + rng.Intn(4)
	for i := 0; i < nc; i++ {
		c := ClaimSpec{Pool: rng.Intn(np), StepBeforeMs: rng.Intn(30000)}
		if i == 0 {
			// core grid: node state x {Registered+vanished, Initialized+vanished, Initialized+vanished, Initialized+listed}
			g := n % 16
			c.Node = nodeStates[g%4]
			c.Stage = []int{stRegistered, stInitialized, stInitialized, stInitialized}[g/4]
			c.Vanish = g/4 != 3
		} else {
			c.Stage = []int{stLaunched, stAppeared, stRegistered, stRegistered, stInitialized, stInitialized, stInitialized}[rng.Intn(7)]
			c.Vanish = rng.Intn(10) < 7
			if c.Stage >= stAppeared {
				c.Node = []string{"", "", "ready", "notready", "unknown", "absent"}[rng.Intn(6)]
			}
			c.Deleting = rng.Intn(12) == 0
		}
		S.Claims = append(S.Claims, c)
	}
	if rng.Intn(2) == 0 {
		// one more claim whose scale-up completes while the GC pass is between its two reads
		S.Claims = append(S.Claims, ClaimSpec{Pool: rng.Intn(np), StepBeforeMs: rng.Intn(30000), Stage: stLaunched,
			JoinsDuringPass: []string{"provider-list", "claim-list"}[rng.Intn(2)]})
	}
	return S
}

func drawLiveness(n int, rng *rand.Rand) Spec {
	S := Spec{Reaper: "liveness", Order: "target-first", Target: 0}
	S.Pools = []PoolSpec{{ExpireAfter: "Never"}}
	kind := func(k int) (ClaimSpec, string) {
		c := ClaimSpec{Pool: 0, StepBeforeMs: rng.Intn(60000)}
		switch k {
		case 0: // launch keeps failing
			c.LaunchFail = true
			return c, "launch"
		case 1: // launch failed so far, succeeds in the reconcile under test
			c.LaunchFail, c.LaunchRecovers = true, true
			return c, "launch"
		case 2: // launched, the node never shows up
			c.Stage = stLaunched
			return c, "register"
		case 3: // launched, the node shows up but registration has not been reconciled yet
			c.Stage = stAppeared
			return c, "register"
		case 4: // never reconciled before
			c.Stage = stCreated
			return c, []string{"register", "launch"}[rng.Intn(2)]
		case 5:
			c.Stage = stRegistered
			return c, "register"
		case 6:
			c.LaunchFail = true // both timeouts long gone
			return c, "register"
		case 8: // launched, two Nodes carry the providerID: Registered goes False (MultipleNodesFound), which is not a timeout
			c.Stage = stAppeared
			c.DupNode = []string{"fresh", "seen"}[rng.Intn(2)]
			return c, "register"
		}
		c.Stage = stInitialized
		return c, "register"
	}
	c0, thr := kind(n % 9)
	S.Claims = append(S.Claims, c0)
	S.Threshold = thr
	for i := rng.Intn(3); i > 0; i-- {
		c, _ := kind(rng.Intn(9))
		S.Claims = append(S.Claims, c)
	}
	return S
}

func drawHealth(n int, rng *rand.Rand) Spec {
	S := Spec{Reaper: "health", Order: "target-first", Target: 0, Threshold: "toleration"}
	tol := []int{300, 600, 1800}
	S.Policies = []PolicySpec{
		{Type: "Ready", Status: "False", TolerateS: tol[rng.Intn(3)]},
		{Type: "Ready", Status: "Unknown", TolerateS: tol[rng.Intn(3)]},
		{Type: "BadNode", Status: "True", TolerateS: tol[rng.Intn(3)]},
		{Type: "NetworkDown", Status: "True", TolerateS: tol[rng.Intn(3)]},
	}
	rng.Shuffle(len(S.Policies), func(i, j int) { S.Policies[i], S.Policies[j] = S.Policies[j], S.Policies[i] })
	S.Pools = []PoolSpec{{ExpireAfter: "Never"}}
	standalone := n%7 == 6
	N := 1 + rng.Intn(10)
	allowed := (N + 4) / 5
	U := allowed - 1 + rng.Intn(3) // straddles the 20% threshold
	if n%5 == 4 {
		U = allowed + 1 + rng.Intn(2)
	}
	if U < 1 {
		U = 1
	}
	if U > N {
		U = N
	}
	// overlap cases: the target shows two conditions of different policies whose toleration boundaries are placed around
	// each other (the later condition falls due just before / with / just after the earlier one), in a pool small enough
	// that one unhealthy node is within the 20% allowance
	overlap := n%3 == 1
	if overlap {
		N, U = 1+rng.Intn(5), 1
	}
	pick := func() []int {
		p := []int{rng.Intn(len(S.Policies))}
		for k := 0; k < 2 && rng.Intn(3) == 0; k++ {
			q := rng.Intn(len(S.Policies))
			clash := false
			for _, x := range p {
				clash = clash || S.Policies[q].Type == S.Policies[x].Type
			}
			if !clash {
				p = append(p, q)
			}
		}
		return p
	}
	// cascade cases: more than 20% of the pool is unhealthy, but some of the unhealthy nodes are already terminating (a
	// previous repair wave) - just enough of them that the REMAINING unhealthy nodes would be within 20% of the REMAINING
	// nodes. All of them are nodes of the pool and all of them are unhealthy: repair must stay blocked.
	cascade := !overlap && n%5 == 2 && !standalone
	terminating := 0
	if cascade {
		N = 6 + rng.Intn(7)
		allowed = (N + 4) / 5
		U = allowed + 1 + rng.Intn(2)
		if U > N {
			U = N
		}
		for terminating < U-1 && U-terminating > (N-terminating+4)/5 {
			terminating++
		}
	}
	for i := 0; i < N; i++ {
		c := ClaimSpec{Pool: 0, Stage: stInitialized, StepBeforeMs: rng.Intn(5000), NoiseCond: rng.Intn(4) == 0}
		if cascade && i >= 1 && i <= terminating {
			c.NodeTerminating = true
		}
		if standalone {
			c.Pool = -1
		}
		if i < U {
			c.Unhealthy, c.UnhealthyStepS = pick(), 1+rng.Intn(90)
			c.UnhealthyGapS = []int{0, 20, 250, 500, 1400}[rng.Intn(5)]
			c.NoiseCond = false
			if overlap {
				a := rng.Intn(len(S.Policies))
				b := rng.Intn(len(S.Policies))
				for S.Policies[b].Type == S.Policies[a].Type {
					b = rng.Intn(len(S.Policies))
				}
				for S.Policies[a].TolerateS == S.Policies[b].TolerateS {
					S.Policies[b].TolerateS = tol[rng.Intn(3)]
				}
				c.Unhealthy = []int{a, b}
				if d := S.Policies[a].TolerateS - S.Policies[b].TolerateS; d > 0 {
					c.UnhealthyGapS = d + []int{-30, 0, 30, 200}[rng.Intn(4)]
				} else {
					c.UnhealthyGapS = rng.Intn(1700)
				}
			}
		}
		S.Claims = append(S.Claims, c)
	}
	// a second pool whose nodes must not be counted for (or against) the first
	if !standalone && rng.Intn(2) == 0 {
		S.Pools = append(S.Pools, PoolSpec{ExpireAfter: "Never"})
		M := 1 + rng.Intn(6)
		V := 0
		switch rng.Intn(3) {
		case 1:
			V = M // all unhealthy
		case 2:
			V = rng.Intn(M + 1)
		}
		for i := 0; i < M; i++ {
			c := ClaimSpec{Pool: 1, Stage: stInitialized, StepBeforeMs: rng.Intn(5000)}
			if i < V {
				c.Unhealthy, c.UnhealthyStepS = pick(), 1+rng.Intn(90)
			}
			S.Claims = append(S.Claims, c)
		}
	}
	for i := rng.Intn(3); i > 0; i-- {
		x := ExtraNode{Pool: -1}
		if rng.Intn(2) == 0 && !standalone {
			x.Pool = 0
		}
		if rng.Intn(3) == 0 {
			x.Unhealthy = pick()
		}
		S.Extra = append(S.Extra, x)
	}
	return S
}
