// Package c19: NodePool weight and price ordering are honoured.
package c19

import (
	"fmt"
	"math/rand"
	"sort"

	corev1 "k8s.io/api/core/v1"
	"k8s.io/klog/v2"

	v1 "sigs.k8s.io/karpenter/pkg/apis/v1"
	"sigs.k8s.io/karpenter/pkg/cloudprovider"
	provscheduling "sigs.k8s.io/karpenter/pkg/controllers/provisioning/scheduling"
	"sigs.k8s.io/karpenter/pkg/operator/options"

	"verif/gen"
	"verif/mon"
	"verif/oracle"
	"verif/props/common"
	"verif/props/reg"
)

func cases(tier string) int {
	if tier == "thorough" {
		return 100000
	}
	return 6400
}

func weightOf(np *v1.NodePool) int32 {
	if np.Spec.Weight == nil {
		return 0
	}
	return *np.Spec.Weight
}

// effectiveConjuncts: the constraint Karpenter evaluates for the placed copy of a pod: nodeSelector AND the first
// required term AND (Respect policy) the heaviest remaining preferred term. Returned as a pod that carries exactly
// those as *required* constraints, so that the upstream matcher can judge concrete nodes.
func effectivePod(p *corev1.Pod, respect bool) []*corev1.Pod {
	base := p.DeepCopy()
	var first []corev1.NodeSelectorRequirement
	var preferred [][]corev1.NodeSelectorRequirement
	if base.Spec.Affinity != nil && base.Spec.Affinity.NodeAffinity != nil {
		na := base.Spec.Affinity.NodeAffinity
		if na.RequiredDuringSchedulingIgnoredDuringExecution != nil && len(na.RequiredDuringSchedulingIgnoredDuringExecution.NodeSelectorTerms) > 0 {
			first = na.RequiredDuringSchedulingIgnoredDuringExecution.NodeSelectorTerms[0].MatchExpressions
		}
		if respect {
			maxW := int32(-1)
			for _, t := range na.PreferredDuringSchedulingIgnoredDuringExecution {
				if t.Weight > maxW {
					maxW = t.Weight
				}
			}
			for _, t := range na.PreferredDuringSchedulingIgnoredDuringExecution {
				if t.Weight == maxW {
					preferred = append(preferred, t.Preference.MatchExpressions)
				}
			}
		}
	}
	mk := func(extra []corev1.NodeSelectorRequirement) *corev1.Pod {
		q := p.DeepCopy()
		q.Spec.Affinity = nil
		exprs := append(append([]corev1.NodeSelectorRequirement{}, first...), extra...)
		if len(exprs) > 0 {
			gen.WithRequiredTerms(exprs)(q)
		}
		return q
	}
	if len(preferred) == 0 {
		return []*corev1.Pod{mk(nil)}
	}
	var out []*corev1.Pod
	for _, pt := range preferred {
		out = append(out, mk(pt))
	}
	return out
}

// feasibleOn decides, conservatively (every doubt counts as infeasible), whether a single pod could open a node in
// the pool: all pool taints (incl. PreferNoSchedule, which Karpenter treats as hard until relaxed) tolerated by the
// placed copy; some (type, available offering) of the pool satisfying the pool requirements whose concrete node
// matches the effective constraint for EVERY variant (preferred-tie variants) and fits the pod plus ALL daemons that
// tolerate the pool's taints (an upper bound of any overhead Karpenter may reserve), without any daemon port conflict.
func feasibleOn(s *common.Scenario, np *v1.NodePool, placed *corev1.Pod, respect bool) (bool, string) {
	for _, t := range np.Spec.Template.Spec.Taints {
		tol := false
		for _, tl := range placed.Spec.Tolerations {
			if tl.ToleratesTaint(klog.Background(), &t, true) {
				tol = true
			}
		}
		if !tol {
			return false, ""
		}
	}
	var daemons []*corev1.Pod
	for _, d := range s.DaemonPodTemplates() {
		if _, bad := oracle.UntoleratedTaint(d, np.Spec.Template.Spec.Taints); !bad {
			daemons = append(daemons, d)
		}
	}
	for _, d := range daemons {
		if c, _ := oracle.PortConflict(placed, d); c {
			return false, ""
		}
	}
	variants := effectivePod(placed, respect)
	for _, it := range s.Types[np.Name] {
		for _, g := range it.AllocatableOfferingsList() {
			for _, of := range g.Offerings {
				if !of.Available || of.CapacityType() == v1.CapacityTypeReserved {
					continue
				}
				lbls := common.TypeLabels(it, of)
				ok := true
				customFree := false
				for _, q := range np.Spec.Template.Spec.Requirements {
					_, defT := it.Requirements[q.Key]
					_, defO := of.Requirements[q.Key]
					if !defT && !defO {
						customFree = true // custom key: resolved by Karpenter; skip pools with custom requirements below
						continue
					}
					v, present := lbls[q.Key]
					if !oracle.Admits(string(q.Operator), q.Values, v, present) {
						ok = false
						break
					}
				}
				if !ok {
					continue
				}
				if customFree {
					continue // not judged (conservative)
				}
				for k, v := range np.Spec.Template.Labels {
					lbls[k] = v
				}
				lbls[v1.NodePoolLabelKey] = np.Name
				cn := oracle.ConcreteNode{Name: "n", Labels: lbls, Taints: nil, Allocatable: g.Allocatable}
				all := true
				for _, v := range variants {
					if !oracle.MatchesNodeAffinity(v, cn) {
						all = false
					}
				}
				if !all {
					continue
				}
				total := corev1.ResourceList{}
				oracle.Add(total, oracle.PodRequests(placed))
				for _, d := range daemons {
					oracle.Add(total, oracle.PodRequests(d))
				}
				if fit, _ := oracle.Fits(total, g.Allocatable); fit {
					return true, fmt.Sprintf("%s in %s/%s", it.Name, of.Zone(), of.CapacityType())
				}
			}
		}
	}
	return false, ""
}

func cheapest(it *cloudprovider.InstanceType, nc *provscheduling.NodeClaim) (float64, bool) {
	best, found := 0.0, false
	for _, of := range it.Offerings {
		if !of.Available {
			continue
		}
		ok := true
		for k, q := range of.Requirements {
			if q.Operator() != corev1.NodeSelectorOpIn {
				continue
			}
			if req, has := nc.Requirements[k]; has && !req.Has(q.Values()[0]) {
				ok = false
			}
		}
		if ok && (!found || of.Price < best) {
			best, found = of.Price, true
		}
	}
	return best, found
}

func run(r *mon.Report, tier string, idx int, rng *rand.Rand) {
	cfg := common.DefaultScenarioCfg()
	opts, optDesc := common.RandomOptions(rng)
	par := []int64{1000, 2000, 4000, 8000, 16000}[rng.Intn(5)]
	opts.CPURequests = &par
	optDesc["parallelism"] = par / 1000
	cfg.Options = opts
	cfg.MinPools, cfg.MaxPools = 2, 5
	cfg.Weights = true
	cfg.MaxDaemons = 1
	cfg.Pool.PCustomLabel = 0.1
	cfg.Catalog.MinTypes, cfg.Catalog.MaxTypes = 4, 10
	if rng.Intn(3) == 0 {
		cfg.Catalog.PZeroPrice = 0.08 // free offerings (a price overlay of "0" / "-100%")
	}
	cfg.PerPoolCatalog = rng.Intn(3) == 0
	if rng.Intn(3) == 0 {
		cfg.MinPools = 3
	}
	s := common.Build(rng, cfg)
	e := s.Env
	r.Eval()
	// sometimes one pool cannot be resolved in this pass (the provider fails to list its instance types, or lists none):
	// it hosts nothing, and every other pool must be handled exactly as if it were not there
	unresolvable := ""
	if len(s.Pools) >= 3 && rng.Intn(2) == 0 {
		np := s.Pools[rng.Intn(len(s.Pools))]
		unresolvable = np.Name
		if rng.Intn(2) == 0 {
			e.Provider.InstanceTypeErr[np.Name] = fmt.Errorf("injected: listing instance types failed")
		} else {
			e.Provider.Catalog[np.Name] = []*cloudprovider.InstanceType{}
		}
		optDesc["unresolvablePool"] = np.Name
		r.Inc("worlds_with_unresolvable_pool")
	}
	nb := 1 + rng.Intn(10)
	podCfg := cfg.Pod
	for i := 0; i < nb; i++ {
		e.Apply(gen.RandomPod(rng, s.NextPodName("p"), podCfg))
	}
	if err := e.SyncState(); err != nil {
		r.Inconcl("sync: %v", err)
		return
	}
	saved := provscheduling.MaxInstanceTypes
	provscheduling.MaxInstanceTypes = 2 + rng.Intn(3)
	defer func() { provscheduling.MaxInstanceTypes = saved }()
	caseDesc := map[string]any{"case": idx, "options": optDesc, "world": s.Desc, "maxInstanceTypes": provscheduling.MaxInstanceTypes}
	var res provscheduling.Results
	var err error
	if p, v, st := mon.Guard(func() { res, _, err = common.SolveRaw(e) }); p {
		r.Violate("panic-in-solve", fmt.Sprintf("Scheduler.Solve panicked: %v", v), caseDesc, st)
		return
	}
	if err != nil {
		r.Inc("solve_errors")
		return
	}
	pre := map[*provscheduling.NodeClaim][]*cloudprovider.InstanceType{}
	for _, nc := range res.NewNodeClaims {
		pre[nc] = append([]*cloudprovider.InstanceType{}, nc.InstanceTypeOptions...)
	}
	reservedDeferral := len(res.ReservedOfferingErrors()) > 0
	res = res.TruncateInstanceTypes(e.Ctx, provscheduling.MaxInstanceTypes)
	respect := e.Opts.PreferencePolicy == options.PreferencePolicyRespect
	pools := map[string]*v1.NodePool{}
	for _, np := range s.Pools {
		pools[np.Name] = np
	}
	for _, nc := range res.NewNodeClaims {
		if len(nc.Pods) == 0 {
			continue
		}
		used := pools[nc.NodePoolName]
		if used == nil {
			continue
		}
		// ---- weight ----
		opener := nc.Pods[0]
		for _, other := range s.Pools {
			if weightOf(other) <= weightOf(used) || other.Name == unresolvable {
				continue
			}
			r.Inc("higher_weight_pools_considered")
			if unresolvable != "" {
				r.Inc("higher_weight_pools_considered_next_to_an_unresolvable_pool")
			}
			skip := ""
			switch {
			case other.Spec.Limits != nil:
				skip = "limits"
			case hasMinValues(other):
				skip = "minvalues"
			case reservedDeferral:
				skip = "reserved-deferral"
			}
			if skip != "" {
				r.Inc("skipped_" + skip)
				continue
			}
			r.Inc("weight_judgements")
			if ok, how := feasibleOn(s, other, opener, respect); ok {
				r.Violate("lower-weight-pool-used-although-higher-feasible",
					fmt.Sprintf("pod %s opened a NodeClaim in pool %s (weight %d) although pool %s (weight %d) can host it: %s", opener.Name, used.Name, weightOf(used), other.Name, weightOf(other), how),
					caseDesc, map[string]any{"pod": opener.Spec, "used": used.Spec.Template.Spec, "higher": other.Spec.Template.Spec})
			}
			r.Sig("weight|par=%v|pp=%v|pools=%d", optDesc["parallelism"], optDesc["preferencePolicy"], len(s.Pools))
		}
		// ---- price ----
		before := e.API.LogLen()
		name, cerr := e.Prov.Create(e.Ctx, nc)
		if cerr != nil {
			r.Inc("create_errors")
			continue
		}
		var sent []string
		for _, ev := range e.API.LogSince(before) {
			if ev.Verb == "create" && ev.Kind == "NodeClaim" && ev.Key == name && ev.Err == "" {
				for _, q := range ev.After.(*v1.NodeClaim).Spec.Requirements {
					if q.Key == corev1.LabelInstanceTypeStable && q.Operator == corev1.NodeSelectorOpIn {
						sent = q.Values
					}
				}
			}
		}
		if len(sent) == 0 {
			continue
		}
		sentSet := map[string]bool{}
		for _, n := range sent {
			sentSet[n] = true
		}
		maxSent, minLeft := -1.0, -1.0
		var dearSent, cheapLeft string
		for _, it := range pre[nc] {
			p, ok := cheapest(it, nc)
			if !ok {
				continue
			}
			if sentSet[it.Name] {
				if p > maxSent {
					maxSent, dearSent = p, it.Name
				}
			} else if minLeft < 0 || p < minLeft {
				minLeft, cheapLeft = p, it.Name
			}
		}
		r.Inc("price_judgements")
		if len(pre[nc]) > len(sent) {
			r.Inc("truncations_observed")
			r.Sig("price|truncated|par=%v", optDesc["parallelism"])
			if minLeft >= 0 && maxSent > minLeft {
				names := []string{}
				for _, it := range pre[nc] {
					p, _ := cheapest(it, nc)
					names = append(names, fmt.Sprintf("%s=%.4f", it.Name, p))
				}
				sort.Strings(names)
				r.Violate("truncation-dropped-cheaper-type",
					fmt.Sprintf("sent type %s (cheapest compatible available offering %.4f) is dearer than left-out option %s (%.4f)", dearSent, maxSent, cheapLeft, minLeft),
					caseDesc, map[string]any{"sent": sent, "scheduler_options_priced": names, "requirements": nc.Requirements.String()})
			}
		}
		if r.WantSample() && len(pre[nc]) > len(sent) {
			r.Sample(map[string]any{"case": idx, "options": optDesc, "pool_used": used.Name, "pool_weights": poolWeights(s), "opener": opener.Name, "scheduler_options": names(pre[nc]), "sent": sent})
		}
	}
}

func names(its []*cloudprovider.InstanceType) []string {
	var out []string
	for _, it := range its {
		out = append(out, it.Name)
	}
	return out
}

func poolWeights(s *common.Scenario) map[string]int32 {
	m := map[string]int32{}
	for _, np := range s.Pools {
		m[np.Name] = weightOf(np)
	}
	return m
}

func hasMinValues(np *v1.NodePool) bool {
	for _, q := range np.Spec.Template.Spec.Requirements {
		if q.MinValues != nil {
			return true
		}
	}
	return false
}

func init() {
	reg.Register(&reg.Prop{
		ID: "C19", Level: "exploration", Race: true, RaceIsViolation: true,
		RaceFrac: map[string]float64{"quick": 0.15, "thorough": 0.05},
		Rule:     "each case = 2-5 weighted NodePools (ties and nil weights; in a sixth of the worlds one of >=3 pools is unresolvable in the pass: provider error or empty catalog) over shared or per-pool catalogs with price ties, a batch of 1-10 pods without inter-pod constraints, parallelism in {1,2,4,8,16}, MaxInstanceTypes lowered to 2-4; real Scheduler.Solve → Truncate → Provisioner.Create. Weight monitor: the opener pod of every new NodeClaim is judged (conservatively) infeasible on every strictly heavier ready pool. Price monitor: the instance types captured at the API boundary vs the scheduler's pre-truncation options priced by cheapest compatible available offering. Non-trivial = a weight judgement against a heavier pool or an actual truncation was observed; distinct by (monitor, parallelism, preference policy, number of pools).",
		Cases:    cases, Run: run,
		MinObserved: map[string]int{"weight_judgements": 50, "truncations_observed": 50},
	})
}
