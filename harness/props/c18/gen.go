package c18

import (
	"context"
	"fmt"
	"math/rand"
	"sort"

	appsv1 "k8s.io/api/apps/v1"
	corev1 "k8s.io/api/core/v1"
	policyv1 "k8s.io/api/policy/v1"
	storagev1 "k8s.io/api/storage/v1"
	metav1 "k8s.io/apimachinery/pkg/apis/meta/v1"
	"k8s.io/apimachinery/pkg/types"
	"k8s.io/apimachinery/pkg/util/intstr"

	v1 "sigs.k8s.io/karpenter/pkg/apis/v1"

	"verif/gen"
	"verif/props/common"
)

// decorate adds to a grown disruption world everything the simulations can trip over: bound pods with host ports,
// CSI volumes (PV/PVC/StorageClass/CSINode limits), topology spread constraints with matchLabelKeys, required and
// preferred pod (anti-)affinity, PDBs (blocking and not), a Service + ReplicaSet (default topology spread deduction),
// do-not-disrupt pods, and pending pods (valid ones, one whose PVC does not exist, one that refuses Karpenter nodes).
// Returns a serialisable description.
//
//nolint:gocyclo
func decorate(rng *rand.Rand, d *common.DWorld) map[string]any {
	e := d.Env
	ctx := context.Background()
	desc := map[string]any{}
	nodes := &corev1.NodeList{}
	_ = e.API.Raw.List(ctx, nodes)
	var ready []*corev1.Node
	for i := range nodes.Items {
		n := &nodes.Items[i]
		if n.Labels[v1.NodeInitializedLabelKey] == "true" {
			ready = append(ready, n)
		}
	}
	sort.Slice(ready, func(i, j int) bool { return ready[i].Name < ready[j].Name })
	// room left on a node (pods count and cpu), from API truth
	room := func(n *corev1.Node) (pods int64, cpuMilli int64) {
		pl := &corev1.PodList{}
		_ = e.API.Raw.List(ctx, pl)
		ap := n.Status.Allocatable[corev1.ResourcePods]
		ac := n.Status.Allocatable[corev1.ResourceCPU]
		pods, cpuMilli = ap.Value(), ac.MilliValue()
		for i := range pl.Items {
			p := &pl.Items[i]
			if p.Spec.NodeName != n.Name || p.Status.Phase == corev1.PodSucceeded || p.Status.Phase == corev1.PodFailed {
				continue
			}
			pods--
			for _, c := range p.Spec.Containers {
				q := c.Resources.Requests[corev1.ResourceCPU]
				cpuMilli -= q.MilliValue()
			}
		}
		return
	}
	pickNode := func() *corev1.Node {
		if len(ready) == 0 {
			return nil
		}
		for try := 0; try < 4; try++ {
			n := ready[rng.Intn(len(ready))]
			if p, c := room(n); p >= 1 && c >= 30 {
				return n
			}
		}
		return nil
	}
	// sometimes one more DaemonSet whose template carries a required node affinity with two terms (the provisioner
	// grafts the template's affinity onto the cached daemon pod and relaxes it term by term)
	if rng.Intn(3) == 0 {
		ds := gen.DaemonSet("ds-aff", 20, 16, gen.WithToleration(corev1.Toleration{Operator: corev1.TolerationOpExists}),
			gen.WithRequiredTerms(
				[]corev1.NodeSelectorRequirement{gen.NSR(corev1.LabelTopologyZone, corev1.NodeSelectorOpIn, "zone-nowhere")},
				[]corev1.NodeSelectorRequirement{gen.NSR(corev1.LabelOSStable, corev1.NodeSelectorOpIn, "linux")}))
		e.Apply(ds)
		d.Daemons = append(d.Daemons, ds)
		for _, n := range ready {
			d.StartDaemons(n.Name)
		}
		desc["ds_with_required_affinity"] = true
	}
	// the daemonset controller marks its pods as controlled by the DaemonSet; without the flag Cluster.UpdateDaemonSet
	// never caches a daemon pod and the cached-pod path of getDaemonSetPods stays cold
	{
		pl := &corev1.PodList{}
		_ = e.API.Raw.List(ctx, pl)
		t := true
		fixed := 0
		for i := range pl.Items {
			p := &pl.Items[i]
			ch := false
			for j := range p.OwnerReferences {
				if p.OwnerReferences[j].Kind == "DaemonSet" && p.OwnerReferences[j].Controller == nil {
					p.OwnerReferences[j].Controller = &t
					ch = true
				}
			}
			if ch {
				e.Apply(p)
				fixed++
			}
		}
		desc["daemon_pods"] = fixed
	}
	// storage
	wait, imm := storagev1.VolumeBindingWaitForFirstConsumer, storagev1.VolumeBindingImmediate
	e.Apply(&storagev1.StorageClass{ObjectMeta: metav1.ObjectMeta{Name: "sc-wait"}, Provisioner: "csi.a", VolumeBindingMode: &wait})
	e.Apply(&storagev1.StorageClass{ObjectMeta: metav1.ObjectMeta{Name: "sc-imm"}, Provisioner: "csi.a", VolumeBindingMode: &imm})
	// a ReplicaSet + Service the default-topology-spread deduction can resolve
	e.Apply(&appsv1.ReplicaSet{ObjectMeta: metav1.ObjectMeta{Name: "rs-web", Namespace: "default", UID: "ReplicaSet-rs-web"},
		Spec: appsv1.ReplicaSetSpec{Selector: &metav1.LabelSelector{MatchLabels: map[string]string{"app": "web"}}}})
	e.Apply(&corev1.Service{ObjectMeta: metav1.ObjectMeta{Name: "svc-web", Namespace: "default"}, Spec: corev1.ServiceSpec{Selector: map[string]string{"app": "web"}}})

	webSel := &metav1.LabelSelector{MatchLabels: map[string]string{"app": "web"}}
	var kinds []string
	mk := func(name string, kind int, k int) *corev1.Pod {
		p := gen.Pod(name, 10, 8)
		switch kind {
		case 0: // topology spread with matchLabelKeys
			gen.WithLabels("app", "web", "pod-template-hash", "h1")(p)
			gen.WithOwner("ReplicaSet", "rs-web")(p)
			p.Spec.TopologySpreadConstraints = []corev1.TopologySpreadConstraint{{MaxSkew: int32(1 + rng.Intn(2)), TopologyKey: []string{corev1.LabelTopologyZone, corev1.LabelHostname}[rng.Intn(2)],
				WhenUnsatisfiable: []corev1.UnsatisfiableConstraintAction{corev1.DoNotSchedule, corev1.ScheduleAnyway}[rng.Intn(2)],
				LabelSelector:     webSel.DeepCopy(), MatchLabelKeys: []string{"pod-template-hash"}}}
			kinds = append(kinds, "tsc+matchLabelKeys")
		case 1: // required anti-affinity against its own unique label (always consistent)
			lbl := fmt.Sprintf("aa-%d", k)
			gen.WithLabels("app", lbl)(p)
			gen.WithOwner("ReplicaSet", "rs-"+lbl)(p)
			p.Spec.Affinity = &corev1.Affinity{PodAntiAffinity: &corev1.PodAntiAffinity{RequiredDuringSchedulingIgnoredDuringExecution: []corev1.PodAffinityTerm{{
				TopologyKey: corev1.LabelHostname, LabelSelector: &metav1.LabelSelector{MatchLabels: map[string]string{"app": lbl}}}}}}
			kinds = append(kinds, "required-anti-affinity")
		case 2: // preferences (relaxation path)
			gen.WithLabels("app", "web")(p)
			gen.WithOwner("ReplicaSet", "rs-web")(p)
			p.Spec.Affinity = &corev1.Affinity{
				PodAntiAffinity: &corev1.PodAntiAffinity{PreferredDuringSchedulingIgnoredDuringExecution: []corev1.WeightedPodAffinityTerm{{Weight: 10,
					PodAffinityTerm: corev1.PodAffinityTerm{TopologyKey: corev1.LabelHostname, LabelSelector: webSel.DeepCopy()}}}},
				NodeAffinity: &corev1.NodeAffinity{PreferredDuringSchedulingIgnoredDuringExecution: []corev1.PreferredSchedulingTerm{{Weight: 5,
					Preference: corev1.NodeSelectorTerm{MatchExpressions: []corev1.NodeSelectorRequirement{gen.NSR(corev1.LabelTopologyZone, corev1.NodeSelectorOpIn, gen.Zones[rng.Intn(3)])}}}}},
			}
			kinds = append(kinds, "preferred-affinities")
		case 3: // required pod affinity to the web pods, zonal
			gen.WithLabels("app", "follower")(p)
			gen.WithOwner("ReplicaSet", "rs-follower")(p)
			p.Spec.Affinity = &corev1.Affinity{PodAffinity: &corev1.PodAffinity{RequiredDuringSchedulingIgnoredDuringExecution: []corev1.PodAffinityTerm{{
				TopologyKey: corev1.LabelTopologyZone, LabelSelector: webSel.DeepCopy()}}}}
			kinds = append(kinds, "required-affinity")
		case 4: // host port
			gen.WithLabels("app", "web")(p)
			gen.WithOwner("ReplicaSet", "rs-web")(p)
			gen.WithHostPort(int32(7000+k), []corev1.Protocol{corev1.ProtocolTCP, corev1.ProtocolUDP}[rng.Intn(2)], []string{"", "10.0.0.1"}[rng.Intn(2)])(p)
			kinds = append(kinds, "host-port")
		default: // plain web pod without constraints of its own (target of default topology spread injection)
			gen.WithLabels("app", "web")(p)
			gen.WithOwner("ReplicaSet", "rs-web")(p)
			kinds = append(kinds, "plain-web")
		}
		if rng.Intn(12) == 0 {
			gen.WithAnnotation(v1.DoNotDisruptAnnotationKey, "true")(p)
		}
		return p
	}
	nExtra := rng.Intn(7)
	bound := 0
	for k := 0; k < nExtra; k++ {
		n := pickNode()
		if n == nil {
			break
		}
		p := mk(d.NextPodName("x"), rng.Intn(6), k)
		gen.Bound(n.Name, e.Clock.Now())(p)
		e.Apply(p)
		bound++
	}
	// volumes: PV/PVC pairs mounted by bound pods, CSINode limits on their nodes
	nVol := rng.Intn(3)
	vols := 0
	for j := 0; j < nVol; j++ {
		n := pickNode()
		if n == nil {
			break
		}
		pv := fmt.Sprintf("pv-%d", j)
		claim := fmt.Sprintf("data-%d", j)
		sc := "sc-wait"
		e.Apply(&corev1.PersistentVolume{ObjectMeta: metav1.ObjectMeta{Name: pv}, Spec: corev1.PersistentVolumeSpec{
			StorageClassName:       sc,
			PersistentVolumeSource: corev1.PersistentVolumeSource{CSI: &corev1.CSIPersistentVolumeSource{Driver: "csi.a", VolumeHandle: "vol-" + pv}},
			NodeAffinity: &corev1.VolumeNodeAffinity{Required: &corev1.NodeSelector{NodeSelectorTerms: []corev1.NodeSelectorTerm{{MatchExpressions: []corev1.NodeSelectorRequirement{
				gen.NSR(corev1.LabelTopologyZone, corev1.NodeSelectorOpIn, n.Labels[corev1.LabelTopologyZone])}}}}}}})
		e.Apply(&corev1.PersistentVolumeClaim{ObjectMeta: metav1.ObjectMeta{Name: claim, Namespace: "default", Annotations: map[string]string{"pv.kubernetes.io/bind-completed": "yes"}},
			Spec: corev1.PersistentVolumeClaimSpec{StorageClassName: &sc, VolumeName: pv}, Status: corev1.PersistentVolumeClaimStatus{Phase: corev1.ClaimBound}})
		cnt := int32(1 + rng.Intn(3))
		e.Apply(&storagev1.CSINode{ObjectMeta: metav1.ObjectMeta{Name: n.Name}, Spec: storagev1.CSINodeSpec{Drivers: []storagev1.CSINodeDriver{{Name: "csi.a", NodeID: n.Name, Allocatable: &storagev1.VolumeNodeResources{Count: &cnt}}}}})
		p := gen.Pod(d.NextPodName("v"), 10, 8, gen.WithLabels("app", "db"), gen.WithOwner("StatefulSet", "db"), gen.Bound(n.Name, e.Clock.Now()))
		p.Spec.Volumes = []corev1.Volume{{Name: "data", VolumeSource: corev1.VolumeSource{PersistentVolumeClaim: &corev1.PersistentVolumeClaimVolumeSource{ClaimName: claim}}}}
		e.Apply(p)
		// the node must be re-delivered for the CSINode limit to be read
		vols++
	}
	// bound pods whose volume can no longer be resolved: the PVC was deleted (finalizer removed), its PV is gone, or its
	// StorageClass is gone. Pending pods like these are rejected by validation; bound ones on candidates / deleting nodes
	// reach the scheduler's volume topology lookup unvalidated.
	var broken []string
	for j, kind := range []string{"pvc-gone", "pv-gone", "sc-gone"} {
		if rng.Intn(3) != 0 {
			continue
		}
		n := pickNode()
		if n == nil {
			break
		}
		claim := fmt.Sprintf("broken-%d", j)
		switch kind {
		case "pv-gone":
			sc := "sc-wait"
			e.Apply(&corev1.PersistentVolumeClaim{ObjectMeta: metav1.ObjectMeta{Name: claim, Namespace: "default"},
				Spec: corev1.PersistentVolumeClaimSpec{StorageClassName: &sc, VolumeName: "pv-missing"}, Status: corev1.PersistentVolumeClaimStatus{Phase: corev1.ClaimLost}})
		case "sc-gone":
			sc := "sc-missing"
			e.Apply(&corev1.PersistentVolumeClaim{ObjectMeta: metav1.ObjectMeta{Name: claim, Namespace: "default"}, Spec: corev1.PersistentVolumeClaimSpec{StorageClassName: &sc}})
		}
		p := gen.Pod(d.NextPodName("b"), 10, 8, gen.WithLabels("app", "db"), gen.WithOwner("StatefulSet", "db"), gen.Bound(n.Name, e.Clock.Now()))
		p.Spec.Volumes = []corev1.Volume{{Name: "data", VolumeSource: corev1.VolumeSource{PersistentVolumeClaim: &corev1.PersistentVolumeClaimVolumeSource{ClaimName: claim}}}}
		e.Apply(p)
		broken = append(broken, kind)
	}
	desc["bound_pods_with_unresolvable_volume"] = broken
	// PDBs
	var pdbs []string
	if rng.Intn(3) == 0 {
		allowed := int32(rng.Intn(2))
		mu := intstr.FromInt32(1)
		pdb := &policyv1.PodDisruptionBudget{ObjectMeta: metav1.ObjectMeta{Name: "pdb-web", Namespace: "default"},
			Spec:   policyv1.PodDisruptionBudgetSpec{Selector: webSel.DeepCopy(), MaxUnavailable: &mu},
			Status: policyv1.PodDisruptionBudgetStatus{DisruptionsAllowed: allowed}}
		e.Apply(pdb)
		pdbs = append(pdbs, fmt.Sprintf("pdb-web allowed=%d", allowed))
	}
	// pending pods
	var pending []string
	podCfg := gen.DefaultPodCfg()
	podCfg.MaxCPUMilli = 2000
	for k, n := 0, rng.Intn(4); k < n; k++ {
		var p *corev1.Pod
		if rng.Intn(2) == 0 {
			p = gen.RandomPod(rng, d.NextPodName("q"), podCfg)
			gen.WithOwner("ReplicaSet", "rs-"+p.Name)(p)
			pending = append(pending, "random")
		} else {
			p = mk(d.NextPodName("q"), rng.Intn(6), 100+k)
			pending = append(pending, kinds[len(kinds)-1])
		}
		e.Apply(p)
	}
	if rng.Intn(3) == 0 {
		// refers to a PVC that does not exist: the provisioner's validation rejects it
		p := gen.Pod(d.NextPodName("ghost"), 100, 64, gen.WithOwner("ReplicaSet", "rs-ghost"))
		p.Spec.Volumes = []corev1.Volume{{Name: "data", VolumeSource: corev1.VolumeSource{PersistentVolumeClaim: &corev1.PersistentVolumeClaimVolumeSource{ClaimName: "does-not-exist"}}}}
		e.Apply(p)
		pending = append(pending, "missing-pvc")
	}
	if rng.Intn(5) == 0 {
		p := gen.Pod(d.NextPodName("nokarp"), 100, 64, gen.WithOwner("ReplicaSet", "rs-nokarp"),
			gen.WithRequiredTerms([]corev1.NodeSelectorRequirement{gen.NSR(v1.NodePoolLabelKey, corev1.NodeSelectorOpDoesNotExist)}))
		e.Apply(p)
		pending = append(pending, "nodepool-DoesNotExist")
	}
	if rng.Intn(4) == 0 {
		// unbound WaitForFirstConsumer claim: valid, exercises volume topology requirements
		sc := "sc-wait"
		e.Apply(&corev1.PersistentVolumeClaim{ObjectMeta: metav1.ObjectMeta{Name: "fresh", Namespace: "default"}, Spec: corev1.PersistentVolumeClaimSpec{StorageClassName: &sc}})
		p := gen.Pod(d.NextPodName("pvc"), 100, 64, gen.WithOwner("StatefulSet", "db"))
		p.Spec.Volumes = []corev1.Volume{{Name: "data", VolumeSource: corev1.VolumeSource{PersistentVolumeClaim: &corev1.PersistentVolumeClaimVolumeSource{ClaimName: "fresh"}}}}
		e.Apply(p)
		pending = append(pending, "unbound-wffc-pvc")
	}
	desc["extra_bound_pods"] = kinds
	desc["bound"] = bound
	desc["volume_pods"] = vols
	desc["pdbs"] = pdbs
	desc["pending"] = pending
	_ = types.UID("")
	return desc
}

// addPending drops one more pending pod into the world between simulations (a legitimate world change).
func addPending(rng *rand.Rand, d *common.DWorld) {
	podCfg := gen.DefaultPodCfg()
	podCfg.MaxCPUMilli = 1500
	p := gen.RandomPod(rng, d.NextPodName("late"), podCfg)
	gen.WithOwner("ReplicaSet", "rs-"+p.Name)(p)
	d.Env.Apply(p)
}
