package c18

import (
	"context"
	"encoding/json"
	"fmt"
	"reflect"
	"sort"
	"strings"
	"time"

	appsv1 "k8s.io/api/apps/v1"
	corev1 "k8s.io/api/core/v1"
	policyv1 "k8s.io/api/policy/v1"
	resourcev1 "k8s.io/api/resource/v1"
	storagev1 "k8s.io/api/storage/v1"
	"k8s.io/apimachinery/pkg/api/meta"
	"sigs.k8s.io/controller-runtime/pkg/client"

	v1 "sigs.k8s.io/karpenter/pkg/apis/v1"
	"sigs.k8s.io/karpenter/pkg/cloudprovider"
	"sigs.k8s.io/karpenter/pkg/controllers/disruption"
	"sigs.k8s.io/karpenter/pkg/test/v1alpha1"

	"verif/gen"
	"verif/props/common"
	"verif/world"
)

// A digest maps "component|instance" to a canonical rendering. Two digests of an unchanged world are equal.
// The component (text before '|') names WHAT changed and becomes part of the violation key.
type digest map[string]string

func comp(k string) string {
	if i := strings.IndexByte(k, '|'); i >= 0 {
		return k[:i]
	}
	return k
}

// ---- a. API ----

func apiLists() []client.ObjectList {
	return []client.ObjectList{
		&corev1.NodeList{}, &v1.NodeClaimList{}, &v1.NodePoolList{}, &corev1.PodList{}, &appsv1.DaemonSetList{}, &appsv1.ReplicaSetList{},
		&policyv1.PodDisruptionBudgetList{}, &corev1.PersistentVolumeList{}, &corev1.PersistentVolumeClaimList{},
		&storagev1.StorageClassList{}, &storagev1.CSINodeList{}, &storagev1.VolumeAttachmentList{}, &v1alpha1.TestNodeClassList{},
		&corev1.ServiceList{}, &corev1.NamespaceList{}, &resourcev1.ResourceSliceList{}, &resourcev1.ResourceClaimList{}, &corev1.EventList{},
	}
}

func kindOfList(l client.ObjectList) string {
	t := reflect.TypeOf(l).Elem().Name()
	return strings.TrimSuffix(t, "List")
}

// apiDigest renders every object of every kind (complete JSON incl. resourceVersion) read through the un-intercepted client.
func apiDigest(e *world.Env, d digest) (objects int) {
	for _, l := range apiLists() {
		if err := e.API.Raw.List(context.Background(), l); err != nil {
			continue // kind not registered in this scheme
		}
		kind := kindOfList(l)
		items, _ := meta.ExtractList(l)
		for _, it := range items {
			o := it.(client.Object)
			b, _ := json.Marshal(o)
			d["api."+kind+"|"+o.GetNamespace()+"/"+o.GetName()] = string(b)
			objects++
		}
	}
	return
}

// ---- b. cluster state ----

// Skipped StateNode fields are rendered separately (so that the violation key names them).
var stateNodeParts = []string{"daemonSetRequests", "daemonSetLimits", "podRequests", "podLimits", "podDisruptionCosts", "hostPortUsage", "volumeUsage", "markedForDeletion", "nominatedUntil"}

func rl(l corev1.ResourceList) string {
	ks := make([]string, 0, len(l))
	for k, q := range l {
		if q.IsZero() {
			continue
		}
		ks = append(ks, string(k)+"="+quantityString(q))
	}
	sort.Strings(ks)
	return strings.Join(ks, ",")
}

func taints(ts []corev1.Taint) string {
	var out []string
	for _, t := range ts {
		out = append(out, fmt.Sprintf("%s=%s:%s", t.Key, t.Value, t.Effect))
	}
	sort.Strings(out)
	return strings.Join(out, ",")
}

func strMap(m map[string]string) string {
	ks := make([]string, 0, len(m))
	for k, v := range m {
		ks = append(ks, k+"="+v)
	}
	sort.Strings(ks)
	return strings.Join(ks, ",")
}

type stateCounts struct {
	nodes, nominated, marked, withPorts, withVolumes, bookkeeping, dsCached, antiAffinity int
}

//nolint:gocyclo
func stateDigest(e *world.Env, pools []string, daemons []*appsv1.DaemonSet, d digest) (sc stateCounts) {
	c := e.Cluster
	// per StateNode, under the cluster's own iterator (read lock held by Karpenter's accessor)
	for n := range c.Nodes() {
		id := n.ProviderID()
		sc.nodes++
		// the objects the StateNode points at (a shallow copy would let a simulation edit them in place)
		d["state.node.Node|"+id] = walk(n.Node)
		d["state.node.NodeClaim|"+id] = walk(n.NodeClaim)
		// unexported per-pod maps and usage trackers, one component each
		for _, part := range stateNodeParts {
			d["state.node."+part+"|"+id] = walk(field(n, part).Addr().Interface())
		}
		// exported accessors (what every consumer reads)
		d["state.node.PodRequests()|"+id] = rl(n.PodRequests())
		d["state.node.PodLimits()|"+id] = rl(n.PodLimits())
		d["state.node.DaemonSetRequests()|"+id] = rl(n.DaemonSetRequests())
		d["state.node.DaemonSetLimits()|"+id] = rl(n.DaemonSetLimits())
		d["state.node.Capacity()|"+id] = rl(n.Capacity())
		d["state.node.Allocatable()|"+id] = rl(n.Allocatable())
		d["state.node.Labels()|"+id] = strMap(n.Labels())
		d["state.node.Annotations()|"+id] = strMap(n.Annotations())
		d["state.node.Taints()|"+id] = taints(n.Taints())
		d["state.node.MarkedForDeletion()|"+id] = fmt.Sprint(n.MarkedForDeletion(), n.Deleted())
		d["state.node.flags|"+id] = fmt.Sprint(n.Name(), n.HostName(), n.Registered(), n.Initialized(), n.Managed())
		d["state.node.DisruptionCost()|"+id] = fmt.Sprintf("%.9f", n.DisruptionCost())
		if n.Nominated(e.Clock) {
			sc.nominated++
		}
		if n.MarkedForDeletion() {
			sc.marked++
		}
		for it := field(n.HostPortUsage(), "reserved").MapRange(); it.Next(); {
			if it.Value().Len() > 0 {
				sc.withPorts++
				break
			}
		}
		if field(n.VolumeUsage(), "volumes").Len() > 0 {
			sc.withVolumes++
		}
	}
	// cluster-level (read when no Karpenter goroutine is running, see run())
	for _, p := range pools {
		d["state.NodePoolResourcesFor()|"+p] = rl(c.NodePoolResourcesFor(p))
		a, del, pend := c.NodePoolState.GetNodeCount(p)
		d["state.NodePoolState.GetNodeCount()|"+p] = fmt.Sprint(a, del, pend)
	}
	d["state.nodePoolResources|"] = walk(field(c, "nodePoolResources").Addr().Interface())
	d["state.NodePoolState|"] = walk(c.NodePoolState)
	d["state.bindings|"] = walk(field(c, "bindings").Addr().Interface())
	d["state.nodeNameToProviderID|"] = walk(field(c, "nodeNameToProviderID").Addr().Interface())
	d["state.nodeClaimNameToProviderID|"] = walk(field(c, "nodeClaimNameToProviderID").Addr().Interface())
	d["state.bufferPodCounts|"] = walk(field(c, "bufferPodCounts").Addr().Interface())
	d["state.clusterState|"] = walk(field(c, "clusterState").Addr().Interface())
	d["state.hasSynced|"] = fmt.Sprint(c.HasSynced())
	d["config.options|"] = walk(e.Opts)
	for _, ds := range daemons {
		dp := c.GetDaemonSetPod(ds)
		d["state.daemonSetPods|"+ds.Name] = walk(dp)
		if dp != nil {
			sc.dsCached++
		}
	}
	for k, v := range syncMapDump(c, "antiAffinityPods") {
		d["state.antiAffinityPods|"+k] = v
		sc.antiAffinity++
	}
	// pod bookkeeping (only a provisioning pass may change these)
	for _, m := range []string{"podAcks", "podsSchedulingAttempted", "podsSchedulableTimes", "podHealthyNodePoolScheduledTime", "podToNodeClaim"} {
		for k, v := range syncMapDump(c, m) {
			d["bookkeeping."+m+"|"+k] = v
			sc.bookkeeping++
		}
	}
	return
}

// rawConsolidationState reads Cluster.clusterState without going through ConsolidationState() (which refreshes it).
func rawConsolidationState(e *world.Env) time.Time {
	return field(e.Cluster, "clusterState").Interface().(time.Time)
}

// ---- c. provider ----

// Unexported lazily filled cache (sync.Once + derived allocatable groups): derived data, not part of the statement.
var itSkip = []string{"InstanceType.once", "InstanceType.allocatableOfferings", "InstanceType.Offerings"}

func offeringID(o *cloudprovider.Offering) string {
	return fmt.Sprintf("%s/%s/%s", o.Zone(), o.CapacityType(), o.ReservationID())
}

func providerDigest(e *world.Env, pools []*v1.NodePool, d digest) (types, offerings int) {
	seen := map[*cloudprovider.InstanceType]bool{}
	cats := map[string][]*cloudprovider.InstanceType{}
	if its, err := e.Provider.GetInstanceTypes(e.Ctx, nil); err == nil {
		cats["<default>"] = its
	}
	for _, np := range pools {
		if its, err := e.Provider.GetInstanceTypes(e.Ctx, np); err == nil {
			cats[np.Name] = its
		}
	}
	for cat, its := range cats {
		var order []string
		for _, it := range its {
			order = append(order, fmt.Sprintf("%s@%p", it.Name, it))
		}
		d["provider.instance-type-slice-order|"+cat] = strings.Join(order, " ")
		for _, it := range its {
			if seen[it] {
				continue
			}
			seen[it] = true
			types++
			id := fmt.Sprintf("%s@%p", it.Name, it)
			d["provider.instance-type.fields|"+id] = walk(it, itSkip...)
			// every requirement through its exported surface as well
			for k, r := range it.Requirements {
				vals := append([]string(nil), r.Values()...)
				sort.Strings(vals)
				d["provider.instance-type.requirement|"+id+"/"+k] = fmt.Sprintf("%s %s %v %s mv=%v", r.Key, r.Operator(), vals, r.String(), r.MinValues)
			}
			d["provider.instance-type.capacity|"+id] = rl(it.Capacity)
			var oorder []string
			for i, o := range it.Offerings {
				oorder = append(oorder, fmt.Sprintf("%s@%p", offeringID(o), o))
				oid := fmt.Sprintf("%s#%d", id, i)
				offerings++
				d["provider.offering.fields|"+oid] = walk(o)
				d["provider.offering.Available|"+oid] = fmt.Sprint(o.Available)
				d["provider.offering.ReservationCapacity|"+oid] = fmt.Sprint(o.ReservationCapacity)
				d["provider.offering.Price|"+oid] = fmt.Sprintf("%.9f %v", o.Price, o.IsPriceOverlaid())
				for k, r := range o.Requirements {
					vals := append([]string(nil), r.Values()...)
					sort.Strings(vals)
					d["provider.offering.requirement|"+oid+"/"+k] = fmt.Sprintf("%s %s %v %s", r.Key, r.Operator(), vals, r.String())
				}
			}
			d["provider.offerings-slice-order|"+id] = strings.Join(oorder, " ")
		}
	}
	// the ground-truth instance table must not be touched either (no provider Create/Delete during a simulation)
	var live []string
	for _, inst := range e.Provider.Live() {
		live = append(live, inst.ProviderID+":"+inst.State)
	}
	d["provider.instances|"] = strings.Join(live, " ")
	return
}

// pristineCheck compares the provider's catalogs with instance types rebuilt from the generator's serialisable
// specs (value comparison, order included). The provider never edits its catalog by itself, so every difference
// was made by Karpenter code that ran since generation (world building = real provisioning passes, launches,
// lifecycle). Returns component -> description.
func pristineCheck(w *common.DWorld) map[string]string {
	e := w.Env
	out := map[string]string{}
	for cat, specs := range w.Specs {
		its := e.Provider.Default
		if cat != "" {
			its = e.Provider.Catalog[cat]
		}
		var want, got []string
		for _, sp := range specs {
			want = append(want, sp.Name)
		}
		for _, it := range its {
			got = append(got, it.Name)
		}
		if strings.Join(want, " ") != strings.Join(got, " ") {
			out["provider.instance-type-slice-order"] = fmt.Sprintf("catalog %q: generated order %v, provider now holds %v", cat, want, got)
			continue
		}
		for i, sp := range specs {
			fresh := gen.BuildType(sp)
			var wo, gotO []string
			for _, o := range fresh.Offerings {
				wo = append(wo, offeringID(o))
			}
			for _, o := range its[i].Offerings {
				gotO = append(gotO, offeringID(o))
			}
			if strings.Join(wo, " ") != strings.Join(gotO, " ") {
				out["provider.offerings-slice-order"] = fmt.Sprintf("instance type %s: generated offering order %v, now %v", sp.Name, wo, gotO)
				continue
			}
			if a, b := walk(fresh, "InstanceType.once", "InstanceType.allocatableOfferings"), walk(its[i], "InstanceType.once", "InstanceType.allocatableOfferings"); a != b {
				x, y := firstDiff(a, b)
				out["provider.instance-type-or-offering-fields"] = fmt.Sprintf("instance type %s: generated …%s, now …%s", sp.Name, x, y)
			}
		}
	}
	return out
}

// ---- the caller-owned inputs (diagnostic only) ----

func candidateDigest(cs []*disruption.Candidate, d digest) {
	for _, c := range cs {
		id := c.Name()
		d["candidate.reschedulablePods|"+id] = walk(field(c, "reschedulablePods").Addr().Interface())
		d["candidate.NodePool|"+id] = walk(c.NodePool)
		d["candidate.StateNode|"+id] = walk(c.StateNode)
		d["candidate.scalars|"+id] = fmt.Sprintf("%v %v %.9f %.9f %.9f %p", field(c, "zone").String(), field(c, "capacityType").String(), c.DisruptionCost, c.Price, c.RescheduleDisruptionCost, field(c, "instanceType").Interface())
	}
}

// ---- whole world ----

type snapshot struct {
	d        digest
	logLen   int
	provCall int
	events   int
	cs       time.Time
	counts   stateCounts
	objects  int
	types    int
	offers   int
}

// eventsTotal: number of events published so far (read only while no Karpenter goroutine is running).
func eventsTotal(e *world.Env) int {
	n := 0
	for _, c := range e.Recorder.Counts {
		n += c
	}
	return n
}

func takeSnapshot(w *common.DWorld) *snapshot {
	e := w.Env
	s := &snapshot{d: digest{}}
	s.objects = apiDigest(e, s.d)
	pools := &v1.NodePoolList{}
	_ = e.API.Raw.List(context.Background(), pools)
	var names []string
	var ptrs []*v1.NodePool
	for i := range pools.Items {
		names = append(names, pools.Items[i].Name)
		ptrs = append(ptrs, &pools.Items[i])
	}
	dss := &appsv1.DaemonSetList{}
	_ = e.API.Raw.List(context.Background(), dss)
	var dps []*appsv1.DaemonSet
	for i := range dss.Items {
		dps = append(dps, &dss.Items[i])
	}
	s.counts = stateDigest(e, names, dps, s.d)
	s.types, s.offers = providerDigest(e, ptrs, s.d)
	s.logLen = e.API.LogLen()
	s.provCall = len(e.Provider.CallsCopy())
	s.cs = rawConsolidationState(e)
	return s
}

type change struct {
	Key    string `json:"component_instance"`
	Before string `json:"before"`
	After  string `json:"after"`
}

func clip(s string) string {
	if len(s) > 600 {
		return s[:600] + fmt.Sprintf("…(+%d bytes)", len(s)-600)
	}
	return s
}

// firstDiff trims the common prefix so that witnesses show where two long renderings diverge.
func firstDiff(a, b string) (string, string) {
	i := 0
	for i < len(a) && i < len(b) && a[i] == b[i] {
		i++
	}
	start := i - 80
	if start < 0 {
		start = 0
	}
	return clip(a[start:]), clip(b[start:])
}

func diffDigests(before, after digest) []change {
	var out []change
	for k, v := range before {
		w, ok := after[k]
		if !ok {
			out = append(out, change{Key: k, Before: clip(v), After: "<absent>"})
		} else if w != v {
			a, b := firstDiff(v, w)
			out = append(out, change{Key: k, Before: a, After: b})
		}
	}
	for k, w := range after {
		if _, ok := before[k]; !ok {
			out = append(out, change{Key: k, Before: "<absent>", After: clip(w)})
		}
	}
	sort.Slice(out, func(i, j int) bool { return out[i].Key < out[j].Key })
	return out
}
