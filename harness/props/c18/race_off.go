//go:build !race

package c18

const raceBuild = false
