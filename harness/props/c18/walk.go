package c18

import (
	"encoding/json"
	"fmt"
	"reflect"
	"sort"
	"strings"
	"sync"
	"time"
	"unsafe"

	"k8s.io/apimachinery/pkg/api/resource"
	metav1 "k8s.io/apimachinery/pkg/apis/meta/v1"
	"k8s.io/apimachinery/pkg/runtime"
)

// The reflection digest: a canonical, value-based rendering of an arbitrary Go value INCLUDING unexported fields.
//
// It is strictly read-only. Unexported fields are reached through reflect.NewAt(f.Type(), unsafe.Pointer(f.UnsafeAddr()))
// on addressable values derived from live objects (valid under checkptr: the pointer is derived from an addressable
// reflect.Value and never outlives it). Non-addressable struct values (map elements, interface payloads) are first
// copied into a fresh addressable value. Maps are rendered with sorted keys, slices in order (order is part of the
// digest), pointers are followed (cycles cut), Kubernetes API objects are rendered as JSON, quantities as exact
// decimals, times as UnixNano. Locks, sync.Once and channels are skipped.

var (
	tQuantity   = reflect.TypeOf(resource.Quantity{})
	tTime       = reflect.TypeOf(time.Time{})
	tMetaTime   = reflect.TypeOf(metav1.Time{})
	tMutex      = reflect.TypeOf(sync.Mutex{})
	tRWMutex    = reflect.TypeOf(sync.RWMutex{})
	tOnce       = reflect.TypeOf(sync.Once{})
	tSyncMap    = reflect.TypeOf(sync.Map{})
	tRuntimeObj = reflect.TypeOf((*runtime.Object)(nil)).Elem()
)

type walker struct {
	sb      strings.Builder
	skip    map[string]bool // "TypeName.field" → skipped
	visited map[uintptr]bool
}

// walk renders v (pass a pointer to make the root addressable).
func walk(v any, skip ...string) string {
	w := &walker{skip: map[string]bool{}, visited: map[uintptr]bool{}}
	for _, s := range skip {
		w.skip[s] = true
	}
	w.val(reflect.ValueOf(v), 0)
	return w.sb.String()
}

func quantityString(q resource.Quantity) string {
	c := q.DeepCopy()
	return c.AsDec().String()
}

func addressable(v reflect.Value) reflect.Value {
	if v.CanAddr() {
		return v
	}
	nv := reflect.New(v.Type()).Elem()
	nv.Set(v)
	return nv
}

// clean removes the read-only flag of a value obtained through an unexported field.
func clean(f reflect.Value) reflect.Value {
	if f.CanInterface() {
		return f
	}
	if f.CanAddr() {
		return reflect.NewAt(f.Type(), unsafe.Pointer(f.UnsafeAddr())).Elem()
	}
	return f
}

//nolint:gocyclo
func (w *walker) val(v reflect.Value, depth int) {
	if depth > 40 {
		w.sb.WriteString("<deep>")
		return
	}
	if !v.IsValid() {
		w.sb.WriteString("<invalid>")
		return
	}
	t := v.Type()
	switch t {
	case tQuantity:
		v = clean(v)
		if v.CanInterface() {
			w.sb.WriteString(quantityString(v.Interface().(resource.Quantity)))
			return
		}
	case tTime:
		v = clean(v)
		if v.CanInterface() {
			tm := v.Interface().(time.Time)
			fmt.Fprintf(&w.sb, "t%d", tm.UnixNano())
			if tm.IsZero() {
				w.sb.WriteString("z")
			}
			return
		}
	case tMetaTime:
		v = clean(v)
		if v.CanInterface() {
			tm := v.Interface().(metav1.Time)
			fmt.Fprintf(&w.sb, "t%d", tm.UnixNano())
			if tm.IsZero() {
				w.sb.WriteString("z")
			}
			return
		}
	case tMutex, tRWMutex, tOnce, tSyncMap:
		w.sb.WriteString("-")
		return
	}
	switch v.Kind() {
	case reflect.Bool:
		fmt.Fprintf(&w.sb, "%v", v.Bool())
	case reflect.Int, reflect.Int8, reflect.Int16, reflect.Int32, reflect.Int64:
		fmt.Fprintf(&w.sb, "%d", v.Int())
	case reflect.Uint, reflect.Uint8, reflect.Uint16, reflect.Uint32, reflect.Uint64, reflect.Uintptr:
		fmt.Fprintf(&w.sb, "%d", v.Uint())
	case reflect.Float32, reflect.Float64:
		fmt.Fprintf(&w.sb, "%.12g", v.Float())
	case reflect.Complex64, reflect.Complex128:
		fmt.Fprintf(&w.sb, "%v", v.Complex())
	case reflect.String:
		fmt.Fprintf(&w.sb, "%q", v.String())
	case reflect.Pointer:
		if v.IsNil() {
			w.sb.WriteString("nil")
			return
		}
		// Kubernetes API objects: JSON (complete, canonical, no private state)
		if t.Implements(tRuntimeObj) {
			cv := clean(v)
			if cv.CanInterface() {
				if b, err := json.Marshal(cv.Interface()); err == nil {
					w.sb.WriteString("json:")
					w.sb.Write(b)
					return
				}
			}
		}
		p := v.Pointer()
		if w.visited[p] {
			w.sb.WriteString("<cycle>")
			return
		}
		w.visited[p] = true
		w.sb.WriteString("&")
		w.val(v.Elem(), depth+1)
		delete(w.visited, p)
	case reflect.Interface:
		if v.IsNil() {
			w.sb.WriteString("nil")
			return
		}
		e := v.Elem()
		w.sb.WriteString("(" + e.Type().String() + ")")
		w.val(e, depth+1)
	case reflect.Slice:
		if v.IsNil() {
			w.sb.WriteString("[]") // nil and empty are the same observable value for every consumer here
			return
		}
		fallthrough
	case reflect.Array:
		w.sb.WriteString("[")
		for i := 0; i < v.Len(); i++ {
			if i > 0 {
				w.sb.WriteString(",")
			}
			w.val(v.Index(i), depth+1)
		}
		w.sb.WriteString("]")
	case reflect.Map:
		type kv struct{ k, v string }
		var items []kv
		it := v.MapRange()
		for it.Next() {
			kw := &walker{skip: w.skip, visited: w.visited}
			kw.val(it.Key(), depth+1)
			vw := &walker{skip: w.skip, visited: w.visited}
			vw.val(it.Value(), depth+1)
			items = append(items, kv{kw.sb.String(), vw.sb.String()})
		}
		sort.Slice(items, func(i, j int) bool { return items[i].k < items[j].k })
		w.sb.WriteString("{")
		for i, x := range items {
			if i > 0 {
				w.sb.WriteString(",")
			}
			w.sb.WriteString(x.k + ":" + x.v)
		}
		w.sb.WriteString("}")
	case reflect.Struct:
		v = addressable(v)
		w.sb.WriteString(t.Name() + "{")
		for i := 0; i < t.NumField(); i++ {
			sf := t.Field(i)
			if w.skip[t.Name()+"."+sf.Name] {
				continue
			}
			f := clean(v.Field(i))
			w.sb.WriteString(sf.Name + "=")
			w.val(f, depth+1)
			w.sb.WriteString(";")
		}
		w.sb.WriteString("}")
	case reflect.Func:
		if v.IsNil() {
			w.sb.WriteString("func:nil")
		} else {
			w.sb.WriteString("func")
		}
	default: // chan, unsafe pointer
		w.sb.WriteString("-")
	}
}

// field returns a cleaned (readable) view of a possibly unexported field of the struct ptr points to.
func field(ptr any, name string) reflect.Value {
	v := reflect.ValueOf(ptr).Elem()
	f := v.FieldByName(name)
	if !f.IsValid() {
		panic("c18: no field " + name + " in " + v.Type().String())
	}
	return clean(f)
}

// syncMapDump renders a sync.Map field (the map itself is safe for concurrent use; Range is a read).
func syncMapDump(ptr any, name string) map[string]string {
	f := reflect.ValueOf(ptr).Elem().FieldByName(name)
	if !f.IsValid() {
		panic("c18: no field " + name)
	}
	m := (*sync.Map)(unsafe.Pointer(f.UnsafeAddr()))
	out := map[string]string{}
	m.Range(func(k, v any) bool {
		out[fmt.Sprint(k)] = walk(v)
		return true
	})
	return out
}
