//go:build race

package c18

// raceBuild: in the -race binary every second case runs its simulations concurrently with informer deliveries.
const raceBuild = true
