// Package c18: scheduling simulations have no side effects.
//
// Each case grows a cluster through the real pipeline (common.BuildDisruption), decorates it with everything a
// simulation could trip over (host ports, CSI volumes, topology spread with matchLabelKeys, pod (anti-)affinity,
// PDBs, pending pods incl. invalid ones), and then runs 1..N consecutive simulations of the REAL code:
//
//	SimulateScheduling  – disruption.SimulateScheduling on candidate subsets from disruption.GetCandidates
//	ComputeCommands     – every disruption method's ComputeCommands (real budgets or an all-zero mapping), the command is
//	                      never handed to Queue.StartCommand
//	Schedule            – a provisioning pass Provisioner.Schedule without creating NodeClaims
//
// with live, already expired, asynchronously cancelled and fault-timed-out contexts. Around every simulation the
// whole observable world is digested (digest.go): every API object incl. resourceVersion + the API write log +
// provider Create/Delete calls, the cluster state (per StateNode usage maps, host ports, volumes, deletion marks,
// nominations, the Node/NodeClaim objects it points at; NodePool resources and counts; bindings; consolidation
// timestamp; cached daemonset / anti-affinity pods; pod bookkeeping), and every instance type / offering /
// requirement of the provider incl. slice order. Any difference is a violation whose key names the component,
// except: a provisioning pass may change nominations and pod bookkeeping.
package c18

import (
	"context"
	"fmt"
	"math/rand"
	"reflect"
	"runtime"
	"sort"
	"strings"
	"sync"
	"sync/atomic"
	"time"

	corev1 "k8s.io/api/core/v1"
	"k8s.io/apimachinery/pkg/types"

	v1 "sigs.k8s.io/karpenter/pkg/apis/v1"
	"sigs.k8s.io/karpenter/pkg/cloudprovider"
	"sigs.k8s.io/karpenter/pkg/controllers/disruption"
	pscheduling "sigs.k8s.io/karpenter/pkg/controllers/provisioning/scheduling"
	"sigs.k8s.io/karpenter/pkg/operator/options"

	"verif/mon"
	"verif/props/common"
	"verif/props/reg"
	"verif/world"
)

func sizes(tier string) (cases, maxSims int) {
	if tier == "thorough" {
		return 3000, 20
	}
	return 200, 10
}

func cases(tier string) int { n, _ := sizes(tier); return n }

const (
	ctxLive      = "live"
	ctxExpired   = "expired"      // context.WithTimeout(ctx, 0)
	ctxCancelled = "async-cancel" // cancelled from another goroutine while the simulation runs
	ctxFault     = "api-timeout"  // the k-th API call of the simulation returns context.DeadlineExceeded
)

func methodName(m disruption.Method) string {
	t := reflect.TypeOf(m)
	if t.Kind() == reflect.Pointer {
		t = t.Elem()
	}
	return t.Name()
}

type simDesc struct {
	Ordinal    int      `json:"ordinal"`
	Kind       string   `json:"kind"`
	Method     string   `json:"method,omitempty"`
	Ctx        string   `json:"ctx"`
	Budget     string   `json:"budget,omitempty"`
	Candidates []string `json:"candidates,omitempty"`
	Outcome    string   `json:"outcome"`
	Concurrent bool     `json:"concurrent_informer_deliveries,omitempty"`
	VTime      string   `json:"vtime"`
}

type caseState struct {
	r        *mon.Report
	rng      *rand.Rand
	d        *common.DWorld
	desc     map[string]any
	methods  []disruption.Method
	history  []simDesc
	conc     bool // run simulations concurrently with informer deliveries (race pass)
	sampled  bool
	placedEN bool
}

func (cs *caseState) freshMethods() {
	e := cs.d.Env
	cs.methods = disruption.NewMethods(e.Clock, e.Cluster, e.API.Client, e.Prov, e.Provider, e.Recorder, cs.d.Queue)
}

// simCtx builds the context of one simulation; done() must be called after the simulation returned.
func (cs *caseState) simCtx(mode string) (ctx context.Context, done func()) {
	e := cs.d.Env
	switch mode {
	case ctxExpired:
		c, cancel := context.WithTimeout(e.Ctx, 0)
		return c, cancel
	case ctxCancelled:
		c, cancel := context.WithCancel(e.Ctx)
		delay := time.Duration(cs.rng.Intn(1500)) * time.Microsecond
		var wg sync.WaitGroup
		wg.Add(1)
		go func() { defer wg.Done(); time.Sleep(delay); cancel() }()
		return c, func() { wg.Wait(); cancel() }
	case ctxFault:
		k := 1 + cs.rng.Intn(40)
		f := &world.Fault{AtCall: k, Kind: "timeout"}
		if cs.rng.Intn(3) == 0 {
			// directed: the lookup of a PersistentVolumeClaim times out (pod validation / volume topology / volume usage)
			f = &world.Fault{AtCall: 1 + cs.rng.Intn(3), Kind: "timeout", Match: func(verb, kind, caller string) bool { return kind == "PersistentVolumeClaim" }}
		}
		e.API.SetFaults(f)
		return e.Ctx, func() { e.API.ClearFaults() }
	}
	return e.Ctx, func() {}
}

func (cs *caseState) pickCtxMode() string {
	switch x := cs.rng.Intn(20); {
	case x < 13:
		return ctxLive
	case x < 15:
		return ctxExpired
	case x < 18:
		return ctxCancelled
	default:
		return ctxFault
	}
}

func candNames(cs []*disruption.Candidate) []string {
	var out []string
	for _, c := range cs {
		out = append(out, c.Name())
	}
	sort.Strings(out)
	return out
}

func bucket(n int) string {
	switch {
	case n == 0:
		return "0"
	case n == 1:
		return "1"
	case n <= 3:
		return "2-3"
	}
	return "4+"
}

// ---- the three kinds of simulation ----

type simResult struct {
	outcome     string
	cands       []*disruption.Candidate
	placedOnEN  int // pods the simulation placed on existing nodes
	newClaims   int
	podErrors   int
	commands    int
	err         error
	candsBefore digest
}

func summarize(res pscheduling.Results, sr *simResult) {
	for _, en := range res.ExistingNodes {
		sr.placedOnEN += len(en.Pods)
	}
	sr.newClaims += len(res.NewNodeClaims)
	sr.podErrors += len(res.PodErrors)
}

func (cs *caseState) simulateScheduling(ctx context.Context, sd *simDesc) *simResult {
	e := cs.d.Env
	sr := &simResult{}
	m := cs.methods[cs.rng.Intn(len(cs.methods))]
	sd.Method = methodName(m)
	filter := disruption.CandidateFilter(m.ShouldDisrupt)
	if cs.rng.Intn(3) == 0 {
		// every disruptable node, whatever the method's own filter thinks (candidate sets are universally quantified)
		filter = func(context.Context, *disruption.Candidate) bool { return true }
		sd.Method += "+any"
	}
	cands, err := disruption.GetCandidates(ctx, e.Cluster, e.API.Client, e.Recorder, e.Clock, e.Provider, filter, m.Class(), cs.d.Queue)
	if err != nil {
		sr.err, sr.outcome = err, "get-candidates-error"
		return sr
	}
	sort.Slice(cands, func(i, j int) bool { return cands[i].Name() < cands[j].Name() })
	cs.rng.Shuffle(len(cands), func(i, j int) { cands[i], cands[j] = cands[j], cands[i] })
	k := 0
	if len(cands) > 0 {
		k = 1 + cs.rng.Intn(min(len(cands), 4))
		if cs.rng.Intn(6) == 0 {
			k = len(cands)
		}
	}
	if len(cands) > 0 && cs.rng.Intn(15) == 0 {
		k = 0 // the empty candidate set: only pending pods are simulated
	}
	cands = cands[:k]
	sr.cands = cands
	sd.Candidates = candNames(cands)
	sr.candsBefore = digest{}
	candidateDigest(cands, sr.candsBefore)
	var opts []pscheduling.Options
	if cs.rng.Intn(2) == 0 {
		opts = append(opts, pscheduling.IsConsolidationSimulation)
	}
	reps := 1
	if cs.rng.Intn(4) == 0 {
		reps = 2 + cs.rng.Intn(2) // the same Candidate objects re-used, as the multi-node binary search does
	}
	for i := 0; i < reps; i++ {
		res, err := disruption.SimulateScheduling(ctx, e.API.Client, e.Cluster, e.Prov, e.Clock, e.Recorder, opts, cands...)
		if err != nil {
			sr.err = err
			sr.outcome = "error"
			continue
		}
		summarize(res, sr)
		switch {
		case !res.AllNonPendingPodsScheduled():
			sr.outcome = "rejected:unschedulable-pods"
		case len(res.NewNodeClaims) > 1:
			sr.outcome = "rejected:several-replacements"
		case len(res.NewNodeClaims) == 1:
			sr.outcome = "replace"
		default:
			sr.outcome = "delete"
		}
	}
	return sr
}

func (cs *caseState) computeCommands(ctx context.Context, sd *simDesc) *simResult {
	e := cs.d.Env
	sr := &simResult{}
	m := cs.methods[cs.rng.Intn(len(cs.methods))]
	sd.Method = methodName(m)
	cands, totals, err := disruption.GetCandidatesWithTotals(ctx, e.Cluster, e.API.Client, e.Recorder, e.Clock, e.Provider, m.ShouldDisrupt, m.Class(), cs.d.Queue, e.ClusterCost)
	if err != nil {
		sr.err, sr.outcome = err, "get-candidates-error"
		return sr
	}
	if setter, ok := m.(disruption.NodePoolTotalsSetter); ok {
		setter.SetNodePoolTotals(totals)
	}
	sr.cands = cands
	sd.Candidates = candNames(cands)
	sr.candsBefore = digest{}
	candidateDigest(cands, sr.candsBefore)
	budgets, err := disruption.BuildDisruptionBudgetMapping(ctx, e.Cluster, e.Clock, e.API.Client, e.Provider, e.Recorder, m.Reason())
	if err != nil {
		sr.err, sr.outcome = err, "budget-mapping-error"
		return sr
	}
	sd.Budget = "real"
	if cs.rng.Intn(4) == 0 {
		for k := range budgets {
			budgets[k] = 0
		}
		sd.Budget = "all-zero"
	}
	cmds, err := m.ComputeCommands(ctx, budgets, cands...)
	if err != nil {
		sr.err, sr.outcome = err, "error"
		return sr
	}
	sr.outcome = "no-command"
	for _, c := range cmds {
		if c.Decision() == disruption.NoOpDecision {
			continue
		}
		sr.commands++
		sr.outcome = "command:" + string(c.Decision())
		summarize(c.Results, sr)
	}
	return sr
}

func (cs *caseState) provisioningPass(ctx context.Context, sd *simDesc) *simResult {
	e := cs.d.Env
	sr := &simResult{}
	// the provisioner's pod controller acknowledges pending pods as they arrive
	res, err := e.Prov.Schedule(ctx)
	if err != nil {
		sr.err, sr.outcome = err, "error"
		return sr
	}
	summarize(res, sr)
	sr.outcome = fmt.Sprintf("scheduled:existing=%s,new=%s", bucket(sr.placedOnEN), bucket(sr.newClaims))
	return sr
}

// ---- one simulation inside its digest window ----

// allowedForProvisioning: the statement lets a provisioning pass change node nominations and pod bookkeeping.
func allowedForProvisioning(component string) bool {
	return component == "state.node.nominatedUntil" || strings.HasPrefix(component, "bookkeeping.")
}

//nolint:gocyclo
func (cs *caseState) oneSimulation(ord int) {
	r, e := cs.r, cs.d.Env
	kind := []string{"SimulateScheduling", "SimulateScheduling", "SimulateScheduling", "ComputeCommands", "ComputeCommands", "ComputeCommands", "Schedule"}[cs.rng.Intn(7)]
	mode := cs.pickCtxMode()
	concurrent := cs.conc && mode != ctxFault && cs.rng.Intn(2) == 0
	sd := simDesc{Ordinal: ord, Kind: kind, Ctx: mode, Concurrent: concurrent, VTime: e.Clock.Now().Format(time.RFC3339)}
	// refresh the 5-minute consolidation timestamp now if it is due, so that a refresh inside the window is recognisable
	_ = e.Cluster.ConsolidationState()
	before := takeSnapshot(cs.d)
	evBefore := eventsTotal(e)
	ctx, done := cs.simCtx(mode)
	var sr *simResult
	var wg sync.WaitGroup
	if concurrent {
		wg.Add(1)
		go func() {
			defer wg.Done()
			for i := 0; i < 2; i++ {
				_ = e.SyncState()
			}
		}()
	}
	panicked, pv, stack := mon.Guard(func() {
		switch kind {
		case "SimulateScheduling":
			sr = cs.simulateScheduling(ctx, &sd)
		case "ComputeCommands":
			sr = cs.computeCommands(ctx, &sd)
		default:
			sr = cs.provisioningPass(ctx, &sd)
		}
	})
	done()
	wg.Wait()
	after := takeSnapshot(cs.d)
	caseDesc := func() map[string]any {
		return map[string]any{"case": r.CurCase(), "world": cs.desc, "simulations_so_far": cs.history, "this_simulation": sd}
	}
	simKey := kind
	if kind == "ComputeCommands" {
		simKey = kind + "(" + sd.Method + ")"
	}
	if panicked {
		if _, isCrash := pv.(world.CrashSentinel); !isCrash {
			sd.Outcome = "panic"
			r.Violate("panic-in-"+simKey, fmt.Sprintf("%v", pv), caseDesc(), stack)
		}
		cs.history = append(cs.history, sd)
		return
	}
	sd.Outcome = sr.outcome
	cs.history = append(cs.history, sd)

	// ---- evidence ----
	r.Inc("simulations")
	r.Inc("simulations:" + kind)
	r.Inc("ctx:" + mode)
	if concurrent {
		r.Inc("simulations_concurrent_with_informer_deliveries")
	}
	if sd.Method != "" {
		r.Inc("method:" + kind + ":" + strings.TrimSuffix(sd.Method, "+any"))
	}
	if sd.Budget != "" {
		r.Inc("budget:" + sd.Budget)
	}
	r.Inc("outcome:" + kind + ":" + strings.SplitN(sr.outcome, "=", 2)[0])
	if len(sr.cands) > 0 {
		r.Inc("simulations_with_candidates")
	}
	if sr.placedOnEN > 0 {
		r.Inc("simulations_that_placed_pods_on_existing_nodes")
		cs.placedEN = true
	}
	if sr.newClaims > 0 {
		r.Inc("simulations_that_built_new_nodeclaims")
	}
	if sr.podErrors > 0 {
		r.Inc("simulations_with_pod_errors")
	}
	if sr.commands > 0 {
		r.Inc("compute_commands_returning_a_command")
	}
	if sr.err != nil {
		r.Inc("simulations_returning_error")
		if mode != ctxLive {
			r.Inc("simulations_cut_short")
		}
	}
	if strings.HasPrefix(sr.outcome, "rejected") || sr.outcome == "no-command" {
		r.Inc("simulations_rejected")
	}
	if ord > 0 {
		r.Inc("consecutive_simulations")
	}
	r.Count("events_published_during_simulations", eventsTotal(e)-evBefore)
	r.Count("digest_components_compared", len(before.d))
	r.Count("api_objects_digested", before.objects)
	r.Count("state_nodes_digested", before.counts.nodes)
	r.Count("state_nodes_nominated_at_digest", before.counts.nominated)
	r.Count("state_nodes_marked_for_deletion_at_digest", before.counts.marked)
	r.Count("state_nodes_with_host_port_entries", before.counts.withPorts)
	r.Count("state_nodes_with_volume_entries", before.counts.withVolumes)
	r.Count("bookkeeping_entries_digested", before.counts.bookkeeping)
	r.Count("cached_daemonset_pods_digested", before.counts.dsCached)
	r.Count("cached_anti_affinity_pods_digested", before.counts.antiAffinity)
	r.Count("instance_types_digested", before.types)
	r.Count("offerings_digested", before.offers)
	r.Sig("%s|%s|cands=%s|ctx=%s|%s", kind, strings.TrimSuffix(sd.Method, "+any"), bucket(len(sr.cands)), mode, strings.SplitN(sr.outcome, "=", 2)[0])

	// ---- oracle 1: no mutating API / provider call by Karpenter ----
	for _, ev := range e.API.LogSince(before.logLen) {
		if !ev.IsWrite() {
			continue
		}
		r.Violate(fmt.Sprintf("api-write-during-%s:%s-%s@%s", simKey, ev.Verb, ev.Kind, ev.Caller),
			fmt.Sprintf("%s issued the mutating API call %s %s %s (caller %s, err=%q)", simKey, ev.Verb, ev.Kind, ev.Key, ev.Caller, ev.Err), caseDesc(),
			map[string]any{"verb": ev.Verb, "kind": ev.Kind, "key": ev.Key, "caller": ev.Caller, "stack": ev.Stack, "err": ev.Err})
	}
	for _, pc := range e.Provider.CallsCopy()[before.provCall:] {
		if pc.Verb == "create" || pc.Verb == "delete" {
			r.Violate(fmt.Sprintf("provider-%s-during-%s@%s", pc.Verb, simKey, pc.Caller), fmt.Sprintf("%s called the cloud provider's %s for %s", simKey, pc.Verb, pc.ClaimName), caseDesc(), pc)
		}
	}
	// ---- oracle 2: the digest ----
	changes := diffDigests(before.d, after.d)
	byComp := map[string][]change{}
	for _, ch := range changes {
		c := comp(ch.Key)
		if kind == "Schedule" && allowedForProvisioning(c) {
			r.Inc("allowed_changes_by_provisioning_pass:" + c)
			continue
		}
		if c == "state.clusterState" && concurrent {
			// the NodePool informer marks the cluster unconsolidated on every (re-)delivery: in a concurrent window the
			// timestamp is moved by the harness-driven deliveries, not by the simulation
			r.Inc("concurrent_windows_with_consolidation_state_moved_by_informer_delivery")
			continue
		}
		if c == "state.clusterState" && !after.cs.Before(before.cs.Add(5*time.Minute)) {
			// ConsolidationState()'s own documented 5-minute refresh (a function of time, not of the simulation)
			r.Inc("consolidation_state_time_refreshes")
			continue
		}
		byComp[c] = append(byComp[c], ch)
	}
	// pod bookkeeping touched by a non-provisioning simulation: refine the key by root cause (classification only, the
	// verdict is the digest difference). If every touched entry belongs to a pending pod that the provisioner's own
	// validation rejects (or whose validation lookups hit the injected API timeout), the writer is
	// Provisioner.GetPendingPods -> Cluster.MarkPodSchedulingDecisions, called on behalf of the simulation.
	var bk []change
	var bkComps []string
	for c, chs := range byComp {
		if strings.HasPrefix(c, "bookkeeping.") {
			bk = append(bk, chs...)
			bkComps = append(bkComps, c)
		}
	}
	if len(bk) > 0 && cs.allRejectedPending(bk, mode == ctxFault) {
		sort.Strings(bkComps)
		key := "simulation-marks-scheduling-decision-for-pending-pod-rejected-by-validation"
		for _, ch := range bk {
			if ch.Before != "<absent>" {
				// not just a new stamp: entries written earlier by a provisioning pass were erased / overwritten
				key = "simulation-erases-provisioner-bookkeeping-of-pending-pod-whose-validation-failed"
			}
		}
		r.Violate(key,
			fmt.Sprintf("%s changed %s of a pending pod whose provisioner validation fails (Provisioner.Validate rejects it, or its PVC lookup hit the injected API timeout; ctx=%s, outcome=%s)", simKey, strings.Join(bkComps, ", "), mode, sr.outcome), caseDesc(),
			map[string]any{"changes": bk[:min(len(bk), 6)], "simulation_error": fmt.Sprint(sr.err)})
		for _, c := range bkComps {
			delete(byComp, c)
		}
	}
	for c, chs := range byComp {
		if sd.Method == "StaticDrift" && kind == "ComputeCommands" && (c == "state.NodePoolState" || c == "state.NodePoolState.GetNodeCount()") {
			// StaticDrift.ComputeCommands runs no scheduling simulation; it reserves node count for its replacements
			// by design (released by the queue). Outside the statement's antecedent: counted, not judged.
			r.Inc("diagnostic_staticdrift_reservation_in_compute_commands")
			continue
		}
		key := c + "-changed-by-" + simKey
		if strings.HasPrefix(c, "bookkeeping.") {
			key = "pod-" + key
		}
		r.Violate(key, fmt.Sprintf("%s changed %s (%d instance(s); ctx=%s, outcome=%s)", simKey, c, len(chs), mode, sr.outcome), caseDesc(),
			map[string]any{"changes": chs[:min(len(chs), 6)], "simulation_error": fmt.Sprint(sr.err)})
	}
	// ---- diagnostic: caller-owned inputs (Candidate objects re-used across simulations) ----
	if sr.candsBefore != nil {
		ca := digest{}
		candidateDigest(sr.cands, ca)
		seen := map[string]bool{}
		for _, ch := range diffDigests(sr.candsBefore, ca) {
			c := comp(ch.Key)
			r.Inc("diagnostic_caller_owned_input_mutated:" + c)
			if c == "candidate.reschedulablePods" {
				b, a := sr.candsBefore[ch.Key], ca[ch.Key]
				class := "other_mutation"
				switch {
				case strings.Count(a, `{"key":"pod-template-hash","operator":"In"`) > strings.Count(b, `{"key":"pod-template-hash","operator":"In"`):
					class = "labelSelector_grew_by_matchLabelKeys_expression"
				case strings.Count(a, `"topologySpreadConstraints"`) > strings.Count(b, `"topologySpreadConstraints"`):
					class = "got_default_topology_spread_constraints_injected"
				}
				if class == "other_mutation" && sameBytes(a, b) {
					class = "slices_reordered_in_place(preferred_affinity_terms_sorted_by_weight)"
				}
				r.Inc("diagnostic_candidate_pod_" + class)
				if _, ok := r.Extra["diagnostic_sample_candidate_pod_"+class]; !ok {
					r.Extra["diagnostic_sample_candidate_pod_"+class] = map[string]any{"simulation": sd, "change": ch}
				}
			}
			if !seen[c] {
				seen[c] = true
				if _, ok := r.Extra["diagnostic_sample_"+c]; !ok && c != "candidate.reschedulablePods" {
					r.Extra["diagnostic_sample_"+c] = map[string]any{"simulation": sd, "change": ch}
				}
			}
		}
	}
	if !cs.sampled && r.WantSample() && len(sr.cands) > 0 && sr.placedOnEN > 0 {
		cs.sampled = true
		r.Sample(map[string]any{"case": r.CurCase(), "world": cs.desc, "simulation": sd, "pods_placed_on_existing_nodes": sr.placedOnEN, "new_nodeclaims": sr.newClaims,
			"digest_components": len(before.d), "api_objects": before.objects, "state_nodes": before.counts.nodes, "instance_types": before.types, "offerings": before.offers,
			"verdict": "digest identical before/after, no mutating call"})
	}
}

// sameBytes: b is a permutation of a (an in-place re-ordering changes no content).
func sameBytes(a, b string) bool {
	if len(a) != len(b) {
		return false
	}
	var n [256]int
	for i := 0; i < len(a); i++ {
		n[a[i]]++
		n[b[i]]--
	}
	for _, x := range n {
		if x != 0 {
			return false
		}
	}
	return true
}

// shuffleCatalog permutes, in place, one catalog slice of the provider and the offerings of one of its types.
func (cs *caseState) shuffleCatalog() {
	p := cs.d.Env.Provider
	slices := [][]*cloudprovider.InstanceType{p.Default}
	for _, name := range common.SortedKeys(p.Catalog) {
		slices = append(slices, p.Catalog[name])
	}
	its := slices[cs.rng.Intn(len(slices))]
	cs.rng.Shuffle(len(its), func(i, j int) { its[i], its[j] = its[j], its[i] })
	if len(its) > 0 {
		ofs := its[cs.rng.Intn(len(its))].Offerings
		cs.rng.Shuffle(len(ofs), func(i, j int) { ofs[i], ofs[j] = ofs[j], ofs[i] })
	}
	cs.r.Inc("provider_catalog_reorderings_between_simulations")
}

// allRejectedPending: every changed entry is keyed by a pending (unbound) pod that Provisioner.Validate rejects (the
// only bookkeeping writer outside Schedule that is keyed by such pods is GetPendingPods -> MarkPodSchedulingDecisions).
func (cs *caseState) allRejectedPending(chs []change, apiFault bool) bool {
	e := cs.d.Env
	for _, ch := range chs {
		i := strings.IndexByte(ch.Key, '|')
		ns, name, ok := strings.Cut(ch.Key[i+1:], "/")
		if !ok {
			return false
		}
		p := &corev1.Pod{}
		if e.API.Raw.Get(context.Background(), types.NamespacedName{Namespace: ns, Name: name}, p) != nil || p.Spec.NodeName != "" {
			return false
		}
		// (with an injected API timeout the validation's own PVC / StorageClass lookup may have been the failing call)
		if !apiFault && e.Prov.Validate(e.Ctx, p) == nil {
			return false
		}
	}
	return true
}

func run(r *mon.Report, tier string, idx int, rng *rand.Rand) {
	_, maxSims := sizes(tier)
	r.Assume("the fake API client deep-copies on every read, so an in-place mutation of informer-cache objects that Karpenter obtains with client.UnsafeDisableDeepCopy (Cluster.Synced, UpdateDaemonSet, default-topology-spread Service/ReplicaSet lookups) cannot be observed here; stored API objects are compared through fresh reads")
	r.Assume("InstanceType's lazily filled unexported cache (sync.Once + allocatableOfferings) is derived data, not part of 'instance types and offerings are unmodified': the provider digest covers every exported field, the overlay flags, pointer identity and slice order of instance types and offerings, but not that cache")
	r.Assume("events handed to the events.Recorder and Prometheus metrics are outputs of the decision procedure, not world state: counted (events_published_during_simulations), not judged")
	r.Assume("Cluster.ConsolidationState() moves its timestamp by itself once it is 5 minutes old; a change of >= 5 minutes across a window is attributed to that documented refresh (the harness triggers a due refresh before every window), anything smaller is judged")
	r.Assume("StaticDrift.ComputeCommands performs no scheduling simulation and reserves node count by design; with the generated (dynamic) NodePools it never has candidates")
	r.Assume("the Candidate objects (and their pods) handed to a simulation belong to the caller and are not part of the statement; mutations of them are reported as diagnostics only")
	cfg := common.DefaultDCfg()
	opts, optDesc := common.RandomOptions(rng)
	s2s := rng.Intn(3) == 0
	opts.FeatureGates.SpotToSpotConsolidation = &s2s
	optDesc["spotToSpot"] = s2s
	if rng.Intn(4) == 0 {
		opts.SchedulerConfig = &options.SchedulerConfiguration{PodTopologySpread: &options.PodTopologySpreadConfig{DefaultConstraints: []corev1.TopologySpreadConstraint{
			{MaxSkew: 1, TopologyKey: corev1.LabelTopologyZone, WhenUnsatisfiable: corev1.ScheduleAnyway},
			{MaxSkew: 2, TopologyKey: corev1.LabelHostname, WhenUnsatisfiable: corev1.ScheduleAnyway}}}}
		optDesc["defaultTopologySpread"] = true
	}
	cfg.Scenario.Options = opts
	cfg.Scenario.Catalog.Reserved = rng.Intn(2) == 0
	cfg.Scenario.PerPoolCatalog = rng.Intn(2) == 0
	cfg.Scenario.MaxDaemons = 2
	if s2s && rng.Intn(2) == 0 {
		cfg.Scenario.Catalog.MinTypes, cfg.Scenario.Catalog.MaxTypes = 16, 24
	}
	cfg.Scenario.Pool.PMinValues = []float64{0, 0, 0.3}[rng.Intn(3)]
	cfg.Rounds = 2 + rng.Intn(3)
	cfg.PodsPerRound = 3 + rng.Intn(5)
	cfg.PDeletePod = []float64{0.3, 0.5, 0.7}[rng.Intn(3)]
	cfg.PDrift = []float64{0, 0.3, 0.5}[rng.Intn(3)]
	cfg.PNotReady = []float64{0, 0, 0.1}[rng.Intn(3)]
	cfg.PUninitialized = 0.3
	cfg.ConsolidateAfter = []string{"0s", "0s", "0s", "30s", "Never"}
	cfg.SmallPods = rng.Intn(2) == 0
	cfg.OnePodPerNode = rng.Intn(5) == 0
	if rng.Intn(3) == 0 {
		cfg.Budgets = func(rng *rand.Rand) []v1.Budget {
			return []v1.Budget{{Nodes: []string{"1", "2", "50%", "100%", "0"}[rng.Intn(5)]}}
		}
	}
	d := common.BuildDisruption(rng, cfg)
	e := d.Env
	e.Provider.Policy = "random"
	r.Eval()
	extra := decorate(rng, d)
	d.RefreshConditions()
	_ = e.SyncState()
	cs := &caseState{r: r, rng: rng, d: d, conc: raceBuild && idx%2 == 0}
	cs.desc = map[string]any{"options": optDesc, "pools": d.Desc["pools"], "nodes": d.NodeInfo, "catalogs": d.Specs, "decoration": extra, "reserved_offerings": cfg.Scenario.Catalog.Reserved}
	cs.freshMethods()
	// the provider's catalog must still be exactly what the generator produced: world building consisted of real
	// provisioning passes (Provisioner.Schedule + Create), launches and lifecycle reconciles
	r.Inc("pristine_catalog_checks_after_world_building")
	for c, what := range pristineCheck(d) {
		r.Violate(c+"-changed-during-world-building(provisioning-passes)", "after growing the cluster through real provisioning passes the provider's catalog differs from the generated one: "+what, cs.desc, what)
	}
	nSims := 1 + rng.Intn(maxSims)
	for i := 0; i < nSims; i++ {
		cs.oneSimulation(i)
		// between simulations the world may legitimately move on
		switch x := rng.Intn(20); {
		case x < 2:
			cs.freshMethods() // forget the consolidation memo
			e.Cluster.MarkUnconsolidated()
		case x == 2:
			e.Clock.Step(time.Duration(5+rng.Intn(400)) * time.Second)
			d.RefreshConditions()
			_ = e.SyncState()
		case x == 3:
			addPending(rng, d)
			_ = e.SyncState()
		case x == 5 || x == 6:
			// the provider re-orders its own catalog (its slices are its own): later in-place sorts by a simulation
			// become visible inside a window even if an earlier pass had already sorted them
			cs.shuffleCatalog()
		case x == 4:
			// one real disruption reconcile: commands may start (taints, deletion marks, replacement NodeClaims)
			if _, _, panicked, _, _ := d.Round(); !panicked {
				r.Inc("real_disruption_rounds_between_simulations")
			}
			_ = e.SyncState()
		}
	}
	if cs.placedEN {
		r.Inc("cases_with_a_simulation_that_would_corrupt_shallow_copies")
	}
	if idx%3 == 0 {
		cs.passAgainstDeletionMarks()
	}
}

// passAgainstDeletionMarks: provisioning passes (their last step records nominations on the nodes they used) run while
// another goroutine - the orchestration queue in the real system - sets and clears deletion marks on the same nodes. A pass
// may change nominations and pod bookkeeping, nothing else: a mark the marker has just set must still be there when it looks
// again (nobody else clears marks here).
func (cs *caseState) passAgainstDeletionMarks() {
	e := cs.d.Env
	var ids []string
	for n := range e.Cluster.Nodes() {
		if n.Initialized() && !n.MarkedForDeletion() && n.ProviderID() != "" {
			ids = append(ids, n.ProviderID())
		}
	}
	sort.Strings(ids)
	if len(ids) == 0 {
		return
	}
	marked := func(id string) bool {
		res := false
		for n := range e.Cluster.Nodes() {
			if n.ProviderID() == id {
				res = n.MarkedForDeletion()
			}
		}
		return res
	}
	// pending pods so that the passes have something to place (and nominate nodes for)
	for i := 0; i < 3; i++ {
		addPending(cs.rng, cs.d)
	}
	_ = e.SyncState()
	var stop atomic.Bool
	var lost atomic.Value
	var toggles int64
	done := make(chan struct{})
	go func() {
		defer close(done)
		for i := 0; !stop.Load(); i++ {
			id := ids[i%len(ids)]
			e.Cluster.MarkForDeletion(id)
			runtime.Gosched()
			if !marked(id) && lost.Load() == nil {
				lost.Store(id)
			}
			e.Cluster.UnmarkForDeletion(id)
			atomic.AddInt64(&toggles, 1)
		}
	}()
	passes, nominated := 0, 0
	for i := 0; i < 6; i++ {
		res, err := e.Prov.Schedule(e.Ctx)
		if err != nil {
			break
		}
		passes++
		for _, en := range res.ExistingNodes {
			if len(en.Pods) > 0 {
				nominated++
			}
		}
	}
	stop.Store(true)
	<-done
	cs.r.Count("provisioning_passes_against_concurrent_deletion_marks", passes)
	cs.r.Count("nodes_nominated_while_marks_were_toggled", nominated)
	cs.r.Count("deletion_mark_toggles_during_passes", int(atomic.LoadInt64(&toggles)))
	if v := lost.Load(); v != nil {
		cs.r.Violate("provisioning-pass-drops-a-deletion-mark-set-concurrently", fmt.Sprintf("node %s was marked for deletion while provisioning passes were recording nominations; when the marker looked again the mark was gone (only the marker clears marks here)", v.(string)), cs.desc, nil)
	}
	for _, id := range ids {
		e.Cluster.UnmarkForDeletion(id)
	}
}

func init() {
	reg.Register(&reg.Prop{
		ID: "C18", Level: "exploration",
		Rule:  "each case = cluster grown through the real pipeline (2-4 provisioning rounds, random launch choices, 30-70% of the workload removed, drifted / NotReady / uninitialised nodes, 1-3 pools with shared or per-pool catalogs incl. reserved offerings, minValues, budgets) decorated with bound pods carrying host ports, CSI volumes with CSINode limits, topology spread with matchLabelKeys, required/preferred pod (anti-)affinity, PDBs, do-not-disrupt, a Service + ReplicaSet (default topology spread), and pending pods (valid, missing PVC, refusing Karpenter nodes, unbound WaitForFirstConsumer PVC); then 1-10 (quick) / 1-20 (thorough) consecutive simulations drawn from {disruption.SimulateScheduling on candidate subsets of GetCandidates (method filter or any disruptable node, same Candidate objects re-used 1-3 times), every Method's ComputeCommands with real or all-zero budget mapping and no StartCommand, Provisioner.Schedule without creating NodeClaims} under {live, already expired, asynchronously cancelled, k-th API call times out} contexts, with occasional legitimate world changes in between (clock step, new pending pod, forgotten consolidation memo, one real disruption reconcile that starts commands). Around every simulation the complete digest (API objects + write log + provider calls, cluster state incl. unexported per-node maps, provider instance types/offerings incl. slice order) is compared. Non-trivial = a simulation executed inside a digest window; distinct by (kind, method, #candidates bucket, context mode, outcome). In the -race binary every second case runs its simulations concurrently with informer re-deliveries (SyncState in another goroutine).",
		Cases: cases, Run: run,
		Race: true, RaceIsViolation: false,
		MinObserved: map[string]int{
			"simulations":                                    300,
			"simulations:SimulateScheduling":                 100,
			"simulations:ComputeCommands":                    100,
			"simulations:Schedule":                           30,
			"simulations_with_candidates":                    100,
			"simulations_that_placed_pods_on_existing_nodes": 40,
			"simulations_that_built_new_nodeclaims":          20,
			"simulations_rejected":                           40,
			"simulations_cut_short":                          20,
			"compute_commands_returning_a_command":           10,
			"consecutive_simulations":                        200,
			"state_nodes_with_host_port_entries":             100,
			"state_nodes_with_volume_entries":                20,
			"offerings_digested":                             1000,
		},
	})
}
